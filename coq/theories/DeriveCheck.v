(* DeriveCheck.v — boolean comparison of object views for the generated cases files.  Executable only. *)
From HG Require Import Base Rename CheckLib Derive.

Definition hist_eqb (a b : history) : bool := list_eqb (odict_eqb Pos.eqb) a b.

Definition gview_eqb (a b : gview) : bool :=
  list_eqb Nat.eqb (gv_nodes a) (gv_nodes b) && dictV_eqb (gv_bound a) (gv_bound b) &&
  onames_eqb (gv_sel a) (gv_sel b) && onames_eqb (gv_eps a) (gv_eps b).

Definition nview_eqb (a b : nview) : bool :=
  Pos.eqb (nv_name a) (nv_name b) && names_eqb (nv_inputs a) (nv_inputs b) && names_eqb (nv_outputs a) (nv_outputs b) &&
  hist_eqb (fst (nv_hist a)) (fst (nv_hist b)) && hist_eqb (snd (nv_hist a)) (snd (nv_hist b)) &&
  dictV_eqb (nv_defaults a) (nv_defaults b) && opt_eqb Nat.eqb (nv_graph a) (nv_graph b) && onames_eqb (nv_map a) (nv_map b).

Definition all_gviews (h : heap) : list gview := map (obs_graph h) (h_graphs h).
Definition all_nviews (h : heap) : list nview := map (obs_node h) (h_nodes h).

(* the result of every operation of a history: Some (Some l) new object, Some None cache fill, None raised *)
Fixpoint run_results (h : heap) (ops : list op) : list (option (option loc)) :=
  match ops with
  | [] => []
  | o :: rest => match step h o with
                 | Some (h', r) => Some r :: run_results h' rest
                 | None => None :: run_results h rest
                 end
  end.

Definition res_eqb (a b : option (option loc)) : bool := opt_eqb (opt_eqb Nat.eqb) a b.
