(* InterruptRunModel.v — the executors of the engine model (Nested.exec_ng: Exec.exec_basic for function nodes,
   Nested.exec_interrupt for the interrupt) satisfy the hypotheses of InterruptRun.v: the three run-level theorems hold of the
   model program the correspondence harness compares with the implementation. *)
From HG Require Import Base Rename Engine Exec Nested NestedProofs EngineProofs InterruptProofs Samples InterruptRun GateRun.
From stdpp Require Import gmap.
Local Open Scope positive_scope.

Definition chain_ft (handler : fexp) : dict fexp := [(1, FSym 10); (2, FSym 11); (5, handler)].
Definition chain_exec (handler : fexp) : node -> state -> dict val -> outcome := exec_ng 0 Async (chain_ft handler) [] [].

Definition sym_a (x : Z) : val := VTup [VStr 10; VInt x].
Definition sym_b (a d : val) : val := VTup [VStr 11; a; d].

Lemma chain_exec_A h st x : chain_exec h nodeA st [(1, VInt x)] = OOk [(31, sym_a x)] None.
Proof. reflexivity. Qed.

Lemma chain_exec_B h st a d : chain_exec h nodeB st [(31, a); (32, d)] = OOk [(33, sym_b a d)] None.
Proof. reflexivity. Qed.

Lemma chain_exec_pause st a : vals st !! 32 = None ->
  chain_exec (FConst VNone) nodeI st [(31, a)] = OPause (mk_pause [15] 32 a).
Proof.
  intros H. unfold chain_exec. cbn [exec_ng n_kind nodeI].
  exact (interrupt_pause (chain_ft (FConst VNone)) nodeI st [(31, a)] (FConst VNone) 32 [] H eq_refl eq_refl eq_refl).
Qed.

Lemma chain_exec_resume h st a v : vals st !! 32 = Some v -> execs st !! 15 = None ->
  chain_exec h nodeI st [(31, a)] = OOk [(32, v)] None.
Proof.
  intros Hv He. unfold chain_exec. cbn [exec_ng n_kind nodeI].
  rewrite (interrupt_resume (chain_ft h) nodeI st [(31, a)]); [|cbn; rewrite Hv; reflexivity | exact He].
  cbn. rewrite Hv. reflexivity.
Qed.

Lemma chain_exec_answer d st a : d <> VNone -> vals st !! 32 = None ->
  chain_exec (FConst d) nodeI st [(31, a)] = OOk [(32, d)] None.
Proof.
  intros Hd H. unfold chain_exec. cbn [exec_ng n_kind nodeI].
  exact (interrupt_auto (chain_ft (FConst d)) nodeI st [(31, a)] (FConst d) 32 [] d H eq_refl eq_refl eq_refl Hd).
Qed.

(* C14_model_run: pause, resume, and the equality with the run whose handler answers *)
Theorem chain_model x d fuel : d <> VNone ->
  (exists s, execute (chain_exec (FConst VNone)) Async (S (S fuel)) chain [(1, VInt x)] =
             (RPaused (mk_pause [15] 32 (sym_a x)) s, [[(10, [(1, VInt x)])]; [(15, [(31, sym_a x)])]]) /\
             vals s !! 31 = Some (sym_a x) /\ vals s !! 32 = None /\ vals s !! 33 = None) /\
  (exists s s', execute (chain_exec (FConst VNone)) Async (S (S (S fuel))) chain [(1, VInt x); (32, d)] =
                  (RDone s, [[(10, [(1, VInt x)])]; [(15, [(31, sym_a x)])]; [(11, [(31, sym_a x); (32, d)])]]) /\
                execute (chain_exec (FConst d)) Async (S (S (S fuel))) chain [(1, VInt x)] =
                  (RDone s', [[(10, [(1, VInt x)])]; [(15, [(31, sym_a x)])]; [(11, [(31, sym_a x); (32, d)])]]) /\
                (forall o, In o [31; 32; 33] -> vals s !! o = vals s' !! o) /\
                vals s !! 33 = Some (sym_b (sym_a x) d)).
Proof.
  intros Hd. split.
  - apply (chain_pauses sym_a (chain_exec (FConst VNone)) (chain_exec_A _)). intros st a H. apply chain_exec_pause. exact H.
  - destruct (chain_resumes sym_a sym_b (chain_exec (FConst VNone)) (chain_exec_A _) (chain_exec_B _) x d fuel) as (s & Hs & V31 & V32 & V33).
    { intros st a v Hv He. apply chain_exec_resume; assumption. }
    destruct (chain_answered sym_a sym_b (chain_exec (FConst d)) (chain_exec_A _) (chain_exec_B _) x d fuel) as (s' & Hs' & W31 & W32 & W33).
    { intros st a H. apply chain_exec_answer; assumption. }
    exists s, s'. split; [exact Hs|]. split; [exact Hs'|]. split; [|exact V33].
    intros o [<-|[<-|[<-|[]]]]; congruence.
Qed.

(* what the harness observes of the chain's model runs: status, the FUNCTION nodes called in order (the implementation's log
   holds an interrupt only when its handler is consulted), which of a, d, b are among the values *)
Definition chain_obs (handler : fexp) (fuel : nat) (pv : dict val) : nat * list name * list bool :=
  let res := execute (chain_exec handler) Async fuel chain pv in
  let st := match fst res with RDone s => s | RFailed _ s => s | RPaused _ s => s end in
  (match fst res with RDone _ => 0%nat | RFailed _ _ => 1%nat | RPaused _ _ => 2%nat end,
   List.filter (fun n => negb (Pos.eqb n 15)) (map fst (concat (snd res))),
   map (fun o => match vals st !! o with Some _ => true | None => false end) [31; 32; 33]).

Fixpoint bools_eqb (p q : list bool) : bool :=
  match p, q with [], [] => true | a1 :: p', a2 :: q' => Bool.eqb a1 a2 && bools_eqb p' q' | _, _ => false end.

Definition chain_obs_eqb (a b : nat * list name * list bool) : bool :=
  let '(s1, l1, v1) := a in let '(s2, l2, v2) := b in
  Nat.eqb s1 s2 && GateRun.names_eqb l1 l2 && bools_eqb v1 v2.
