(* NodeOrder.v — C02: when output names are unique, the order in which the nodes are listed in Graph([...]) does not
   matter for a run that does not fail: the two runs go through the same states, make the same calls in every
   superstep (as multisets) and end in the same state.

   Route: (1) everything the scheduler derives from the node list (controlling gates, staleness, activation, stale-decision
   clearing, the ready list) is invariant or equivariant under permutation; (2) a non-failing superstep over a permuted
   ready list yields the same state, because the effects of two nodes with distinct names and disjoint outputs commute;
   (3) induction over the run loop. *)
From HG Require Import Base Engine EngineProofs.
From stdpp Require Import gmap.
From Coq Require Import Permutation.

(* ------------------------------------------------------------------ generic list facts *)

Lemma existsb_perm {A} (f : A -> bool) l1 l2 : Permutation l1 l2 -> existsb f l1 = existsb f l2.
Proof.
  induction 1 as [|a l1 l2 _ IH|a b l|l1 l2 l3 _ IH1 _ IH2]; simpl.
  - reflexivity.
  - rewrite IH. reflexivity.
  - destruct (f a), (f b); reflexivity.
  - congruence.
Qed.

Lemma filter_perm {A} (f : A -> bool) l1 l2 : Permutation l1 l2 -> Permutation (List.filter f l1) (List.filter f l2).
Proof.
  induction 1 as [|a l1 l2 _ IH|a b l|l1 l2 l3 _ IH1 _ IH2]; simpl.
  - constructor.
  - destruct (f a); [constructor|]; exact IH.
  - destruct (f a), (f b); try reflexivity. apply perm_swap.
  - etransitivity; eauto.
Qed.

Lemma filter_ext_in' {A} (f h : A -> bool) l : (forall x, In x l -> f x = h x) -> List.filter f l = List.filter h l.
Proof.
  induction l as [|a l IH]; intros H; simpl; [reflexivity|].
  rewrite (H a (or_introl eq_refl)), IH; [reflexivity|]. intros x Hx. apply H. right. exact Hx.
Qed.

Lemma flat_map_perm {A B} (f : A -> list B) l1 l2 : Permutation l1 l2 -> Permutation (flat_map f l1) (flat_map f l2).
Proof.
  induction 1 as [|a l1 l2 _ IH|a b l|l1 l2 l3 _ IH1 _ IH2]; simpl.
  - constructor.
  - apply Permutation_app_head. exact IH.
  - rewrite !app_assoc. apply Permutation_app_tail. apply Permutation_app_comm.
  - etransitivity; eauto.
Qed.

Lemma existsb_ext_in'' {A} (f h : A -> bool) l : (forall x, In x l -> f x = h x) -> existsb f l = existsb h l.
Proof.
  induction l as [|a l IH]; intros H; simpl; [reflexivity|].
  rewrite (H a (or_introl eq_refl)), IH; [reflexivity|]. intros x Hx. apply H. right. exact Hx.
Qed.

Lemma pos_in_perm x l1 l2 : Permutation l1 l2 -> pos_in x l1 = pos_in x l2.
Proof. intros H. unfold pos_in. apply existsb_perm. exact H. Qed.

Lemma perm_nil_eq {A} (l : list A) : Permutation [] l -> l = [].
Proof. apply Permutation_nil. Qed.

(* ------------------------------------------------------------------ two listings of one graph *)

Section NodeOrder.
  Variables g1 g2 : graph.
  Hypothesis Hperm : Permutation (g_nodes g1) (g_nodes g2).
  Hypothesis Hbound : g_bound g1 = g_bound g2.
  Hypothesis Hactive : g_active g1 = g_active g2.
  Hypothesis Hnames : List.NoDup (map n_name (g_nodes g1)).

  Lemma names_perm : Permutation (node_names g1) (node_names g2).
  Proof. unfold node_names. apply Permutation_map. exact Hperm. Qed.

  Lemma Hnames2 : List.NoDup (map n_name (g_nodes g2)).
  Proof. eapply Permutation_NoDup; [apply Permutation_map; exact Hperm | exact Hnames]. Qed.

  Lemma find_node_perm x : find_node g1 x = find_node g2 x.
  Proof. unfold find_node. apply find_name_perm; assumption. Qed.

  Lemma controlled_by_perm t : Permutation (controlled_by g1 t) (controlled_by g2 t).
  Proof.
    unfold controlled_by. rewrite (pos_in_perm t _ _ names_perm).
    destruct (pos_in t (node_names g2)); [|constructor].
    apply Permutation_map. apply filter_perm. exact Hperm.
  Qed.

  Lemma gated_perm n : gated g1 n = gated g2 n.
  Proof.
    unfold gated. pose proof (controlled_by_perm (n_name n)) as Hp.
    destruct (controlled_by g1 (n_name n)) as [|a l]; destruct (controlled_by g2 (n_name n)) as [|b l']; try reflexivity.
    - apply Permutation_nil in Hp. discriminate.
    - apply Permutation_sym, Permutation_nil in Hp. discriminate.
  Qed.

  Lemma is_stale_perm st n r : is_stale g1 st n r = is_stale g2 st n r.
  Proof. unfold is_stale. rewrite gated_perm. reflexivity. Qed.

  Lemma needs_execution_perm st n : needs_execution g1 st n = needs_execution g2 st n.
  Proof. unfold needs_execution. destruct (execs st !! n_name n); [apply is_stale_perm | reflexivity]. Qed.

  Lemma gate_opens_perm st G t : gate_opens g1 st G t = gate_opens g2 st G t.
  Proof. unfold gate_opens. rewrite find_node_perm. reflexivity. Qed.

  Lemma activated_perm st t : activated g1 st t = activated g2 st t.
  Proof.
    unfold activated. pose proof (controlled_by_perm t) as Hp.
    destruct (controlled_by g1 t) as [|a l] eqn:E1; destruct (controlled_by g2 t) as [|b l'] eqn:E2.
    - reflexivity.
    - apply Permutation_nil in Hp. discriminate.
    - apply Permutation_sym, Permutation_nil in Hp. discriminate.
    - rewrite (existsb_perm _ _ _ Hp). apply existsb_ext_in''. intros G _. apply gate_opens_perm.
  Qed.

  (* ---------- clearing stale gate decisions ---------- *)

  Definition cs_step (g : graph) (s : state) (n : node) : state :=
    if is_gate n then
      match decs s !! n_name n with
      | Some DEnd => s
      | Some _ => if needs_execution g s n then set_dec s (n_name n) None else s
      | None => s
      end
    else s.

  Definition cs_entry (g : graph) (st0 : state) (n : node) (d : option decision) : option decision :=
    if is_gate n then
      match d with
      | Some DEnd => Some DEnd
      | Some d' => if needs_execution g st0 n then None else Some d'
      | None => None
      end
    else d.

  Lemma cs_step_same g s n : same_data s (cs_step g s n) /\ execs (cs_step g s n) = execs s.
  Proof.
    unfold cs_step. destruct (is_gate n); [|repeat split].
    destruct (decs s !! n_name n) as [[| |]|]; try (repeat split; fail);
      destruct (needs_execution g s n); repeat split.
  Qed.

  Lemma cs_fold_lookup g st0 l : forall s x,
    List.NoDup (map n_name l) -> same_data st0 s -> execs s = execs st0 ->
    decs (fold_left (cs_step g) l s) !! x =
    match List.find (fun n => Pos.eqb (n_name n) x) l with
    | Some n => cs_entry g st0 n (decs s !! x)
    | None => decs s !! x
    end.
  Proof.
    induction l as [|n l IH]; intros s x Hnd Hsd Hex; simpl; [reflexivity|].
    inversion Hnd as [|? ? Hn Hnd']; subst.
    destruct (cs_step_same g s n) as [Hsd1 Hex1].
    assert (Hsd' : same_data st0 (cs_step g s n)) by (destruct Hsd, Hsd1; split; congruence).
    assert (Hex' : execs (cs_step g s n) = execs st0) by congruence.
    rewrite (IH (cs_step g s n) x Hnd' Hsd' Hex').
    assert (Hne : needs_execution g s n = needs_execution g st0 n).
    { symmetry. apply needs_execution_same; [exact Hsd | congruence]. }
    destruct (Pos.eqb (n_name n) x) eqn:Ex.
    - apply Pos.eqb_eq in Ex. subst x.
      assert (Hf : List.find (fun m => Pos.eqb (n_name m) (n_name n)) l = None).
      { destruct (List.find _ l) as [m|] eqn:Ef; [|reflexivity].
        apply find_some in Ef as [Hin E]. apply Pos.eqb_eq in E. exfalso. apply Hn. rewrite <- E. apply in_map; exact Hin. }
      rewrite Hf. unfold cs_step, cs_entry. destruct (is_gate n); [|reflexivity].
      rewrite Hne.
      destruct (decs s !! n_name n) as [[|t|ts]|] eqn:Ed; rewrite ?Ed; try reflexivity;
        destruct (needs_execution g st0 n); simpl; rewrite ?Ed; try reflexivity; apply lookup_delete.
    - assert (Hx : n_name n <> x) by (intros <-; rewrite Pos.eqb_refl in Ex; discriminate).
      assert (Hd : decs (cs_step g s n) !! x = decs s !! x).
      { unfold cs_step. destruct (is_gate n); [|reflexivity].
        destruct (decs s !! n_name n) as [[| |]|]; try reflexivity;
          destruct (needs_execution g s n); try reflexivity; simpl; apply lookup_delete_ne; exact Hx. }
      rewrite Hd. reflexivity.
  Qed.

  Lemma clear_stale_fold g st : clear_stale g st = fold_left (cs_step g) (g_nodes g) st.
  Proof. reflexivity. Qed.

  Lemma clear_stale_perm st : clear_stale g1 st = clear_stale g2 st.
  Proof.
    destruct (clear_stale_same g1 st) as [[A1 A2] A3]. destruct (clear_stale_same g2 st) as [[B1 B2] B3].
    apply state_eq; try congruence.
    apply map_eq. intros x. rewrite !clear_stale_fold.
    rewrite (cs_fold_lookup g1 st (g_nodes g1) st x Hnames) by (repeat split).
    rewrite (cs_fold_lookup g2 st (g_nodes g2) st x Hnames2) by (repeat split).
    rewrite (find_name_perm _ _ x Hperm Hnames).
    destruct (List.find _ (g_nodes g2)) as [n|]; [|reflexivity].
    unfold cs_entry. rewrite needs_execution_perm. reflexivity.
  Qed.

  (* ---------- the ready list ---------- *)

  Lemma has_input_perm st n p : has_input g1 st n p = has_input g2 st n p.
  Proof. unfold has_input. rewrite Hbound. reflexivity. Qed.

  Lemma node_ready_perm st n : node_ready g1 st n = node_ready g2 st n.
  Proof.
    unfold node_ready. rewrite activated_perm, needs_execution_perm.
    assert (E : forallb (has_input g1 st n) (n_inputs n) = forallb (has_input g2 st n) (n_inputs n)).
    { induction (n_inputs n) as [|p l IH]; simpl; [reflexivity|]. rewrite has_input_perm, IH. reflexivity. }
    rewrite E. reflexivity.
  Qed.

  Lemma is_active_perm n : is_active g1 n = is_active g2 n.
  Proof. unfold is_active. rewrite Hactive. reflexivity. Qed.

  Lemma is_blocked_perm rd rd' n : Permutation rd rd' -> is_blocked rd n = is_blocked rd' n.
  Proof. intros Hp. unfold is_blocked. apply existsb_perm. unfold blocked_targets. apply flat_map_perm. exact Hp. Qed.

  Lemma deferred_perm rd rd' n : Permutation rd rd' -> deferred rd n = deferred rd' n.
  Proof.
    intros Hp. unfold deferred. apply existsb_ext_in''. intros s _. apply existsb_perm. exact Hp.
  Qed.

  Lemma ready_state_perm st : fst (ready g1 st) = fst (ready g2 st).
  Proof. unfold ready. simpl. apply clear_stale_perm. Qed.

  Lemma ready_list_perm st : Permutation (snd (ready g1 st)) (snd (ready g2 st)).
  Proof.
    unfold ready. simpl. rewrite <- clear_stale_perm.
    set (st' := clear_stale g1 st).
    set (f1 := fun n => is_active g1 n && node_ready g1 st' n).
    set (f2 := fun n => is_active g2 n && node_ready g2 st' n).
    assert (Hf : forall n, f1 n = f2 n) by (intros n; unfold f1, f2; rewrite is_active_perm, node_ready_perm; reflexivity).
    assert (P0 : Permutation (List.filter f1 (g_nodes g1)) (List.filter f2 (g_nodes g2))).
    { rewrite (filter_ext_in' f1 f2) by (intros; apply Hf). apply filter_perm. exact Hperm. }
    set (r0 := List.filter f1 (g_nodes g1)) in *. set (r0' := List.filter f2 (g_nodes g2)) in *.
    assert (P1 : Permutation (List.filter (fun n => negb (is_blocked r0 n)) r0) (List.filter (fun n => negb (is_blocked r0' n)) r0')).
    { rewrite (filter_ext_in' (fun n => negb (is_blocked r0 n)) (fun n => negb (is_blocked r0' n)))
        by (intros n _; rewrite (is_blocked_perm r0 r0' n P0); reflexivity).
      apply filter_perm. exact P0. }
    set (r1 := List.filter (fun n => negb (is_blocked r0 n)) r0) in *.
    set (r1' := List.filter (fun n => negb (is_blocked r0' n)) r0') in *.
    rewrite (filter_ext_in' (fun n => negb (deferred r1 n)) (fun n => negb (deferred r1' n)))
      by (intros n _; rewrite (deferred_perm r1 r1' n P1); reflexivity).
    apply filter_perm. exact P1.
  Qed.
End NodeOrder.

(* ------------------------------------------------------------------ effects of distinct nodes commute *)

Definition bumps (st : state) (x : name) (v : val) : bool :=
  match vals st !! x with
  | None => true
  | Some old => val_eqb v VSentinel || negb (val_eqb old v)
  end.

Lemma update_value_unfold st x v :
  update_value st x v =
  mk_state (<[x := v]> (vals st)) (if bumps st x v then <[x := S (ver st x)]> (vers st) else vers st) (execs st) (decs st).
Proof.
  unfold update_value, bumps. destruct (vals st !! x) as [old|]; [|reflexivity].
  destruct (val_eqb v VSentinel); [reflexivity|]. simpl. destruct (val_eqb old v); reflexivity.
Qed.

Lemma update_value_comm st x v y w : x <> y ->
  update_value (update_value st x v) y w = update_value (update_value st y w) x v.
Proof.
  intros Hxy.
  assert (B1 : bumps (update_value st x v) y w = bumps st y w).
  { unfold bumps. rewrite (update_value_unfold st x v). simpl. rewrite lookup_insert_ne by exact Hxy. reflexivity. }
  assert (B2 : bumps (update_value st y w) x v = bumps st x v).
  { unfold bumps. rewrite (update_value_unfold st y w). simpl. rewrite lookup_insert_ne by (intros E; apply Hxy; symmetry; exact E). reflexivity. }
  assert (V1 : ver (update_value st x v) y = ver st y).
  { rewrite (update_value_unfold st x v). unfold ver. simpl. destruct (bumps st x v); [rewrite lookup_insert_ne by exact Hxy|]; reflexivity. }
  assert (V2 : ver (update_value st y w) x = ver st x).
  { rewrite (update_value_unfold st y w). unfold ver. simpl.
    destruct (bumps st y w); [rewrite lookup_insert_ne by (intros E; apply Hxy; symmetry; exact E)|]; reflexivity. }
  rewrite (update_value_unfold (update_value st x v) y w), (update_value_unfold (update_value st y w) x v).
  rewrite B1, B2, V1, V2. rewrite (update_value_unfold st x v), (update_value_unfold st y w). simpl.
  f_equal.
  - apply insert_commute. intros E. apply Hxy. symmetry. exact E.
  - destruct (bumps st x v), (bumps st y w); try reflexivity.
    apply insert_commute. intros E. apply Hxy. symmetry. exact E.
Qed.

Lemma upd_apply_comm outs : forall st x v, ~ In x (dkeys outs) ->
  apply_outputs (update_value st x v) outs = update_value (apply_outputs st outs) x v.
Proof.
  induction outs as [|[k u] outs IH]; intros st x v Hx; [reflexivity|].
  unfold apply_outputs in *. simpl in *.
  rewrite <- IH by (intros H; apply Hx; right; exact H).
  rewrite (update_value_comm st x v k u) by (intros E; apply Hx; left; symmetry; exact E). reflexivity.
Qed.

Lemma apply_outputs_comm o1 : forall o2 st, (forall k, In k (dkeys o1) -> ~ In k (dkeys o2)) ->
  apply_outputs (apply_outputs st o1) o2 = apply_outputs (apply_outputs st o2) o1.
Proof.
  induction o1 as [|[k u] o1 IH]; intros o2 st Hd; [reflexivity|].
  change (apply_outputs st ((k, u) :: o1)) with (apply_outputs (update_value st k u) o1).
  rewrite IH by (intros k' Hk'; apply Hd; right; exact Hk').
  change (apply_outputs (apply_outputs st o2) ((k, u) :: o1)) with (apply_outputs (update_value (apply_outputs st o2) k u) o1).
  rewrite <- upd_apply_comm by (apply Hd; left; reflexivity). reflexivity.
Qed.

Lemma apply_outputs_set_exec s x r outs : apply_outputs (set_exec s x r) outs = set_exec (apply_outputs s outs) x r.
Proof.
  destruct (apply_outputs_data outs s (set_exec s x r) (set_exec_same s x r)) as [E1 E2].
  apply state_eq.
  - simpl. symmetry. exact E1.
  - simpl. symmetry. exact E2.
  - rewrite execs_apply_outputs. simpl. rewrite execs_apply_outputs. reflexivity.
  - rewrite decs_apply_outputs. simpl. rewrite decs_apply_outputs. reflexivity.
Qed.

Section Commute.
  Variable exec : node -> state -> dict val -> outcome.
  Variable g : graph.
  Variable snap : state.
  Variable pv : dict val.

  Local Notation app := (apply_success exec g snap pv).

  Definition out_keys (n : node) : list name :=
    match snd (run_one exec g snap pv n) with OOk outs _ => dkeys outs | _ => [] end.

  Definition compat (n m : node) : Prop :=
    n_name n <> n_name m /\ forall k, In k (out_keys n) -> ~ In k (out_keys m).

  Lemma apply_success_comm a n m : compat n m -> app (app a n) m = app (app a m) n.
  Proof.
    intros [Hname Hdis]. unfold apply_success, out_keys in *.
    destruct (snd (run_one exec g snap pv n)) as [o1 d1|e1|p1]; destruct (snd (run_one exec g snap pv m)) as [o2 d2|e2|p2];
      try reflexivity.
    rewrite !apply_outputs_set_exec.
    rewrite (apply_outputs_comm o1 o2 a Hdis).
    apply state_eq; simpl; try reflexivity.
    apply insert_commute. intros E. apply Hname. symmetry. exact E.
  Qed.

  Definition all_compat (l : list node) : Prop :=
    forall n m, In n l -> In m l -> n_name n <> n_name m -> compat n m.

  Lemma fold_app_perm l1 l2 : Permutation l1 l2 -> List.NoDup (map n_name l1) -> all_compat l1 ->
    forall a, fold_left app l1 a = fold_left app l2 a.
  Proof.
    induction 1 as [|x l1 l2 Hp IH|x y l|l1 l2 l3 Hp1 IH1 Hp2 IH2]; intros Hnd Hc a; simpl.
    - reflexivity.
    - inversion Hnd; subst. apply IH; [assumption|]. intros n m Hn Hm. apply Hc; right; assumption.
    - inversion Hnd as [|? ? Hy Hnd']; subst. rewrite (apply_success_comm a y x); [reflexivity|].
      apply Hc; [left; reflexivity | right; left; reflexivity|]. intros E. apply Hy. left. symmetry. exact E.
    - rewrite IH1 by assumption. apply IH2.
      + eapply Permutation_NoDup; [apply Permutation_map; exact Hp1 | exact Hnd].
      + intros n m Hn Hm. apply Hc; eapply Permutation_in; try (apply Permutation_sym; exact Hp1); assumption.
  Qed.
End Commute.

(* ------------------------------------------------------------------ supersteps and runs *)

Section Runs.
  Variable exec : node -> state -> dict val -> outcome.
  Variables g1 g2 : graph.
  Variable pv : dict val.
  Hypothesis Hperm : Permutation (g_nodes g1) (g_nodes g2).
  Hypothesis Hbound : g_bound g1 = g_bound g2.
  Hypothesis Hactive : g_active g1 = g_active g2.
  Hypothesis Hnames : List.NoDup (map n_name (g_nodes g1)).
  (* a node function returns values for its own declared outputs only ... *)
  Hypothesis Hkeys : forall n s ins outs dec, In n (g_nodes g1) -> exec n s ins = OOk outs dec ->
      forall k, In k (dkeys outs) -> In k (n_outputs n).
  (* ... and output names are unique across nodes *)
  Hypothesis Huniq : forall n m k, In n (g_nodes g1) -> In m (g_nodes g1) ->
      In k (n_outputs n) -> In k (n_outputs m) -> n_name n = n_name m.
  Hypothesis Hnoint : forall n, In n (g_nodes g1) -> is_interrupt n = false.

  Lemma resolve_perm st n p : resolve g1 st pv n p = resolve g2 st pv n p.
  Proof. unfold resolve. rewrite Hbound. reflexivity. Qed.

  Lemma collect_inputs_perm st n ps : collect_inputs g1 st pv n ps = collect_inputs g2 st pv n ps.
  Proof. induction ps as [|p ps IH]; simpl; [reflexivity|]. rewrite resolve_perm, IH. reflexivity. Qed.

  Lemma run_one_perm snap n : run_one exec g1 snap pv n = run_one exec g2 snap pv n.
  Proof. unfold run_one. rewrite collect_inputs_perm. reflexivity. Qed.

  Lemma apply_success_perm snap a n : apply_success exec g1 snap pv a n = apply_success exec g2 snap pv a n.
  Proof. unfold apply_success. rewrite run_one_perm. reflexivity. Qed.

  Lemma fold_ext {A B} (f h : A -> B -> A) l : (forall a x, f a x = h a x) -> forall a, fold_left f l a = fold_left h l a.
  Proof. intros H. induction l as [|x l IH]; intros a; simpl; [reflexivity|]. rewrite H. apply IH. Qed.

  Lemma write_decisions_g snap pi acc : write_decisions exec g1 snap pv pi acc = write_decisions exec g2 snap pv pi acc.
  Proof. unfold write_decisions. apply fold_ext. intros a n. rewrite run_one_perm. reflexivity. Qed.

  Lemma step_ok_g snap n : step_ok exec g1 snap pv n <-> step_ok exec g2 snap pv n.
  Proof. unfold step_ok. rewrite run_one_perm. reflexivity. Qed.

  Lemma async_calls_perm snap rd rd' : Permutation rd rd' ->
    Permutation (async_calls exec g1 snap pv rd) (async_calls exec g2 snap pv rd').
  Proof.
    intros Hp. unfold async_calls.
    rewrite (flat_map_ext _ (fun n => match fst (run_one exec g2 snap pv n) with Some ins => [(n_name n, ins)] | None => [] end))
      by (intros n; rewrite run_one_perm; reflexivity).
    apply flat_map_perm. exact Hp.
  Qed.

  Lemma sync_all_ok g snap rd : forall acc log b calls,
    superstep_sync exec g snap pv rd acc log = (SOk b, calls) -> Forall (step_ok exec g snap pv) rd.
  Proof.
    induction rd as [|n rd IH]; intros acc log b calls H; [constructor|].
    simpl in H. destruct (collect_inputs g snap pv n (n_inputs n)) as [ins|] eqn:Ec; [|discriminate].
    destruct (exec n snap ins) as [outs dec|e|p] eqn:Ee; try discriminate.
    constructor; [|eapply IH; eauto]. exists ins, outs, dec. unfold run_one. rewrite Ec, Ee. reflexivity.
  Qed.

  Lemma async_all_ok g snap rd : first_failure exec g snap pv rd = None -> Forall (step_ok exec g snap pv) rd.
  Proof.
    induction rd as [|n rd IH]; simpl; intros H; [constructor|].
    unfold run_one in *. destruct (collect_inputs g snap pv n (n_inputs n)) as [ins|] eqn:Ec; simpl in H; [|discriminate].
    destruct (exec n snap ins) as [outs dec|e|p] eqn:Ee; try discriminate.
    constructor; [|apply IH; exact H]. exists ins, outs, dec. unfold run_one. rewrite Ec, Ee. reflexivity.
  Qed.

  Lemma no_int rd : (forall n, In n rd -> In n (g_nodes g1)) -> List.filter is_interrupt rd = [].
  Proof.
    induction rd as [|a l IH]; intros H; simpl; [reflexivity|].
    rewrite (Hnoint a (H a (or_introl eq_refl))). apply IH. intros n Hn. apply H. right. exact Hn.
  Qed.

  Lemma compat_nodes snap rd : (forall n, In n rd -> In n (g_nodes g1)) -> all_compat exec g1 snap pv rd.
  Proof.
    intros Hrd n m Hn Hm Hne. split; [exact Hne|]. intros k Hkn Hkm. apply Hne.
    unfold out_keys in Hkn, Hkm. unfold run_one in Hkn, Hkm.
    destruct (collect_inputs g1 snap pv n (n_inputs n)) as [i1|]; simpl in Hkn; [|contradiction].
    destruct (collect_inputs g1 snap pv m (n_inputs m)) as [i2|]; simpl in Hkm; [|contradiction].
    destruct (exec n snap i1) as [o1 d1|?|?] eqn:E1; try contradiction.
    destruct (exec m snap i2) as [o2 d2|?|?] eqn:E2; try contradiction.
    apply (Huniq n m k (Hrd n Hn) (Hrd m Hm)); [eapply Hkeys; eauto | eapply Hkeys; eauto].
  Qed.

  (* a non-failing superstep over a permuted ready list: same resulting state, same calls up to order *)
  Lemma superstep_perm r snap rd rd' b calls :
    Permutation rd rd' -> List.NoDup (map n_name rd) -> (forall n, In n rd -> In n (g_nodes g1)) ->
    superstep exec r g1 snap pv rd = (SOk b, calls) ->
    exists calls', superstep exec r g2 snap pv rd' = (SOk b, calls') /\ Permutation calls calls'.
  Proof.
    intros Hp Hnd Hrd Hs.
    assert (Hni : List.filter is_interrupt rd = []) by (apply no_int; exact Hrd).
    assert (Hni' : List.filter is_interrupt rd' = []).
    { apply no_int. intros n Hn. apply Hrd. eapply Permutation_in; [apply Permutation_sym; exact Hp | exact Hn]. }
    assert (Hall : Forall (step_ok exec g1 snap pv) rd).
    { destruct r; simpl in Hs.
      - eapply sync_all_ok; eauto.
      - unfold superstep_async, isolate in Hs. rewrite Hni in Hs. apply async_all_ok.
        destruct (first_failure exec g1 snap pv rd) as [[e|p]|]; [discriminate..|reflexivity]. }
    assert (Hall' : Forall (step_ok exec g2 snap pv) rd').
    { apply Coq.Lists.List.Forall_forall. intros n Hn. apply step_ok_g.
      rewrite Coq.Lists.List.Forall_forall in Hall. apply Hall. eapply Permutation_in; [apply Permutation_sym; exact Hp | exact Hn]. }
    assert (Hs1 : superstep exec Sync g1 snap pv rd = (SOk b, calls)).
    { destruct r; [exact Hs|]. rewrite (superstep_runners_agree exec g1 snap pv rd Hni Hall). exact Hs. }
    simpl in Hs1. rewrite (superstep_sync_ok exec g1 snap pv rd snap [] Hall) in Hs1. injection Hs1 as <- <-.
    exists (async_calls exec g2 snap pv rd'). split; [|simpl; apply async_calls_perm; exact Hp].
    assert (Hs2 : superstep exec Sync g2 snap pv rd' = superstep exec r g2 snap pv rd').
    { destruct r; [reflexivity|]. apply superstep_runners_agree; assumption. }
    rewrite <- Hs2. simpl. rewrite (superstep_sync_ok exec g2 snap pv rd' snap [] Hall'). simpl. f_equal. f_equal.
    rewrite <- (write_decisions_g snap rd' snap).
    rewrite <- (write_decisions_perm exec g1 snap pv rd rd' snap Hp Hnd).
    rewrite <- (fold_ext (apply_success exec g1 snap pv) (apply_success exec g2 snap pv) rd' (apply_success_perm snap)).
    symmetry. apply fold_app_perm; [exact Hp | exact Hnd | apply compat_nodes; exact Hrd].
  Qed.

  Lemma ready_nodup g st : List.NoDup (map n_name (g_nodes g)) -> List.NoDup (map n_name (snd (ready g st))).
  Proof.
    intros Hnd. unfold ready. simpl.
    assert (F : forall (f : node -> bool) l, List.NoDup (map n_name l) -> List.NoDup (map n_name (List.filter f l))).
    { intros f l. induction l as [|a l IH]; simpl; intros H; [constructor|]. inversion H; subst.
      destruct (f a); simpl; [|auto]. constructor; [|auto]. intros Hin. apply H2.
      apply in_map_iff in Hin as (m & E & Hm). apply filter_In in Hm as [Hm _]. rewrite <- E. apply in_map; exact Hm. }
    apply F, F, F. exact Hnd.
  Qed.

  Lemma ready_in_nodes g st n : In n (snd (ready g st)) -> In n (g_nodes g).
  Proof. intros H. apply (ready_list_r0 g st n) in H. tauto. Qed.

  (* C02_node_order: a run that completes under one listing of the nodes completes under every other listing, in the same
     state (hence with the same returned values), making the same calls in every superstep up to their order *)
  Lemma run_loop_0 r g st log :
    run_loop exec r 0 g pv st log =
    (let '(st', rd) := ready g st in
     match rd with [] => (RDone st', log) | _ => (RFailed EInfiniteLoop st', log) end).
  Proof. reflexivity. Qed.

  Lemma run_loop_S r k g st log :
    run_loop exec r (S k) g pv st log =
    (let '(st', rd) := ready g st in
     match rd with
     | [] => (RDone st', log)
     | _ => match superstep exec r g st' pv rd with
            | (SOk st'', calls) => run_loop exec r k g pv st'' (log ++ [calls])
            | (SErr e p, calls) => (RFailed e p, log ++ [calls])
            | (SPause p _, calls) => (RPaused p st', log ++ [calls])
            end
     end).
  Proof. reflexivity. Qed.

  Theorem node_order_run r fuel : forall st log1 log2 s l1,
    Forall2 (@Permutation call) log1 log2 ->
    run_loop exec r fuel g1 pv st log1 = (RDone s, l1) ->
    exists l2, run_loop exec r fuel g2 pv st log2 = (RDone s, l2) /\ Forall2 (@Permutation call) l1 l2.
  Proof.
    induction fuel as [|k IH]; intros st log1 log2 s l1 Hlog H; [rewrite run_loop_0 in *|rewrite run_loop_S in *].
    - pose proof (ready_state_perm g1 g2 Hperm Hnames st) as Est.
      pose proof (ready_list_perm g1 g2 Hperm Hbound Hactive Hnames st) as Erd.
      destruct (ready g1 st) as [st1 rd1]. destruct (ready g2 st) as [st2 rd2]. simpl in Est, Erd. subst st2.
      destruct rd1 as [|n rd1]; [|discriminate]. injection H as <- <-.
      apply Permutation_nil in Erd. subst rd2. exists log2. auto.
    - pose proof (ready_state_perm g1 g2 Hperm Hnames st) as Est.
      pose proof (ready_list_perm g1 g2 Hperm Hbound Hactive Hnames st) as Erd.
      pose proof (ready_nodup g1 st Hnames) as Hnd.
      pose proof (ready_in_nodes g1 st) as Hin.
      destruct (ready g1 st) as [st1 rd1]. destruct (ready g2 st) as [st2 rd2]. simpl in Est, Erd, Hnd, Hin. subst st2.
      destruct rd1 as [|n rd1].
      + injection H as <- <-. apply Permutation_nil in Erd. subst rd2. exists log2. auto.
      + destruct (superstep exec r g1 st1 pv (n :: rd1)) as [[b|e p|p b] calls] eqn:Es; try discriminate.
        destruct (superstep_perm r st1 (n :: rd1) rd2 b calls Erd Hnd Hin Es) as [calls' [Es' Hc]].
        destruct rd2 as [|m rd2]; [apply Permutation_sym, Permutation_nil in Erd; discriminate|].
        rewrite Es'. apply (IH b (log1 ++ [calls]) (log2 ++ [calls']) s l1); [|exact H].
        apply Forall2_app; [exact Hlog | constructor; [exact Hc | constructor]].
  Qed.

  Corollary node_order_execute r fuel s l1 :
    execute exec r fuel g1 pv = (RDone s, l1) ->
    exists l2, execute exec r fuel g2 pv = (RDone s, l2) /\ Forall2 (@Permutation call) l1 l2.
  Proof. unfold execute. apply node_order_run. constructor. Qed.
End Runs.
