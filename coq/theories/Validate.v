(* Validate.v — the Graph constructor's validation pipeline as a decision procedure.
   Restates, check by check:
     graph/core.py        Graph.__init__ -> _build_nodes_dict (duplicate names), _normalize_edges (unknown source /
                          target / value of an explicit edge), _build_graph (the edge relation of the networkx graph:
                          data edges from the FIRST producer or from the declared edges, control edges gate->target,
                          ordering edges first producer of a wait_for name -> waiter)
     graph/_conflict.py   validate_output_conflicts, _expand_mutex_groups, _compute_exclusive_reachability,
                          _is_pair_mutex, _build_full_edge_map, _is_pair_ordered, _contested_values_for
     graph/validation.py  validate_graph: _validate_graph_name, _validate_reserved_names, _validate_valid_identifiers,
                          _validate_no_namespace_collision, _validate_consistent_defaults, _validate_gate_targets,
                          _validate_no_gate_self_loop, _validate_multi_target_output_conflicts,
                          _validate_no_interrupt_in_map_over, _validate_no_cache_on_non_function_nodes,
                          _validate_wait_for_references, _validate_types
   Every failing check raises the same GraphConfigError, so the constructor's outcome is the conjunction `valid`.
   String predicates (str.isidentifier / keyword.iskeyword, the '.' '/' test on the graph name, the name "END") and
   the class table of the type judgement are Section variables.  Plain stdlib. *)
From HG Require Import Base Typing Reach.

Inductive vkind :=
| VKFunc | VKIfElse | VKRoute (multi : bool) | VKGraph (mapped interrupts : bool) | VKInterrupt.

Record vnode := mk_vnode {
  v_name : name;
  v_kind : vkind;
  v_inputs : list name;
  v_outputs : list name;          (* data outputs then emit outputs *)
  v_wait : list name;
  v_targets : list name;          (* string targets; END is not listed *)
  v_defaults : dict val;          (* signature defaults *)
  v_cache : bool;
  v_in_ty : dict (list (option ty));    (* get_input_types: one entry per (inner) consumer, None = not annotated; absent = [None] *)
  v_out_ty : dict (list (option ty)) }. (* get_output_types: one entry per (inner) producer *)

Inductive espec := ESpec (src dst : name) (vals : option (list name)).

Record vgraph := mk_vgraph {
  vg_nodes : list vnode;
  vg_edges : option (list espec);   (* Graph(..., edges=...) *)
  vg_name : option name;
  vg_strict : bool }.

Definition is_gate (n : vnode) : bool :=
  match v_kind n with VKIfElse | VKRoute _ => true | _ => false end.
Definition exclusive_gate (n : vnode) : bool :=
  match v_kind n with VKIfElse | VKRoute false => true | _ => false end.
Definition multi_gate (n : vnode) : bool :=
  match v_kind n with VKRoute true => true | _ => false end.
Definition is_graphnode (n : vnode) : bool :=
  match v_kind n with VKGraph _ _ => true | _ => false end.
Definition mapped_with_interrupts (n : vnode) : bool :=
  match v_kind n with VKGraph true true => true | _ => false end.

Section Nodes.
  Variable nodes : list vnode.

  Definition names : list name := map v_name nodes.
  Definition find_v (x : name) : option vnode := find (fun n => Pos.eqb (v_name n) x) nodes.
  Definition outs_of (x : name) : list name := match find_v x with Some n => v_outputs n | None => [] end.
  Definition ins_of (x : name) : list name := match find_v x with Some n => v_inputs n | None => [] end.
  (* output_to_sources[o], in node order *)
  Definition producers (o : name) : list name := map v_name (filter (fun n => pos_in o (v_outputs n)) nodes).
  Definition all_outputs : list name := flat_map v_outputs nodes.
  Definition contested (o : name) : bool := Nat.leb 2 (length (producers o)).

  (* ---- the edge relation of the networkx graph ---- *)
  Definition data_pairs_auto : edges :=
    flat_map (fun n => flat_map (fun p => match producers p with s :: _ => [(s, v_name n)] | [] => [] end) (v_inputs n)) nodes.
  Definition control_pairs : edges :=
    flat_map (fun n => if is_gate n then map (fun t => (v_name n, t)) (filter (fun t => pos_in t names) (v_targets n)) else []) nodes.
  Definition ordering_pairs_first : edges :=
    flat_map (fun n => flat_map (fun w => match producers w with
                                          | p :: _ => if Pos.eqb p (v_name n) then [] else [(p, v_name n)]
                                          | [] => [] end) (v_wait n)) nodes.
  Definition explicit_pairs (es : list espec) : edges := map (fun e => match e with ESpec s d _ => (s, d) end) es.

  Definition g_pairs (es : option (list espec)) : edges :=
    (match es with Some l => explicit_pairs l | None => data_pairs_auto end) ++ control_pairs ++ ordering_pairs_first.

  Definition fuel : nat := length nodes.

  (* ---- _expand_mutex_groups / _compute_exclusive_reachability / _is_pair_mutex ---- *)
  Definition live_targets (n : vnode) : list name := filter (fun t => pos_in t names) (v_targets n).

  Definition exclusive_to (G : edges) (ts : list name) (t x : name) : bool :=
    reachb G fuel t x && Nat.eqb (length (filter (fun t' => reachb G fuel t' x) ts)) 1.

  Definition pair_mutex (G : edges) (a b : name) : bool :=
    existsb (fun n =>
      exclusive_gate n && Nat.leb 2 (length (live_targets n)) &&
      existsb (fun t1 => existsb (fun t2 =>
        negb (Pos.eqb t1 t2) && exclusive_to G (live_targets n) t1 a && exclusive_to G (live_targets n) t2 b)
        (live_targets n)) (live_targets n)) nodes.

  (* ---- _build_full_edge_map + _is_pair_ordered: the edges kept once contested data edges are stripped ---- *)
  Definition ordering_pairs_all : edges :=
    flat_map (fun n => flat_map (fun w => map (fun p => (p, v_name n))
                                             (filter (fun p => negb (Pos.eqb p (v_name n))) (producers w))) (v_wait n)) nodes.
  Definition data_pairs_kept (C : list name) : edges :=
    flat_map (fun n => flat_map (fun p => if pos_in p C then [] else map (fun s => (s, v_name n)) (producers p)) (v_inputs n)) nodes.
  Definition kept_pairs (C : list name) : edges := control_pairs ++ ordering_pairs_all ++ data_pairs_kept C.

  (* _contested_values_for *)
  Definition contested_with (o : name) : list name :=
    filter (fun o' => contested o' && Nat.leb 2 (length (filter (fun s => pos_in s (producers o)) (producers o')))) all_outputs.

  Fixpoint all_pairs (f : name -> name -> bool) (l : list name) : bool :=
    match l with [] => true | a :: l' => forallb (f a) l' && all_pairs f l' end.

  Definition pair_ok (es : option (list espec)) (o a b : name) : bool :=
    pair_mutex (g_pairs es) a b ||
    match es with
    | Some _ => reachb (g_pairs es) fuel a b || reachb (g_pairs es) fuel b a
    | None => let K := kept_pairs (contested_with o) in reachb K fuel a b || reachb K fuel b a
    end.

  Definition conflicts_ok (es : option (list espec)) : bool :=
    forallb (fun o => negb (contested o) || all_pairs (pair_ok es o) (producers o)) all_outputs.

  (* ---- _normalize_edges ---- *)
  Definition espec_ok (e : espec) : bool :=
    match e with
    | ESpec s d vals =>
        pos_in s names && pos_in d names &&
        match vals with
        | Some vs => forallb (fun v => pos_in v (outs_of s) && pos_in v (ins_of d)) vs
        | None => true
        end
    end.
  Definition espec_values (e : espec) : list name :=
    match e with
    | ESpec s d (Some vs) => vs
    | ESpec s d None => filter (fun v => pos_in v (outs_of s)) (ins_of d)
    end.
  Definition edges_ok (es : option (list espec)) : bool :=
    match es with Some l => forallb espec_ok l | None => true end.
End Nodes.

Section Validate.
  Variable ident_ok : name -> bool.      (* s.isidentifier() and not keyword.iskeyword(s) *)
  Variable gname_ok : name -> bool.      (* neither '.' nor '/' in the graph name *)
  Variable end_name : name.              (* the string "END" *)
  Variable sub : positive -> positive -> bool.
  Variable any_id : positive.

  Definition is_none {A} (o : option A) : bool := match o with None => true | Some _ => false end.

  Definition defaults_consistent (infos : list (option val)) : bool :=
    match infos with
    | [] | [_] => true
    | _ =>
        forallb is_none infos ||
        (forallb (fun o => negb (is_none o)) infos &&
         match filter (fun o => negb (is_none o)) infos with
         | Some v0 :: rest => forallb (fun o => match o with Some v => val_eqb v0 v | None => true end) rest
         | _ => true
         end)
    end.

  Definition tys (d : dict (list (option ty))) (v : name) : list (option ty) :=
    match dget d v with Some l => l | None => [None] end.
  (* _validate_type_pair: both sides annotated and compatible *)
  Definition ty_pair_ok (a b : option ty) : bool :=
    match a, b with Some x, Some y => compat sub any_id x y | _, _ => false end.
  (* _validate_edge_types: every (producer type, consumer type) pair the two nodes offer *)
  Definition type_ok (nodes : list vnode) (s d v : name) : bool :=
    match find_v nodes s, find_v nodes d with
    | Some ns, Some nd => forallb (fun a => forallb (ty_pair_ok a) (tys (v_in_ty nd) v)) (tys (v_out_ty ns) v)
    | _, _ => false
    end.

  Definition types_ok (nodes : list vnode) (es : option (list espec)) : bool :=
    match es with
    | None => forallb (fun n => forallb (fun p => forallb (fun s => type_ok nodes s (v_name n) p) (producers nodes p)) (v_inputs n)) nodes
    | Some l => forallb (fun e => match e with ESpec _ d _ =>
                           forallb (fun v => forallb (fun s => type_ok nodes s d v) (producers nodes v)) (espec_values nodes e) end) l
    end.

  Definition last_producer (nodes : list vnode) (o : name) : option name := last (map Some (producers nodes o)) None.

  Definition node_checks (nodes : list vnode) (n : vnode) : bool :=
    negb (Pos.eqb (v_name n) end_name) &&                                       (* _validate_reserved_names *)
    (is_graphnode n || ident_ok (v_name n)) && forallb ident_ok (v_outputs n) &&  (* _validate_valid_identifiers *)
    (negb (is_graphnode n) ||                                                    (* _validate_no_namespace_collision *)
     match last_producer nodes (v_name n) with Some s => Pos.eqb s (v_name n) | None => true end) &&
    (negb (is_gate n) || (forallb (fun t => pos_in t (names nodes)) (v_targets n) &&   (* _validate_gate_targets *)
                          negb (pos_in (v_name n) (v_targets n)))) &&            (* _validate_no_gate_self_loop *)
    (negb (multi_gate n) || nodup_b (flat_map (outs_of nodes) (v_targets n))) && (* _validate_multi_target_output_conflicts *)
    negb (mapped_with_interrupts n) &&                                           (* _validate_no_interrupt_in_map_over *)
    negb (is_graphnode n && v_cache n) &&                                        (* _validate_no_cache_on_non_function_nodes *)
    forallb (fun w => pos_in w (all_outputs nodes)) (v_wait n) &&                (* _validate_wait_for_references *)
    (negb (is_graphnode n) || gname_ok (v_name n)) &&                            (* ... a GraphNode's name is a path component *)
    nodup_b (v_outputs n) &&                                                     (* ... every output of a node has its own name *)
    forallb (fun w => existsb (fun m => negb (Pos.eqb (v_name m) (v_name n)) && pos_in w (v_outputs m)) nodes) (v_wait n).
                                                                                 (* ... a waited-for name is produced by ANOTHER node *)

  Definition params_of (nodes : list vnode) : list name := flat_map v_inputs nodes.
  Definition default_infos (nodes : list vnode) (p : name) : list (option val) :=
    map (fun n => dget (v_defaults n) p) (filter (fun n => pos_in p (v_inputs n)) nodes).

  Definition valid (g : vgraph) : bool :=
    let nodes := vg_nodes g in
    nodup_b (names nodes) &&                                                     (* _build_nodes_dict *)
    edges_ok nodes (vg_edges g) &&                                               (* _normalize_edges *)
    conflicts_ok nodes (vg_edges g) &&                                           (* validate_output_conflicts *)
    match vg_name g with Some x => gname_ok x | None => true end &&              (* _validate_graph_name *)
    forallb (node_checks nodes) nodes &&
    forallb (fun p => defaults_consistent (default_infos nodes p)) (params_of nodes) &&  (* _validate_consistent_defaults *)
    (negb (vg_strict g) || types_ok nodes (vg_edges g)).                         (* _validate_types *)

  (* nesting: a GraphNode can only wrap a graph that was itself constructed *)
  Inductive vtree := VT (g : vgraph) (subs : list vtree).
  Fixpoint valid_tree (t : vtree) : bool :=
    match t with VT g subs => forallb valid_tree subs && valid g end.
End Validate.

(* what the pinned commit did before the fix: the mutex expansion called nx.descendants on every string target *)
Inductive outcome3 := Accepted | ConfigError | RawError.
Definition legacy_construct (ident_ok gname_ok : name -> bool) (end_name : name) (sub : positive -> positive -> bool)
    (any_id : positive) (g : vgraph) : outcome3 :=
  let nodes := vg_nodes g in
  if negb (nodup_b (names nodes)) || negb (edges_ok nodes (vg_edges g)) then ConfigError
  else if existsb (fun n => exclusive_gate n && Nat.leb 2 (length (v_targets n)) &&
                            negb (forallb (fun t => pos_in t (names nodes)) (v_targets n))) nodes then RawError
  else if valid ident_ok gname_ok end_name sub any_id g then Accepted else ConfigError.
