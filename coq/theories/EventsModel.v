(* EventsModel.v — C12: the event stream of a synchronous run of a flat graph as a function of the engine model's run
   (what SyncRunnerTemplate.run / run_superstep_sync emit: RunStart; per executed node NodeStart, [RouteDecision],
   NodeEnd | NodeError; RunEnd with the status the caller sees), and the theorem that EVERY such stream is a well-formed
   span tree (accepted by Events.wf_b).  Span ids are first-occurrence indices, as the harness canonicalises them. *)
From HG Require Import Base Engine Exec Events EventsProofs.

(* one executed node of a run: its name, whether it is a gate that made a decision, whether it raised *)
Record nexec := mk_nexec { x_name : positive; x_route : bool; x_err : bool }.

Definition node_events (root : nat) (id : nat) (x : nexec) : list event :=
  [mk_event KNodeStart id (Some root) (x_name x)] ++
  (if x_route x then [mk_event KRoute (S id) (Some root) (x_name x)] else []) ++
  [mk_event (if x_err x then KNodeError else KNodeEnd) id (Some root) (x_name x)].

(* a RouteDecision event carries a span id of its own *)
Definition next_id (id : nat) (x : nexec) : nat := if x_route x then S (S id) else S id.

Fixpoint nodes_events (root : nat) (id : nat) (xs : list nexec) : list event :=
  match xs with
  | [] => []
  | x :: xs' => node_events root id x ++ nodes_events root (next_id id x) xs'
  end.

Definition run_events (xs : list nexec) (failed : bool) : list event :=
  mk_event KRunStart 0 None 1%positive :: nodes_events 0 1 xs ++ [mk_event (KRunEnd failed) 0 None 1%positive].

(* ------------------------------------------------------------------ every such stream is accepted *)

Definition root_span : ospan := mk_ospan 0 None true 1%positive.

(* the checker state between two nodes: only the run span is open; ids 0 .. id-1 have been seen *)
Definition between (id : nat) (st : cstate) : Prop :=
  c_open st = [root_span] /\ (forall s, In s (c_seen st) -> s < id) /\ 0 < id.

Lemma nat_in_false x l : (forall s, In s l -> s < x) -> nat_in x l = false.
Proof.
  intros H. apply nat_in_nIn. intros Hin. specialize (H x Hin). lia.
Qed.

Lemma node_accepted id x st : between id st ->
  exists st', crun st (node_events 0 id x) = Some st' /\ between (next_id id x) st'.
Proof.
  intros (Ho & Hs & Hid). unfold node_events.
  set (me := mk_ospan id (Some 0) false (x_name x)).
  (* NodeStart *)
  assert (Hfresh : nat_in id (c_seen st) = false) by (apply nat_in_false; exact Hs).
  assert (Hroot : find_open st 0 = Some root_span) by (unfold find_open; rewrite Ho; reflexivity).
  set (st1 := push_open st me).
  assert (E1 : cstep st (mk_event KNodeStart id (Some 0) (x_name x)) = Some st1).
  { unfold cstep. simpl. rewrite Hfresh, Hroot. reflexivity. }
  assert (Ho1 : c_open st1 = [me; root_span]) by (unfold st1, push_open; simpl; rewrite Ho; reflexivity).
  assert (Hidne : Nat.eqb id 0 = false) by (apply Nat.eqb_neq; lia).
  (* RouteDecision (optional) leaves the state alone *)
  assert (E2 : crun st1 (if x_route x then [mk_event KRoute (S id) (Some 0) (x_name x)] else []) = Some st1).
  { destruct (x_route x); [|reflexivity]. simpl. unfold cstep. simpl.
    unfold find_open. rewrite Ho1. simpl. rewrite Hidne. simpl. rewrite Pos.eqb_refl. reflexivity. }
  (* NodeEnd / NodeError closes the node span *)
  set (st2 := remove_open st1 id).
  assert (E3 : cstep st1 (mk_event (if x_err x then KNodeError else KNodeEnd) id (Some 0) (x_name x)) = Some st2).
  { assert (Hf : find_open st1 id = Some me) by (unfold find_open; rewrite Ho1; simpl; rewrite Nat.eqb_refl; reflexivity).
    assert (Hc : has_open_child st1 id = false).
    { unfold has_open_child. rewrite Ho1. destruct id; [lia | reflexivity]. }
    unfold cstep. destruct (x_err x); simpl; rewrite Hf, Hc; simpl; reflexivity. }
  exists st2. split.
  - simpl. rewrite E1. rewrite crun_app, E2. simpl. rewrite E3. reflexivity.
  - unfold between, next_id. split; [|split; [|destruct (x_route x); lia]].
    + unfold st2, remove_open. cbn [c_open]. rewrite Ho1. cbn [filter o_id me root_span]. rewrite Nat.eqb_refl.
      destruct id; [lia | reflexivity].
    + unfold st2, remove_open, st1, push_open. simpl.
      intros s [<-|Hin]; [destruct (x_route x); lia | specialize (Hs s Hin); destruct (x_route x); lia].
Qed.

Lemma nodes_accepted xs : forall id st, between id st ->
  exists st' id', crun st (nodes_events 0 id xs) = Some st' /\ between id' st'.
Proof.
  induction xs as [|x xs IH]; intros id st Hb; cbn [nodes_events].
  - exists st, id. auto.
  - destruct (node_accepted id x st Hb) as (st1 & E1 & Hb1).
    destruct (IH (next_id id x) st1 Hb1) as (st2 & id2 & E2 & Hb2).
    exists st2, id2. split; [rewrite crun_app, E1; exact E2 | exact Hb2].
Qed.

(* C12_model (synchronous runs of flat graphs): the emitted stream is accepted, with the caller's status *)
Theorem run_events_wf xs failed : wf_b failed (run_events xs failed) = true.
Proof.
  unfold wf_b, run_events. cbn [e_kind e_parent].
  set (e0 := mk_event KRunStart 0 None 1%positive).
  set (st0 := push_open cinit root_span).
  assert (E0 : cstep cinit e0 = Some st0) by reflexivity.
  assert (Hb0 : between 1 st0).
  { unfold between, st0, push_open, cinit. simpl. split; [reflexivity|]. split; [intros s [<-|[]]; lia | lia]. }
  destruct (nodes_accepted xs 1 st0 Hb0) as (st1 & id1 & E1 & (Ho1 & Hs1 & _)).
  set (st2 := remove_open st1 0).
  assert (E2 : cstep st1 (mk_event (KRunEnd failed) 0 None 1%positive) = Some st2).
  { unfold cstep. simpl. unfold find_open, has_open_child. rewrite Ho1. simpl. reflexivity. }
  assert (Hrun : crun cinit (e0 :: nodes_events 0 1 xs ++ [mk_event (KRunEnd failed) 0 None 1%positive]) = Some st2).
  { change (crun cinit (e0 :: ?l)) with (match cstep cinit e0 with Some st' => crun st' l | None => None end).
    rewrite E0. rewrite crun_app, E1. simpl. rewrite E2. reflexivity. }
  rewrite Hrun.
  assert (Ho2 : c_open st2 = []) by (unfold st2, remove_open; simpl; rewrite Ho1; reflexivity).
  rewrite Ho2.
  assert (Hlast : last (e0 :: nodes_events 0 1 xs ++ [mk_event (KRunEnd failed) 0 None 1%positive]) e0 =
                  mk_event (KRunEnd failed) 0 None 1%positive).
  { change (e0 :: ?l) with ([e0] ++ l). rewrite app_assoc. apply last_last. }
  rewrite Hlast. simpl. apply eqb_reflx.
Qed.

(* ------------------------------------------------------------------ the stream of a model run *)

(* what the synchronous runner emits for a run whose supersteps made `log` calls: every call is one node execution; a gate's
   call is followed by its RouteDecision; in a FAILED run whose failure is a node's (not the budget's) the last call is the
   one that raised *)
Definition is_gate_name (g : graph) (x : name) : bool :=
  match find_node g x with Some n => is_gate n | None => false end.

Definition execs_of_log (g : graph) (log : list (list call)) (node_failed : bool) : list nexec :=
  let calls := concat log in
  let n := length calls in
  map (fun ic => let '(i, c) := ic in
                 let last_failed := node_failed && Nat.eqb (S i) n in
                 mk_nexec (fst c) (is_gate_name g (fst c) && negb last_failed) last_failed)
      (combine (seq 0 n) calls).

Definition sync_run_events (g : graph) (log : list (list call)) (failed node_failed : bool) : list event :=
  run_events (execs_of_log g log node_failed) failed.

Theorem sync_run_events_wf g log failed node_failed : wf_b failed (sync_run_events g log failed node_failed) = true.
Proof. apply run_events_wf. Qed.

(* the stream of a model run, from its packaged result: FAILED with a node's error = the last call raised; FAILED with
   InfiniteLoopError or with the KeyError of an unresolvable input = no node span is left in error *)
Definition err_is (e : option err) (x : err) : bool := match e with Some y => Pos.eqb x y | None => false end.

Definition events_of_result (g : graph) (res : result) : list event :=
  let failed := Nat.eqb (res_status res) 1 in
  let node_failed := failed && negb (err_is (res_err res) EInfiniteLoop) && negb (err_is (res_err res) EKeyError) in
  sync_run_events g (res_log res) failed node_failed.

Theorem events_of_result_wf g res : wf_b (Nat.eqb (res_status res) 1) (events_of_result g res) = true.
Proof. apply run_events_wf. Qed.

(* comparison helper for the cases files: kinds, spans, parents and node names (run events carry no node name) *)
Definition ekind_eqb (a b : ekind) : bool :=
  match a, b with
  | KRunStart, KRunStart | KNodeStart, KNodeStart | KNodeEnd, KNodeEnd | KNodeError, KNodeError
  | KCacheHit, KCacheHit | KRoute, KRoute | KOther, KOther => true
  | KRunEnd x, KRunEnd y => Bool.eqb x y
  | _, _ => false
  end.

Definition event_eqb (a b : event) : bool :=
  ekind_eqb (e_kind a) (e_kind b) &&
  match e_kind a with
  | KRoute => opt_nat_eqb (e_parent a) (e_parent b) && Pos.eqb (e_node a) (e_node b)
  | KRunStart | KRunEnd _ => Nat.eqb (e_span a) (e_span b) && opt_nat_eqb (e_parent a) (e_parent b)
  | _ => Nat.eqb (e_span a) (e_span b) && opt_nat_eqb (e_parent a) (e_parent b) && Pos.eqb (e_node a) (e_node b)
  end.

Fixpoint events_eqb (a b : list event) : bool :=
  match a, b with
  | [], [] => true
  | x :: a', y :: b' => event_eqb x y && events_eqb a' b'
  | _, _ => false
  end.
