(* BoundaryTypesExample.v — the theorems of BoundaryTypesProofs.v are not vacuous: the two graphs of the repaired defect. *)
From HG Require Import Base Typing BoundaryTypes BoundaryTypesProofs.
Local Open Scope positive_scope.

Definition c_int : positive := 1.  Definition c_str : positive := 2.  Definition c_list : positive := 3.
Definition c_any : positive := 9.
Definition sub0 (a b : positive) : bool := Pos.eqb a b || Pos.eqb b c_any.
Definition T_int := TCls c_int [].  Definition T_str := TCls c_str [].

(* prod() -> v: int *)
Definition prod := TLeaf 10 [] [20] [] [(20, T_int)].
(* c_int(v: int) -> o1 ; c_str(v: str) -> o2 *)
Definition cons_int := TLeaf 11 [20] [21] [(20, T_int)] [(21, T_int)].
Definition cons_str := TLeaf 12 [20] [22] [(20, T_str)] [(22, T_str)].
Definition inner (ch : list tnode) := TGraph 13 [20] [21; 22] ch [] [] [].

Example both_orders_rejected :
  edge_ok c_list sub0 c_any prod (inner [cons_int; cons_str]) 20 = false /\
  edge_ok c_list sub0 c_any prod (inner [cons_str; cons_int]) 20 = false.
Proof. split; vm_compute; reflexivity. Qed.

Example all_int_accepted :
  edge_ok c_list sub0 c_any prod (inner [cons_int; cons_int]) 20 = true /\ wf_in (inner [cons_int; cons_int]) 20 /\ wf_out prod 20.
Proof.
  split; [vm_compute; reflexivity|]. split; [|exact I].
  cbn. split; [exists cons_int; split; [left; reflexivity | reflexivity] | repeat split].
Qed.

(* a mapped parameter: the inner consumer takes int, the node takes list[int]; every output becomes list[...] *)
Definition mapped := TGraph 14 [20] [21] [cons_int] [] [] [20].
Example mapped_types :
  in_types c_list mapped 20 = [Some (TCls c_list [T_int])] /\ out_types c_list mapped 21 = [Some (TCls c_list [T_int])] /\
  leaf_consumers mapped 20 = [(1%nat, Some T_int)].
Proof. repeat split; vm_compute; reflexivity. Qed.
