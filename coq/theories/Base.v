(* Base.v — names, values, ordered dictionaries (Python dict semantics).
   Plain stdlib. Shared by every model file. *)
From Coq Require Export List PArith ZArith Bool Lia.
Export ListNotations.

Notation name := positive (only parsing).

(* Values that flow through graphs.  VTup/VList are Python tuples/lists,
   VSentinel is nodes.base._EMIT_SENTINEL, VNone is None.  Booleans are not
   modelled as stored values (Python's True == 1 would make update_value's
   "changed" test depend on it); the harness never stores them. *)
Inductive val :=
| VInt (z : Z)
| VStr (s : positive)
| VNone
| VSentinel
| VTup (l : list val)
| VList (l : list val).

Section val_ind2.
  Variable P : val -> Prop.
  Hypothesis HInt : forall z, P (VInt z).
  Hypothesis HStr : forall s, P (VStr s).
  Hypothesis HNone : P VNone.
  Hypothesis HSent : P VSentinel.
  Hypothesis HTup : forall l, Forall P l -> P (VTup l).
  Hypothesis HList : forall l, Forall P l -> P (VList l).
  Fixpoint val_ind2 (v : val) : P v :=
    let fix go (l : list val) : Forall P l :=
      match l with
      | [] => Forall_nil P
      | x :: l' => Forall_cons x (val_ind2 x) (go l')
      end in
    match v with
    | VInt z => HInt z
    | VStr s => HStr s
    | VNone => HNone
    | VSentinel => HSent
    | VTup l => HTup l (go l)
    | VList l => HList l (go l)
    end.
End val_ind2.

Fixpoint val_eqb (a b : val) {struct a} : bool :=
  let fix go (l1 l2 : list val) {struct l1} : bool :=
    match l1, l2 with
    | [], [] => true
    | x :: l1', y :: l2' => val_eqb x y && go l1' l2'
    | _, _ => false
    end in
  match a, b with
  | VInt x, VInt y => Z.eqb x y
  | VStr x, VStr y => Pos.eqb x y
  | VNone, VNone => true
  | VSentinel, VSentinel => true
  | VTup l1, VTup l2 => go l1 l2
  | VList l1, VList l2 => go l1 l2
  | _, _ => false
  end.

Fixpoint vals_eqb (l1 l2 : list val) : bool :=
  match l1, l2 with
  | [], [] => true
  | x :: l1', y :: l2' => val_eqb x y && vals_eqb l1' l2'
  | _, _ => false
  end.

Lemma val_eqb_tup l1 l2 : val_eqb (VTup l1) (VTup l2) = vals_eqb l1 l2.
Proof. reflexivity. Qed.
Lemma val_eqb_list l1 l2 : val_eqb (VList l1) (VList l2) = vals_eqb l1 l2.
Proof. reflexivity. Qed.

Lemma vals_eqb_eq l1 :
  Forall (fun a => forall b, val_eqb a b = true <-> a = b) l1 ->
  forall l2, vals_eqb l1 l2 = true <-> l1 = l2.
Proof.
  induction 1 as [|x l1 Hx _ IH]; intros [|y l2]; simpl; split; intro H;
    try reflexivity; try discriminate.
  - apply andb_true_iff in H as [H1 H2]. apply Hx in H1. apply IH in H2. congruence.
  - injection H as -> ->. apply andb_true_iff; split; [apply Hx | apply IH]; reflexivity.
Qed.

Lemma val_eqb_eq a : forall b, val_eqb a b = true <-> a = b.
Proof.
  induction a as [z|s| | |l IH|l IH] using val_ind2; intros b; destruct b;
    try (simpl; split; intro H; (discriminate || reflexivity)).
  - simpl. rewrite Z.eqb_eq. split; congruence.
  - simpl. rewrite Pos.eqb_eq. split; congruence.
  - rewrite val_eqb_tup, (vals_eqb_eq l IH). split; congruence.
  - rewrite val_eqb_list, (vals_eqb_eq l IH). split; congruence.
Qed.

Lemma val_eqb_refl a : val_eqb a a = true.
Proof. apply val_eqb_eq; reflexivity. Qed.

Lemma val_eqb_neq a b : val_eqb a b = false <-> a <> b.
Proof. destruct (val_eqb a b) eqn:E.
  - apply val_eqb_eq in E. split; [discriminate | congruence].
  - split; [|reflexivity]. intros _ ->. rewrite val_eqb_refl in E. discriminate. Qed.

Definition val_eq_dec (a b : val) : {a = b} + {a <> b}.
Proof. destruct (val_eqb a b) eqn:E; [left; apply val_eqb_eq, E | right; apply val_eqb_neq, E]. Defined.

(* ------------------------------------------------------------------ *)
(* Ordered dictionaries: Python dict semantics (insertion order kept,
   assignment to an existing key replaces in place). *)

Section Dict.
  Context {V : Type}.
  Definition dict := list (name * V).

  Fixpoint dget (d : dict) (k : name) : option V :=
    match d with
    | [] => None
    | (k', v) :: d' => if Pos.eqb k' k then Some v else dget d' k
    end.

  Fixpoint dset (d : dict) (k : name) (v : V) : dict :=
    match d with
    | [] => [(k, v)]
    | (k', v') :: d' => if Pos.eqb k' k then (k, v) :: d' else (k', v') :: dset d' k v
    end.

  (* dict.update(other) / dict(pairs) *)
  Definition dupdate (d : dict) (ups : list (name * V)) : dict :=
    fold_left (fun acc kv => dset acc (fst kv) (snd kv)) ups d.

  Definition dkeys (d : dict) : list name := map fst d.
  Definition dmem (d : dict) (k : name) : bool :=
    match dget d k with Some _ => true | None => false end.

  Lemma dget_dset_eq d k v : dget (dset d k v) k = Some v.
  Proof. induction d as [|[k' v'] d IH]; simpl.
    - rewrite Pos.eqb_refl; reflexivity.
    - destruct (Pos.eqb k' k) eqn:E; simpl.
      + rewrite Pos.eqb_refl; reflexivity.
      + rewrite E; exact IH. Qed.

  Lemma dget_dset_ne d k k' v : k <> k' -> dget (dset d k v) k' = dget d k'.
  Proof. intro Hne. induction d as [|[k0 v0] d IH]; simpl.
    - destruct (Pos.eqb k k') eqn:E; [apply Pos.eqb_eq in E; contradiction | reflexivity].
    - destruct (Pos.eqb k0 k) eqn:E; simpl.
      + apply Pos.eqb_eq in E; subst k0.
        destruct (Pos.eqb k k') eqn:E2; [apply Pos.eqb_eq in E2; contradiction | reflexivity].
      + destruct (Pos.eqb k0 k'); [reflexivity | exact IH]. Qed.

  Lemma dget_dset d k k' v :
    dget (dset d k v) k' = if Pos.eqb k k' then Some v else dget d k'.
  Proof. destruct (Pos.eqb k k') eqn:E.
    - apply Pos.eqb_eq in E; subst; apply dget_dset_eq.
    - apply dget_dset_ne. intros ->. rewrite Pos.eqb_refl in E; discriminate. Qed.

  Lemma dkeys_dset_in d k v k' : In k' (dkeys (dset d k v)) <-> k' = k \/ In k' (dkeys d).
  Proof. induction d as [|[k0 v0] d IH]; simpl.
    - intuition.
    - destruct (Pos.eqb k0 k) eqn:E; simpl.
      + apply Pos.eqb_eq in E; subst. intuition.
      + rewrite IH. intuition. Qed.

  Lemma dget_None_notin d k : dget d k = None <-> ~ In k (dkeys d).
  Proof. induction d as [|[k0 v0] d IH]; simpl.
    - intuition.
    - destruct (Pos.eqb k0 k) eqn:E.
      + apply Pos.eqb_eq in E; subst. split; [discriminate | intuition].
      + rewrite IH. split; [|intuition]. intros H [H1|H1]; [|auto].
        subst. rewrite Pos.eqb_refl in E; discriminate. Qed.

  Lemma dget_Some_in d k v : dget d k = Some v -> In (k, v) d.
  Proof. induction d as [|[k0 v0] d IH]; simpl; [discriminate|].
    destruct (Pos.eqb k0 k) eqn:E.
    - apply Pos.eqb_eq in E; subst. intros [= ->]. left; reflexivity.
    - intro H; right; auto. Qed.

  Lemma dset_nodup d k v : NoDup (dkeys d) -> NoDup (dkeys (dset d k v)).
  Proof. induction d as [|[k0 v0] d IH]; simpl; intro H.
    - constructor; [intros [] | constructor].
    - inversion H as [|? ? Hn Hd]; subst. destruct (Pos.eqb k0 k) eqn:E; simpl.
      + apply Pos.eqb_eq in E; subst. constructor; assumption.
      + constructor; [|apply IH, Hd]. intro Hin. apply dkeys_dset_in in Hin as [->|Hin].
        * rewrite Pos.eqb_refl in E; discriminate.
        * contradiction. Qed.
End Dict.
Arguments dict : clear implicits.

Definition pos_in (x : name) (l : list name) : bool := existsb (Pos.eqb x) l.
Lemma pos_in_In x l : pos_in x l = true <-> In x l.
Proof. unfold pos_in. rewrite existsb_exists. split.
  - intros [y [Hy E]]. apply Pos.eqb_eq in E; subst; assumption.
  - intro H; exists x; split; [assumption | apply Pos.eqb_refl]. Qed.
Lemma pos_in_nIn x l : pos_in x l = false <-> ~ In x l.
Proof. rewrite <- pos_in_In. destruct (pos_in x l); split; congruence. Qed.

Fixpoint nodup_b (l : list name) : bool :=
  match l with [] => true | x :: l' => negb (pos_in x l') && nodup_b l' end.
Lemma nodup_b_NoDup l : nodup_b l = true <-> NoDup l.
Proof. induction l as [|x l IH]; simpl.
  - split; [constructor | reflexivity].
  - rewrite andb_true_iff, negb_true_iff, pos_in_nIn, IH. split.
    + intros [H1 H2]; constructor; assumption.
    + intro H; inversion H; subst; split; assumption. Qed.

Lemma NoDup_app_inv {A} (a b : list A) :
  NoDup (a ++ b) -> NoDup a /\ NoDup b /\ forall x, In x a -> ~ In x b.
Proof.
  induction a as [|y a IH]; simpl; intros H.
  - split; [constructor|]. split; [exact H | intros x []].
  - inversion H as [|? ? Hn Hd]; subst. destruct (IH Hd) as (Ha & Hb & Hdis).
    split; [constructor; [intros Hin; apply Hn; apply in_or_app; left; exact Hin | exact Ha]|].
    split; [exact Hb|]. intros x [->|Hx]; [intros Hin; apply Hn; apply in_or_app; right; exact Hin | apply Hdis; exact Hx].
Qed.

Lemma NoDup_app_intro {A} (a b : list A) :
  NoDup a -> NoDup b -> (forall x, In x a -> ~ In x b) -> NoDup (a ++ b).
Proof.
  induction a as [|y a IH]; simpl; intros Ha Hb Hd; [exact Hb|].
  inversion Ha as [|? ? Hn Ha']; subst. constructor.
  - intros Hin. apply in_app_or in Hin as [Hin|Hin]; [contradiction | apply (Hd y); [left; reflexivity | exact Hin]].
  - apply IH; auto.
Qed.

Lemma filter_length_le {A} (f : A -> bool) (l : list A) : length (filter f l) <= length l.
Proof. induction l as [|a l IH]; simpl; [lia|]. destruct (f a); simpl; lia. Qed.
