(* SemaFree.v — a leaf that executes WITHOUT taking a permit breaks the bound (C15, negative).
   Before repository fix 303f9ce the interrupt executor invoked (possibly async) handlers without the shared semaphore:
   in the discipline of Sema.v that is a leaf with the extra transition Wait -> Run that leaves the permits alone.  With it
   the invariant `running t + free = k` of SemaProofs.bound_reachable fails: two sibling handlers run at once under k = 1. *)
From HG Require Import Base Sema.

Inductive stepf : jst * nat -> jst * nat -> Prop :=
| sf_step a b : step a b -> stepf a b
| sf_free f : stepf (TLeaf Wait, f) (TLeaf Run, f)                      (* the handler starts; no permit is taken *)
| sf_free_done f : stepf (TLeaf Run, f) (TLeaf Done, f)
| sf_par l1 x l2 x' f f' :
    stepf (x, f) (x', f') -> stepf (TPar (l1 ++ x :: l2), f) (TPar (l1 ++ x' :: l2), f').

Inductive stepsf : jst * nat -> jst * nat -> Prop :=
| sfs_refl a : stepsf a a
| sfs_cons a b c : stepf a b -> stepsf b c -> stepsf a c.

(* two sibling handlers under max_concurrency = 1: both bodies are open at once *)
Theorem unlimited_leaves_break_the_bound :
  exists t f, stepsf (start (JPar [JLeaf; JLeaf]), 1) (t, f) /\ running t = 2 /\ 1 < running t.
Proof.
  exists (TPar [TLeaf Run; TLeaf Run]), 1. split; [|split; [reflexivity | cbn; auto]].
  eapply sfs_cons.
  - apply (sf_par [] (TLeaf Wait) [TLeaf Wait] (TLeaf Run) 1 1). apply sf_free.
  - eapply sfs_cons.
    + apply (sf_par [TLeaf Run] (TLeaf Wait) [] (TLeaf Run) 1 1). apply sf_free.
    + apply sfs_refl.
Qed.
