(* Derive.v — the object discipline behind the derivation operations (C07).
   Objects live in a heap; what Python shares by reference is shared here by location, what it copies is allocated
   afresh, what it mutates in place is updated in place.  Restates:
     graph/core.py        Graph._shallow_copy (copy.copy + fresh _bound dict + cached `inputs` dropped), bind, unbind,
                          select, with_entrypoint, add_nodes (rebuild + replay bind/select), as_node
     nodes/base.py        HyperNode._copy (copy.copy + fresh _rename_history list + cached properties dropped),
                          _with_renamed (append to the CLONE's history, then setattr on the clone), with_name / with_inputs /
                          with_outputs
     nodes/graph_node.py  GraphNode.__init__ (keeps a reference to the graph), _copy (fresh _map_over list), with_inputs
                          (map_over follows the rename in a new list), map_over
     nodes/_callable.py   CallableMixin.defaults (cached_property over the rename history)
   Reading `graph.inputs` or `node.defaults` fills a cache inside the object (OTouchG / OTouchN).
   Plain stdlib. *)
From HG Require Import Base Rename.

Definition loc := nat.

Inductive cell :=
| CDict (d : dict val)              (* a Graph's _bound *)
| CHist (hin hout : history)        (* a node's _rename_history, split by kind *)
| CList (l : list name).            (* a GraphNode's _map_over *)

Definition gdeps := (dict val * option (list name) * option (list name))%type.   (* what `inputs` is computed from *)

Record gobj := mk_gobj {
  go_nodes : list loc;              (* node objects; the _nodes dict and nx graph are shared by copies and never mutated *)
  go_bound : loc;
  go_sel : option (list name);
  go_eps : option (list name);
  go_cache : option gdeps }.

Record nobj := mk_nobj {
  no_name : name;
  no_inputs : list name;
  no_outputs : list name;
  no_hist : loc;
  no_sig : dict val;                (* signature defaults under the ORIGINAL parameter names *)
  no_cache : option (dict val);     (* cached `defaults` *)
  no_graph : option loc;            (* GraphNode: the wrapped Graph, by reference *)
  no_map : option loc }.            (* GraphNode: the _map_over list *)

Record heap := mk_heap { h_cells : list cell; h_graphs : list gobj; h_nodes : list nobj }.

Definition empty_heap : heap := mk_heap [] [] [].

Fixpoint set_nth {A} (l : list A) (i : nat) (x : A) : list A :=
  match l, i with
  | [], _ => []
  | _ :: l', O => x :: l'
  | y :: l', S i' => y :: set_nth l' i' x
  end.

Definition cell_at (h : heap) (l : loc) : option cell := nth_error (h_cells h) l.
Definition dict_at (h : heap) (l : loc) : dict val := match cell_at h l with Some (CDict d) => d | _ => [] end.
Definition hist_at (h : heap) (l : loc) : history * history :=
  match cell_at h l with Some (CHist a b) => (a, b) | _ => ([], []) end.
Definition list_at (h : heap) (l : loc) : list name := match cell_at h l with Some (CList x) => x | _ => [] end.

(* ---------------- what an observer sees ---------------- *)

Definition gdeps_now (h : heap) (g : gobj) : gdeps := (dict_at h (go_bound g), go_sel g, go_eps g).

Record gview := mk_gview {
  gv_nodes : list loc; gv_bound : dict val; gv_sel : option (list name); gv_eps : option (list name);
  gv_inputs_from : gdeps }.          (* the value `graph.inputs` returns is a function of this *)

Definition obs_graph (h : heap) (g : gobj) : gview :=
  mk_gview (go_nodes g) (dict_at h (go_bound g)) (go_sel g) (go_eps g)
           (match go_cache g with Some c => c | None => gdeps_now h g end).

Record nview := mk_nview {
  nv_name : name; nv_inputs : list name; nv_outputs : list name; nv_hist : history * history;
  nv_defaults : dict val; nv_graph : option loc; nv_map : option (list name) }.

Definition defaults_now (h : heap) (n : nobj) : dict val := defaults_current (fst (hist_at h (no_hist n))) (no_sig n).

Definition obs_node (h : heap) (n : nobj) : nview :=
  mk_nview (no_name n) (no_inputs n) (no_outputs n) (hist_at h (no_hist n))
           (match no_cache n with Some d => d | None => defaults_now h n end)
           (no_graph n) (match no_map n with Some l => Some (list_at h l) | None => None end).

Definition view_graph (h : heap) (l : loc) : option gview := option_map (obs_graph h) (nth_error (h_graphs h) l).
Definition view_node (h : heap) (l : loc) : option nview := option_map (obs_node h) (nth_error (h_nodes h) l).

(* ---------------- primitive heap actions ---------------- *)

Definition alloc_cell (h : heap) (c : cell) : heap * loc :=
  (mk_heap (h_cells h ++ [c]) (h_graphs h) (h_nodes h), length (h_cells h)).
Definition alloc_graph (h : heap) (g : gobj) : heap * loc :=
  (mk_heap (h_cells h) (h_graphs h ++ [g]) (h_nodes h), length (h_graphs h)).
Definition alloc_node (h : heap) (n : nobj) : heap * loc :=
  (mk_heap (h_cells h) (h_graphs h) (h_nodes h ++ [n]), length (h_nodes h)).
Definition set_cell (h : heap) (l : loc) (c : cell) : heap := mk_heap (set_nth (h_cells h) l c) (h_graphs h) (h_nodes h).
Definition set_graph (h : heap) (l : loc) (g : gobj) : heap := mk_heap (h_cells h) (set_nth (h_graphs h) l g) (h_nodes h).
Definition set_node (h : heap) (l : loc) (n : nobj) : heap := mk_heap (h_cells h) (h_graphs h) (set_nth (h_nodes h) l n).

(* A derivation builds its result on a fresh clone (copy, then assignments to the clone, then in-place appends to the
   clone's own fresh containers).  Since nothing else can reach the clone before it is returned, the model allocates the
   finished clone; where the code builds an intermediate container that is then replaced (the dict made by _shallow_copy
   inside bind), a garbage cell is allocated so that allocation order matches. *)

(* Graph._shallow_copy + field assignments: fresh _bound with the given contents, cached `inputs` dropped *)
Definition derive_graph (h : heap) (g : gobj) (bound : dict val) (sel eps : option (list name)) : heap * loc :=
  let (h1, b) := alloc_cell h (CDict bound) in
  alloc_graph h1 (mk_gobj (go_nodes g) b sel eps None).

(* HyperNode._copy / GraphNode._copy + assignments: fresh history list, fresh map_over list, cached properties dropped *)
Definition derive_node (h : heap) (n : nobj) (nm : name) (ins outs : list name) (hist : history * history)
    (map : option (list name)) : heap * loc :=
  let (h1, hl) := alloc_cell h (CHist (fst hist) (snd hist)) in
  let (h2, ml) := match map with
                  | Some m => let (h', l) := alloc_cell h1 (CList m) in (h', Some l)
                  | None => (h1, None)
                  end in
  alloc_node h2 (mk_nobj nm ins outs hl (no_sig n) None (no_graph n) ml).

Definition map_of (h : heap) (n : nobj) : option (list name) :=
  match no_map n with Some m => Some (list_at h m) | None => None end.

Definition dremove (d : dict val) (keys : list name) : dict val := filter (fun kv => negb (pos_in (fst kv) keys)) d.
Fixpoint dedup_names (l seen : list name) : list name :=
  match l with
  | [] => []
  | x :: l' => if pos_in x seen then dedup_names l' seen else x :: dedup_names l' (x :: seen)
  end.

Inductive op :=
| ONode (nm : name) (ins outs : list name) (sig : dict val)
| OGraph (ns : list loc)
| OBind (g : loc) (vals : dict val)
| OUnbind (g : loc) (keys : list name)
| OSelect (g : loc) (names : list name)
| OEntry (g : loc) (names : list name)
| OAddNodes (g : loc) (ns : list loc)
| OAsNode (g : loc) (nm : name) (ins outs : list name)
| OWithName (n : loc) (nm : name)
| OWithInputs (n : loc) (b : batch)
| OWithOutputs (n : loc) (b : batch)
| OMapOver (n : loc) (ps : list name)
| OTouchG (g : loc)
| OTouchN (n : loc).

(* the operation's result object (None: it raised and nothing was created) *)
Definition step (h : heap) (o : op) : option (heap * option loc) :=
  match o with
  | ONode nm ins outs sig =>
      let (h1, hl) := alloc_cell h (CHist [] []) in
      let (h2, l) := alloc_node h1 (mk_nobj nm ins outs hl sig None None None) in Some (h2, Some l)
  | OGraph ns =>
      let (h1, b) := alloc_cell h (CDict []) in
      let (h2, l) := alloc_graph h1 (mk_gobj ns b None None None) in Some (h2, Some l)
  | OBind g vals =>
      match nth_error (h_graphs h) g with
      | Some go =>
          let d := dict_at h (go_bound go) in
          let (h1, _) := alloc_cell h (CDict d) in            (* the dict made by _shallow_copy, replaced at once *)
          let (h2, l) := derive_graph h1 go (dupdate d vals) (go_sel go) (go_eps go) in Some (h2, Some l)
      | None => None
      end
  | OUnbind g keys =>
      match nth_error (h_graphs h) g with
      | Some go =>
          let d := dict_at h (go_bound go) in
          let (h1, _) := alloc_cell h (CDict d) in
          let (h2, l) := derive_graph h1 go (dremove d keys) (go_sel go) (go_eps go) in Some (h2, Some l)
      | None => None
      end
  | OSelect g names =>
      match nth_error (h_graphs h) g with
      | Some go => let (h1, l) := derive_graph h go (dict_at h (go_bound go)) (Some names) (go_eps go) in Some (h1, Some l)
      | None => None
      end
  | OEntry g names =>
      match nth_error (h_graphs h) g with
      | Some go =>
          let existing := match go_eps go with Some e => e | None => [] end in
          let (h1, l) := derive_graph h go (dict_at h (go_bound go)) (go_sel go) (Some (dedup_names (existing ++ names) [])) in
          Some (h1, Some l)
      | None => None
      end
  | OAddNodes g ns =>
      match nth_error (h_graphs h) g, ns with
      | Some go, [] => Some (h, Some g)                       (* `return self` *)
      | Some go, _ =>
          (* Graph(all_nodes) is a new object (entry points are not carried over); bindings are replayed into a fresh dict;
             a default selection is replayed through select(), which copies once more *)
          let d := dict_at h (go_bound go) in
          let all := mk_gobj (go_nodes go ++ ns) 0 None None None in
          let (h1, _) := alloc_cell h (CDict []) in
          let (h2, l2) := derive_graph h1 all d None None in
          match go_sel go with
          | None => Some (h2, Some l2)
          | Some s => let (h3, l3) := derive_graph h2 all d (Some s) None in Some (h3, Some l3)
          end
      | None, _ => None
      end
  | OAsNode g nm ins outs =>
      match nth_error (h_graphs h) g with
      | Some _ =>
          let (h1, hl) := alloc_cell h (CHist [] []) in
          let (h2, l) := alloc_node h1 (mk_nobj nm ins outs hl [] None (Some g) None) in Some (h2, Some l)
      | None => None
      end
  | OWithName n nm =>
      match nth_error (h_nodes h) n with
      | Some no => let (h1, l) := derive_node h no nm (no_inputs no) (no_outputs no) (hist_at h (no_hist no)) (map_of h no) in Some (h1, Some l)
      | None => None
      end
  | OWithInputs n b =>
      match nth_error (h_nodes h) n with
      | Some no =>
          let (ha, hb) := hist_at h (no_hist no) in
          match b with
          | [] => let (h1, l) := derive_node h no (no_name no) (no_inputs no) (no_outputs no) (ha, hb) (map_of h no) in Some (h1, Some l)
          | _ =>
              match apply_batch (no_inputs no) b with
              | Some new =>
                  (* the clone's own history gets the batch; GraphNode: _map_over follows the rename in a new list *)
                  let (h1, l) := derive_node h no (no_name no) new (no_outputs no) (ha ++ [b], hb)
                                             (option_map (fun m => follow m b) (map_of h no)) in Some (h1, Some l)
              | None => None
              end
          end
      | None => None
      end
  | OWithOutputs n b =>
      match nth_error (h_nodes h) n with
      | Some no =>
          let (ha, hb) := hist_at h (no_hist no) in
          match b with
          | [] => let (h1, l) := derive_node h no (no_name no) (no_inputs no) (no_outputs no) (ha, hb) (map_of h no) in Some (h1, Some l)
          | _ =>
              match apply_batch (no_outputs no) b with
              | Some new => let (h1, l) := derive_node h no (no_name no) (no_inputs no) new (ha, hb ++ [b]) (map_of h no) in Some (h1, Some l)
              | None => None
              end
          end
      | None => None
      end
  | OMapOver n ps =>
      match nth_error (h_nodes h) n with
      | Some no => let (h1, l) := derive_node h no (no_name no) (no_inputs no) (no_outputs no) (hist_at h (no_hist no)) (Some ps) in Some (h1, Some l)
      | None => None
      end
  | OTouchG g =>
      match nth_error (h_graphs h) g with
      | Some go =>
          match go_cache go with
          | Some _ => Some (h, None)
          | None => Some (set_graph h g (mk_gobj (go_nodes go) (go_bound go) (go_sel go) (go_eps go) (Some (gdeps_now h go))), None)
          end
      | None => None
      end
  | OTouchN n =>
      match nth_error (h_nodes h) n with
      | Some no =>
          match no_cache no with
          | Some _ => Some (h, None)
          | None => Some (set_node h n (mk_nobj (no_name no) (no_inputs no) (no_outputs no) (no_hist no) (no_sig no) (Some (defaults_now h no))
                                                (no_graph no) (no_map no)), None)
          end
      | None => None
      end
  end.

(* a history of operations; one that raises leaves the heap as it was *)
Fixpoint run_ops (h : heap) (ops : list op) : heap :=
  match ops with
  | [] => h
  | o :: rest => match step h o with Some (h', _) => run_ops h' rest | None => run_ops h rest end
  end.
