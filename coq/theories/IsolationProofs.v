(* IsolationProofs.v — run isolation (C18): for every interleaving of node calls of any number of runs over one heap,
   (A) an object no run holds a reference to (in particular every signature-default object) is never modified;
   (B) a bound / provided / edge value reaches the body as the very same object, a default as a fresh copy;
   (C) the caller's input mapping and the bindings of a run are never written;
   (S) if every mutated parameter was resolved from a signature default, NO pre-existing object is modified and every body
       sees, on entry, exactly the initial contents of what its parameters denote (pristine defaults included),
       whatever the other runs did before. *)
From HG Require Import Base Isolation.
From Coq Require Import Lia.

Definition refs_in (d : dict mval) : list mloc :=
  flat_map (fun kv => match snd kv with MRef l => [l] | MInt _ => [] end) d.
Definition run_refs (r : mrun) : list mloc := refs_in (r_state r) ++ refs_in (r_provided r) ++ refs_in (r_bound r).

Lemma nth_firstn_lt {A} (l : list A) n k d : k < n -> nth k (firstn n l) d = nth k l d.
Proof.
  revert n k. induction l as [|x l IH]; intros [|n] [|k] H; simpl; try reflexivity; try lia. apply IH. lia.
Qed.

Lemma cell_of_app_l h x l : l < length h -> cell_of (h ++ x) l = cell_of h l.
Proof. intros H. unfold cell_of. apply app_nth1. exact H. Qed.

Lemma set_cell_length h l c : length (set_cell h l c) = length h.
Proof. revert l. induction h as [|x h IH]; intros [|l]; simpl; try reflexivity. rewrite IH. reflexivity. Qed.

Lemma cell_of_set_cell_ne h l l' c : l <> l' -> cell_of (set_cell h l c) l' = cell_of h l'.
Proof.
  unfold cell_of. revert l l'. induction h as [|x h IH]; intros [|l] [|l'] H; simpl; try reflexivity; try congruence.
  apply IH. congruence.
Qed.

Lemma refs_in_In d l : In l (refs_in d) <-> exists k, In (k, MRef l) d.
Proof.
  unfold refs_in. rewrite in_flat_map. split.
  - intros [[k v] [H1 H2]]. simpl in H2. destruct v as [z|l']; [destruct H2|]. destruct H2 as [->|[]]. exists k. exact H1.
  - intros [k H]. exists (k, MRef l). split; [exact H|left; reflexivity].
Qed.

Lemma dget_refs d p l : dget d p = Some (MRef l) -> In l (refs_in d).
Proof. intros H. apply refs_in_In. exists p. apply dget_Some_in. exact H. Qed.

Lemma refs_dset_int d k z l : In l (refs_in (dset d k (MInt z))) -> In l (refs_in d).
Proof.
  induction d as [|[k' v] d IH]; simpl.
  - intros [].
  - destruct (Pos.eqb k' k); simpl.
    + intros H. apply in_or_app. right. exact H.
    + intros H. apply in_app_or in H. apply in_or_app. destruct H as [H|H]; [left; exact H|right; apply IH, H].
Qed.

(* a non-default source is a reference the run already holds *)
Lemma source_ref_in_run n r p k l : source n r p = (k, MRef l) -> k <> KDefault -> In l (run_refs r).
Proof.
  unfold source, run_refs. intros H Hk.
  destruct (dget (r_state r) p) as [v|] eqn:E1.
  { inversion H; subst. apply in_or_app. left. eapply dget_refs. exact E1. }
  destruct (dget (r_provided r) p) as [v|] eqn:E2.
  { inversion H; subst. apply in_or_app. right. apply in_or_app. left. eapply dget_refs. exact E2. }
  destruct (dget (r_bound r) p) as [v|] eqn:E3.
  { inversion H; subst. apply in_or_app. right. apply in_or_app. right. eapply dget_refs. exact E3. }
  destruct (dget (m_defaults n) p); inversion H; subst; congruence.
Qed.

(* every reference a source can yield is allocated *)
Definition wf_src (h : mheap) (n : mnode) (r : mrun) : Prop := forall p l, snd (source n r p) = MRef l -> l < length h.

Section Resolve.
  Variables (n : mnode) (r : mrun).

  Lemma resolve_one_spec h p h' x : resolve_one h n r p = (h', x) ->
    (exists s, h' = h ++ s) /\
    ((fst x = KDefault /\ exists l, snd x = MRef l /\ length h <= l < length h' /\
                          exists l0, source n r p = (KDefault, MRef l0) /\ cell_of h' l = cell_of h l0) \/
     (x = source n r p /\ (fst x <> KDefault \/ exists z, snd x = MInt z)) /\ h' = h).
  Proof.
    unfold resolve_one. destruct (source n r p) as [k v] eqn:E. destruct k; try (intros H; inversion H; subst; split;
      [exists []; rewrite app_nil_r; reflexivity|right; split; [split; [reflexivity|left; discriminate]|reflexivity]]).
    destruct v as [z|l0].
    - intros H; inversion H; subst. split; [exists []; rewrite app_nil_r; reflexivity|].
      right. split; [split; [reflexivity|right; exists z; reflexivity]|reflexivity].
    - intros H; inversion H; subst. split; [exists [cell_of h l0]; reflexivity|]. left. split; [reflexivity|].
      exists (length h). split; [reflexivity|]. rewrite app_length. simpl. split; [lia|]. exists l0. split; [reflexivity|].
      unfold cell_of at 1. rewrite app_nth2 by lia. rewrite Nat.sub_diag. reflexivity.
  Qed.

  (* the references received: fresh copies for defaults, the run's own references otherwise *)
  Definition recv_ok (h0 : mheap) (rc : received) : Prop :=
    forall p k l, In (p, (k, MRef l)) rc -> (k = KDefault /\ length h0 <= l) \/ (k <> KDefault /\ source n r p = (k, MRef l)).

  Lemma resolve_all_spec ps : forall h h' rc, resolve_all h n r ps = (h', rc) ->
    (exists s, h' = h ++ s) /\ recv_ok h rc /\ map fst rc = ps.
  Proof.
    induction ps as [|p ps IH]; intros h h' rc H; simpl in H.
    - inversion H; subst. split; [exists []; rewrite app_nil_r; reflexivity|]. split; [intros p k l []|reflexivity].
    - destruct (resolve_one h n r p) as [h1 x] eqn:E1. destruct (resolve_all h1 n r ps) as [h2 rest] eqn:E2.
      inversion H; subst. destruct (resolve_one_spec _ _ _ _ E1) as [[s1 ->] Hx]. destruct (IH _ _ _ E2) as [[s2 ->] [Hr Hm]].
      split; [exists (s1 ++ s2); rewrite app_assoc; reflexivity|]. split; [|simpl; rewrite Hm; reflexivity].
      intros q k l [Hin|Hin].
      + inversion Hin; subst. destruct Hx as [[Hk [l' [Hl [Hrange _]]]]|[[Hx1 Hx2] _]].
        * left. simpl in *. subst. inversion Hl; subst. split; [reflexivity|lia].
        * right. destruct Hx2 as [Hk|[z Hz]]; [|simpl in Hz; discriminate]. split; [exact Hk|]. symmetry. exact Hx1.
      + destruct (Hr q k l Hin) as [[A B]|[A B]]; [left|right; split; assumption]. split; [exact A|]. rewrite app_length in B. lia.
  Qed.

  (* what the body sees on entry: the contents, in the heap BEFORE the call, of what its parameters denote *)
  Lemma resolve_all_contents ps : forall h0 s h' rc, wf_src h0 n r -> resolve_all (h0 ++ s) n r ps = (h', rc) ->
    (forall l, l < length h0 -> cell_of (h0 ++ s) l = cell_of h0 l) ->
    contents h' rc = map (fun p => deref h0 (snd (source n r p))) ps.
  Proof.
    induction ps as [|p ps IH]; intros h0 s h' rc Hwf H Hpre; simpl in H.
    - inversion H; subst. reflexivity.
    - destruct (resolve_one (h0 ++ s) n r p) as [h1 x] eqn:E1. destruct (resolve_all h1 n r ps) as [h2 rest] eqn:E2.
      inversion H; subst. destruct (resolve_one_spec _ _ _ _ E1) as [[s1 E] Hx]. subst h1. rewrite <- app_assoc in E2.
      destruct (resolve_all_spec _ _ _ _ E2) as [[s2 E'] _].
      assert (Hpre' : forall l, l < length h0 -> cell_of (h0 ++ s ++ s1) l = cell_of h0 l).
      { intros l Hl. rewrite cell_of_app_l by exact Hl. reflexivity. }
      unfold contents. simpl. f_equal; [|apply (IH h0 (s ++ s1) h' rest Hwf E2 Hpre')].
      subst h'. destruct Hx as [[Hk [l' [Hl [Hrange [l0 [Hsrc Hcell]]]]]]|[[Hx1 Hx2] _]].
      + rewrite Hl, Hsrc. simpl.
        assert (L0 : l0 < length h0) by (apply (Hwf p l0); rewrite Hsrc; reflexivity).
        rewrite cell_of_app_l by (rewrite <- app_assoc in Hrange; lia).
        rewrite (app_assoc h0 s s1), Hcell. apply Hpre. exact L0.
      + rewrite Hx1. destruct (snd (source n r p)) as [z|l] eqn:Es; [reflexivity|]. simpl.
        assert (L : l < length h0) by (apply (Hwf p l); exact Es).
        rewrite <- app_assoc. apply cell_of_app_l. exact L.
  Qed.
End Resolve.

Lemma recv_get_In rc p v : recv_get rc p = Some v -> exists k, In (p, (k, v)) rc.
Proof.
  unfold recv_get. destruct (find _ rc) as [[q [k v']]|] eqn:E; [|discriminate]. intros H. inversion H; subst.
  apply find_some in E. destruct E as [E1 E2]. simpl in E2. apply Pos.eqb_eq in E2. subst. exists k. exact E1.
Qed.

Lemma mutate_length rc tag muts : forall h, length (mutate h rc muts tag) = length h.
Proof.
  induction muts as [|p muts IH]; intros h; simpl; [reflexivity|]. rewrite IH.
  destruct (recv_get rc p) as [[z|l]|]; try reflexivity. apply set_cell_length.
Qed.

Lemma mutate_frame rc tag l muts : forall h,
  (forall p, In p muts -> recv_get rc p <> Some (MRef l)) -> cell_of (mutate h rc muts tag) l = cell_of h l.
Proof.
  induction muts as [|p muts IH]; intros h H; simpl; [reflexivity|].
  rewrite IH by (intros q Hq; apply H; right; exact Hq).
  destruct (recv_get rc p) as [[z|l']|] eqn:E; try reflexivity.
  apply cell_of_set_cell_ne. intros ->. apply (H p (or_introl eq_refl)). exact E.
Qed.

(* ---------------- one call ---------------- *)

Definition mut_defaults_only (n : mnode) (r : mrun) : Prop := forall p, In p (m_mutates n) -> fst (source n r p) = KDefault.

Lemma exec_call_frame h r n h' r' c : exec_call h r n = (h', r', c) ->
  length h <= length h' /\
  forall l, l < length h ->
    (forall p k, In p (m_mutates n) -> source n r p = (k, MRef l) -> k = KDefault) ->
    cell_of h' l = cell_of h l.
Proof.
  unfold exec_call. destruct (resolve_all h n r (m_inputs n)) as [h1 rc] eqn:E. intros H. inversion H; subst. clear H.
  destruct (resolve_all_spec n r _ _ _ _ E) as [[s ->] [Hr _]]. split; [rewrite mutate_length, app_length; lia|].
  intros l Hl Hsafe. rewrite mutate_frame; [apply cell_of_app_l, Hl|].
  intros p Hp Hget. apply recv_get_In in Hget. destruct Hget as [k Hin].
  destruct (Hr p k l Hin) as [[_ B]|[A B]]; [lia|]. apply A. eapply Hsafe; [exact Hp|exact B].
Qed.

Lemma exec_call_run h r n h' r' c : exec_call h r n = (h', r', c) ->
  r_provided r' = r_provided r /\ r_bound r' = r_bound r /\ forall l, In l (run_refs r') -> In l (run_refs r).
Proof.
  unfold exec_call. destruct (resolve_all h n r (m_inputs n)) as [h1 rc]. intros H. inversion H; subst. simpl.
  split; [reflexivity|]. split; [reflexivity|]. unfold run_refs. simpl. intros l Hl. apply in_app_or in Hl. apply in_or_app.
  destruct Hl as [Hl|Hl]; [left; eapply refs_dset_int; exact Hl|right; exact Hl].
Qed.

Lemma exec_call_sees h0 s r n h' r' c : wf_src h0 n r ->
  (forall l, l < length h0 -> cell_of (h0 ++ s) l = cell_of h0 l) ->
  exec_call (h0 ++ s) r n = (h', r', c) ->
  c_before c = map (fun p => deref h0 (snd (source n r p))) (m_inputs n).
Proof.
  intros Hwf Hpre. unfold exec_call. destruct (resolve_all (h0 ++ s) n r (m_inputs n)) as [h1 rc] eqn:E. intros H. inversion H; subst.
  simpl. eapply resolve_all_contents; eassumption.
Qed.

(* (B) identity of what is received *)
Theorem received_identity h r n h' r' c p k v : exec_call h r n = (h', r', c) -> In (p, (k, v)) (c_received c) ->
  match k with
  | KDefault => match v with MRef l => length h <= l | MInt _ => source n r p = (k, v) end   (* a fresh object, never the default itself *)
  | _ => source n r p = (k, v)                                                                (* the very same value / object *)
  end.
Proof.
  unfold exec_call. destruct (resolve_all h n r (m_inputs n)) as [h1 rc] eqn:E. intros H Hin. inversion H; subst. simpl in Hin. clear H.
  revert h h1 rc E Hin. induction (m_inputs n) as [|q ps IH]; intros h h1 rc E Hin; simpl in E.
  - inversion E; subst. destruct Hin.
  - destruct (resolve_one h n r q) as [h2 x] eqn:E1. destruct (resolve_all h2 n r ps) as [h3 rest] eqn:E2. inversion E; subst.
    destruct (resolve_one_spec _ _ _ _ _ _ E1) as [[s1 ->] Hx]. destruct Hin as [Hin|Hin].
    + inversion Hin; subst. destruct Hx as [[Hk [l' [Hl [Hrange _]]]]|[[Hx1 Hx2] _]].
      * simpl in Hk, Hl. subst. lia.
      * rewrite <- Hx1. simpl. destruct k; try reflexivity. destruct v; [reflexivity|]. destruct Hx2 as [Hc|[z Hz]]; [simpl in Hc; congruence|simpl in Hz; discriminate].
    + specialize (IH _ _ _ E2 Hin). destruct k; try exact IH. destruct v; [exact IH|]. rewrite app_length in IH. lia.
Qed.

(* ---------------- any interleaving of any number of runs ---------------- *)

Lemma In_set_run rs i r x : In x (set_run rs i r) -> x = r \/ In x rs.
Proof.
  revert i. induction rs as [|y rs IH]; intros [|i]; simpl; auto.
  - intros [H|H]; auto.
  - intros [H|H]; auto. destruct (IH i H); auto.
Qed.

Definition all_refs (rs : list mrun) : list mloc := flat_map run_refs rs.

(* (A) *)
Theorem untouched_unless_referenced sched : forall h rs h' rs' tr,
  exec_sched h rs sched = (h', rs', tr) ->
  length h <= length h' /\
  (forall l, In l (all_refs rs') -> In l (all_refs rs)) /\
  forall l, l < length h -> ~ In l (all_refs rs) -> cell_of h' l = cell_of h l.
Proof.
  induction sched as [|[i n] sched IH]; intros h rs h' rs' tr H; simpl in H.
  - inversion H; subst. split; [lia|]. split; [auto|]. reflexivity.
  - destruct (nth_error rs i) as [r|] eqn:Er; [|apply (IH _ _ _ _ _ H)].
    destruct (exec_call h r n) as [[h1 r1] c] eqn:Ec. destruct (exec_sched h1 (set_run rs i r1) sched) as [[h2 rs2] cs] eqn:Es.
    inversion H; subst. destruct (exec_call_frame _ _ _ _ _ _ Ec) as [L1 F1]. destruct (exec_call_run _ _ _ _ _ _ Ec) as [_ [_ R1]].
    destruct (IH _ _ _ _ _ Es) as [L2 [R2 F2]].
    assert (Hr : In r rs) by (eapply nth_error_In; exact Er).
    assert (Sub : forall l, In l (all_refs (set_run rs i r1)) -> In l (all_refs rs)).
    { intros l Hl. unfold all_refs in *. apply in_flat_map in Hl. destruct Hl as [x [Hx Hl]]. apply In_set_run in Hx.
      apply in_flat_map. destruct Hx as [->|Hx]; [exists r; split; [exact Hr|apply R1, Hl]|exists x; split; assumption]. }
    split; [lia|]. split; [intros l Hl; apply Sub, R2, Hl|].
    intros l Hl Hno. rewrite F2; [|lia|intros Hin; apply Hno, Sub, Hin].
    apply F1; [exact Hl|]. intros p k Hp Hsrc. destruct k; try reflexivity; exfalso; apply Hno; unfold all_refs; apply in_flat_map;
      exists r; (split; [exact Hr|]); eapply source_ref_in_run; try exact Hsrc; discriminate.
Qed.

(* (C) *)
Theorem caller_mappings_never_written sched : forall h rs h' rs' tr,
  exec_sched h rs sched = (h', rs', tr) ->
  map r_provided rs' = map r_provided rs /\ map r_bound rs' = map r_bound rs.
Proof.
  induction sched as [|[i n] sched IH]; intros h rs h' rs' tr H; simpl in H.
  - inversion H; subst. split; reflexivity.
  - destruct (nth_error rs i) as [r|] eqn:Er; [|apply (IH _ _ _ _ _ H)].
    destruct (exec_call h r n) as [[h1 r1] c] eqn:Ec. destruct (exec_sched h1 (set_run rs i r1) sched) as [[h2 rs2] cs] eqn:Es.
    inversion H; subst. destruct (exec_call_run _ _ _ _ _ _ Ec) as [P [B _]]. destruct (IH _ _ _ _ _ Es) as [A1 A2].
    rewrite A1, A2. clear -Er P B. revert i Er. induction rs as [|x rs IHr]; intros [|i] Er; simpl in *; try discriminate.
    + inversion Er; subst. rewrite P, B. split; reflexivity.
    + destruct (IHr i Er) as [C1 C2]. rewrite C1, C2. split; reflexivity.
Qed.

(* (S) *)
Definition wf_all (h : mheap) (rs : list mrun) (sched : list (nat * mnode)) : Prop :=
  (forall l, In l (all_refs rs) -> l < length h) /\
  (forall i n p l, In (i, n) sched -> dget (m_defaults n) p = Some (MRef l) -> l < length h).

Lemma wf_src_of h rs r n : In r rs -> (forall l, In l (all_refs rs) -> l < length h) ->
  (forall p l, dget (m_defaults n) p = Some (MRef l) -> l < length h) -> wf_src h n r.
Proof.
  intros Hr H1 H2 p l Hs. destruct (source n r p) as [k v] eqn:E. simpl in Hs. subst v. destruct k.
  - apply H1. apply in_flat_map. exists r. split; [exact Hr|]. eapply source_ref_in_run; [exact E|discriminate].
  - apply H1. apply in_flat_map. exists r. split; [exact Hr|]. eapply source_ref_in_run; [exact E|discriminate].
  - apply H1. apply in_flat_map. exists r. split; [exact Hr|]. eapply source_ref_in_run; [exact E|discriminate].
  - apply (H2 p l). unfold source in E. destruct (dget (r_state r) p); [inversion E|]. destruct (dget (r_provided r) p); [inversion E|].
    destruct (dget (r_bound r) p); [inversion E|]. destruct (dget (m_defaults n) p) as [v|]; inversion E; subst. reflexivity.
  - unfold source in E. destruct (dget (r_state r) p); [inversion E|]. destruct (dget (r_provided r) p); [inversion E|].
    destruct (dget (r_bound r) p); [inversion E|]. destruct (dget (m_defaults n) p) as [v|]; inversion E.
Qed.

Theorem isolated_when_only_defaults_are_mutated sched : forall h0 s rs h' rs' tr,
  wf_all h0 rs sched ->
  (forall l, l < length h0 -> cell_of (h0 ++ s) l = cell_of h0 l) ->
  exec_sched (h0 ++ s) rs sched = (h', rs', tr) ->
  (forall st, In st tr -> mut_defaults_only (s_node st) (s_before st)) ->
  (forall l, l < length h0 -> cell_of h' l = cell_of h0 l) /\
  (forall st, In st tr ->
     c_before (s_call st) = map (fun p => deref h0 (snd (source (s_node st) (s_before st) p))) (m_inputs (s_node st))).
Proof.
  induction sched as [|[i n] sched IH]; intros h0 s rs h' rs' tr Hwf Hpre H Hmut; simpl in H.
  - inversion H; subst. split; [exact Hpre|intros st []].
  - destruct Hwf as [W1 W2].
    assert (Hwf' : forall rs0, (forall l, In l (all_refs rs0) -> l < length h0) -> wf_all h0 rs0 sched).
    { intros rs0 A. split; [exact A|]. intros j m p l Hin. apply (W2 j m p l). right. exact Hin. }
    destruct (nth_error rs i) as [r|] eqn:Er; [|apply (IH h0 s rs h' rs' tr (Hwf' rs W1) Hpre H Hmut)].
    destruct (exec_call (h0 ++ s) r n) as [[h1 r1] c] eqn:Ec. destruct (exec_sched h1 (set_run rs i r1) sched) as [[h2 rs2] cs] eqn:Es.
    inversion H; subst. assert (Hr : In r rs) by (eapply nth_error_In; exact Er).
    pose proof (Hmut (mk_step i r n c) (or_introl eq_refl)) as M0. simpl in M0.
    destruct (exec_call_frame _ _ _ _ _ _ Ec) as [L1 F1]. destruct (exec_call_run _ _ _ _ _ _ Ec) as [_ [_ R1]].
    (* the call leaves every pre-existing cell alone *)
    assert (Hpre1 : forall l, l < length h0 -> cell_of h1 l = cell_of h0 l).
    { intros l Hl. rewrite F1; [apply Hpre, Hl|rewrite app_length; lia|].
      intros p k Hp Hsrc. specialize (M0 p Hp). rewrite Hsrc in M0. exact M0. }
    (* h1 is an extension of h0 as far as the first |h0| cells are concerned: re-express it as h0 ++ s1 *)
    assert (Hlen : length h0 <= length h1) by (rewrite app_length in L1; lia).
    set (s1 := skipn (length h0) h1).
    assert (Eh1 : h1 = h0 ++ s1).
    { unfold s1. rewrite <- (firstn_skipn (length h0) h1) at 1. f_equal.
      apply nth_ext with (d := []) (d' := []); [rewrite firstn_length; lia|].
      intros k Hk. rewrite firstn_length in Hk. assert (k < length h0) by lia.
      rewrite nth_firstn_lt by lia. apply (Hpre1 k). lia. }
    assert (Sub : forall l, In l (all_refs (set_run rs i r1)) -> l < length h0).
    { intros l Hl. unfold all_refs in Hl. apply in_flat_map in Hl. destruct Hl as [x [Hx Hl]]. apply In_set_run in Hx.
      apply W1. apply in_flat_map. destruct Hx as [->|Hx]; [exists r; split; [exact Hr|apply R1, Hl]|exists x; split; assumption]. }
    rewrite Eh1 in Es. rewrite Eh1 in Hpre1.
    destruct (IH h0 s1 _ _ _ _ (Hwf' _ Sub) Hpre1 Es (fun st Hst => Hmut st (or_intror Hst))) as [A B].
    split; [exact A|]. intros st [<-|Hst]; [|apply B, Hst]. simpl.
    eapply exec_call_sees; [|exact Hpre|exact Ec].
    eapply wf_src_of; [exact Hr|exact W1|]. intros p l Hd. apply (W2 i n p l); [left; reflexivity|exact Hd].
Qed.
