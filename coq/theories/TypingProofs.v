(* TypingProofs.v — the fuel of Typing.compat is irrelevant: compat is a fixed point of the one-step rule table
   (compat_unfold), so every documented rule holds as an equation for type expressions of any depth. *)
From HG Require Import Base Typing.
From Coq Require Import Lia.

Section TyInd.
  Variable P : ty -> Prop.
  Hypothesis HCls : forall c args, Forall P args -> P (TCls c args).
  Hypothesis HAny : P TAny.
  Hypothesis HUnion : forall ts, Forall P ts -> P (TUnion ts).
  Hypothesis HAnnot : forall t m, P t -> P (TAnnot t m).
  Hypothesis HVar : forall i cs b, Forall P cs -> (forall t, b = Some t -> P t) -> P (TVar i cs b).
  Hypothesis HNoAnn : P TNoAnn.
  Hypothesis HUnres : forall s, P (TUnres s).

  Fixpoint ty_ind2 (t : ty) : P t :=
    let fix all (l : list ty) : Forall P l :=
      match l with [] => Forall_nil P | x :: l' => Forall_cons x (ty_ind2 x) (all l') end in
    match t with
    | TCls c args => HCls c args (all args)
    | TAny => HAny
    | TUnion ts => HUnion ts (all ts)
    | TAnnot t m => HAnnot t m (ty_ind2 t)
    | TVar i cs b => HVar i cs b (all cs)
                       (match b as b0 return forall t, b0 = Some t -> P t with
                        | Some t0 => fun t e => match e in _ = o return match o with Some x => P x | None => True end with eq_refl => ty_ind2 t0 end
                        | None => fun t e => match e in _ = o return match o with Some x => P x | None => True end with eq_refl => I end
                        end)
    | TNoAnn => HNoAnn
    | TUnres s => HUnres s
    end.
End TyInd.

Lemma ty_eqb_refl t : ty_eqb t t = true.
Proof.
  induction t as [c args IH| |ts IH|t m IH|i cs b _ _| |s] using ty_ind2; simpl.
  - rewrite Pos.eqb_refl. simpl. induction IH as [|x l Hx _ IHl]; [reflexivity|]. rewrite Hx, IHl. reflexivity.
  - reflexivity.
  - assert (H : forall l, (forall x, In x ts -> In x l) -> forallb (fun x => existsb (ty_eqb x) l) ts = true).
    { intros l Hl. apply forallb_forall. intros x Hx. apply existsb_exists. exists x. split; [apply Hl, Hx|].
      rewrite Forall_forall in IH. apply IH, Hx. }
    rewrite H by auto. simpl. apply forallb_forall. intros y Hy. apply existsb_exists. exists y. split; [exact Hy|].
    rewrite Forall_forall in IH. apply IH, Hy.
  - rewrite IH, Pos.eqb_refl. reflexivity.
  - apply Pos.eqb_refl.
  - reflexivity.
  - apply Pos.eqb_refl.
Qed.

Lemma in_size_lt (x : ty) l : In x l -> ty_size x <= list_sum (map ty_size l).
Proof. induction l as [|y l IH]; intros H; [destruct H|]. simpl. destruct H as [->|H]; [lia|]. specialize (IH H). lia. Qed.

Lemma forallb_ext_in {A} (f g : A -> bool) l : (forall x, In x l -> f x = g x) -> forallb f l = forallb g l.
Proof. induction l as [|x l IH]; intros H; [reflexivity|]. simpl. rewrite H by (left; reflexivity). rewrite IH; [reflexivity|]. intros; apply H; right; assumption. Qed.

Lemma existsb_ext_in {A} (f g : A -> bool) l : (forall x, In x l -> f x = g x) -> existsb f l = existsb g l.
Proof. induction l as [|x l IH]; intros H; [reflexivity|]. simpl. rewrite H by (left; reflexivity). rewrite IH; [reflexivity|]. intros; apply H; right; assumption. Qed.

Lemma in_combine_both {A B} (l1 : list A) (l2 : list B) a b : In (a, b) (combine l1 l2) -> In a l1 /\ In b l2.
Proof. intros H. split; [eapply in_combine_l|eapply in_combine_r]; exact H. Qed.

Section Proofs.
  Variable sub : positive -> positive -> bool.
  Variable any_id : positive.
  Notation step := (compat_step sub any_id).
  Notation compat := (compat sub any_id).
  Notation compat_f := (compat_f sub any_id).

  Definition agree_below (rec1 rec2 : ty -> ty -> bool) (i r : ty) : Prop :=
    forall i' r', ty_size i' + ty_size r' < ty_size i + ty_size r -> rec1 i' r' = rec2 i' r'.

  Lemma cls_of_size i c a : cls_of any_id i = Some (c, a) -> list_sum (map ty_size a) < ty_size i.
  Proof. destruct i; simpl; intros H; inversion H; subst; simpl; lia. Qed.

  Lemma generic_ext rec1 rec2 i r : agree_below rec1 rec2 i r -> generic_step sub any_id rec1 i r = generic_step sub any_id rec2 i r.
  Proof.
    intros H. unfold generic_step. destruct (cls_of any_id i) as [[ci ai]|] eqn:Hi; [|reflexivity].
    destruct (cls_of any_id r) as [[cr ar]|] eqn:Hr; [|reflexivity].
    destruct (sub ci cr); [|reflexivity]. destruct (is_nil ai || is_nil ar); [reflexivity|].
    destruct (Nat.eqb _ _); [|reflexivity]. apply forallb_ext_in. intros [a b] Hin. simpl.
    apply in_combine_both in Hin. destruct Hin as [Ha Hb]. apply H.
    apply in_size_lt in Ha. apply in_size_lt in Hb. apply cls_of_size in Hi. apply cls_of_size in Hr. lia.
  Qed.

  Lemma structural_ext rec1 rec2 i r : agree_below rec1 rec2 i r -> structural_step sub any_id rec1 i r = structural_step sub any_id rec2 i r.
  Proof.
    intros H. pose proof (generic_ext rec1 rec2 i r H) as Hg.
    assert (Hu1 : forall xs, i = TUnion xs -> forall x, In x xs -> ty_size x < ty_size i).
    { intros xs -> x Hx. apply in_size_lt in Hx. simpl. lia. }
    assert (Hu2 : forall ys, r = TUnion ys -> forall y, In y ys -> ty_size y < ty_size r).
    { intros ys -> y Hy. apply in_size_lt in Hy. simpl. lia. }
    unfold structural_step.
    destruct i as [ci ai| |xs|pi mi|vi csi bi| |si]; destruct r as [cr ar| |ys|pr mr|vr csr br| |sr];
      try exact Hg;
      try (apply forallb_ext_in; intros x Hx; apply H; specialize (Hu1 _ eq_refl x Hx); simpl in *; lia);
      try (apply existsb_ext_in; intros y Hy; apply H; specialize (Hu2 _ eq_refl y Hy); simpl in *; lia);
      try (apply H; simpl; lia).
    apply forallb_ext_in. intros x Hx. apply existsb_ext_in. intros y Hy. apply H.
    specialize (Hu1 _ eq_refl x Hx). specialize (Hu2 _ eq_refl y Hy). lia.
  Qed.

  Lemma typevar_ext rec1 rec2 i r v cs b : r = TVar v cs b -> agree_below rec1 rec2 i r ->
    typevar_step rec1 i cs b = typevar_step rec2 i cs b.
  Proof.
    intros -> H. unfold typevar_step.
    assert (Hc : existsb (rec1 i) cs = existsb (rec2 i) cs).
    { apply existsb_ext_in. intros c Hc. apply H. apply in_size_lt in Hc. simpl. lia. }
    assert (Hb : forall t, b = Some t -> rec1 i t = rec2 i t).
    { intros t ->. apply H. simpl. lia. }
    destruct cs as [|c cs'].
    - destruct b as [t|]; [|reflexivity]. simpl. apply Hb. reflexivity.
    - rewrite Hc. destruct (negb (is_nil (c :: cs')) && existsb (rec2 i) (c :: cs')); [reflexivity|].
      destruct b as [t|]; [apply Hb; reflexivity|reflexivity].
  Qed.

  Lemma step_ext rec1 rec2 i r : agree_below rec1 rec2 i r -> step rec1 i r = step rec2 i r.
  Proof.
    intros H. unfold compat_step. destruct (is_tvar i); [reflexivity|].
    destruct (is_unres i || is_unres r); [reflexivity|].
    destruct (ty_eqb i r || is_any r || is_noann i || is_noann r); [reflexivity|].
    pose proof (structural_ext rec1 rec2 i r H) as Hs.
    destruct r as [cr ar| |ys|pr mr|vr csr br| |sr]; try exact Hs.
    eapply typevar_ext; [reflexivity|exact H].
  Qed.

  Lemma fuel_irrelevant n : forall m i r, ty_size i + ty_size r < n -> ty_size i + ty_size r < m -> compat_f n i r = compat_f m i r.
  Proof.
    induction n as [|n IH]; intros m i r Hn Hm; [lia|]. destruct m as [|m]; [lia|]. simpl.
    apply step_ext. intros i' r' Hlt. apply IH; lia.
  Qed.

  Lemma ty_size_pos t : 0 < ty_size t.
  Proof. destruct t; simpl; lia. Qed.

  (* the judgement is a fixed point of the rule table *)
  Theorem compat_unfold i r : compat i r = step compat i r.
  Proof.
    unfold Typing.compat at 1. simpl. apply step_ext. intros i' r' Hlt. unfold Typing.compat.
    apply fuel_irrelevant; [exact Hlt|lia].
  Qed.

  (* ---------------- the documented rules ---------------- *)

  Theorem compat_refl t : compat t t = true.
  Proof.
    rewrite compat_unfold. unfold compat_step. destruct (is_tvar t); [reflexivity|].
    destruct (is_unres t || is_unres t); [reflexivity|]. rewrite ty_eqb_refl. reflexivity.
  Qed.

  Theorem compat_any_required i : compat i TAny = true.
  Proof.
    rewrite compat_unfold. unfold compat_step. destruct (is_tvar i); [reflexivity|].
    destruct (is_unres i || is_unres TAny); [reflexivity|]. simpl. rewrite Bool.orb_true_r. reflexivity.
  Qed.

  Theorem compat_no_annotation i r : i = TNoAnn \/ r = TNoAnn -> compat i r = true.
  Proof.
    intros H. rewrite compat_unfold. unfold compat_step. destruct (is_tvar i); [reflexivity|].
    destruct (is_unres i || is_unres r); [reflexivity|].
    destruct H as [-> | ->]; simpl; rewrite ?Bool.orb_true_r; reflexivity.
  Qed.

  Theorem compat_unresolvable i r : is_unres i = true \/ is_unres r = true -> compat i r = true.
  Proof.
    intros H. rewrite compat_unfold. unfold compat_step. destruct (is_tvar i); [reflexivity|].
    destruct H as [H|H]; rewrite H; rewrite ?Bool.orb_true_r; reflexivity.
  Qed.

  Theorem compat_typevar_incoming v cs b r : compat (TVar v cs b) r = true.
  Proof. rewrite compat_unfold. reflexivity. Qed.

  (* "plain" = a class (possibly parameterised) or Any-as-incoming: none of the special forms *)
  Definition plain (t : ty) : bool := match t with TCls _ _ => true | _ => false end.

  Theorem compat_union_incoming xs r : plain r = true ->
    compat (TUnion xs) r = forallb (fun x => compat x r) xs.
  Proof. intros H. rewrite compat_unfold. destruct r; try discriminate. reflexivity. Qed.

  Theorem compat_union_required i ys : plain i = true ->
    compat i (TUnion ys) = existsb (compat i) ys.
  Proof. intros H. rewrite compat_unfold. destruct i; try discriminate. reflexivity. Qed.

  Theorem compat_union_both xs ys :
    compat (TUnion xs) (TUnion ys) = ty_eqb (TUnion xs) (TUnion ys) || forallb (fun x => existsb (compat x) ys) xs.
  Proof.
    rewrite compat_unfold. unfold compat_step. cbn [is_tvar is_unres is_any is_noann orb].
    rewrite !Bool.orb_false_r. destruct (ty_eqb (TUnion xs) (TUnion ys)); reflexivity.
  Qed.

  Theorem compat_generic ci ai cr ar :
    compat (TCls ci ai) (TCls cr ar) =
    ty_eqb (TCls ci ai) (TCls cr ar) ||
    (sub ci cr && (is_nil ai || is_nil ar ||
                   (Nat.eqb (length ai) (length ar) && forallb (fun p => compat (fst p) (snd p)) (combine ai ar)))).
  Proof.
    rewrite compat_unfold. unfold compat_step. cbn [is_tvar is_unres is_any is_noann orb].
    rewrite !Bool.orb_false_r. destruct (ty_eqb (TCls ci ai) (TCls cr ar)); [reflexivity|].
    cbn [orb structural_step]. unfold generic_step. cbn [cls_of]. destruct (sub ci cr); [|reflexivity].
    cbn [andb]. destruct (is_nil ai || is_nil ar); [reflexivity|]. cbn [orb].
    destruct (Nat.eqb (length ai) (length ar)); reflexivity.
  Qed.

  (* subclassing is the unparameterised instance *)
  Corollary compat_classes ci cr : compat (TCls ci []) (TCls cr []) = Pos.eqb ci cr || sub ci cr.
  Proof.
    rewrite compat_generic. cbn [ty_eqb is_nil orb andb]. rewrite Bool.andb_true_r, Bool.andb_true_r. reflexivity.
  Qed.

  Theorem compat_annotated_incoming t m r : plain r = true -> compat (TAnnot t m) r = compat t r.
  Proof. intros H. rewrite compat_unfold. destruct r; try discriminate. reflexivity. Qed.

  Theorem compat_annotated_required i t m : plain i = true -> compat i (TAnnot t m) = compat i t.
  Proof. intros H. rewrite compat_unfold. destruct i; try discriminate. reflexivity. Qed.

  Theorem compat_annotated_both t m t' m' :
    compat (TAnnot t m) (TAnnot t' m') = (ty_eqb t t' && Pos.eqb m m') || compat t t'.
  Proof.
    rewrite compat_unfold. unfold compat_step. cbn [is_tvar is_unres is_any is_noann orb ty_eqb].
    rewrite !Bool.orb_false_r. destruct (ty_eqb t t' && Pos.eqb m m'); reflexivity.
  Qed.

  Theorem compat_typevar_required i v cs b : plain i = true ->
    compat i (TVar v cs b) =
    match cs, b with
    | [], None => true
    | _, _ => (negb (is_nil cs) && existsb (compat i) cs) || match b with Some t => compat i t | None => false end
    end.
  Proof.
    intros H. rewrite compat_unfold. destruct i as [ci ai| | | | | |]; try discriminate. unfold compat_step.
    cbn [is_tvar is_unres is_any is_noann orb ty_eqb]. unfold typevar_step.
    destruct cs as [|c cs']; destruct b as [t|]; try reflexivity;
      destruct (negb (is_nil (c :: cs')) && existsb (compat (TCls ci ai)) (c :: cs')); reflexivity.
  Qed.
End Proofs.
