(* NestedPause.v — which nodes can pause (C14): in the model's own executor only an InterruptNode, or a nested-graph node whose
   inner graph holds one at some depth, ever returns a pause - i.e. exactly the nodes run_superstep_async runs alone
   (Engine.is_interrupt) once the flags of the nested-graph nodes are the computed ones (Nested.graphnode_of).  This discharges
   the hypothesis of InterruptProofs.pausing_step_calls_only_the_pausing_node for the asynchronous runner at every nesting depth. *)
From HG Require Import Base Rename Engine Exec Nested NestedProofs EngineProofs InterruptProofs.
From stdpp Require Import gmap.

Lemma exec_basic_nopause ft gt n st ins p : exec_basic ft gt n st ins <> OPause p.
Proof.
  unfold exec_basic. destruct (dget ft (n_fn n)) as [f|]; [|discriminate].
  destruct (n_kind n) as [|gi| |]; try discriminate.
  - destruct (eval_fexp f (n_ndata n) ins); try discriminate. destruct (wrap_outputs n v); discriminate.
  - destruct (dget gt (n_name n)) as [gc|]; [|discriminate].
    destruct (eval_fexp f 0 ins); try discriminate; destruct (gc_is_ifelse gc); try discriminate.
    destruct (route_decide gi gc d); discriminate.
Qed.

(* the flags of the nested-graph nodes say what their inner graphs hold, at every level below *)
Fixpoint wf_flags (d : nat) (ng : ngraph) {struct d} : Prop :=
  match d with
  | O => True
  | S d' =>
      match ng with
      | NG g _ _ _ _ subs =>
          forall n, In n (g_nodes g) -> n_kind n = KGraph ->
            match dget subs (n_name n) with
            | Some (NSub inner _ _ _ _) =>
                is_interrupt n = existsb is_interrupt (g_nodes (ng_graph inner)) /\ wf_flags d' inner
            | None => True
            end
      end
  end.

Lemma isolate_incl rd x : In x (isolate rd) -> In x rd.
Proof.
  unfold isolate. destruct (List.filter is_interrupt rd) as [|i l] eqn:E; [auto|].
  intros [<-|[]]. assert (Hi : In i (List.filter is_interrupt rd)) by (rewrite E; left; reflexivity).
  apply filter_In in Hi. apply Hi.
Qed.

Lemma async_pause_source exec g snap pv rd pi p acc calls :
  superstep_async exec g snap pv rd pi = (SPause p acc, calls) ->
  exists n ins, In n rd /\ exec n snap ins = OPause p.
Proof.
  unfold superstep_async. intros H.
  destruct (first_failure exec g snap pv (isolate rd)) as [[e|q]|] eqn:Ef; try discriminate.
  injection H as <- _ _.
  destruct (first_failure_pause _ _ _ _ _ _ Ef) as (n & Hn & Hp).
  unfold run_one in Hp. destruct (collect_inputs g snap pv n (n_inputs n)) as [ins|]; [|discriminate].
  exists n, ins. split; [apply isolate_incl; exact Hn | exact Hp].
Qed.

Theorem only_flagged_nodes_pause : forall d g sel eps ft gt subs,
  wf_flags d (NG g sel eps ft gt subs) ->
  forall n st ins p, In n (g_nodes g) -> exec_ng d Async ft gt subs n st ins = OPause p -> is_interrupt n = true.
Proof.
  induction d as [|d' IH]; intros g sel eps ft gt subs Hwf n st ins p Hn Hp.
  - cbn [exec_ng] in Hp. unfold is_interrupt. destruct (n_kind n) eqn:Hk; try reflexivity;
      try (exfalso; exact (exec_basic_nopause _ _ _ _ _ _ Hp)); discriminate.
  - cbn [exec_ng] in Hp. destruct (n_kind n) eqn:Hk;
      try (exfalso; exact (exec_basic_nopause _ _ _ _ _ _ Hp)).
    + unfold is_interrupt. rewrite Hk. reflexivity.
    + cbn [wf_flags] in Hwf. specialize (Hwf n Hn Hk).
      destruct (dget subs (n_name n)) as [[[ig isel ieps ift igt isubs] hin hout co mc]|]; [|discriminate].
      destruct Hwf as [Hflag Hwf']. cbn [ng_graph] in Hflag.
      destruct mc as [cfg|].
      * destruct (generate_map_inputs (map_inputs_to_params hin ins) (gn_original_params hin (mc_over cfg)) (mc_mode cfg)); [discriminate|].
        match type of Hp with context [collect_as_lists ?a ?b ?c ?e] => destruct (collect_as_lists a b c e) end; discriminate.
      * destruct (fst (execute (exec_ng d' Async ift igt isubs) Async default_max_iterations ig (map_inputs_to_params hin ins))) as [s|e s|q s] eqn:Er;
          try discriminate.
        unfold execute in Er.
        destruct (paused_state _ _ _ _ _ _ _ _ _ Er) as (k & sk & s2 & calls & _ & _ & Hss & _).
        cbn [superstep] in Hss.
        destruct (async_pause_source _ _ _ _ _ _ _ _ _ Hss) as (m & mins & Hm & Hmp).
        apply ready_list_r0 in Hm. destruct Hm as [Hm _].
        rewrite Hflag. apply existsb_exists. exists m. split; [exact Hm|].
        eapply (IH ig isel ieps ift igt isubs Hwf' m _ mins q Hm). exact Hmp.
Qed.

(* with the computed flags, the pausing step of the asynchronous runner called the pausing node and no other - no hypothesis on
   the executor left *)
Theorem model_pausing_step_calls_only_the_pausing_node d g sel eps ft gt subs snap pv rd pi p acc calls :
  wf_flags d (NG g sel eps ft gt subs) -> (forall n, In n rd -> In n (g_nodes g)) ->
  superstep_async (exec_ng d Async ft gt subs) g snap pv rd pi = (SPause p acc, calls) ->
  exists i, isolate rd = [i] /\ is_interrupt i = true /\
            calls = match fst (run_one (exec_ng d Async ft gt subs) g snap pv i) with Some ins => [(n_name i, ins)] | None => [] end.
Proof.
  intros Hwf Hrd H.
  destruct (pausing_step_calls_only_the_pausing_node (exec_ng d Async ft gt subs) g snap pv rd pi p acc calls) as (i & Hi & Hint & _ & Hc); [|exact H|eauto].
  intros n q Hn Hq. unfold run_one in Hq. destruct (collect_inputs g snap pv n (n_inputs n)) as [ins|]; [|discriminate].
  exact (only_flagged_nodes_pause d g sel eps ft gt subs Hwf n snap ins q (Hrd n Hn) Hq).
Qed.

(* non-vacuity: the example of InterruptProofs (a sibling beside a nested graph that holds an interrupt) has well-formed flags *)
Example hold_outer_wf : wf_flags 3 hold_outer.
Proof.
  unfold hold_outer, mk_ng. cbn [wf_flags]. intros n Hn Hk.
  cbn [g_nodes] in Hn. destruct Hn as [<-|[<-|[<-|[]]]]; try discriminate Hk.
  vm_compute. split; [reflexivity|]. intros n [<-|[]] Hk'. discriminate Hk'.
Qed.
