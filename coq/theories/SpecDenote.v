(* SpecDenote.v — the SPEC side of C01/C05: a plain dependency-order evaluator,
   independent of versions, staleness, supersteps and readiness.  A node is
   settled once every in-graph producer of its inputs is settled; it then runs
   iff each argument resolves from (first available) an upstream output, a
   run-time value, a bound value, a node default; otherwise it is skipped and
   contributes nothing. *)
From HG Require Import Base Engine.
From stdpp Require Import gmap.

Section Denote.
  Variable exec : node -> state -> dict val -> outcome.

  Record denv := mk_denv {
    d_vals : dict val;            (* outputs of evaluated nodes *)
    d_settled : list name;        (* nodes evaluated or skipped *)
    d_ran : list (name * dict val) (* evaluated nodes with the arguments they received *) }.

  Definition producers_of (g : graph) (p : name) : list name :=
    map n_name (List.filter (fun m => pos_in p (n_outputs m)) (g_nodes g)).

  Definition can_settle (g : graph) (env : denv) (n : node) : bool :=
    forallb (fun p => forallb (fun m => pos_in m (d_settled env) || Pos.eqb m (n_name n)) (producers_of g p))
            (n_inputs n ++ n_wait n).

  Definition dresolve (g : graph) (env : denv) (pv : dict val) (n : node) (p : name) : option val :=
    match dget (d_vals env) p with
    | Some v => Some v
    | None => match dget pv p with
              | Some v => Some v
              | None => match dget (g_bound g) p with
                        | Some v => Some v
                        | None => dget (n_defval n) p
                        end
              end
    end.

  Fixpoint dcollect (g : graph) (env : denv) (pv : dict val) (n : node) (ps : list name) : option (dict val) :=
    match ps with
    | [] => Some []
    | p :: ps' => match dresolve g env pv n p, dcollect g env pv n ps' with
                  | Some v, Some rest => Some ((p, v) :: rest)
                  | _, _ => None
                  end
    end.

  Definition settle (g : graph) (pv : dict val) (env : denv) (n : node) : denv :=
    if pos_in (n_name n) (d_settled env) then env
    else if negb (can_settle g env n) then env
    else
      let skipped := mk_denv (d_vals env) (n_name n :: d_settled env) (d_ran env) in
      (* an ordering-only input must have been produced for the node to run *)
      if negb (forallb (fun s => dmem (d_vals env) s) (n_wait n)) then skipped
      else match dcollect g env pv n (n_inputs n) with
           | None => skipped
           | Some ins =>
               match exec n empty_state ins with
               | OOk outs _ => mk_denv (dupdate (d_vals env) outs) (n_name n :: d_settled env)
                                       (d_ran env ++ [(n_name n, ins)])
               | _ => skipped
               end
           end.

  Definition dround (g : graph) (pv : dict val) (env : denv) : denv :=
    fold_left (settle g pv) (g_nodes g) env.

  Fixpoint drounds (k : nat) (g : graph) (pv : dict val) (env : denv) : denv :=
    match k with O => env | S k' => drounds k' g pv (dround g pv env) end.

  Definition denote (g : graph) (pv : dict val) : denv :=
    drounds (length (g_nodes g)) g pv (mk_denv [] [] []).

  (* what a run must return: the denoted values of the graph's outputs, sentinels excluded *)
  Definition denote_values (g : graph) (pv : dict val) : dict val :=
    let env := denote g pv in
    flat_map (fun k => match dget (d_vals env) k with
                       | Some v => if not_sentinel v then [(k, v)] else []
                       | None => [] end) (graph_outputs g).
End Denote.
