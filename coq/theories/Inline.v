(* Inline.v — C05: a nested graph behaves exactly like its nodes inlined, at the level of the dataflow equations (C01's Sol).
   `go` is an outer graph containing a wrapper node `w` whose function is "run the inner graph `gi`"; `gf` is the flat graph
   obtained by replacing `w` with the nodes of `gi`.  Whenever the wrapper's inputs are present,
     - every solution of the nested system is a solution of the flat system (inline_nested_to_flat), hence - the flat
       system having at most one solution (C01_unique) - the values of a completed nested run ARE the values of the
       completed flat run (nested_equals_flat);
     - conversely every solution of the flat system is a solution of the nested one (inline_flat_to_nested), when the
       inner graph is acyclic.
   The wrapper's renames are the identity here: what renames do at the boundary is C05_boundary_inputs / _outputs. *)
From HG Require Import Base Engine EngineProofs C01Proofs.
From stdpp Require Import gmap.

Section Inline.
  Variables exec_i exec_o : node -> state -> dict val -> outcome.
  Variables gi go : graph.
  Variable w : node.
  Variable pv : dict val.

  Definition others : list node := List.filter (fun n => negb (Pos.eqb (n_name n) (n_name w))) (g_nodes go).
  Definition gf : graph := mk_graph (others ++ g_nodes gi) (g_bound go) None.
  Definition inner (n : node) : bool := pos_in (n_name n) (node_names gi).
  Definition exec_f (n : node) (st : state) (ins : dict val) : outcome :=
    if inner n then exec_i n st ins else exec_o n st ins.

  Definition inner_outputs : list name := all_outputs gi.

  (* `outs` is what the wrapper returns for the inner valuation Vi: every exposed output, with the inner value *)
  Definition Reads (Vi : gmap name val) (outs : dict val) : Prop :=
    (forall o v, In (o, v) outs -> Vi !! o = Some v) /\
    (forall o, In o (n_outputs w) -> exists v, In (o, v) outs).

  (* ---- the shape of the wrapper ---- *)
  Hypothesis Hw_in : In w (g_nodes go).
  Hypothesis Hnames_o : List.NoDup (map n_name (g_nodes go)).
  Hypothesis Hdisj : forall n, In n (g_nodes go) -> inner n = false.
  Hypothesis Hw_outs : forall o, In o (n_outputs w) <-> In o inner_outputs.
  Hypothesis Hw_ins : forall n p, In n (g_nodes gi) -> In p (n_inputs n) -> In p inner_outputs \/ In p (n_inputs w).

  Lemma inner_true n : In n (g_nodes gi) -> inner n = true.
  Proof. intros H. unfold inner, node_names. apply pos_in_In. apply in_map. exact H. Qed.

  Lemma same_name n : In n (g_nodes go) -> n_name n = n_name w -> n = w.
  Proof.
    intros Hn E.
    clear -Hn Hw_in Hnames_o E. induction (g_nodes go) as [|a l IH]; [contradiction|].
    simpl in Hnames_o. inversion Hnames_o as [|? ? Hni Hnd]; subst.
    destruct Hn as [->|Hn], Hw_in as [->|Hw]; auto.
    - exfalso. apply Hni. rewrite E. apply in_map. exact Hw.
    - exfalso. apply Hni. rewrite <- E. apply in_map. exact Hn.
  Qed.

  Lemma in_others n : In n (g_nodes go) -> n <> w -> In n others.
  Proof.
    intros Hn Hne. unfold others. apply filter_In. split; [exact Hn|].
    apply negb_true_iff, Pos.eqb_neq. intros E. apply Hne. apply same_name; assumption.
  Qed.

  Lemma others_in n : In n others -> In n (g_nodes go) /\ n <> w.
  Proof.
    unfold others. intros H. apply filter_In in H as [Hn Hb]. split; [exact Hn|].
    intros ->. rewrite Pos.eqb_refl in Hb. discriminate.
  Qed.

  (* resolution and availability look at the graph only through its bound values *)
  Lemma has_input_bound g1 g2 s n p : g_bound g1 = g_bound g2 -> has_input g1 s n p = has_input g2 s n p.
  Proof. intros E. unfold has_input. rewrite E. reflexivity. Qed.

  Lemma avail_bound g1 g2 V n : g_bound g1 = g_bound g2 -> avail g1 V n <-> avail g2 V n.
  Proof.
    intros E. unfold avail. assert (H : forall l, forallb (has_input g1 (st_of V) n) l = forallb (has_input g2 (st_of V) n) l).
    { induction l as [|p l IH]; simpl; [reflexivity|]. rewrite (has_input_bound g1 g2 _ _ _ E), IH. reflexivity. }
    rewrite H. reflexivity.
  Qed.

  Lemma collect_bound g1 g2 s pv' n ps : g_bound g1 = g_bound g2 ->
    collect_inputs g1 s pv' n ps = collect_inputs g2 s pv' n ps.
  Proof.
    intros E. induction ps as [|p ps IH]; simpl; [reflexivity|]. unfold resolve. rewrite E, IH. reflexivity.
  Qed.

  (* what collect_inputs returns: the resolved value of every listed parameter, and nothing else *)
  Lemma collect_dget g s pv' n ps ins : collect_inputs g s pv' n ps = Some ins ->
    forall p, dget ins p = if pos_in p ps then resolve g s pv' n p else None.
  Proof.
    revert ins. induction ps as [|q ps IH]; intros ins H p; simpl in *.
    - injection H as <-. reflexivity.
    - destruct (resolve g s pv' n q) as [v|] eqn:Er; [|discriminate].
      destruct (collect_inputs g s pv' n ps) as [rest|]; [|discriminate]. injection H as <-.
      simpl. rewrite (Pos.eqb_sym p q). destruct (Pos.eqb q p) eqn:E.
      + apply Pos.eqb_eq in E. subst q. simpl. exact (eq_sym Er).
      + simpl. apply IH. reflexivity.
  Qed.

  Lemma present_resolve g V pv' n p v : V !! p = Some v -> resolve g (st_of V) pv' n p = Some v.
  Proof. intros H. unfold resolve. simpl. rewrite H. reflexivity. Qed.

  Lemma present_has_input g V n p v : V !! p = Some v -> has_input g (st_of V) n p = true.
  Proof. intros H. unfold has_input. simpl. rewrite H. reflexivity. Qed.

  Lemma present_collect g V pv' n ps :
    (forall p, In p ps -> exists v, V !! p = Some v) ->
    exists ins, collect_inputs g (st_of V) pv' n ps = Some ins.
  Proof.
    induction ps as [|p ps IH]; intros H; simpl; [eauto|].
    destruct (H p (or_introl eq_refl)) as [v Hv]. rewrite (present_resolve g V pv' n p v Hv).
    destruct IH as [rest Hr]; [intros q Hq; apply H; right; exact Hq|]. rewrite Hr. eauto.
  Qed.

  Lemma present_avail g V n : (forall p, In p (n_inputs n) -> exists v, V !! p = Some v) -> avail g V n.
  Proof.
    intros H. unfold avail. apply forallb_forall. intros p Hp. destruct (H p Hp) as [v Hv].
    exact (present_has_input g V n p v Hv).
  Qed.

  (* two collections over valuations that agree on the (present) parameters coincide *)
  Lemma collect_agree g1 g2 V1 V2 pv1 pv2 n ps :
    (forall p, In p ps -> exists v, V1 !! p = Some v /\ V2 !! p = Some v) ->
    collect_inputs g1 (st_of V1) pv1 n ps = collect_inputs g2 (st_of V2) pv2 n ps.
  Proof.
    induction ps as [|p ps IH]; intros H; simpl; [reflexivity|].
    destruct (H p (or_introl eq_refl)) as [v [H1 H2]].
    rewrite (present_resolve g1 V1 pv1 n p v H1), (present_resolve g2 V2 pv2 n p v H2).
    rewrite IH by (intros q Hq; apply H; right; exact Hq). reflexivity.
  Qed.

  Lemma in_inner_outputs o : In o inner_outputs <-> exists m, In m (g_nodes gi) /\ In o (n_outputs m).
  Proof. unfold inner_outputs, all_outputs. rewrite in_flat_map. reflexivity. Qed.

  (* ================= nested ==> flat ================= *)
  Section NestedToFlat.
    (* the wrapper's function: when it returns, it returns the exposed values of a solution of the inner system *)
    Hypothesis Hexec_w : forall ins outs, map fst ins = n_inputs w -> exec_o w empty_state ins = OOk outs None ->
      exists Vi, Sol exec_i gi ins Vi /\ Reads Vi outs.

    Variable V : gmap name val.
    Hypothesis Hsol : Sol exec_o go pv V.
    Hypothesis Hpresent : forall p, In p (n_inputs w) -> exists v, V !! p = Some v.

    Lemma wrapper_ran : exists ins outs Vi,
      collect_inputs go (st_of V) pv w (n_inputs w) = Some ins /\
      Sol exec_i gi ins Vi /\ Reads Vi outs /\ (forall o v, In (o, v) outs -> V !! o = Some v).
    Proof.
      destruct (sol_nodes _ _ _ _ Hsol w Hw_in (present_avail go V w Hpresent)) as (ins & outs & Hc & He & Ho).
      destruct (Hexec_w ins outs (collect_keys _ _ _ _ _ _ Hc) He) as (Vi & HVi & HR). exists ins, outs, Vi. auto.
    Qed.

    (* the inner valuation is the outer one, seen from inside *)
    Lemma inner_view ins outs Vi :
      collect_inputs go (st_of V) pv w (n_inputs w) = Some ins ->
      Sol exec_i gi ins Vi -> Reads Vi outs -> (forall o v, In (o, v) outs -> V !! o = Some v) ->
      (forall x, In x (n_inputs w) \/ In x inner_outputs -> exists v, V !! x = Some v /\ Vi !! x = Some v) /\
      (forall x v, Vi !! x = Some v -> In x (n_inputs w) \/ In x inner_outputs).
    Proof.
      intros Hc HVi [HR1 HR2] Ho. split.
      - intros x [Hx|Hx].
        + destruct (Hpresent x Hx) as [v Hv]. exists v. split; [exact Hv|].
          apply (sol_provided _ _ _ _ HVi). rewrite (collect_dget _ _ _ _ _ _ Hc x).
          rewrite (proj2 (pos_in_In x (n_inputs w)) Hx). exact (present_resolve go V pv w x v Hv).
        + apply Hw_outs in Hx. destruct (HR2 x Hx) as [v Hv]. exists v. split; [exact (Ho x v Hv) | exact (HR1 x v Hv)].
      - intros x v Hx. destruct (sol_prov _ _ _ _ HVi x v Hx) as [Hp|(m & Hm & Hxo & _)].
        + left. rewrite (collect_dget _ _ _ _ _ _ Hc x) in Hp.
          destruct (pos_in x (n_inputs w)) eqn:E; [apply pos_in_In; exact E | discriminate].
        + right. apply in_inner_outputs. eauto.
    Qed.

    Theorem inline_nested_to_flat : Sol exec_f gf pv V.
    Proof.
      destruct wrapper_ran as (ins & outs & Vi & Hc & HVi & HR & Ho).
      destruct (inner_view ins outs Vi Hc HVi HR Ho) as [Hview Hdom].
      assert (Hinner_present : forall m p, In m (g_nodes gi) -> In p (n_inputs m) ->
                exists v, V !! p = Some v /\ Vi !! p = Some v).
      { intros m p Hm Hp. apply Hview. destruct (Hw_ins m p Hm Hp); auto. }
      constructor.
      - exact (sol_provided _ _ _ _ Hsol).
      - intros n Hn Hav. simpl in Hn. apply in_app_or in Hn as [Hn|Hn].
        + (* an outer node: unchanged *)
          destruct (others_in n Hn) as [Hno Hne].
          assert (Hav' : avail go V n) by (apply (avail_bound gf go V n eq_refl); exact Hav).
          destruct (sol_nodes _ _ _ _ Hsol n Hno Hav') as (ins' & outs' & Hc' & He' & Ho').
          exists ins', outs'. split; [|split; [|exact Ho']].
          * rewrite <- Hc'. apply collect_bound. reflexivity.
          * unfold exec_f. rewrite (Hdisj n Hno). exact He'.
        + (* an inner node: its equation in the inner system *)
          assert (Hav_i : avail gi Vi n).
          { apply present_avail. intros p Hp. destruct (Hinner_present n p Hn Hp) as (v & _ & Hv). eauto. }
          destruct (sol_nodes _ _ _ _ HVi n Hn Hav_i) as (ins' & outs' & Hc' & He' & Ho').
          exists ins', outs'. split; [|split].
          * rewrite <- Hc'. apply collect_agree. intros p Hp. destruct (Hinner_present n p Hn Hp) as (v & H1 & H2). eauto.
          * unfold exec_f. rewrite (inner_true n Hn). exact He'.
          * intros o v Hov. specialize (Ho' o v Hov). destruct (Hview o (Hdom o v Ho')) as (v' & HV & HVi').
            congruence.
      - intros x v Hx. destruct (sol_prov _ _ _ _ Hsol x v Hx) as [Hp|(n & Hn & Hxo & Hav)]; [left; exact Hp|].
        right. destruct (Pos.eq_dec (n_name n) (n_name w)) as [E|Hne'];
          [apply (same_name n Hn) in E; subst n | assert (Hne : n <> w) by (intros ->; apply Hne'; reflexivity)].
        + apply Hw_outs, in_inner_outputs in Hxo as (m & Hm & Hxm). exists m. split; [|split; [exact Hxm|]].
          * simpl. apply in_or_app. right. exact Hm.
          * apply present_avail. intros p Hp. destruct (Hinner_present m p Hm Hp) as (v' & Hv' & _). eauto.
        + exists n. split; [|split; [exact Hxo|]].
          * simpl. apply in_or_app. left. apply in_others; assumption.
          * apply (avail_bound gf go V n eq_refl). exact Hav.
    Qed.
  End NestedToFlat.

  (* ================= flat ==> nested ================= *)
  Section FlatToNested.
    (* what the wrapper returns for an inner valuation: every exposed output with its inner value *)
    Definition reads_of (Vi : gmap name val) : dict val :=
      flat_map (fun o => match Vi !! o with Some v => [(o, v)] | None => [] end) (n_outputs w).

    (* the wrapper's function: whenever the inner system has a solution in which every exposed output is present,
       it returns those values *)
    Hypothesis Hexec_w : forall ins Vi, Sol exec_i gi ins Vi ->
      (forall o, In o (n_outputs w) -> exists v, Vi !! o = Some v) ->
      exec_o w empty_state ins = OOk (reads_of Vi) None.
    (* the inner graph is acyclic and its functions return their declared outputs *)
    Hypothesis Hrank_i : exists rank : name -> nat, forall n m p, In n (g_nodes gi) -> In m (g_nodes gi) ->
      In p (n_inputs n) -> In p (n_outputs m) -> rank (n_name m) < rank (n_name n).
    Hypothesis Houts_i : forall n s ins outs dec, In n (g_nodes gi) -> map fst ins = n_inputs n ->
      exec_i n s ins = OOk outs dec -> map fst outs = n_outputs n.

    Variable V : gmap name val.
    Hypothesis Hsol : Sol exec_f gf pv V.
    Hypothesis Hpresent : forall p, In p (n_inputs w) -> exists v, V !! p = Some v.

    Lemma gf_inner m : In m (g_nodes gi) -> In m (g_nodes gf).
    Proof. intros H. simpl. apply in_or_app. right. exact H. Qed.

    (* (a) every inner node ran in the flat solution: all inner outputs are present *)
    Lemma inner_all_present : forall m o, In m (g_nodes gi) -> In o (n_outputs m) -> exists v, V !! o = Some v.
    Proof.
      destruct Hrank_i as [rank Hr].
      assert (G : forall k m, rank (n_name m) < k -> In m (g_nodes gi) ->
                  forall o, In o (n_outputs m) -> exists v, V !! o = Some v).
      { induction k as [|k IH]; intros m Hk Hm o Ho; [lia|].
        assert (Hins : forall p, In p (n_inputs m) -> exists v, V !! p = Some v).
        { intros p Hp. destruct (Hw_ins m p Hm Hp) as [Hio|Hiw]; [|exact (Hpresent p Hiw)].
          apply in_inner_outputs in Hio as (m' & Hm' & Hpo).
          apply (IH m'); [|exact Hm'|exact Hpo]. specialize (Hr m m' p Hm Hm' Hp Hpo). lia. }
        destruct (sol_nodes _ _ _ _ Hsol m (gf_inner m Hm) (present_avail gf V m Hins)) as (ins' & outs' & Hc' & He & Hov).
        unfold exec_f in He. rewrite (inner_true m Hm) in He.
        pose proof (Houts_i m _ _ _ _ Hm (collect_keys _ _ _ _ _ _ Hc') He) as Hfst.
        rewrite <- Hfst in Ho. apply in_map_iff in Ho as [[o' v] [E Hin]]. simpl in E. subst o'.
        exists v. exact (Hov o v Hin). }
      intros m o Hm Ho. exact (G (S (rank (n_name m))) m (Nat.lt_succ_diag_r _) Hm o Ho).
    Qed.

    Lemma inner_inputs_present m p : In m (g_nodes gi) -> In p (n_inputs m) -> exists v, V !! p = Some v.
    Proof.
      intros Hm Hp. destruct (Hw_ins m p Hm Hp) as [Hio|Hiw]; [|exact (Hpresent p Hiw)].
      apply in_inner_outputs in Hio as (m' & Hm' & Hpo). exact (inner_all_present m' p Hm' Hpo).
    Qed.

    (* (b) the inner valuation: the flat one restricted to what the inner graph sees *)
    Definition seen (x : name) : bool := pos_in x (n_inputs w) || pos_in x inner_outputs.
    Definition Vin : gmap name val := filter (fun kv => seen (fst kv) = true) V.

    Lemma Vin_lookup x v : Vin !! x = Some v <-> V !! x = Some v /\ seen x = true.
    Proof. unfold Vin. rewrite map_filter_lookup_Some. reflexivity. Qed.

    Lemma seen_spec x : seen x = true <-> In x (n_inputs w) \/ In x inner_outputs.
    Proof. unfold seen. rewrite orb_true_iff, !pos_in_In. reflexivity. Qed.

    Lemma Vin_inner_inputs m p : In m (g_nodes gi) -> In p (n_inputs m) -> exists v, V !! p = Some v /\ Vin !! p = Some v.
    Proof.
      intros Hm Hp. destruct (inner_inputs_present m p Hm Hp) as [v Hv]. exists v. split; [exact Hv|].
      apply Vin_lookup. split; [exact Hv|]. apply seen_spec. destruct (Hw_ins m p Hm Hp); auto.
    Qed.

    (* (c) it solves the inner system on the values the wrapper is called with *)
    Lemma Vin_sol ins : collect_inputs go (st_of V) pv w (n_inputs w) = Some ins -> Sol exec_i gi ins Vin.
    Proof.
      intros Hc. constructor.
      - intros x v Hx. rewrite (collect_dget _ _ _ _ _ _ Hc x) in Hx.
        destruct (pos_in x (n_inputs w)) eqn:E; [|discriminate]. apply pos_in_In in E.
        destruct (Hpresent x E) as [v' Hv']. rewrite (present_resolve go V pv w x v' Hv') in Hx. injection Hx as <-.
        apply Vin_lookup. split; [exact Hv'|]. apply seen_spec. left. exact E.
      - intros m Hm _.
        assert (Hins : forall p, In p (n_inputs m) -> exists v, V !! p = Some v).
        { intros p Hp. exact (inner_inputs_present m p Hm Hp). }
        destruct (sol_nodes _ _ _ _ Hsol m (gf_inner m Hm) (present_avail gf V m Hins)) as (ins' & outs' & Hc' & He & Hov).
        unfold exec_f in He. rewrite (inner_true m Hm) in He.
        exists ins', outs'. split; [|split; [exact He|]].
        + rewrite <- Hc'. apply collect_agree. intros p Hp. destruct (Vin_inner_inputs m p Hm Hp) as (v & H1 & H2). eauto.
        + intros o v Hin. apply Vin_lookup. split; [exact (Hov o v Hin)|]. apply seen_spec. right.
          apply in_inner_outputs. exists m. split; [exact Hm|]. rewrite <- (Houts_i m _ _ _ _ Hm (collect_keys _ _ _ _ _ _ Hc') He).
          apply in_map_iff. exists (o, v). auto.
      - intros x v Hx. apply Vin_lookup in Hx as [Hx Hs]. apply seen_spec in Hs.
        destruct (pos_in x (n_inputs w)) eqn:E.
        + left. rewrite (collect_dget _ _ _ _ _ _ Hc x), E. exact (present_resolve go V pv w x v Hx).
        + right. destruct Hs as [Hs|Hs]; [apply pos_in_In in Hs; congruence|].
          apply in_inner_outputs in Hs as (m & Hm & Hxo). exists m. split; [exact Hm|]. split; [exact Hxo|].
          apply present_avail. intros p Hp. destruct (Vin_inner_inputs m p Hm Hp) as (v' & _ & H2). eauto.
    Qed.

    Lemma reads_of_in Vi o v : In (o, v) (reads_of Vi) <-> In o (n_outputs w) /\ Vi !! o = Some v.
    Proof.
      unfold reads_of. rewrite in_flat_map. split.
      - intros (o' & Ho' & Hin). destruct (Vi !! o') as [v'|] eqn:E; [|contradiction].
        destruct Hin as [[= <- <-]|[]]. auto.
      - intros [Ho Hv]. exists o. split; [exact Ho|]. rewrite Hv. left. reflexivity.
    Qed.

    (* (d) *)
    Theorem inline_flat_to_nested : Sol exec_o go pv V.
    Proof.
      destruct (present_collect go V pv w (n_inputs w) Hpresent) as [ins Hc].
      pose proof (Vin_sol ins Hc) as HVi.
      assert (Hall : forall o, In o (n_outputs w) -> exists v, Vin !! o = Some v).
      { intros o Ho. pose proof Ho as Ho'. apply Hw_outs, in_inner_outputs in Ho as (m & Hm & Hom).
        destruct (inner_all_present m o Hm Hom) as [v Hv]. exists v. apply Vin_lookup. split; [exact Hv|].
        apply seen_spec. right. apply Hw_outs. exact Ho'. }
      constructor.
      - exact (sol_provided _ _ _ _ Hsol).
      - intros n Hn Hav. destruct (Pos.eq_dec (n_name n) (n_name w)) as [E|Hne'].
        + apply (same_name n Hn) in E. subst n. exists ins, (reads_of Vin). split; [exact Hc|]. split; [exact (Hexec_w ins Vin HVi Hall)|].
          intros o v Hin. apply reads_of_in in Hin as [_ Hv]. apply Vin_lookup in Hv as [Hv _]. exact Hv.
        + assert (Hne : n <> w) by (intros ->; apply Hne'; reflexivity).
          assert (Hnf : In n (g_nodes gf)) by (simpl; apply in_or_app; left; apply in_others; assumption).
          assert (Hav' : avail gf V n) by (apply (avail_bound gf go V n eq_refl); exact Hav).
          destruct (sol_nodes _ _ _ _ Hsol n Hnf Hav') as (ins' & outs' & Hc' & He' & Ho').
          exists ins', outs'. split; [|split; [|exact Ho']].
          * rewrite <- Hc'. apply collect_bound. reflexivity.
          * unfold exec_f in He'. rewrite (Hdisj n Hn) in He'. exact He'.
      - intros x v Hx. destruct (sol_prov _ _ _ _ Hsol x v Hx) as [Hp|(n & Hn & Hxo & Hav)]; [left; exact Hp|].
        right. simpl in Hn. apply in_app_or in Hn as [Hn|Hn].
        + destruct (others_in n Hn) as [Hno _]. exists n. split; [exact Hno|]. split; [exact Hxo|].
          apply (avail_bound gf go V n eq_refl). exact Hav.
        + exists w. split; [exact Hw_in|]. split; [|exact (present_avail go V w Hpresent)].
          apply Hw_outs, in_inner_outputs. eauto.
    Qed.
  End FlatToNested.

  (* ================= the values of the two systems coincide ================= *)
  Theorem nested_equals_flat Vn Vf :
    WF exec_f gf pv ->
    (forall ins outs, map fst ins = n_inputs w -> exec_o w empty_state ins = OOk outs None ->
       exists Vi, Sol exec_i gi ins Vi /\ Reads Vi outs) ->
    Sol exec_o go pv Vn -> (forall p, In p (n_inputs w) -> exists v, Vn !! p = Some v) ->
    Sol exec_f gf pv Vf -> Vn = Vf.
  Proof.
    intros Hwf Hex Hn Hp Hf. apply (Sol_unique exec_f gf pv Hwf); [|exact Hf].
    exact (inline_nested_to_flat Hex Vn Hn Hp).
  Qed.
End Inline.
