(* LoopProofs.v — C04: no repeated or extra iteration.  In every state a run reaches (any graph, either runner): when a
   gated node that has run before is scheduled again through a gate's decision, that decision was computed AFTER the node's
   previous run - provided the node's inputs are among the gate's inputs (the loop variable feeds both, as in
   `while P(x): x = body(x)`).  So each pass of the body needs a fresh decision of the gate: the body never runs twice on
   one decision, and never after a decision was invalidated. *)
From HG Require Import Base Engine EngineProofs NodeOrder Provenance.
From stdpp Require Import gmap.

Section Loop.
  Variable exec : node -> state -> dict val -> outcome.
  Variable g : graph.
  Variable pv : dict val.

  Local Notation app := (apply_success exec g).

  (* every execution record was taken from a past snapshot: recorded versions never exceed the current ones *)
  Definition RecLe (st : state) : Prop :=
    forall y r p v, execs st !! y = Some r -> dget (r_in r) p = Some v -> v <= ver st p.

  Lemma record_of_in snap n p v : dget (r_in (record_of snap n)) p = Some v -> v = ver snap p.
  Proof.
    unfold record_of. simpl. induction (n_inputs n) as [|q l IH]; simpl; [discriminate|].
    destruct (Pos.eqb q p) eqn:E; [apply Pos.eqb_eq in E; subst; intros [= <-]; reflexivity | exact IH].
  Qed.

  Lemma app_execs_val snap a n y r :
    execs (app snap pv a n) !! y = Some r -> execs a !! y = Some r \/ r = record_of snap n.
  Proof.
    unfold apply_success. destruct (snd (run_one exec g snap pv n)); auto.
    simpl. rewrite execs_apply_outputs. destruct (Pos.eq_dec (n_name n) y) as [<-|Hne].
    - rewrite lookup_insert. intros [= <-]. right. reflexivity.
    - rewrite lookup_insert_ne by exact Hne. auto.
  Qed.

  Lemma fold_app_execs_val snap rd : forall a y r,
    execs (fold_left (app snap pv) rd a) !! y = Some r ->
    execs a !! y = Some r \/ exists n, In n rd /\ r = record_of snap n.
  Proof.
    induction rd as [|n rd IH]; intros a y r H; simpl in *; [left; exact H|].
    destruct (IH _ _ _ H) as [H1|(m & Hm & ->)]; [|right; exists m; auto].
    apply app_execs_val in H1 as [H1| ->]; [left; exact H1 | right; exists n; auto].
  Qed.

  Lemma RecLe_le a b : le_st a b -> execs a = execs b -> RecLe a -> RecLe b.
  Proof.
    intros Hle He H y r p v Hy Hp. rewrite <- He in Hy. specialize (H y r p v Hy Hp).
    destruct (Hle p) as [Hv _]. lia.
  Qed.

  Lemma RecLe_superstep r snap rd b calls :
    RecLe snap -> superstep exec r g snap pv rd = (SOk b, calls) -> RecLe b.
  Proof.
    intros HR Hs.
    pose proof (superstep_le exec r g snap pv rd) as Hle. rewrite Hs in Hle. simpl in Hle.
    destruct (superstep_shape exec g pv r snap rd b calls Hs) as (rd' & pi & _ & Hb).
    destruct (write_decisions_same exec g snap pv pi snap) as [_ Hex].
    intros y rec p v Hy Hp. rewrite Hb in Hy. apply fold_app_execs_val in Hy as [Hy|(n & _ & ->)].
    - rewrite Hex in Hy. specialize (HR y rec p v Hy Hp). destruct (Hle p) as [Hv _]. lia.
    - apply record_of_in in Hp. subst v. destruct (Hle p) as [Hv _]. exact Hv.
  Qed.

  Lemma RecLe_init : RecLe (init_state pv).
  Proof.
    intros y r p v Hy _. unfold init_state in Hy. rewrite execs_apply_outputs in Hy. simpl in Hy.
    rewrite lookup_empty in Hy. discriminate.
  Qed.

  Lemma RecLe_steps r k a b : steps exec r g pv k a b -> RecLe a -> RecLe b.
  Proof.
    induction 1 as [a|k a b c calls Hne Hs _ IH]; intros Ha; [exact Ha|]. apply IH.
    apply (RecLe_superstep r _ _ _ _ (RecLe_le a _ (le_st_same_data _ _ (proj1 (ready_same g a))) (eq_sym (proj2 (ready_same g a))) Ha) Hs).
  Qed.

  (* C04_fresh_decision_per_pass *)
  Theorem rerun_needs_new_decision r k st t G gn rt :
    steps exec r g pv k (init_state pv) st ->
    In t (ready_list g st) ->
    controlled_by g (n_name t) = [G] ->
    In gn (g_nodes g) -> is_gate gn = true -> n_name gn = G ->
    (forall p, In p (n_inputs t) -> In p (n_inputs gn) /\ ~ In p (n_outputs gn)) ->
    execs (ready_state g st) !! n_name t = Some rt ->                 (* t has run before *)
    execs (ready_state g st) !! G <> None ->                          (* and so has the gate *)
    exists rG p, execs (ready_state g st) !! G = Some rG /\ In p (n_inputs t) /\
      default 0 (dget (r_in rt) p) < default 0 (dget (r_in rG) p).
  Proof.
    intros Hst Hin Hc Hgn Hgate HnG Hsub Hrt HG.
    set (st' := ready_state g st) in *.
    assert (HR : RecLe st').
    { apply (RecLe_le st _ (le_st_same_data _ _ (proj1 (ready_same g st))) (eq_sym (proj2 (ready_same g st)))).
      apply (RecLe_steps r k _ _ Hst). apply RecLe_init. }
    (* t is let through by a standing decision of G that names it *)
    assert (Hne : controlled_by g (n_name t) <> []) by (rewrite Hc; discriminate).
    destruct (ready_activation g st t Hin Hne) as (G' & HG' & Hact). rewrite Hc in HG'. destruct HG' as [<-|[]].
    fold st' in Hact. destruct Hact as [(d & Hd & Hnames)|(_ & Hnone & _)]; [|congruence].
    assert (HdE : d <> DEnd) by (intros ->; discriminate).
    pose proof (ready_decision_fresh g st G d gn Hd HdE Hgn Hgate HnG) as Hfresh. fold st' in Hfresh.
    destruct (execs st' !! G) as [rG|] eqn:ErG; [|congruence].
    unfold needs_execution in Hfresh. rewrite HnG, ErG in Hfresh.
    (* t itself is stale: one of its inputs changed since its last run *)
    destruct (ready_list_r0 g st t Hin) as (_ & _ & Hr). fold st' in Hr.
    unfold node_ready in Hr. apply andb_true_iff in Hr as [_ Hnx]. unfold needs_execution in Hnx. rewrite Hrt in Hnx.
    unfold is_stale in Hnx. apply existsb_exists in Hnx as (p & Hp & Hpx).
    assert (Hgt : gated g t = true) by (unfold gated; rewrite Hc; reflexivity).
    rewrite Hgt in Hpx. simpl in Hpx. apply negb_true_iff, Nat.eqb_neq in Hpx.
    destruct (Hsub p Hp) as [HpG HpnoG].
    (* the gate is up to date on p *)
    unfold is_stale in Hfresh.
    assert (HpGv : ver st' p = default 0 (dget (r_in rG) p)).
    { assert (Hall : forall q, In q (n_inputs gn) ->
                (if negb (gated g gn) && pos_in q (n_outputs gn) then false
                 else negb (Nat.eqb (ver st' q) (default 0 (dget (r_in rG) q)))) = false).
      { clear -Hfresh. intros q Hq. induction (n_inputs gn) as [|a l IH]; [contradiction|].
        simpl in Hfresh. apply orb_false_iff in Hfresh as [Ha Hl]. destruct Hq as [<-|Hq]; [exact Ha | apply IH; assumption]. }
      specialize (Hall p HpG).
      assert (Hno : pos_in p (n_outputs gn) = false) by (apply pos_in_nIn; exact HpnoG).
      rewrite Hno, andb_false_r in Hall. apply negb_false_iff, Nat.eqb_eq in Hall. exact Hall. }
    exists rG, p. split; [reflexivity|]. split; [exact Hp|].
    assert (Hle : default 0 (dget (r_in rt) p) <= ver st' p).
    { destruct (dget (r_in rt) p) as [v|] eqn:Ev; simpl; [apply (HR (n_name t) rt p v Hrt Ev) | lia]. }
    lia.
  Qed.
End Loop.
