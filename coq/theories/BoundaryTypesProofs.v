(* BoundaryTypesProofs.v — what strict_types checks on an edge that crosses nested-graph boundaries.
   1. edge_ok_spec:       the edge check passes iff EVERY offered (producer type, consumer type) pair is annotated and compatible
   2. in_types_leaves:    a GraphNode input offers exactly one type per inner LEAF consumer, wrapped in list[] once per mapping
                          level it sits under (nothing is skipped, nothing invented)
   3. edge_ok_perm:       the verdict does not depend on the order of the inner node lists (the defect repaired by ca83dea:
                          only the first inner consumer / last inner producer was looked at)
   Plain stdlib. *)
From HG Require Import Base Typing BoundaryTypes.
From Coq Require Import Permutation.

Section tnode_ind2.
  Variable P : tnode -> Prop.
  Hypothesis HLeaf : forall nm ins outs ity oty, P (TLeaf nm ins outs ity oty).
  Hypothesis HGraph : forall nm ins outs ch iren oren mo, Forall P ch -> P (TGraph nm ins outs ch iren oren mo).
  Fixpoint tnode_ind2 (t : tnode) : P t :=
    match t with
    | TLeaf nm ins outs ity oty => HLeaf nm ins outs ity oty
    | TGraph nm ins outs ch iren oren mo =>
        HGraph nm ins outs ch iren oren mo
          ((fix go (l : list tnode) : Forall P l :=
              match l with [] => Forall_nil P | c :: l' => Forall_cons c (tnode_ind2 c) (go l') end) ch)
    end.
End tnode_ind2.

Section Proofs.
  Variable list_id : positive.
  Variable sub : positive -> positive -> bool.
  Variable any_id : positive.

  Notation in_types := (in_types list_id).
  Notation out_types := (out_types list_id).
  Notation edge_ok := (edge_ok list_id sub any_id).
  Notation pair_ok := (pair_ok sub any_id).

  (* ---------------------------------------------------------------- 1 *)
  Lemma pair_ok_spec a b :
    pair_ok a b = true <-> exists x y, a = Some x /\ b = Some y /\ compat sub any_id x y = true.
  Proof.
    unfold BoundaryTypes.pair_ok. split.
    - destruct a as [x|], b as [y|]; try discriminate. intros H. exists x, y. auto.
    - intros (x & y & -> & -> & H). exact H.
  Qed.

  Theorem edge_ok_spec src dst v :
    edge_ok src dst v = true <->
    forall a b, In a (out_types src v) -> In b (in_types dst v) ->
                exists x y, a = Some x /\ b = Some y /\ compat sub any_id x y = true.
  Proof.
    unfold BoundaryTypes.edge_ok. rewrite forallb_forall. split.
    - intros H a b Ha Hb. specialize (H a Ha). rewrite forallb_forall in H. apply pair_ok_spec. apply H. exact Hb.
    - intros H a Ha. rewrite forallb_forall. intros b Hb. apply pair_ok_spec. apply H; assumption.
  Qed.

  (* ---------------------------------------------------------------- 2 *)
  Lemma or_default_nonempty {A} (l : list A) d : l <> [] -> or_default l d = l.
  Proof. destruct l; [congruence | reflexivity]. Qed.

  Lemma in_types_nonempty t p : in_types t p <> [].
  Proof.
    destruct t as [nm ins outs ity oty | nm ins outs ch iren oren mo].
    - cbn. discriminate.
    - rewrite in_types_graph. unfold or_default. destruct (map _ _); discriminate.
  Qed.

  Lemma gather_nonempty q ch :
    (exists c, In c ch /\ pos_in q (t_ins c) = true) -> gather in_types t_ins q ch <> [].
  Proof.
    intros (c & Hin & Hq). unfold gather. intros E.
    pose proof (in_types_nonempty c q) as Hne.
    destruct (in_types c q) as [|x xs] eqn:Ex; [congruence|].
    assert (Hx : In x (flat_map (fun c0 => if pos_in q (t_ins c0) then in_types c0 q else []) ch)).
    { apply in_flat_map. exists c. split; [exact Hin|]. rewrite Hq, Ex. left. reflexivity. }
    rewrite E in Hx. destruct Hx.
  Qed.

  Definition leaf_gather (q : name) (ch : list tnode) : list (nat * option ty) :=
    flat_map (fun c => if pos_in q (t_ins c) then leaf_consumers c q else []) ch.

  Lemma leaf_consumers_graph nm ins outs ch iren oren mo p :
    leaf_consumers (TGraph nm ins outs ch iren oren mo) p =
    map (fun e => ((if pos_in p mo then 1 else 0) + fst e, snd e)) (leaf_gather (ren iren p) ch).
  Proof.
    cbn [leaf_consumers]. unfold leaf_gather.
    match goal with |- map _ ?a = map _ ?b => assert (E : a = b) end.
    { induction ch as [|c ch IH]; [reflexivity|]. cbn [flat_map]. rewrite <- IH. reflexivity. }
    rewrite E. reflexivity.
  Qed.

  Lemma wf_in_graph nm ins outs ch iren oren mo p :
    wf_in (TGraph nm ins outs ch iren oren mo) p ->
    (exists c, In c ch /\ pos_in (ren iren p) (t_ins c) = true) /\
    (forall c, In c ch -> pos_in (ren iren p) (t_ins c) = true -> wf_in c (ren iren p)).
  Proof.
    cbn [wf_in]. intros [Hex Hall]. split; [exact Hex|]. clear Hex.
    induction ch as [|c0 ch IH]; [intros c []|].
    destruct Hall as [H0 Hrest]. intros c [<- | Hin]; [exact H0|]. apply IH; assumption.
  Qed.

  Definition unwrapped (e : nat * option ty) : option ty := wrap_n list_id (fst e) (snd e).

  Theorem in_types_leaves t : forall p, wf_in t p -> in_types t p = map unwrapped (leaf_consumers t p).
  Proof.
    induction t as [nm ins outs ity oty | nm ins outs ch iren oren mo IH] using tnode_ind2; intros p Hwf.
    - reflexivity.
    - apply wf_in_graph in Hwf. destruct Hwf as [Hex Hall].
      rewrite in_types_graph, leaf_consumers_graph.
      rewrite or_default_nonempty.
      2:{ intros E. apply map_eq_nil in E. revert E. apply gather_nonempty. exact Hex. }
      rewrite map_map.
      assert (G : gather in_types t_ins (ren iren p) ch = map unwrapped (leaf_gather (ren iren p) ch)).
      { unfold gather, leaf_gather. clear Hex.
        induction ch as [|c ch IHch]; [reflexivity|].
        cbn [flat_map]. rewrite map_app. inversion IH as [|? ? Hc Hrest]; subst.
        rewrite IHch; [|exact Hrest | intros c' Hin; apply Hall; right; exact Hin].
        f_equal. destruct (pos_in (ren iren p) (t_ins c)) eqn:E; [|reflexivity].
        apply Hc. apply Hall; [left; reflexivity | exact E]. }
      rewrite G, map_map. apply map_ext. intros [k o]. unfold unwrapped. cbn [fst snd].
      destruct (pos_in p mo); reflexivity.
  Qed.

  (* the producer side, likewise *)
  Lemma out_types_nonempty t o : out_types t o <> [].
  Proof.
    destruct t as [nm ins outs ity oty | nm ins outs ch iren oren mo].
    - cbn. discriminate.
    - rewrite out_types_graph. unfold or_default. destruct (map _ _); discriminate.
  Qed.

  Lemma gather_out_nonempty q ch :
    (exists c, In c ch /\ pos_in q (t_outs c) = true) -> gather out_types t_outs q ch <> [].
  Proof.
    intros (c & Hin & Hq). unfold gather. intros E.
    pose proof (out_types_nonempty c q) as Hne.
    destruct (out_types c q) as [|x xs] eqn:Ex; [congruence|].
    assert (Hx : In x (flat_map (fun c0 => if pos_in q (t_outs c0) then out_types c0 q else []) ch)).
    { apply in_flat_map. exists c. split; [exact Hin|]. rewrite Hq, Ex. left. reflexivity. }
    rewrite E in Hx. destruct Hx.
  Qed.

  Definition leaf_gather_out (q : name) (ch : list tnode) : list (nat * option ty) :=
    flat_map (fun c => if pos_in q (t_outs c) then leaf_producers c q else []) ch.

  Lemma leaf_producers_graph nm ins outs ch iren oren mo o :
    leaf_producers (TGraph nm ins outs ch iren oren mo) o =
    map (fun e => ((if is_nil mo then 0 else 1) + fst e, snd e)) (leaf_gather_out (ren oren o) ch).
  Proof.
    cbn [leaf_producers]. unfold leaf_gather_out.
    match goal with |- map _ ?a = map _ ?b => assert (E : a = b) end.
    { induction ch as [|c ch IH]; [reflexivity|]. cbn [flat_map]. rewrite <- IH. reflexivity. }
    rewrite E. reflexivity.
  Qed.

  Lemma wf_out_graph nm ins outs ch iren oren mo o :
    wf_out (TGraph nm ins outs ch iren oren mo) o ->
    (exists c, In c ch /\ pos_in (ren oren o) (t_outs c) = true) /\
    (forall c, In c ch -> pos_in (ren oren o) (t_outs c) = true -> wf_out c (ren oren o)).
  Proof.
    cbn [wf_out]. intros [Hex Hall]. split; [exact Hex|]. clear Hex.
    induction ch as [|c0 ch IH]; [intros c []|].
    destruct Hall as [H0 Hrest]. intros c [<- | Hin]; [exact H0|]. apply IH; assumption.
  Qed.

  Definition unwrapped_out (e : nat * option ty) : option ty := wrap_out_n list_id (fst e) (snd e).

  Theorem out_types_leaves t : forall o, wf_out t o -> out_types t o = map unwrapped_out (leaf_producers t o).
  Proof.
    induction t as [nm ins outs ity oty | nm ins outs ch iren oren mo IH] using tnode_ind2; intros o Hwf.
    - reflexivity.
    - apply wf_out_graph in Hwf. destruct Hwf as [Hex Hall].
      rewrite out_types_graph, leaf_producers_graph.
      rewrite or_default_nonempty.
      2:{ intros E. apply map_eq_nil in E. revert E. apply gather_out_nonempty. exact Hex. }
      rewrite map_map.
      assert (G : gather out_types t_outs (ren oren o) ch = map unwrapped_out (leaf_gather_out (ren oren o) ch)).
      { unfold gather, leaf_gather_out. clear Hex.
        induction ch as [|c ch IHch]; [reflexivity|].
        cbn [flat_map]. rewrite map_app. inversion IH as [|? ? Hc Hrest]; subst.
        rewrite IHch; [|exact Hrest | intros c' Hin; apply Hall; right; exact Hin].
        f_equal. destruct (pos_in (ren oren o) (t_outs c)) eqn:E; [|reflexivity].
        apply Hc. apply Hall; [left; reflexivity | exact E]. }
      rewrite G, map_map. apply map_ext. intros [k ot]. unfold unwrapped_out. cbn [fst snd].
      destruct (is_nil mo); reflexivity.
  Qed.

  (* 1 + 2: the edge check speaks about every LEAF producer and every LEAF consumer behind the two boundaries *)
  Theorem edge_ok_leaves src dst v :
    wf_out src v -> wf_in dst v ->
    (edge_ok src dst v = true <->
     forall e f, In e (leaf_producers src v) -> In f (leaf_consumers dst v) ->
                 exists x y, unwrapped_out e = Some x /\ unwrapped f = Some y /\ compat sub any_id x y = true).
  Proof.
    intros Ho Hi. rewrite edge_ok_spec, (out_types_leaves _ _ Ho), (in_types_leaves _ _ Hi). split.
    - intros H e f He Hf. apply H; apply in_map; assumption.
    - intros H a b Ha Hb. apply in_map_iff in Ha. apply in_map_iff in Hb.
      destruct Ha as (e & <- & He). destruct Hb as (f & <- & Hf). apply H; assumption.
  Qed.

  (* ---------------------------------------------------------------- 3 *)
  Lemma forallb_perm {A} (f : A -> bool) l l' : Permutation l l' -> forallb f l = forallb f l'.
  Proof.
    intros H. induction H as [|x l l' H IH | x y l | l l' l'' H1 IH1 H2 IH2]; cbn.
    - reflexivity.
    - rewrite IH. reflexivity.
    - destruct (f x), (f y); reflexivity.
    - congruence.
  Qed.

  Lemma or_default_perm {A} (l l' : list A) d : Permutation l l' -> Permutation (or_default l d) (or_default l' d).
  Proof.
    intros H. destruct l as [|x l].
    - apply Permutation_nil in H. subst. apply Permutation_refl.
    - destruct l' as [|y l']; [apply Permutation_sym, Permutation_nil in H; discriminate|]. exact H.
  Qed.

  Lemma gather_perm f sel q ch ch' : Permutation ch ch' -> Permutation (gather f sel q ch) (gather f sel q ch').
  Proof.
    intros H. unfold gather. induction H as [|x l l' H IH | x y l | l l' l'' H1 IH1 H2 IH2]; cbn [flat_map].
    - apply Permutation_refl.
    - apply Permutation_app_head. exact IH.
    - rewrite !app_assoc. apply Permutation_app_tail. apply Permutation_app_comm.
    - eapply Permutation_trans; eassumption.
  Qed.

  Lemma in_types_perm nm ins outs ch ch' iren oren mo p :
    Permutation ch ch' ->
    Permutation (in_types (TGraph nm ins outs ch iren oren mo) p) (in_types (TGraph nm ins outs ch' iren oren mo) p).
  Proof.
    intros H. rewrite !in_types_graph. apply or_default_perm, Permutation_map, gather_perm. exact H.
  Qed.

  Lemma out_types_perm nm ins outs ch ch' iren oren mo o :
    Permutation ch ch' ->
    Permutation (out_types (TGraph nm ins outs ch iren oren mo) o) (out_types (TGraph nm ins outs ch' iren oren mo) o).
  Proof.
    intros H. rewrite !out_types_graph. apply or_default_perm, Permutation_map, gather_perm. exact H.
  Qed.

  Lemma edge_ok_perm_lists (os os' is_ is' : list (option ty)) :
    Permutation os os' -> Permutation is_ is' ->
    forallb (fun a => forallb (pair_ok a) is_) os = forallb (fun a => forallb (pair_ok a) is') os'.
  Proof.
    intros Ho Hi. rewrite (forallb_perm _ _ _ Ho). clear Ho.
    induction os' as [|a os' IH]; [reflexivity|]. cbn [forallb]. rewrite IH. f_equal. apply forallb_perm. exact Hi.
  Qed.

  (* the consumer side is a nested graph whose inner node list is reordered *)
  Theorem edge_ok_perm_consumer src nm ins outs ch ch' iren oren mo v :
    Permutation ch ch' ->
    edge_ok src (TGraph nm ins outs ch iren oren mo) v = edge_ok src (TGraph nm ins outs ch' iren oren mo) v.
  Proof.
    intros H. unfold BoundaryTypes.edge_ok. apply edge_ok_perm_lists; [apply Permutation_refl | apply in_types_perm; exact H].
  Qed.

  (* the producer side is a nested graph whose inner node list is reordered *)
  Theorem edge_ok_perm_producer dst nm ins outs ch ch' iren oren mo v :
    Permutation ch ch' ->
    edge_ok (TGraph nm ins outs ch iren oren mo) dst v = edge_ok (TGraph nm ins outs ch' iren oren mo) dst v.
  Proof.
    intros H. unfold BoundaryTypes.edge_ok. apply edge_ok_perm_lists; [apply out_types_perm; exact H | apply Permutation_refl].
  Qed.
End Proofs.
