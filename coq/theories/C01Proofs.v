(* C01Proofs.v — acyclic, gate-free dataflow: every completed run ends in THE solution of
   the dataflow equations (partial correctness), for both runners and every executor that is
   a function of (node, arguments). *)
From HG Require Import Base Engine EngineProofs.
From stdpp Require Import gmap.

(* a bare value map seen as a state (only `vals` matters for resolution / availability) *)
Definition st_of (V : gmap name val) : state := mk_state V ∅ ∅ ∅.

Definition avail (g : graph) (V : gmap name val) (n : node) : Prop :=
  forallb (has_input g (st_of V) n) (n_inputs n) = true.

Lemma collect_keys g s pv n ps ins : collect_inputs g s pv n ps = Some ins -> map fst ins = ps.
Proof.
  revert ins. induction ps as [|q ps IH]; intros ins H; simpl in *; [injection H as <-; reflexivity|].
  destruct (resolve g s pv n q) as [v|]; [|discriminate].
  destruct (collect_inputs g s pv n ps) as [rest|]; [|discriminate]. injection H as <-.
  simpl. rewrite (IH rest eq_refl). reflexivity.
Qed.

Section C01.
  Variable exec : node -> state -> dict val -> outcome.
  Variable g : graph.
  Variable pv : dict val.

  Definition all_outputs : list name := flat_map n_outputs (g_nodes g).

  (* ---- the declarative specification: solutions of the dataflow equations ---- *)
  Record Sol (V : gmap name val) : Prop := {
    sol_provided : forall x v, dget pv x = Some v -> V !! x = Some v;
    sol_nodes : forall n, In n (g_nodes g) -> avail g V n ->
      exists ins outs, collect_inputs g (st_of V) pv n (n_inputs n) = Some ins /\
                       exec n empty_state ins = OOk outs None /\
                       forall o v, In (o, v) outs -> V !! o = Some v;
    sol_prov : forall x v, V !! x = Some v ->
      dget pv x = Some v \/ exists n, In n (g_nodes g) /\ In x (n_outputs n) /\ avail g V n }.

  (* ---- hypotheses: what "acyclic, gate-free, well-formed" means ---- *)
  Record WF : Prop := {
    wf_kinds : forall n, In n (g_nodes g) -> (n_kind n = KFunc \/ n_kind n = KGraph) /\ n_wait n = [];   (* no gates, no interrupts, no wait_for *)
    wf_active : g_active g = None;
    wf_names : List.NoDup (map n_name (g_nodes g));
    wf_unique : List.NoDup all_outputs;
    wf_rank : exists rank : name -> nat, forall n m p, In n (g_nodes g) -> In m (g_nodes g) ->
                In p (n_inputs n) -> In p (n_outputs m) -> rank (n_name m) < rank (n_name n);
    wf_pv : forall x, dmem pv x = true -> ~ In x all_outputs;
    wf_defs : forall n p, In n (g_nodes g) -> pos_in p (n_hasdef n) = dmem (n_defval n) p;
    wf_pure : forall n s1 s2 ins, In n (g_nodes g) -> exec n s1 ins = exec n s2 ins;
    wf_outs : forall n s ins outs dec, In n (g_nodes g) -> map fst ins = n_inputs n -> exec n s ins = OOk outs dec ->
                map fst outs = n_outputs n /\ dec = None;
    wf_nopause : forall n s ins p, In n (g_nodes g) -> exec n s ins <> OPause p;
    wf_noint : forall n, In n (g_nodes g) -> is_interrupt n = false }.   (* no nested graph holding an interrupt either: nothing is isolated *)

  Hypothesis Hwf : WF.

  (* ---------- small facts ---------- *)

  Lemma output_owner n m o :
    In n (g_nodes g) -> In m (g_nodes g) -> In o (n_outputs n) -> In o (n_outputs m) -> n = m.
  Proof.
    intros Hn Hm Hon Hom. pose proof (wf_unique Hwf) as Hu. unfold all_outputs in Hu.
    revert Hn Hm Hu. generalize (g_nodes g) as l. induction l as [|a l IH]; simpl; [contradiction|].
    intros Hn Hm Hu. apply NoDup_app_inv in Hu as (Ha & Hl & Hdis).
    destruct Hn as [->|Hn], Hm as [->|Hm]; auto.
    - exfalso. apply (Hdis o Hon). apply in_flat_map. eauto.
    - exfalso. apply (Hdis o Hom). apply in_flat_map. eauto.
  Qed.

  Lemma no_self_input n p : In n (g_nodes g) -> In p (n_inputs n) -> ~ In p (n_outputs n).
  Proof.
    intros Hn Hp Ho. destruct (wf_rank Hwf) as [rank Hr]. specialize (Hr n n p Hn Hn Hp Ho). lia.
  Qed.

  Lemma ungated n : In n (g_nodes g) -> controlled_by g (n_name n) = [].
  Proof.
    intros _. unfold controlled_by. destruct (pos_in _ _); [|reflexivity].
    assert (E : List.filter (fun m => is_gate m && pos_in (n_name n) (gate_targets m)) (g_nodes g) = []).
    { assert (G : forall l, (forall m, In m l -> In m (g_nodes g)) ->
                  List.filter (fun m => is_gate m && pos_in (n_name n) (gate_targets m)) l = []).
      { induction l as [|a l IH]; intros Hl; simpl; [reflexivity|].
        destruct (wf_kinds Hwf a (Hl a (or_introl eq_refl))) as [[Hk|Hk] _];
        unfold is_gate; rewrite Hk; simpl; apply IH; intros m Hm; apply Hl; right; exact Hm. }
      apply G. auto. }
    rewrite E. reflexivity.
  Qed.

  (* resolution only looks at the value of the parameter itself *)
  Lemma resolve_ext s1 s2 n p : vals s1 !! p = vals s2 !! p -> resolve g s1 pv n p = resolve g s2 pv n p.
  Proof. intros E. unfold resolve. rewrite E. reflexivity. Qed.

  Lemma collect_ext s1 s2 n ps :
    (forall p, In p ps -> vals s1 !! p = vals s2 !! p) ->
    collect_inputs g s1 pv n ps = collect_inputs g s2 pv n ps.
  Proof.
    induction ps as [|p ps IH]; intros H; simpl; [reflexivity|].
    rewrite (resolve_ext s1 s2 n p) by (apply H; left; reflexivity).
    rewrite IH by (intros q Hq; apply H; right; exact Hq). reflexivity.
  Qed.

  Lemma has_input_ext s1 s2 n p : vals s1 !! p = vals s2 !! p -> has_input g s1 n p = has_input g s2 n p.
  Proof. intros E. unfold has_input. rewrite E. reflexivity. Qed.

  (* a parameter that is available resolves (the KeyError branch is unreachable) *)
  Lemma has_input_resolves s n p :
    In n (g_nodes g) -> (forall x v, dget pv x = Some v -> vals s !! x = Some v) ->
    has_input g s n p = true -> exists v, resolve g s pv n p = Some v.
  Proof.
    intros Hn _ H. unfold has_input in H. unfold resolve.
    destruct (vals s !! p) as [v|]; [eauto|].
    destruct (dget pv p) as [v|]; [eauto|].
    apply orb_true_iff in H as [H|H].
    - unfold dmem in H. destruct (dget (g_bound g) p) as [v|]; [eauto | discriminate].
    - destruct (dget (g_bound g) p) as [v|]; [eauto|].
      rewrite (wf_defs Hwf n p Hn) in H. unfold dmem in H.
      destruct (dget (n_defval n) p) as [v|]; [eauto | discriminate].
  Qed.

  Lemma resolves_has_input s n p v :
    In n (g_nodes g) -> (forall x w, dget pv x = Some w -> vals s !! x = Some w) ->
    resolve g s pv n p = Some v -> has_input g s n p = true.
  Proof.
    intros Hn Hpv H. unfold resolve in H. unfold has_input.
    destruct (vals s !! p) as [w|] eqn:E; [reflexivity|].
    destruct (dget pv p) as [w|] eqn:Ep; [rewrite (Hpv _ _ Ep) in E; discriminate|].
    destruct (dget (g_bound g) p) as [w|] eqn:Eb; [unfold dmem; rewrite Eb; reflexivity|].
    rewrite (wf_defs Hwf n p Hn). unfold dmem at 2. rewrite H. apply orb_true_r.
  Qed.

  Lemma collect_some_iff s n ps :
    In n (g_nodes g) -> (forall x w, dget pv x = Some w -> vals s !! x = Some w) ->
    (exists ins, collect_inputs g s pv n ps = Some ins) <-> forallb (has_input g s n) ps = true.
  Proof.
    intros Hn Hpv. induction ps as [|p ps IH]; simpl.
    - split; [reflexivity | eauto].
    - rewrite andb_true_iff, <- IH. split.
      + intros [ins H]. destruct (resolve g s pv n p) as [v|] eqn:Er; [|discriminate].
        destruct (collect_inputs g s pv n ps) as [rest|]; [|discriminate].
        split; [eapply resolves_has_input; eauto | eauto].
      + intros [Hh [rest Hr]]. destruct (has_input_resolves s n p Hn Hpv Hh) as [v Hv].
        rewrite Hv, Hr. eauto.
  Qed.

  (* ---------- uniqueness of solutions ---------- *)

  Lemma ext_agree V1 V2 x : Sol V1 -> Sol V2 -> ~ In x all_outputs -> V1 !! x = V2 !! x.
  Proof.
    intros S1 S2 Hx.
    assert (G : forall Va Vb, Sol Va -> Sol Vb -> forall v, Va !! x = Some v -> Vb !! x = Some v).
    { intros Va Vb Sa Sb v H. destruct (sol_prov Va Sa x v H) as [Hp|(n & Hn & Ho & _)].
      - apply (sol_provided Vb Sb); exact Hp.
      - exfalso. apply Hx. apply in_flat_map. eauto. }
    destruct (V1 !! x) as [v|] eqn:E1.
    - symmetry. apply (G V1 V2); auto.
    - destruct (V2 !! x) as [v|] eqn:E2; [|reflexivity].
      rewrite (G V2 V1 S2 S1 v E2) in E1. discriminate.
  Qed.

  Lemma st_of_vals V : vals (st_of V) = V.
  Proof. reflexivity. Qed.

  Lemma node_agree V1 V2 : Sol V1 -> Sol V2 ->
    forall k n, In n (g_nodes g) ->
      forall rank, (forall n m p, In n (g_nodes g) -> In m (g_nodes g) ->
                      In p (n_inputs n) -> In p (n_outputs m) -> rank (n_name m) < rank (n_name n)) ->
      rank (n_name n) < k -> forall o, In o (n_outputs n) -> V1 !! o = V2 !! o.
  Proof.
    intros S1 S2 k. induction k as [|k IH]; intros n Hn rank Hr Hk o Ho; [lia|].
    (* inputs agree *)
    assert (Hin : forall p, In p (n_inputs n) -> V1 !! p = V2 !! p).
    { intros p Hp. destruct (in_dec Pos.eq_dec p all_outputs) as [Hi|Hi].
      - apply in_flat_map in Hi as (m & Hm & Hpo).
        apply (IH m Hm rank Hr); [|exact Hpo]. specialize (Hr n m p Hn Hm Hp Hpo). lia.
      - apply ext_agree; assumption. }
    assert (Hav : forallb (has_input g (st_of V1) n) (n_inputs n) = forallb (has_input g (st_of V2) n) (n_inputs n)).
    { clear -Hin. induction (n_inputs n) as [|p ps IHp]; simpl; [reflexivity|].
      rewrite (has_input_ext (st_of V1) (st_of V2) n p) by (simpl; apply Hin; left; reflexivity).
      rewrite IHp by (intros q Hq; apply Hin; right; exact Hq). reflexivity. }
    assert (Hcol : collect_inputs g (st_of V1) pv n (n_inputs n) = collect_inputs g (st_of V2) pv n (n_inputs n)).
    { apply collect_ext. intros p Hp. simpl. apply Hin; exact Hp. }
    destruct (forallb (has_input g (st_of V1) n) (n_inputs n)) eqn:Ea.
    - destruct (sol_nodes V1 S1 n Hn Ea) as (i1 & o1 & C1 & E1 & W1).
      destruct (sol_nodes V2 S2 n Hn (eq_sym Hav)) as (i2 & o2 & C2 & E2 & W2).
      rewrite Hcol, C2 in C1. injection C1 as <-. rewrite E2 in E1. injection E1 as <-.
      destruct (wf_outs Hwf n empty_state i2 o2 None Hn (collect_keys _ _ _ _ _ _ C2) E2) as [Hkeys _].
      rewrite <- Hkeys in Ho. apply in_map_iff in Ho as ([o' v] & <- & Hov). simpl.
      rewrite (W1 _ _ Hov), (W2 _ _ Hov). reflexivity.
    - (* the node is not evaluable in either solution: its outputs are absent from both *)
      assert (G : forall V, Sol V -> forallb (has_input g (st_of V) n) (n_inputs n) = false -> V !! o = None).
      { intros V S Hf. destruct (V !! o) as [v|] eqn:E; [|reflexivity]. exfalso.
        destruct (sol_prov V S o v E) as [Hp|(m & Hm & Hom & Hav')].
        - apply (wf_pv Hwf o); [unfold dmem; rewrite Hp; reflexivity|]. apply in_flat_map. eauto.
        - assert (m = n) by (eapply output_owner; eauto). subst m. unfold avail in Hav'. congruence. }
      rewrite (G V1 S1 Ea), (G V2 S2) by congruence. reflexivity.
  Qed.

  Theorem Sol_unique V1 V2 : Sol V1 -> Sol V2 -> V1 = V2.
  Proof.
    intros S1 S2. apply map_eq. intros x.
    destruct (in_dec Pos.eq_dec x all_outputs) as [Hi|Hi]; [|apply ext_agree; assumption].
    apply in_flat_map in Hi as (n & Hn & Ho).
    destruct (wf_rank Hwf) as [rank Hr].
    apply (node_agree V1 V2 S1 S2 (S (rank (n_name n))) n Hn rank Hr); auto.
  Qed.
End C01.

(* ====================================================================== *)
(* The run: every reachable state satisfies an invariant from which, at
   quiescence, the dataflow equations follow. *)

Section C01Run.
  Variable exec : node -> state -> dict val -> outcome.
  Variable g : graph.
  Variable pv : dict val.
  Hypothesis Hwf : WF exec g pv.
  Hypothesis Hpvnd : List.NoDup (dkeys pv).

  Local Notation apply_s := (apply_success exec g).

  Definition par_step (snap : state) (rd : list node) : state :=
    fold_left (apply_s snap pv) rd snap.

  Record Inv (st : state) : Prop := {
    inv_dom : dom_inv st;
    inv_pv : forall x v, dget pv x = Some v -> vals st !! x = Some v;
    inv_prov : forall x v, vals st !! x = Some v ->
      dget pv x = Some v \/
      exists n, In n (g_nodes g) /\ In x (n_outputs n) /\ execs st !! n_name n <> None;
    inv_exec : forall n r, In n (g_nodes g) -> execs st !! n_name n = Some r ->
      exists s ins outs, le_st s st /\ dom_inv s /\
        (forall x w, dget pv x = Some w -> vals s !! x = Some w) /\
        collect_inputs g s pv n (n_inputs n) = Some ins /\ exec n s ins = OOk outs None /\
        r = record_of s n /\ forall o v, In (o, v) outs -> vals st !! o = Some v }.

  (* ---------- list / dict glue between stdpp's and Coq's vocabulary ---------- *)
  Lemma stdpp_NoDup {A} (l : list A) : List.NoDup l -> NoDup l.
  Proof. apply NoDup_ListNoDup. Qed.

  Lemma in_dkeys {V} (d : dict V) k v : In (k, v) d -> In k (dkeys d).
  Proof. intros H. apply (in_map fst) in H. exact H. Qed.

  Lemma nodup_dget' {V} (d : dict V) k v : List.NoDup (dkeys d) -> In (k, v) d -> dget d k = Some v.
  Proof.
    induction d as [|[k0 v0] d IH]; simpl; intros Hnd Hin; [contradiction|].
    inversion Hnd as [|? ? Hn Hd]; subst. destruct Hin as [[= -> ->]|Hin].
    - rewrite Pos.eqb_refl; reflexivity.
    - destruct (Pos.eqb k0 k) eqn:E.
      + apply Pos.eqb_eq in E; subst. exfalso; apply Hn. eapply in_dkeys; eauto.
      + auto.
  Qed.

  Lemma written outs st y v :
    List.NoDup (dkeys outs) -> In (y, v) outs -> vals (apply_outputs st outs) !! y = Some v.
  Proof.
    intros Hnd Hin. apply apply_outputs_written; [apply stdpp_NoDup; exact Hnd | apply elem_of_list_In; exact Hin].
  Qed.

  Lemma unwritten outs st y :
    ~ In y (dkeys outs) ->
    vals (apply_outputs st outs) !! y = vals st !! y /\ ver (apply_outputs st outs) y = ver st y.
  Proof. intros Hn. apply apply_outputs_other. rewrite elem_of_list_In. exact Hn. Qed.

  (* ---------- init ---------- *)
  Lemma Inv_init : Inv (init_state pv).
  Proof.
    split.
    - apply init_state_dom.
    - intros x v H. unfold init_state. apply written; [exact Hpvnd | apply dget_Some_in; exact H].
    - intros x v H. left. unfold init_state in H.
      destruct (in_dec Pos.eq_dec x (dkeys pv)) as [Hi|Hi].
      + apply in_map_iff in Hi as ([x' w] & E & Hin). simpl in E; subst x'.
        rewrite (written pv empty_state x w Hpvnd Hin) in H. injection H as <-.
        apply nodup_dget'; assumption.
      + destruct (unwritten pv empty_state x Hi) as [E _]. unfold init_state in H. rewrite E in H.
        simpl in H. rewrite lookup_empty in H. discriminate.
    - intros n r _ H. unfold init_state in H. rewrite execs_apply_outputs in H. simpl in H.
      rewrite lookup_empty in H. discriminate.
  Qed.

  (* ---------- one successful node ---------- *)
  Definition ok_node (snap : state) (n : node) : Prop :=
    exists ins outs, run_one exec g snap pv n = (Some ins, OOk outs None).

  Lemma step_ok_ok_node snap n : In n (g_nodes g) -> step_ok exec g snap pv n -> ok_node snap n.
  Proof.
    intros Hn (ins & outs & dec & H). exists ins, outs.
    assert (dec = None).
    { unfold run_one in H. destruct (collect_inputs g snap pv n (n_inputs n)) as [i|] eqn:Ec; [|discriminate].
      injection H as -> H. eapply (wf_outs _ _ _ Hwf); eauto using collect_keys. }
    subst. exact H.
  Qed.

  Lemma ok_node_outs snap n ins outs :
    In n (g_nodes g) -> run_one exec g snap pv n = (Some ins, OOk outs None) ->
    collect_inputs g snap pv n (n_inputs n) = Some ins /\ exec n snap ins = OOk outs None /\
    map fst outs = n_outputs n.
  Proof.
    intros Hn H. unfold run_one in H.
    destruct (collect_inputs g snap pv n (n_inputs n)) as [i|] eqn:Ec; [|discriminate].
    injection H as -> H. repeat split; auto. eapply (wf_outs _ _ _ Hwf); eauto using collect_keys.
  Qed.

  Lemma outputs_nodup n : In n (g_nodes g) -> List.NoDup (n_outputs n).
  Proof.
    intros Hn. pose proof (wf_unique _ _ _ Hwf) as Hu. unfold all_outputs in Hu.
    revert Hn Hu. generalize (g_nodes g). induction l as [|a l IH]; simpl; [contradiction|].
    intros [->|Hn] Hu; apply NoDup_app_inv in Hu as (Ha & Hl & _); auto.
  Qed.

  (* effect of applying one node on values / versions / execution records *)
  Lemma apply_s_other snap acc n x :
    In n (g_nodes g) -> ok_node snap n -> ~ In x (n_outputs n) ->
    vals (apply_s snap pv acc n) !! x = vals acc !! x /\ ver (apply_s snap pv acc n) x = ver acc x.
  Proof.
    intros Hn (ins & outs & H) Hx. unfold apply_success. rewrite H. simpl.
    destruct (ok_node_outs snap n ins outs Hn H) as (_ & _ & Hk).
    apply unwritten. unfold dkeys. rewrite Hk. exact Hx.
  Qed.

  Lemma apply_s_written snap acc n ins outs o v :
    In n (g_nodes g) -> run_one exec g snap pv n = (Some ins, OOk outs None) -> In (o, v) outs ->
    vals (apply_s snap pv acc n) !! o = Some v.
  Proof.
    intros Hn H Hin. unfold apply_success. rewrite H. simpl.
    destruct (ok_node_outs snap n ins outs Hn H) as (_ & _ & Hk).
    apply written; [|exact Hin]. unfold dkeys. rewrite Hk. apply outputs_nodup; exact Hn.
  Qed.

  Lemma apply_s_execs snap acc n :
    ok_node snap n -> execs (apply_s snap pv acc n) = <[n_name n := record_of snap n]> (execs acc).
  Proof.
    intros (ins & outs & H). unfold apply_success. rewrite H. simpl.
    rewrite execs_apply_outputs. reflexivity.
  Qed.

  (* ---------- a whole parallel step ---------- *)
  Lemma fold_other snap rd : forall acc x,
    (forall n, In n rd -> In n (g_nodes g) /\ ok_node snap n /\ ~ In x (n_outputs n)) ->
    vals (fold_left (apply_s snap pv) rd acc) !! x = vals acc !! x.
  Proof.
    induction rd as [|a rd IH]; intros acc x H; simpl; [reflexivity|].
    rewrite IH by (intros n Hn; apply H; right; exact Hn).
    destruct (H a (or_introl eq_refl)) as (Ha & Hok & Hx).
    apply (apply_s_other snap acc a x Ha Hok Hx).
  Qed.

  Lemma fold_written snap rd : forall acc n ins outs o v,
    (forall m, In m rd -> In m (g_nodes g) /\ ok_node snap m) -> List.NoDup (map n_name rd) ->
    In n rd -> run_one exec g snap pv n = (Some ins, OOk outs None) -> In (o, v) outs ->
    vals (fold_left (apply_s snap pv) rd acc) !! o = Some v.
  Proof.
    induction rd as [|a rd IH]; intros acc n ins outs o v Hall Hnd Hin Hrun Hov; [contradiction|].
    simpl. inversion Hnd as [|? ? Hna Hnd']; subst.
    destruct (Hall a (or_introl eq_refl)) as [Ha Hoka].
    destruct Hin as [->|Hin].
    - rewrite fold_other.
      + eapply apply_s_written; eauto.
      + intros m Hm. destruct (Hall m (or_intror Hm)) as [Hmg Hokm]. repeat split; auto.
        intros Hom. destruct (ok_node_outs snap n ins outs Ha Hrun) as (_ & _ & Hk).
        assert (Hon : In o (n_outputs n)) by (rewrite <- Hk; eapply in_dkeys; eauto).
        assert (m = n) by (eapply (output_owner exec g pv Hwf); eauto). subst m.
        apply Hna. apply in_map; exact Hm.
    - eapply IH; eauto. intros m Hm. apply Hall. right; exact Hm.
  Qed.

  Lemma fold_execs_in snap rd : forall acc n,
    (forall m, In m rd -> ok_node snap m) -> List.NoDup (map n_name rd) -> In n rd ->
    execs (fold_left (apply_s snap pv) rd acc) !! n_name n = Some (record_of snap n).
  Proof.
    induction rd as [|a rd IH]; intros acc n Hall Hnd Hin; [contradiction|].
    simpl. inversion Hnd as [|? ? Hna Hnd']; subst. destruct Hin as [->|Hin].
    - assert (G : forall l acc', (forall m, In m l -> ok_node snap m) -> ~ In (n_name n) (map n_name l) ->
                  execs (fold_left (apply_s snap pv) l acc') !! n_name n = execs acc' !! n_name n).
      { clear. induction l as [|b l IHl]; intros acc' Hl Hnb; simpl; [reflexivity|].
        rewrite IHl; [|intros m Hm; apply Hl; right; exact Hm | intros Hx; apply Hnb; right; exact Hx].
        rewrite apply_s_execs by (apply Hl; left; reflexivity).
        apply lookup_insert_ne. intros E. apply Hnb. left. exact E. }
      rewrite G; [|intros m Hm; apply Hall; right; exact Hm | exact Hna].
      rewrite apply_s_execs by (apply Hall; left; reflexivity). apply lookup_insert.
    - apply IH; auto. intros m Hm. apply Hall. right; exact Hm.
  Qed.

  Lemma fold_execs_out snap rd : forall acc x,
    (forall m, In m rd -> ok_node snap m) -> ~ In x (map n_name rd) ->
    execs (fold_left (apply_s snap pv) rd acc) !! x = execs acc !! x.
  Proof.
    induction rd as [|a rd IH]; intros acc x Hall Hx; simpl; [reflexivity|].
    rewrite IH; [|intros m Hm; apply Hall; right; exact Hm | intros H; apply Hx; right; exact H].
    rewrite apply_s_execs by (apply Hall; left; reflexivity).
    apply lookup_insert_ne. intros E. apply Hx. left. exact E.
  Qed.

  Lemma node_by_name n m : In n (g_nodes g) -> In m (g_nodes g) -> n_name n = n_name m -> n = m.
  Proof.
    intros Hn Hm E. pose proof (wf_names _ _ _ Hwf) as Hnd.
    revert Hn Hm Hnd. generalize (g_nodes g). induction l as [|a l IH]; simpl; [contradiction|].
    intros Hn Hm Hnd. inversion Hnd as [|? ? Ha Hd]; subst.
    destruct Hn as [->|Hn], Hm as [->|Hm]; auto.
    - exfalso. apply Ha. rewrite E. apply in_map; exact Hm.
    - exfalso. apply Ha. rewrite <- E. apply in_map; exact Hn.
  Qed.

  Lemma Inv_par_step snap rd :
    Inv snap -> (forall m, In m rd -> In m (g_nodes g) /\ ok_node snap m) ->
    List.NoDup (map n_name rd) -> Inv (par_step snap rd).
  Proof.
    intros HI Hall Hnd. unfold par_step.
    assert (Hok : forall m, In m rd -> ok_node snap m) by (intros m Hm; apply Hall; exact Hm).
    assert (Hle : le_st snap (fold_left (apply_s snap pv) rd snap)) by apply fold_apply_success_le.
    split.
    - apply fold_apply_success_dom. apply (inv_dom _ HI).
    - intros x v Hp. rewrite fold_other; [apply (inv_pv _ HI); exact Hp|].
      intros n Hn. destruct (Hall n Hn) as [Hng Hokn]. repeat split; auto.
      intros Ho. apply (wf_pv _ _ _ Hwf x); [unfold dmem; rewrite Hp; reflexivity|].
      apply in_flat_map. eauto.
    - intros x v Hx.
      destruct (existsb (fun n => pos_in x (n_outputs n)) rd) eqn:Ee.
      + apply existsb_exists in Ee as (n & Hn & Ho). apply pos_in_In in Ho.
        right. exists n. destruct (Hall n Hn) as [Hng _]. repeat split; auto.
        rewrite (fold_execs_in snap rd snap n Hok Hnd Hn). discriminate.
      + assert (Hno : forall n, In n rd -> ~ In x (n_outputs n)).
        { intros n Hn Ho. assert (existsb (fun n => pos_in x (n_outputs n)) rd = true); [|congruence].
          apply existsb_exists. exists n. split; [exact Hn | apply pos_in_In; exact Ho]. }
        rewrite fold_other in Hx by (intros n Hn; destruct (Hall n Hn); repeat split; auto).
        destruct (inv_prov _ HI x v Hx) as [Hp|(n & Hn & Ho & He)]; [left; exact Hp|].
        right. exists n. repeat split; auto.
        destruct (in_dec Pos.eq_dec (n_name n) (map n_name rd)) as [Hi|Hi].
        * apply in_map_iff in Hi as (m & Em & Hm).
          assert (m = n) by (apply node_by_name; auto; apply Hall; exact Hm). subst m.
          rewrite (fold_execs_in snap rd snap n Hok Hnd Hm). discriminate.
        * rewrite (fold_execs_out snap rd snap _ Hok Hi). exact He.
    - intros n r Hn Hr.
      destruct (in_dec Pos.eq_dec (n_name n) (map n_name rd)) as [Hi|Hi].
      + apply in_map_iff in Hi as (m & Em & Hm).
        assert (m = n) by (apply node_by_name; auto; apply Hall; exact Hm). subst m.
        rewrite (fold_execs_in snap rd snap n Hok Hnd Hm) in Hr. injection Hr as <-.
        destruct (Hok n Hm) as (ins & outs & Hrun).
        destruct (ok_node_outs snap n ins outs Hn Hrun) as (Hc & He & Hk).
        exists snap, ins, outs.
        split; [exact Hle|]. split; [apply (inv_dom _ HI)|]. split; [apply (inv_pv _ HI)|].
        split; [exact Hc|]. split; [exact He|]. split; [reflexivity|].
        intros o v Hov. eapply fold_written; eauto.
      + rewrite (fold_execs_out snap rd snap _ Hok Hi) in Hr.
        destruct (inv_exec _ HI n r Hn Hr) as (s & ins & outs & Hs & Hd & Hp & Hc & He & -> & Hv).
        exists s, ins, outs.
        split; [eapply le_st_trans; eauto|]. split; [exact Hd|]. split; [exact Hp|].
        split; [exact Hc|]. split; [exact He|]. split; [reflexivity|].
        intros o v Hov. rewrite fold_other; [apply Hv; exact Hov|].
          intros m Hm. destruct (Hall m Hm) as [Hmg Hokm]. repeat split; auto.
          intros Hom. destruct (wf_outs _ _ _ Hwf n s ins outs None Hn (collect_keys _ _ _ _ _ _ Hc) He) as [Hk _].
          assert (Hon : In o (n_outputs n)) by (rewrite <- Hk; eapply in_dkeys; eauto).
          assert (m = n) by (eapply (output_owner exec g pv Hwf); eauto). subst m.
          apply Hi. apply in_map; exact Hm.
  Qed.
End C01Run.

Section C01Final.
  Variable exec : node -> state -> dict val -> outcome.
  Variable g : graph.
  Variable pv : dict val.
  Hypothesis Hwf : WF exec g pv.
  Hypothesis Hpvnd : List.NoDup (dkeys pv).

  Local Notation InvS := (Inv exec g pv).

  Lemma Inv_same a b : same_data a b -> execs a = execs b -> InvS a -> InvS b.
  Proof.
    intros [E1 E2] E3 HI. split.
    - eapply dom_inv_same; [split; eauto | apply (inv_dom _ _ _ _ HI)].
    - intros x v Hp. rewrite <- E1. apply (inv_pv _ _ _ _ HI); exact Hp.
    - intros x v Hx. rewrite <- E1 in Hx. rewrite <- E3. apply (inv_prov _ _ _ _ HI); exact Hx.
    - intros n r Hn Hr. rewrite <- E3 in Hr.
      destruct (inv_exec _ _ _ _ HI n r Hn Hr) as (s & ins & outs & Hs & Hd & Hp & Hc & He & -> & Hv).
      exists s, ins, outs. split; [eapply le_st_trans; [exact Hs | apply le_st_same_data; split; auto]|].
      repeat (split; [assumption|]). split; [reflexivity|]. intros o v Hov. rewrite <- E1. apply Hv; exact Hov.
  Qed.

  Lemma ready_list_nodes st n : In n (ready_list g st) -> In n (g_nodes g).
  Proof. intros H. apply ready_list_r0 in H. tauto. Qed.

  Lemma filter_names_nodup (f : node -> bool) (l : list node) :
    List.NoDup (map n_name l) -> List.NoDup (map n_name (List.filter f l)).
  Proof.
    induction l as [|a l IH]; simpl; intros H; [constructor|].
    inversion H as [|? ? Hn Hd]; subst. destruct (f a); simpl; [|auto].
    constructor; [|auto]. intros Hin. apply Hn. apply in_map_iff in Hin as (m & E & Hm).
    apply filter_In in Hm as [Hm _]. rewrite <- E. apply in_map; exact Hm.
  Qed.

  Lemma ready_list_nodup st : List.NoDup (map n_name (ready_list g st)).
  Proof.
    unfold ready_list, ready. simpl. repeat apply filter_names_nodup. apply (wf_names _ _ _ Hwf).
  Qed.

  Lemma no_interrupts rd : (forall n, In n rd -> In n (g_nodes g)) -> List.filter is_interrupt rd = [].
  Proof.
    induction rd as [|a rd IH]; intros H; simpl; [reflexivity|].
    rewrite (wf_noint _ _ _ Hwf a (H a (or_introl eq_refl))). apply IH; intros n Hn; apply H; right; exact Hn.
  Qed.

  Lemma sync_ok_all snap rd : forall acc log b calls,
    superstep_sync exec g snap pv rd acc log = (SOk b, calls) -> Forall (step_ok exec g snap pv) rd.
  Proof.
    induction rd as [|n rd IH]; intros acc log b calls H; [constructor|].
    simpl in H. destruct (collect_inputs g snap pv n (n_inputs n)) as [ins|] eqn:Ec; [|discriminate].
    destruct (exec n snap ins) as [outs dec|e|p] eqn:Ee; try discriminate.
    constructor; [|eapply IH; eauto]. exists ins, outs, dec. unfold run_one. rewrite Ec, Ee. reflexivity.
  Qed.

  Lemma async_ok_all snap rd : first_failure exec g snap pv rd = None -> Forall (step_ok exec g snap pv) rd.
  Proof.
    induction rd as [|n rd IH]; simpl; intros H; [constructor|].
    unfold run_one in *. destruct (collect_inputs g snap pv n (n_inputs n)) as [ins|] eqn:Ec; simpl in H; [|discriminate].
    destruct (exec n snap ins) as [outs dec|e|p] eqn:Ee; try discriminate.
    constructor; [|apply IH; exact H]. exists ins, outs, dec. unfold run_one. rewrite Ec, Ee. reflexivity.
  Qed.

  Lemma write_decisions_noop snap pi : forall acc,
    (forall n, In n pi -> ok_node exec g pv snap n) -> write_decisions exec g snap pv pi acc = acc.
  Proof.
    unfold write_decisions. induction pi as [|n pi IH]; intros acc H; simpl; [reflexivity|].
    destruct (H n (or_introl eq_refl)) as (ins & outs & Hr). rewrite Hr. simpl.
    apply IH. intros m Hm. apply H. right; exact Hm.
  Qed.

  (* both runners: a successful superstep over nodes of g is the parallel step *)
  Lemma superstep_is_par r snap rd b calls :
    (forall n, In n rd -> In n (g_nodes g)) ->
    superstep exec r g snap pv rd = (SOk b, calls) ->
    b = par_step exec g pv snap rd /\ (forall n, In n rd -> ok_node exec g pv snap n).
  Proof.
    intros Hrd H.
    assert (Hall : Forall (step_ok exec g snap pv) rd).
    { destruct r; simpl in H.
      - eapply sync_ok_all; eauto.
      - unfold superstep_async in H. unfold isolate in H. rewrite (no_interrupts rd Hrd) in H.
        apply async_ok_all. destruct (first_failure exec g snap pv rd) as [[e|p]|]; [discriminate..|reflexivity]. }
    assert (Hok : forall n, In n rd -> ok_node exec g pv snap n).
    { intros n Hn. rewrite Coq.Lists.List.Forall_forall in Hall. apply (step_ok_ok_node exec g pv Hwf); auto. }
    split; [|exact Hok].
    assert (Hsync : superstep exec Sync g snap pv rd = superstep exec r g snap pv rd).
    { destruct r; [reflexivity|]. apply superstep_runners_agree; [apply no_interrupts; exact Hrd | exact Hall]. }
    rewrite <- Hsync in H. simpl in H. rewrite (superstep_sync_ok exec g snap pv rd snap [] Hall) in H.
    injection H as <- _. unfold par_step. rewrite (write_decisions_noop snap rd snap Hok). reflexivity.
  Qed.

  Lemma Inv_steps r k a b : steps exec r g pv k a b -> InvS a -> InvS b.
  Proof.
    induction 1 as [a|k a b c calls Hne Hs _ IH]; intros Ha; [exact Ha|]. apply IH.
    assert (Hrd : forall n, In n (ready_list g a) -> In n (g_nodes g)) by (intros n; apply ready_list_nodes).
    destruct (superstep_is_par r _ _ _ _ Hrd Hs) as [-> Hok].
    apply (Inv_par_step exec g pv Hwf).
    - destruct (ready_same g a) as [Hsd He]. eapply Inv_same; eauto.
    - intros m Hm. split; [apply Hrd; exact Hm | apply Hok; exact Hm].
    - apply ready_list_nodup.
  Qed.

  (* ---------- quiescence ---------- *)
  Lemma quiescent_not_ready st :
    ready_list g st = [] -> forall n, In n (g_nodes g) -> node_ready g (ready_state g st) n = false.
  Proof.
    intros Hq n Hn. destruct (node_ready g (ready_state g st) n) eqn:Er; [|reflexivity]. exfalso.
    assert (Hin : In n (ready_list g st)).
    { apply ready_complete; auto.
      - unfold is_active. rewrite (wf_active _ _ _ Hwf). reflexivity.
      - unfold is_blocked. apply not_true_is_false. intros Hb. apply existsb_exists in Hb as ([G t] & Hgt & _).
        unfold blocked_targets in Hgt. apply in_flat_map in Hgt as (m & Hm & Hmt).
        apply filter_In in Hm as [Hm _]. destruct (wf_kinds _ _ _ Hwf m Hm) as [[Hk|Hk] _];
        unfold is_gate in Hmt; rewrite Hk in Hmt; contradiction.
      - unfold deferred. destruct (wf_kinds _ _ _ Hwf n Hn) as [_ Hw]. rewrite Hw. reflexivity. }
    rewrite Hq in Hin. contradiction.
  Qed.

  Lemma existsb_false {A} (f : A -> bool) (l : list A) :
    existsb f l = false -> forall x, In x l -> f x = false.
  Proof.
    intros H x Hx. destruct (f x) eqn:E; [|reflexivity].
    assert (existsb f l = true) by (apply existsb_exists; eauto). congruence.
  Qed.

  Lemma record_in s n p : In p (n_inputs n) -> dget (r_in (record_of s n)) p = Some (ver s p).
  Proof.
    unfold record_of. simpl. induction (n_inputs n) as [|q qs IH]; simpl; [contradiction|].
    intros [->|Hp].
    - rewrite Pos.eqb_refl. reflexivity.
    - destruct (Pos.eqb q p) eqn:E; [apply Pos.eqb_eq in E; subst; reflexivity | apply IH; exact Hp].
  Qed.

  Lemma has_input_mono s st n p :
    dom_inv s -> dom_inv st -> le_st s st -> has_input g s n p = true -> has_input g st n p = true.
  Proof.
    intros Ds Dt Hle H. unfold has_input in *.
    destruct (vals s !! p) as [v|] eqn:E.
    - assert (ver s p <> 0) by (intros E0; apply Ds in E0; congruence).
      destruct (vals st !! p) eqn:E2; [reflexivity|]. apply Dt in E2. destruct (Hle p) as [L _]. lia.
    - destruct (vals st !! p); [reflexivity | exact H].
  Qed.

  Theorem quiescent_Sol st :
    InvS st -> ready_list g st = [] -> Sol exec g pv (vals (ready_state g st)).
  Proof.
    intros HI0 Hq.
    destruct (ready_same g st) as [Hsd Hex].
    assert (HI : InvS (ready_state g st)) by (eapply Inv_same; eauto).
    set (st' := ready_state g st) in *.
    assert (Hsame : forall n ps, forallb (has_input g (st_of (vals st')) n) ps = forallb (has_input g st' n) ps).
    { intros n ps. induction ps as [|p ps IHp]; simpl; [reflexivity|].
      rewrite IHp. f_equal. }
    split.
    - apply (inv_pv _ _ _ _ HI).
    - intros n Hn Hav. unfold avail in Hav. rewrite Hsame in Hav.
      pose proof (quiescent_not_ready st Hq n Hn) as Hnr. fold st' in Hnr.
      unfold node_ready in Hnr. rewrite Hav in Hnr.
      assert (Hact : activated g st' (n_name n) = true).
      { unfold activated. rewrite (ungated exec g pv Hwf n Hn). reflexivity. }
      assert (Hw : wait_ok st' n = true).
      { unfold wait_ok. destruct (wf_kinds _ _ _ Hwf n Hn) as [_ Hw]. rewrite Hw. reflexivity. }
      rewrite Hact, Hw in Hnr. simpl in Hnr.
      unfold needs_execution in Hnr. destruct (execs st' !! n_name n) as [r|] eqn:Er; [|discriminate].
      destruct (inv_exec _ _ _ _ HI n r Hn Er) as (s & ins & outs & Hs & Hd & Hp & Hc & He & -> & Hv).
      (* not stale: every input has the version it had at the snapshot, hence the same value *)
      assert (Hval : forall p, In p (n_inputs n) -> vals s !! p = vals st' !! p).
      { intros p Hpin. unfold is_stale in Hnr.
        assert (Hg : gated g n = false) by (unfold gated; rewrite (ungated exec g pv Hwf n Hn); reflexivity).
        rewrite Hg in Hnr. simpl in Hnr.
        pose proof (existsb_false _ _ Hnr p Hpin) as Hf. simpl in Hf.
        assert (Hns : pos_in p (n_outputs n) = false).
        { apply pos_in_nIn. apply (no_self_input exec g pv Hwf n p Hn Hpin). }
        pose proof (record_in s n p Hpin) as Hri. simpl in Hri.
        rewrite Hns, Hri in Hf. simpl in Hf.
        apply negb_false_iff, Nat.eqb_eq in Hf. destruct (Hs p) as [_ Heq]. apply Heq. lia. }
      exists ins, outs. split; [|split].
      + rewrite <- Hc. apply collect_ext. intros p Hpin. simpl. symmetry. apply Hval; exact Hpin.
      + rewrite (wf_pure _ _ _ Hwf n empty_state s ins Hn). exact He.
      + exact Hv.
    - intros x v Hx. destruct (inv_prov _ _ _ _ HI x v Hx) as [Hp|(n & Hn & Ho & He)]; [left; exact Hp|].
      right. exists n. repeat split; auto. unfold avail. rewrite Hsame.
      destruct (execs st' !! n_name n) as [r|] eqn:Er; [|congruence].
      destruct (inv_exec _ _ _ _ HI n r Hn Er) as (s & ins & outs & Hs & Hd & Hp & Hc & _).
      assert (Hhas : forallb (has_input g s n) (n_inputs n) = true).
      { apply (collect_some_iff exec g pv Hwf s n (n_inputs n) Hn Hp). eauto. }
      rewrite forallb_forall in *. intros p Hpin.
      eapply has_input_mono; eauto. apply (inv_dom _ _ _ _ HI).
  Qed.

  (* ---------- the theorems ---------- *)

  (* Partial correctness: a COMPLETED run of an acyclic gate-free graph ends in a solution of the
     dataflow equations, under either runner ... *)
  Theorem run_reaches_solution r fuel st' log :
    execute exec r fuel g pv = (RDone st', log) -> Sol exec g pv (vals st').
  Proof.
    intros H. unfold execute in H.
    pose proof (run_loop_spec exec r fuel g pv (init_state pv) []) as Hspec. rewrite H in Hspec. simpl in Hspec.
    destruct Hspec as (k & sk & _ & Hst & Hq & ->).
    apply quiescent_Sol; [|exact Hq].
    eapply Inv_steps; [exact Hst | apply (Inv_init exec g pv Hpvnd)].
  Qed.

  (* ... and there is exactly one solution, so the result does not depend on the runner, the
     node order, the schedule or the number of supersteps. *)
  Theorem run_values_unique r1 r2 f1 f2 s1 s2 l1 l2 :
    execute exec r1 f1 g pv = (RDone s1, l1) -> execute exec r2 f2 g pv = (RDone s2, l2) -> vals s1 = vals s2.
  Proof.
    intros H1 H2. apply (Sol_unique exec g pv Hwf); eapply run_reaches_solution; eauto.
  Qed.

  (* a node has executed iff its inputs can be satisfied; its last call received exactly the
     arguments the solution prescribes *)
  Theorem run_node_iff r fuel st' log n :
    execute exec r fuel g pv = (RDone st', log) -> In n (g_nodes g) ->
    (execs st' !! n_name n <> None <-> avail g (vals st') n).
  Proof.
    intros H Hn. unfold execute in H.
    pose proof (run_loop_spec exec r fuel g pv (init_state pv) []) as Hspec. rewrite H in Hspec. simpl in Hspec.
    destruct Hspec as (k & sk & _ & Hst & Hq & ->).
    assert (HI0 : InvS sk) by (eapply Inv_steps; [exact Hst | apply (Inv_init exec g pv Hpvnd)]).
    destruct (ready_same g sk) as [Hsd Hex].
    assert (HI : InvS (ready_state g sk)) by (eapply Inv_same; eauto).
    set (st' := ready_state g sk) in *.
    assert (Hsame : forall ps, forallb (has_input g (st_of (vals st')) n) ps = forallb (has_input g st' n) ps).
    { intros ps. induction ps as [|p ps IHp]; simpl; [reflexivity|]. rewrite IHp. f_equal. }
    unfold avail. rewrite Hsame. split.
    - intros He. destruct (execs st' !! n_name n) as [r0|] eqn:Er; [|congruence].
      destruct (inv_exec _ _ _ _ HI n r0 Hn Er) as (s & ins & outs & Hs & Hd & Hp & Hc & _).
      assert (Hhas : forallb (has_input g s n) (n_inputs n) = true).
      { apply (collect_some_iff exec g pv Hwf s n (n_inputs n) Hn Hp). eauto. }
      rewrite forallb_forall in *. intros p Hpin. eapply has_input_mono; eauto. apply (inv_dom _ _ _ _ HI).
    - intros Hav. pose proof (quiescent_not_ready sk Hq n Hn) as Hnr. fold st' in Hnr.
      unfold node_ready in Hnr. rewrite Hav in Hnr.
      assert (Hact : activated g st' (n_name n) = true).
      { unfold activated. rewrite (ungated exec g pv Hwf n Hn). reflexivity. }
      assert (Hw : wait_ok st' n = true).
      { unfold wait_ok. destruct (wf_kinds _ _ _ Hwf n Hn) as [_ Hw]. rewrite Hw. reflexivity. }
      rewrite Hact, Hw in Hnr. simpl in Hnr. unfold needs_execution in Hnr.
      destruct (execs st' !! n_name n); [discriminate | discriminate].
  Qed.
End C01Final.
