(* MapIsolation.v — the items of a map are runs of their own (C10 / C18).
   Since repository fix e86f9d3 a mapping GraphNode no longer resolves an inner signature default once for all items: every
   item is a nested run that resolves (and deep-copies) its own defaults, exactly as the items of runner.map always did.
   In the isolation model (Isolation.v) the items are therefore runs sharing the heap: empty state, the item's own provided
   values (immediates: mapped elements and broadcast scalars), no bindings.  This file derives, from the general theorem
   IsolationProofs.isolated_when_only_defaults_are_mutated, the statement about map items: when the bodies mutate only
   parameters that are left to their signature defaults, no pre-existing object changes and every body sees on entry the
   pristine contents - whatever the interleaving of the items.  The pre-fix behaviour (one copy handed to all items as a
   provided object) is refuted by computation.  Plain stdlib. *)
From HG Require Import Base Isolation IsolationProofs.
From Coq Require Import Lia.

(* an item: nothing computed yet, its own immediates, no bindings *)
Definition is_item (r : mrun) : Prop :=
  r_state r = [] /\ r_bound r = [] /\ forall k l, ~ In (k, MRef l) (r_provided r).

Definition outs_of (sched : list (nat * mnode)) : list name := map (fun x => m_output (snd x)) sched.

(* every mutated parameter has a signature default, is not supplied by the item, and is no node's output *)
Definition own_defaults_only (sched : list (nat * mnode)) (rs : list mrun) : Prop :=
  forall i n p, In (i, n) sched -> In p (m_mutates n) ->
    (exists v, dget (m_defaults n) p = Some v) /\
    ~ In p (outs_of sched) /\
    forall r, In r rs -> dget (r_provided r) p = None.

(* ---- what is preserved along a schedule ---- *)
Definition run_inv (outs : list name) (r0 r : mrun) : Prop :=
  r_provided r = r_provided r0 /\ r_bound r = r_bound r0 /\
  forall p v, dget (r_state r) p = Some v -> (exists z, v = MInt z) /\ (In p outs \/ dget (r_state r0) p = Some v).

Lemma exec_call_inv outs h r0 r n h' r' c :
  run_inv outs r0 r -> In (m_output n) outs -> exec_call h r n = (h', r', c) -> run_inv outs r0 r'.
Proof.
  intros [P [B S]] Ho. unfold exec_call. destruct (resolve_all h n r (m_inputs n)) as [h1 rc]. intros H. inversion H; subst. clear H.
  split; [exact P|]. split; [exact B|]. cbn [r_state]. intros p v Hg. rewrite dget_dset in Hg.
  destruct (Pos.eqb (m_output n) p) eqn:E.
  - apply Pos.eqb_eq in E. subst p. injection Hg as <-. split; [eexists; reflexivity | left; exact Ho].
  - apply S. exact Hg.
Qed.

Lemma nth_error_set_run rs i r j :
  nth_error (set_run rs i r) j = if Nat.eqb i j then match nth_error rs i with Some _ => Some r | None => None end else nth_error rs j.
Proof.
  revert i j. induction rs as [|x rs IH]; intros [|i] [|j]; cbn; try reflexivity.
  - destruct (Nat.eqb i j); reflexivity.
  - apply IH.
Qed.

(* pointwise invariant of the run list *)
Definition runs_inv (outs : list name) (rs0 rs : list mrun) : Prop :=
  length rs = length rs0 /\ forall j r, nth_error rs j = Some r -> exists r0, nth_error rs0 j = Some r0 /\ run_inv outs r0 r.

Lemma set_run_length rs i r : length (set_run rs i r) = length rs.
Proof. revert i. induction rs as [|x rs IH]; intros [|i]; cbn; auto. Qed.

Lemma steps_see_item_runs sched : forall outs h rs0 rs h' rs' tr,
  (forall x, In x sched -> In (m_output (snd x)) outs) ->
  runs_inv outs rs0 rs ->
  exec_sched h rs sched = (h', rs', tr) ->
  forall st, In st tr -> exists r0, nth_error rs0 (s_run st) = Some r0 /\ run_inv outs r0 (s_before st) /\ In (s_run st, s_node st) sched.
Proof.
  induction sched as [|[i n] sched IH]; intros outs h rs0 rs h' rs' tr Ho Hinv H st Hst; cbn [exec_sched] in H.
  - inversion H; subst. destruct Hst.
  - destruct (nth_error rs i) as [r|] eqn:Er.
    + destruct (exec_call h r n) as [[h1 r1] c] eqn:Ec. destruct (exec_sched h1 (set_run rs i r1) sched) as [[h2 rs2] cs] eqn:Es.
      inversion H; subst. destruct Hinv as [Hl Hp]. destruct (Hp i r Er) as (r0 & E0 & I0).
      destruct Hst as [<-|Hst].
      * cbn. exists r0. split; [exact E0|]. split; [exact I0|]. left. reflexivity.
      * assert (Hinv' : runs_inv outs rs0 (set_run rs i r1)).
        { split; [rewrite set_run_length; exact Hl|]. intros j rj Hj. rewrite nth_error_set_run in Hj.
          destruct (Nat.eqb i j) eqn:Eij.
          - apply Nat.eqb_eq in Eij. subst j. rewrite Er in Hj. injection Hj as <-. exists r0. split; [exact E0|].
            eapply exec_call_inv; [exact I0 | apply (Ho (i, n)); left; reflexivity | exact Ec].
          - apply Hp. exact Hj. }
        destruct (IH outs h1 rs0 _ _ _ _ (fun x Hx => Ho x (or_intror Hx)) Hinv' Es st Hst) as (q0 & A & B & C).
        exists q0. split; [exact A|]. split; [exact B|]. right. exact C.
    + destruct (IH outs h rs0 rs h' rs' tr (fun x Hx => Ho x (or_intror Hx)) Hinv H st Hst) as (q0 & A & B & C).
      exists q0. split; [exact A|]. split; [exact B|]. right. exact C.
Qed.


(* the initial runs are items: their state is empty, so the invariant holds trivially *)
Lemma runs_inv_items outs rs : (forall r, In r rs -> is_item r) -> runs_inv outs rs rs.
Proof.
  intros Hi. split; [reflexivity|]. intros j r Hj. exists r. split; [exact Hj|]. split; [reflexivity|]. split; [reflexivity|].
  intros p v Hg. apply nth_error_In in Hj. destruct (Hi r Hj) as [Hs _]. rewrite Hs in Hg. discriminate.
Qed.

Lemma no_refs_in d : (forall k l, ~ In (k, MRef l) d) -> refs_in d = [].
Proof.
  intros H. unfold refs_in. induction d as [|[k v] d IH]; [reflexivity|]. cbn [flat_map].
  destruct v as [z|l]; cbn.
  - apply IH. intros k' l' Hin. apply (H k' l'). right. exact Hin.
  - exfalso. apply (H k l). left. reflexivity.
Qed.

Theorem map_items_isolated sched h0 rs h' rs' tr :
  (forall r, In r rs -> is_item r) ->
  own_defaults_only sched rs ->
  (forall i n p l, In (i, n) sched -> dget (m_defaults n) p = Some (MRef l) -> l < length h0) ->
  exec_sched h0 rs sched = (h', rs', tr) ->
  (* no pre-existing object (every signature default among them) is modified *)
  (forall l, l < length h0 -> cell_of h' l = cell_of h0 l) /\
  (* every body sees on entry the initial contents of what its parameters denote *)
  (forall st, In st tr ->
     c_before (s_call st) = map (fun p => deref h0 (snd (source (s_node st) (s_before st) p))) (m_inputs (s_node st))).
Proof.
  intros Hitems Hown Hdef Hex.
  assert (Hrefs : forall l, In l (all_refs rs) -> l < length h0).
  { intros l Hl. unfold all_refs in Hl. apply in_flat_map in Hl. destruct Hl as (r & Hr & Hl).
    destruct (Hitems r Hr) as (Es & Eb & Hp). unfold run_refs in Hl. rewrite Es, Eb, (no_refs_in _ Hp) in Hl. destruct Hl. }
  apply (isolated_when_only_defaults_are_mutated sched h0 [] rs h' rs' tr).
  - split; [exact Hrefs | exact Hdef].
  - intros l Hl. rewrite app_nil_r. reflexivity.
  - rewrite app_nil_r. exact Hex.
  - intros st Hst p Hp.
    destruct (steps_see_item_runs sched (outs_of sched) h0 rs rs h' rs' tr) with (st := st) as (r0 & E0 & (Pv & Bd & Sk) & Hin); try assumption.
    { intros x Hx. unfold outs_of. apply (in_map (fun y => m_output (snd y))). exact Hx. }
    { apply runs_inv_items. exact Hitems. }
    destruct (Hown _ _ p Hin Hp) as ((v & Hv) & Hno & Hprov).
    apply nth_error_In in E0. destruct (Hitems r0 E0) as (Es0 & Eb0 & _).
    unfold source.
    destruct (dget (r_state (s_before st)) p) as [w|] eqn:Eg.
    + exfalso. destruct (Sk p w Eg) as [_ [Ho|H0]]; [exact (Hno Ho) | rewrite Es0 in H0; discriminate].
    + rewrite Pv, (Hprov r0 E0), Bd, Eb0. cbn [dget]. rewrite Hv. reflexivity.
Qed.

(* ---- non-vacuity, and the pre-fix behaviour refuted ---- *)
Local Open Scope positive_scope.
(* body(x, acc=[]) : acc.append(7); return digest  -- the default list is heap cell 0 *)
Definition body : mnode := mk_mnode 1 [10; 11] [(11, MRef 0%nat)] [11] 7%Z 12.
Definition item (x : Z) : mrun := mk_mrun [] [(10, MInt x)] [].
(* before e86f9d3: the outer step copied the default ONCE (cell 1) and handed that object to every item as a provided value *)
Definition legacy_item (x : Z) : mrun := mk_mrun [] [(10, MInt x); (11, MRef 1%nat)] [].

Example items_see_fresh_defaults :
  let '(h', rs', tr) := exec_sched [[]] [item 1; item 2; item 3] [(0, body); (1, body); (2, body)]%nat in
  map (fun st => c_after (s_call st)) tr = [[[1]; [7]]; [[2]; [7]]; [[3]; [7]]]%Z /\ cell_of h' 0%nat = [].
Proof. vm_compute. split; reflexivity. Qed.

Example legacy_items_share_one_copy_refuted :
  let '(h', rs', tr) := exec_sched [[]; []] [legacy_item 1; legacy_item 2; legacy_item 3] [(0, body); (1, body); (2, body)]%nat in
  map (fun st => c_after (s_call st)) tr = [[[1]; [7]]; [[2]; [7; 7]]; [[3]; [7; 7; 7]]]%Z.
Proof. vm_compute. reflexivity. Qed.

Example items_example_meets_hypotheses :
  (forall r, In r [item 1; item 2; item 3] -> is_item r) /\
  own_defaults_only [(0, body); (1, body); (2, body)]%nat [item 1; item 2; item 3].
Proof.
  split.
  - intros r [<-|[<-|[<-|[]]]]; (split; [reflexivity|]; split; [reflexivity|]; intros k l [E|[]]; discriminate).
  - intros i n p Hin Hp.
    assert (n = body) by (destruct Hin as [E|[E|[E|[]]]]; inversion E; reflexivity). subst n.
    destruct Hp as [<-|[]]. split; [eexists; reflexivity|]. split.
    + cbn. intros [E|[E|[E|[]]]]; discriminate.
    + intros r [<-|[<-|[<-|[]]]]; reflexivity.
Qed.
