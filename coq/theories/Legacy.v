(* Legacy.v — pre-fix definitions of mechanisms the pinned commit got wrong,
   with machine-checked witnesses that the full property fails for them.
   Each witness, replayed on the implementation, is the defect that the
   corresponding "fix:" commit repaired (known_findings.json, `fixed:` entries). *)
From HG Require Import Base Rename.

(* F1: GraphNode._resolve_original_input_name ignored batches.
   inner.as_node().with_inputs(x="y", y="x"): current name x denotes original y,
   the legacy walk answers x. *)
Example F1_resolve_original_refuted :
  exists (orig cur : list name) (h : history) (c : name),
    NoDup orig /\ run_history orig h = Some cur /\ In c cur /\
    gn_resolve_original_legacy h c <> sigma_inv orig cur c.
Proof.
  exists [1; 2]%positive, [2; 1]%positive, [[(1, 2); (2, 1)]]%positive, 1%positive.
  split; [repeat constructor; simpl; intuition congruence|].
  split; [reflexivity|]. split; [simpl; auto|]. vm_compute. congruence.
Qed.

(* F2: GraphNode.map_outputs_from_original inverted a reverse map that still
   holds stale keys.  with_outputs(a="b").with_outputs(b="c").with_outputs(c="b"):
   the inner value of a must appear under b; the legacy code files it under c. *)
Example F2_map_outputs_refuted :
  exists (orig cur : list name) (h : history) (outs : dict Z),
    NoDup orig /\ run_history orig h = Some cur /\
    gn_map_outputs_legacy h outs
    <> dupdate [] (map (fun kv => (sigma orig cur (fst kv), snd kv)) outs).
Proof.
  exists [1]%positive, [2]%positive, [[(1, 2)]; [(2, 3)]; [(3, 2)]]%positive, [(1%positive, 7%Z)].
  split; [repeat constructor; simpl; intuition|].
  split; [reflexivity|]. vm_compute. congruence.
Qed.

(* F4: the cache key ignored output names and used renamed input names: two nodes wrapping one function
   (same definition hash) with different output names get the same key for the same arguments. *)
From HG Require Import Engine Cache.
Example F4_cache_key_refuted :
  exists (n1 n2 : node) (ins : dict val),
    n_fn n1 = n_fn n2 /\ n_outputs n1 <> n_outputs n2 /\
    cache_key_legacy true n1 ins = cache_key_legacy true n2 ins /\
    cache_key true [] n1 ins <> cache_key true [] n2 ins.
Proof.
  exists (mk_node 1 [5] [7] 1 [] [] [] KFunc 9)%positive, (mk_node 2 [5] [8] 1 [] [] [] KFunc 9)%positive,
         [(5%positive, VInt 1)].
  split; [reflexivity|]. split; [discriminate|]. split; [reflexivity | discriminate].
Qed.
