(* NestedProofs.v — the GraphNode executor as a function of its inputs (C05, C11, C14). *)
From HG Require Import Base Rename RenameProofs Engine Exec Nested.
From stdpp Require Import gmap.

(* what executing a (non-mapped) GraphNode means: translate the inputs through the wrapper's renames,
   run the inner graph with them, translate the exposed outputs back; a failure surfaces as the
   same error, a pause with the wrapper's name prefixed to the path *)
Lemma exec_ng_graph d r ft gt subs n st ins ig isel ieps ift igt isubs hin hout cur_out :
  n_kind n = KGraph ->
  dget subs (n_name n) = Some (NSub (NG ig isel ieps ift igt isubs) hin hout cur_out None) ->
  exec_ng (S d) r ft gt subs n st ins =
  match fst (execute (exec_ng d r ift igt isubs) r default_max_iterations ig (map_inputs_to_params hin ins)) with
  | RDone s => OOk (with_signals (emit_only d (NG ig isel ieps ift igt isubs)) hout cur_out
                                  (gn_map_outputs hout cur_out (filter_outputs ig s isel))) None
  | RFailed e _ => ORaise e
  | RPaused p _ => OPause (mk_pause (n_name n :: p_node p) (p_out p) (p_value p))
  end.
Proof. intros Hk Hs. cbn [exec_ng]. rewrite Hk, Hs. reflexivity. Qed.

(* a wrapped graph without emit-only names exposes exactly the translated inner outputs *)
Lemma filter_all {A} (f : A -> bool) (l : list A) : (forall x, f x = true) -> List.filter f l = l.
Proof. intro H. induction l as [|a l IH]; simpl; [reflexivity | rewrite H, IH; reflexivity]. Qed.
Lemma filter_none {A} (f : A -> bool) (l : list A) : (forall x, f x = false) -> List.filter f l = [].
Proof. intro H. induction l as [|a l IH]; simpl; [reflexivity | rewrite H; exact IH]. Qed.

Lemma with_signals_none hout cur_out outs : with_signals [] hout cur_out outs = outs.
Proof.
  unfold with_signals. rewrite filter_all by reflexivity. rewrite filter_none by reflexivity.
  simpl. apply app_nil_r.
Qed.

(* ... and the ordering-only outputs carry the sentinel, so they never appear among returned values *)
Lemma with_signals_sentinel sig hout cur_out outs c v :
  In (c, v) (with_signals sig hout cur_out outs) ->
  pos_in (gn_resolve_original hout c) sig = true -> v = VSentinel.
Proof.
  unfold with_signals. intros Hin Hs. apply in_app_or in Hin as [Hin|Hin].
  - apply filter_In in Hin as [_ Hn]. simpl in Hn. rewrite Hs in Hn. discriminate.
  - apply in_map_iff in Hin as [c' [E _]]. congruence.
Qed.

(* the executor of a GraphNode does not look at the outer run's state: a nested graph is a function
   node whose function is "run the inner graph" — so every engine theorem (C01, C02, ...) applies to
   graphs containing nested graphs, at every depth *)
Lemma exec_ng_state_independent d r ft gt subs n s1 s2 ins :
  n_kind n = KGraph -> exec_ng d r ft gt subs n s1 ins = exec_ng d r ft gt subs n s2 ins.
Proof. intros Hk. destruct d; simpl; rewrite Hk; reflexivity. Qed.

(* leaves are executed exactly as in a flat graph *)
Lemma exec_ng_leaf d r ft gt subs n st ins :
  n_kind n = KFunc -> exec_ng d r ft gt subs n st ins = exec_basic ft gt n st ins.
Proof. intros Hk. destruct d; simpl; rewrite Hk; reflexivity. Qed.

(* boundary, inputs: with valid rename history, the inner run is given exactly
   { original parameter -> value addressed to the wrapper's current name for it } *)
Lemma boundary_inputs orig hin cur (vs : list val) :
  List.NoDup orig -> history_keys_ok hin -> run_history orig hin = Some cur -> length vs = length cur ->
  map_inputs_to_params hin (combine cur vs) = combine orig vs.
Proof. apply call_receives_originals. Qed.

(* boundary, outputs: exactly { exposed name -> inner value of the original output } *)
Lemma boundary_outputs orig hout cur (values : dict val) :
  List.NoDup orig -> history_keys_ok hout -> run_history orig hout = Some cur ->
  gn_map_outputs hout cur values = dupdate [] (map (fun kv => (sigma orig cur (fst kv), snd kv)) values).
Proof. apply gn_map_outputs_correct. Qed.
