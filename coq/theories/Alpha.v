(* Alpha.v — C06 at the level of whole graphs: renaming the VALUE NAMES of a graph consistently (every producer's output,
   every consumer's input, waits, defaults, bindings and run-time inputs through one injective map sigma - what
   with_inputs / with_outputs on every node concerned amounts to) changes nothing that is computed: the solutions of the
   dataflow equations (C01's Sol) of the renamed graph are the renamed solutions, so a completed run of the renamed graph
   returns the values of the original run under the new names.  The executor of a renamed node is the executor of the original
   node up to the names of its argument and result dictionaries (what C06_call / C06_defaults_follow establish for the
   callables the implementation wraps). *)
From HG Require Import Base Engine EngineProofs C01Proofs.
From stdpp Require Import gmap.

Section Alpha.
  Variable sigma : name -> name.
  Context `{Hinj : !Inj (=) (=) sigma}.

  Definition rename_dict {A} (d : dict A) : dict A := map (fun kv => (sigma (fst kv), snd kv)) d.

  Definition rename_node (n : node) : node :=
    mk_node (n_name n) (map sigma (n_inputs n)) (map sigma (n_outputs n)) (n_ndata n) (map sigma (n_wait n))
            (map sigma (n_hasdef n)) (rename_dict (n_defval n)) (n_kind n) (n_fn n).

  Definition rename_graph (g : graph) : graph :=
    mk_graph (map rename_node (g_nodes g)) (rename_dict (g_bound g)) (g_active g).

  Definition rename_out (o : outcome) : outcome :=
    match o with
    | OOk outs dec => OOk (rename_dict outs) dec
    | ORaise e => ORaise e
    | OPause p => OPause (mk_pause (p_node p) (sigma (p_out p)) (p_value p))
    end.

  Lemma eqb_sigma a b : Pos.eqb (sigma a) (sigma b) = Pos.eqb a b.
  Proof.
    destruct (Pos.eqb a b) eqn:E.
    - apply Pos.eqb_eq in E. subst. apply Pos.eqb_refl.
    - apply Pos.eqb_neq. intros H. apply Hinj in H. subst. rewrite Pos.eqb_refl in E. discriminate.
  Qed.

  Lemma dget_rename {A} (d : dict A) x : dget (rename_dict d) (sigma x) = dget d x.
  Proof. induction d as [|[k v] d IH]; simpl; [reflexivity|]. rewrite eqb_sigma, IH. reflexivity. Qed.

  Lemma dget_rename_some {A} (d : dict A) y v : dget (rename_dict d) y = Some v -> exists x, y = sigma x /\ dget d x = Some v.
  Proof.
    induction d as [|[k w] d IH]; simpl; [discriminate|].
    destruct (Pos.eqb (sigma k) y) eqn:E.
    - apply Pos.eqb_eq in E. intros [= <-]. exists k. rewrite Pos.eqb_refl. auto.
    - intros H. destruct (IH H) as (x & -> & Hx). exists x. split; [reflexivity|].
      rewrite eqb_sigma in E. rewrite E. exact Hx.
  Qed.

  Lemma dmem_rename {A} (d : dict A) x : dmem (rename_dict d) (sigma x) = dmem d x.
  Proof. unfold dmem. rewrite dget_rename. reflexivity. Qed.

  Lemma pos_in_sigma x l : pos_in (sigma x) (map sigma l) = pos_in x l.
  Proof. unfold pos_in. induction l as [|a l IH]; simpl; [reflexivity|]. rewrite eqb_sigma, IH. reflexivity. Qed.

  Lemma in_rename_dict {A} (d : dict A) y v : In (y, v) (rename_dict d) <-> exists x, y = sigma x /\ In (x, v) d.
  Proof.
    unfold rename_dict. rewrite in_map_iff. split.
    - intros ([k w] & [= <- <-] & Hin). eauto.
    - intros (x & -> & Hin). exists (x, v). auto.
  Qed.

  Variable g : graph.
  Variable pv : dict val.
  Variable V : gmap name val.

  Definition V' : gmap name val := kmap sigma V.

  Lemma V'_sigma x : V' !! sigma x = V !! x.
  Proof. unfold V'. apply lookup_kmap. exact Hinj. Qed.

  Lemma V'_some y v : V' !! y = Some v -> exists x, y = sigma x /\ V !! x = Some v.
  Proof. unfold V'. intros H. apply lookup_kmap_Some in H; [exact H | exact Hinj]. Qed.

  Lemma has_input_rename n p :
    has_input (rename_graph g) (st_of V') (rename_node n) (sigma p) = has_input g (st_of V) n p.
  Proof.
    unfold has_input. simpl. rewrite V'_sigma, dmem_rename, pos_in_sigma. reflexivity.
  Qed.

  Lemma avail_rename n : avail (rename_graph g) V' (rename_node n) <-> avail g V n.
  Proof.
    unfold avail. simpl.
    assert (E : forall l, forallb (has_input (rename_graph g) (st_of V') (rename_node n)) (map sigma l) =
                          forallb (has_input g (st_of V) n) l).
    { induction l as [|p l IH]; simpl; [reflexivity|]. rewrite has_input_rename, IH. reflexivity. }
    rewrite E. reflexivity.
  Qed.

  Lemma resolve_rename n p :
    resolve (rename_graph g) (st_of V') (rename_dict pv) (rename_node n) (sigma p) = resolve g (st_of V) pv n p.
  Proof. unfold resolve. simpl. rewrite V'_sigma, !dget_rename. reflexivity. Qed.

  Lemma collect_rename n ps :
    collect_inputs (rename_graph g) (st_of V') (rename_dict pv) (rename_node n) (map sigma ps) =
    option_map rename_dict (collect_inputs g (st_of V) pv n ps).
  Proof.
    induction ps as [|p ps IH]; simpl; [reflexivity|]. rewrite resolve_rename, IH.
    destruct (resolve g (st_of V) pv n p); [|reflexivity].
    destruct (collect_inputs g (st_of V) pv n ps); reflexivity.
  Qed.

  Variables exec exec' : node -> state -> dict val -> outcome.
  Hypothesis Hexec : forall n s ins, In n (g_nodes g) ->
    exec' (rename_node n) s (rename_dict ins) = rename_out (exec n s ins).

  (* C06_alpha_equations *)
  Theorem sol_rename : Sol exec g pv V -> Sol exec' (rename_graph g) (rename_dict pv) V'.
  Proof.
    intros HS. constructor.
    - intros y v Hy. destruct (dget_rename_some pv y v Hy) as (x & -> & Hx).
      rewrite V'_sigma. exact (sol_provided _ _ _ _ HS x v Hx).
    - intros n' Hn' Hav. simpl in Hn'. apply in_map_iff in Hn' as (n & <- & Hn).
      apply avail_rename in Hav.
      destruct (sol_nodes _ _ _ _ HS n Hn Hav) as (ins & outs & Hc & He & Ho).
      exists (rename_dict ins), (rename_dict outs). split; [|split].
      + change (n_inputs (rename_node n)) with (map sigma (n_inputs n)). rewrite collect_rename, Hc. reflexivity.
      + rewrite (Hexec n empty_state ins Hn), He. reflexivity.
      + intros o v Hin. apply in_rename_dict in Hin as (x & -> & Hin). rewrite V'_sigma. exact (Ho x v Hin).
    - intros y v Hy. destruct (V'_some y v Hy) as (x & -> & Hx).
      destruct (sol_prov _ _ _ _ HS x v Hx) as [Hp|(n & Hn & Hxo & Hav)].
      + left. rewrite dget_rename. exact Hp.
      + right. exists (rename_node n). split; [|split].
        * simpl. apply in_map. exact Hn.
        * simpl. apply in_map. exact Hxo.
        * apply avail_rename. exact Hav.
  Qed.
End Alpha.

(* C06_alpha_runs: completed runs of the renamed graph return the renamed values *)
Theorem alpha_runs (sigma : name -> name) `{Hinj : !Inj (=) (=) sigma} (g : graph) (pv : dict val)
        (exec exec' : node -> state -> dict val -> outcome) :
  (forall n s ins, In n (g_nodes g) -> exec' (rename_node sigma n) s (rename_dict sigma ins) = rename_out sigma (exec n s ins)) ->
  WF exec g pv -> WF exec' (rename_graph sigma g) (rename_dict sigma pv) ->
  List.NoDup (dkeys pv) -> List.NoDup (dkeys (rename_dict sigma pv)) ->
  forall r1 r2 f1 f2 s s' l l',
  execute exec r1 f1 g pv = (RDone s, l) ->
  execute exec' r2 f2 (rename_graph sigma g) (rename_dict sigma pv) = (RDone s', l') ->
  vals s' = kmap sigma (vals s).
Proof.
  intros Hexec Hwf Hwf' Hnd Hnd' r1 r2 f1 f2 s s' l l' H1 H2.
  pose proof (run_reaches_solution exec g pv Hwf Hnd r1 f1 s l H1) as S1.
  pose proof (run_reaches_solution exec' _ _ Hwf' Hnd' r2 f2 s' l' H2) as S2.
  apply (Sol_unique exec' _ _ Hwf'); [exact S2|].
  exact (sol_rename sigma g pv (vals s) exec exec' Hexec S1).
Qed.
