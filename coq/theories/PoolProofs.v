(* PoolProofs.v — the bounded-concurrency map (worker pool): whatever the completion order, the results
   come back in input order, and in raise mode the surfaced failure is the smallest failing index.
   ssreflect / MathComp style.  Restates the tail of AsyncRunnerTemplate.map:
       results = [r for _, r in sorted(zip(order, results_list))]     (order = completion order of indices) *)
From mathcomp Require Import all_ssreflect.
Set Implicit Arguments.
Unset Strict Implicit.
Unset Printing Implicit Defensive.

Section Pool.
  Variable R : Type.
  Variable f : nat -> R.           (* the result of item i depends on the item only (C02 / C05) *)

  (* completion order -> returned list *)
  Definition pool_results (order : seq nat) : seq R := [seq f i | i <- sort leq order].

  Lemma sort_perm_iota (order : seq nat) n : perm_eq order (iota 0 n) -> sort leq order = iota 0 n.
  Proof.
    move=> Hp. apply: (@sorted_eq _ leq leq_trans anti_leq).
    - exact: (sort_sorted leq_total).
    - exact: iota_sorted.
    - by rewrite (permPl (permEl (perm_sort leq order))).
  Qed.

  (* every completion order of the n items yields the sequential result list *)
  Theorem pool_in_input_order (order : seq nat) n :
    perm_eq order (iota 0 n) -> pool_results order = [seq f i | i <- iota 0 n].
  Proof. by move=> Hp; rewrite /pool_results (sort_perm_iota Hp). Qed.

  (* raise mode: the first failing result in the returned list is the failing item of smallest index *)
  Variable failed : R -> bool.
  Theorem pool_first_failure (order : seq nat) n i :
    perm_eq order (iota 0 n) -> i < n -> failed (f i) -> (forall j, j < i -> ~~ failed (f j)) ->
    find failed (pool_results order) = i.
  Proof.
    move=> Hp Hi Hf Hlt. rewrite (pool_in_input_order Hp).
    have -> : iota 0 n = iota 0 i ++ i :: iota i.+1 (n - i.+1).
    { rewrite -[in LHS](subnKC (ltnW Hi)) iotaD add0n. congr (_ ++ _).
      by rewrite -[n - i](@subnSK i n) //=. }
    rewrite map_cat find_cat.
    have -> : has failed [seq f i0 | i0 <- iota 0 i] = false.
    { rewrite has_map. apply/hasPn => j. rewrite mem_iota add0n /= => Hj. exact: Hlt. }
    by rewrite /= Hf addn0 size_map size_iota.
  Qed.
End Pool.

(* interface for files written in stdlib / std++ style *)
Definition is_completion_order (order : list nat) (n : nat) : Prop := perm_eq order (iota 0 n) = true.

Lemma iota_seq i n : iota i n = List.seq i n.
Proof. by elim: n i => [|n IH] i //=; rewrite IH. Qed.

Theorem pool_in_input_order' (R : Type) (f : nat -> R) (order : list nat) (n : nat) :
  is_completion_order order n -> pool_results f order = List.map f (List.seq 0 n).
Proof. by move=> Hp; rewrite (pool_in_input_order f Hp) iota_seq. Qed.
