(* C01Term.v — acyclic, gate-free dataflow TERMINATES: within (depth + 1) supersteps nothing is ready any more,
   under either runner.  Together with C01Proofs (every completed run ends in the unique solution of the dataflow
   equations) this is total correctness of the run on DAGs.

   Idea: call a node SETTLED when it is DONE (executed, and the versions it recorded for its inputs are the current
   ones) or DEAD (some input is unavailable and every producer of that input is dead).  A settled node is not ready,
   so it does not execute, so the outputs of settled nodes do not change, so nodes whose input producers are all
   settled stay settled: "every node of rank < k is settled" is preserved by a superstep, and a superstep extends it
   to rank k (a node of rank k whose inputs are available and which needs execution is ready, runs in this very
   step, and records exactly the final versions).  *)
From HG Require Import Base Engine EngineProofs C01Proofs.
From stdpp Require Import gmap.

Section C01Term.
  Variable exec : node -> state -> dict val -> outcome.
  Variable g : graph.
  Variable pv : dict val.
  Hypothesis Hwf : WF exec g pv.
  Hypothesis Hpvnd : List.NoDup (dkeys pv).
  (* a rank function witnessing acyclicity (WF only says that one exists) *)
  Variable rank : name -> nat.
  Hypothesis Hrank : forall n m p, In n (g_nodes g) -> In m (g_nodes g) ->
      In p (n_inputs n) -> In p (n_outputs m) -> rank (n_name m) < rank (n_name n).

  Local Notation InvS := (Inv exec g pv).
  Local Notation apply_s := (apply_success exec g).

  Definition done (st : state) (n : node) : Prop :=
    exists r, execs st !! n_name n = Some r /\ is_stale g st n r = false.

  Inductive dead (st : state) : node -> Prop :=
  | dead_intro n p :
      In p (n_inputs n) -> has_input g st n p = false ->
      (forall m, In m (g_nodes g) -> In p (n_outputs m) -> dead st m) -> dead st n.

  Definition settled (st : state) (n : node) : Prop := done st n \/ dead st n.

  Definition Stable (k : nat) (st : state) : Prop :=
    forall n, In n (g_nodes g) -> rank (n_name n) < k -> settled st n.

  (* ---------- settled nodes are not ready ---------- *)

  Lemma has_input_same a b n p : vals a = vals b -> has_input g a n p = has_input g b n p.
  Proof. intros E. unfold has_input. rewrite E. reflexivity. Qed.

  Lemma is_stale_same a b n r : vers a = vers b -> is_stale g a n r = is_stale g b n r.
  Proof. intros E. unfold is_stale, ver. rewrite E. reflexivity. Qed.

  Lemma settled_not_ready st n : settled st n -> node_ready g (ready_state g st) n = false.
  Proof.
    destruct (ready_same g st) as [[Ev Evs] Ee]. fold (ready_state g st) in Ev, Evs, Ee.
    intros [[r [Hr Hs]]|Hd]; unfold node_ready.
    - assert (Hne : needs_execution g (ready_state g st) n = false).
      { unfold needs_execution. rewrite Ee, Hr. rewrite <- (is_stale_same st); [exact Hs | exact Evs]. }
      rewrite Hne. apply andb_false_r.
    - destruct Hd as [n p Hp Hh _].
      assert (Hf : forallb (has_input g (ready_state g st) n) (n_inputs n) = false).
      { apply not_true_is_false. intro Hall. rewrite forallb_forall in Hall. specialize (Hall p Hp).
        rewrite <- (has_input_same st) in Hall; [congruence | exact Ev]. }
      rewrite Hf. rewrite andb_false_r. reflexivity.
  Qed.

  Lemma settled_not_in_ready st n : settled st n -> ~ In n (ready_list g st).
  Proof.
    intros Hs Hin. apply ready_list_r0 in Hin as (_ & _ & Hr). rewrite (settled_not_ready st n Hs) in Hr. discriminate.
  Qed.

  (* in a gate-free, wait-free graph "ready" is just node_ready *)
  Lemma node_ready_in_list st n :
    In n (g_nodes g) -> node_ready g (ready_state g st) n = true -> In n (ready_list g st).
  Proof.
    intros Hn Hr. apply ready_complete; auto.
    - unfold is_active. rewrite (wf_active _ _ _ Hwf). reflexivity.
    - unfold is_blocked. apply not_true_is_false. intros Hb. apply existsb_exists in Hb as ([G t] & Hgt & _).
      unfold blocked_targets in Hgt. apply in_flat_map in Hgt as (m & Hm & Hmt).
      apply filter_In in Hm as [Hm _]. destruct (wf_kinds _ _ _ Hwf m Hm) as [[Hk|Hk] _];
      unfold is_gate in Hmt; rewrite Hk in Hmt; contradiction.
    - unfold deferred. destruct (wf_kinds _ _ _ Hwf n Hn) as [_ Hw]. rewrite Hw. reflexivity.
  Qed.

  (* ---------- one parallel step ---------- *)

  Lemma fold_other_ver snap rd : forall acc x,
    (forall n, In n rd -> In n (g_nodes g) /\ ok_node exec g pv snap n /\ ~ In x (n_outputs n)) ->
    ver (fold_left (apply_s snap pv) rd acc) x = ver acc x.
  Proof.
    induction rd as [|a rd IH]; intros acc x H; simpl; [reflexivity|].
    rewrite IH by (intros n Hn; apply H; right; exact Hn).
    destruct (H a (or_introl eq_refl)) as (Ha & Hok & Hx).
    apply (apply_s_other exec g pv Hwf snap acc a x Ha Hok Hx).
  Qed.

  (* the situation of one superstep from a to b *)
  Record Step (a b : state) : Prop := {
    st_rd_nodes : forall n, In n (ready_list g a) -> In n (g_nodes g);
    st_ok : forall n, In n (ready_list g a) -> ok_node exec g pv (ready_state g a) n;
    st_b : b = par_step exec g pv (ready_state g a) (ready_list g a) }.

  (* a name none of whose producers executes keeps its value and version *)
  Lemma step_unwritten a b x : Step a b ->
    (forall m, In m (ready_list g a) -> ~ In x (n_outputs m)) ->
    vals b !! x = vals a !! x /\ ver b x = ver a x.
  Proof.
    intros [Hn Hok ->] Hx. destruct (ready_same g a) as [[Ev Evs] _]. fold (ready_state g a) in Ev, Evs.
    unfold par_step. split.
    - rewrite (fold_other exec g pv Hwf); [rewrite <- Ev; reflexivity|]. intros n Hin. auto.
    - rewrite fold_other_ver; [unfold ver; rewrite <- Evs; reflexivity|]. intros n Hin. auto.
  Qed.

  Lemma step_execs_out a b n : Step a b -> ~ In n (ready_list g a) -> In n (g_nodes g) ->
    execs b !! n_name n = execs a !! n_name n.
  Proof.
    intros [Hn Hok ->] Hnin Hng. destruct (ready_same g a) as [_ Ee]. fold (ready_state g a) in Ee.
    unfold par_step. rewrite (fold_execs_out exec g pv); [rewrite Ee; reflexivity | exact Hok |].
    intros Hin. apply in_map_iff in Hin as [m [E Hm]]. apply Hnin.
    assert (m = n) by (apply (node_by_name exec g pv Hwf); auto). subst. exact Hm.
  Qed.

  Lemma step_execs_in a b n : Step a b -> In n (ready_list g a) ->
    execs b !! n_name n = Some (record_of (ready_state g a) n).
  Proof.
    intros [Hn Hok ->] Hin. unfold par_step. apply (fold_execs_in exec g pv); auto. apply (ready_list_nodup exec g pv Hwf).
  Qed.

  (* producers of the inputs of n are all settled (before the step) *)
  Definition inputs_settled (a : state) (n : node) : Prop :=
    forall p m, In p (n_inputs n) -> In m (g_nodes g) -> In p (n_outputs m) -> settled a m.

  Lemma inputs_fixed a b n p : Step a b -> inputs_settled a n -> In p (n_inputs n) ->
    vals b !! p = vals a !! p /\ ver b p = ver a p.
  Proof.
    intros HS Hset Hp. apply (step_unwritten a b p HS). intros m Hm Hout.
    apply (settled_not_in_ready a m); [|exact Hm]. eapply Hset; eauto. apply (st_rd_nodes a b HS). exact Hm.
  Qed.

  Lemma existsb_ext_in' {A} (f h : A -> bool) (l : list A) : (forall x, In x l -> f x = h x) -> existsb f l = existsb h l.
  Proof.
    induction l as [|x l IH]; intros H; simpl; [reflexivity|].
    rewrite (H x (or_introl eq_refl)), IH; [reflexivity|]. intros y Hy. apply H. right. exact Hy.
  Qed.

  Lemma existsb_false_iff' {A} (f : A -> bool) (l : list A) : existsb f l = false <-> forall x, In x l -> f x = false.
  Proof.
    induction l as [|x l IH]; simpl; [split; [intros _ y [] | reflexivity]|].
    rewrite orb_false_iff, IH. split.
    - intros [Hx Hl] y [<-|Hy]; auto.
    - intros H. split; [apply H; left; reflexivity | intros y Hy; apply H; right; exact Hy].
  Qed.

  Lemma is_stale_fixed a b n r : In n (g_nodes g) ->
    (forall p, In p (n_inputs n) -> ver b p = ver a p) -> is_stale g b n r = is_stale g a n r.
  Proof.
    intros Hn H. unfold is_stale. apply existsb_ext_in'. intros p Hp. rewrite (H p Hp). reflexivity.
  Qed.

  Lemma done_preserved a b n : Step a b -> In n (g_nodes g) -> inputs_settled a n -> done a n -> done b n.
  Proof.
    intros HS Hn Hset [r [Hr Hs]]. exists r. split.
    - rewrite (step_execs_out a b n HS); [exact Hr | | exact Hn].
      apply settled_not_in_ready. left. exists r. auto.
    - rewrite (is_stale_fixed a b n r Hn); [exact Hs|]. intros p Hp. apply (inputs_fixed a b n p HS Hset Hp).
  Qed.

  Lemma dead_preserved a b n : Step a b -> dead a n -> dead b n.
  Proof.
    intros HS Hd. induction Hd as [n p Hp Hh Hprod IH].
    apply (dead_intro b n p Hp); [|exact IH].
    assert (Hv : vals b !! p = vals a !! p).
    { apply (step_unwritten a b p HS). intros m Hm Hout.
      apply (settled_not_in_ready a m); [right; apply Hprod; [apply (st_rd_nodes a b HS)|]; assumption | exact Hm]. }
    unfold has_input in *. rewrite Hv. exact Hh.
  Qed.

  (* ---------- Stable is preserved and extended by a superstep ---------- *)

  Lemma stable_inputs_settled k a n : Stable k a -> In n (g_nodes g) -> rank (n_name n) <= k -> inputs_settled a n.
  Proof.
    intros HS Hn Hk p m Hp Hm Hout. apply HS; [exact Hm|].
    pose proof (Hrank n m p Hn Hm Hp Hout). lia.
  Qed.

  Lemma settled_preserved k a b n : Step a b -> Stable k a -> In n (g_nodes g) -> rank (n_name n) < k ->
    settled b n.
  Proof.
    intros HS HSt Hn Hk. destruct (HSt n Hn Hk) as [Hd|Hd].
    - left. apply (done_preserved a b n HS Hn); [|exact Hd].
      apply (stable_inputs_settled k a n HSt Hn). lia.
    - right. apply (dead_preserved a b n HS Hd).
  Qed.

  Lemma record_in_ver s n p : In p (n_inputs n) -> default 0 (dget (r_in (record_of s n)) p) = ver s p.
  Proof. intros Hp. rewrite (record_in s n p Hp). reflexivity. Qed.

  Lemma stable_step k a b : InvS a -> Step a b -> Stable k a -> Stable (S k) b.
  Proof.
    intros HI HS HSt n Hn Hk.
    destruct (Nat.lt_ge_cases (rank (n_name n)) k) as [Hlt|Hge].
    { eapply settled_preserved; eauto. }
    assert (Hset : inputs_settled a n) by (apply (stable_inputs_settled k a n HSt Hn); lia).
    destruct (ready_same g a) as [[Ev Evs] Ee]. fold (ready_state g a) in Ev, Evs, Ee.
    destruct (forallb (has_input g a n) (n_inputs n)) eqn:Hav.
    - (* all inputs available: done already, or ready and executed in this very step *)
      destruct (needs_execution g a n) eqn:Hne.
      + assert (Hr : node_ready g (ready_state g a) n = true).
        { unfold node_ready.
          assert (E1 : activated g (ready_state g a) (n_name n) = true).
          { unfold activated. rewrite (ungated exec g pv Hwf n Hn). reflexivity. }
          assert (E2 : forallb (has_input g (ready_state g a) n) (n_inputs n) = true).
          { rewrite <- Hav. clear -Ev. induction (n_inputs n) as [|q l IH]; simpl; [reflexivity|].
            rewrite IH. rewrite (has_input_same a (ready_state g a) n q Ev). reflexivity. }
          assert (E3 : wait_ok (ready_state g a) n = true).
          { unfold wait_ok. destruct (wf_kinds _ _ _ Hwf n Hn) as [_ Hw]. rewrite Hw. reflexivity. }
          assert (E4 : needs_execution g (ready_state g a) n = true).
          { rewrite <- Hne. unfold needs_execution. rewrite Ee. destruct (execs a !! n_name n); [|reflexivity].
            symmetry. apply is_stale_same. exact Evs. }
          rewrite E1, E2, E3, E4. reflexivity. }
        assert (Hin : In n (ready_list g a)) by (apply node_ready_in_list; assumption).
        left. exists (record_of (ready_state g a) n). split; [apply (step_execs_in a b n HS Hin)|].
        unfold is_stale. apply existsb_false_iff'. intros p Hp.
        destruct (negb (gated g n) && pos_in p (n_outputs n)); [reflexivity|].
        rewrite (record_in_ver _ n p Hp).
        destruct (inputs_fixed a b n p HS Hset Hp) as [_ Hv]. rewrite Hv. unfold ver. rewrite Evs.
        apply negb_false_iff. apply Nat.eqb_refl.
      + left. apply (done_preserved a b n HS Hn Hset).
        unfold needs_execution in Hne. destruct (execs a !! n_name n) as [r|] eqn:Er; [|discriminate].
        exists r. auto.
    - (* some input is unavailable: it stays unavailable for ever *)
      right. apply (dead_preserved a b n HS).
      assert (Hex : exists p, In p (n_inputs n) /\ has_input g a n p = false).
      { clear -Hav. induction (n_inputs n) as [|q l IH]; simpl in Hav; [discriminate|].
        destruct (has_input g a n q) eqn:Eq.
        - simpl in Hav. destruct (IH Hav) as [p [Hp Hh]]. exists p. split; [right; exact Hp | exact Hh].
        - exists q. split; [left; reflexivity | exact Eq]. }
      destruct Hex as [p [Hp Hh]]. apply (dead_intro a n p Hp Hh). intros m Hm Hout.
      destruct (Hset p m Hp Hm Hout) as [[r [Hr _]]|Hd]; [|exact Hd].
      (* a producer that has executed has written p *)
      exfalso. destruct (inv_exec _ _ _ _ HI m r Hm Hr) as (s & ins & outs & _ & _ & _ & Hc & He & _ & Hv).
      destruct (wf_outs _ _ _ Hwf m s ins outs None Hm (collect_keys _ _ _ _ _ _ Hc) He) as [Hko _].
      rewrite <- Hko in Hout. apply in_map_iff in Hout as [[o v] [E Hov]]. simpl in E. subst o.
      specialize (Hv p v Hov). unfold has_input in Hh. rewrite Hv in Hh. discriminate.
  Qed.

  (* ---------- along a run ---------- *)

  Lemma steps_step r a b calls :
    superstep exec r g (ready_state g a) pv (ready_list g a) = (SOk b, calls) -> Step a b.
  Proof.
    intros Hs.
    assert (Hrd : forall n, In n (ready_list g a) -> In n (g_nodes g)) by (intros n; apply (ready_list_nodes g a n)).
    destruct (superstep_is_par exec g pv Hwf r _ _ _ _ Hrd Hs) as [-> Hok].
    constructor; auto.
  Qed.

  Lemma stable_steps r k a c : steps exec r g pv k a c -> forall j, InvS a -> Stable j a -> Stable (j + k) c.
  Proof.
    induction 1 as [a|k a b c calls Hne Hs Hrest IH]; intros j HI HSt.
    - rewrite Nat.add_0_r. exact HSt.
    - replace (j + S k) with (S j + k) by lia. apply IH.
      + apply (Inv_steps exec g pv Hwf r 1 a b); [|exact HI].
        econstructor; [exact Hne | exact Hs | constructor].
      + apply (stable_step j a b HI (steps_step r a b calls Hs) HSt).
  Qed.

  Lemma stable_quiescent k st : (forall n, In n (g_nodes g) -> rank (n_name n) < k) -> Stable k st -> ready_list g st = [].
  Proof.
    intros Hk HSt. destruct (ready_list g st) as [|n l] eqn:E; [reflexivity|]. exfalso.
    assert (Hin : In n (ready_list g st)) by (rewrite E; left; reflexivity).
    apply (settled_not_in_ready st n); [|exact Hin].
    assert (Hn : In n (g_nodes g)) by (apply (ready_list_nodes g st n); exact Hin). apply HSt; auto.
  Qed.

  (* C01_terminates: after K supersteps nothing is ready, K = any strict bound on the ranks (depth + 1) *)
  Theorem dag_quiescent_within r K sk :
    (forall n, In n (g_nodes g) -> rank (n_name n) < K) ->
    steps exec r g pv K (init_state pv) sk -> ready_list g sk = [].
  Proof.
    intros HK Hst. apply (stable_quiescent K sk HK).
    apply (stable_steps r K _ _ Hst 0); [apply (Inv_init exec g pv Hpvnd) | intros n _ Hlt; lia].
  Qed.

  Lemma steps_prefix r k a c : steps exec r g pv k a c -> forall j, j <= k -> exists b, steps exec r g pv j a b /\ steps exec r g pv (k - j) b c.
  Proof.
    induction 1 as [a|k a b c calls Hne Hs Hrest IH]; intros j Hj.
    - assert (j = 0) by lia. subst. exists a. split; constructor.
    - destruct j as [|j].
      + exists a. split; [constructor|]. simpl. econstructor; eauto.
      + destruct (IH j) as [b' [H1 H2]]; [lia|]. exists b'. split; [econstructor; eauto | exact H2].
  Qed.

  (* the run never runs out of budget: with max_iterations >= K a failure is always the failure of a node's superstep,
     never InfiniteLoopError raised by the loop *)
  Theorem dag_budget_suffices r fuel K :
    (forall n, In n (g_nodes g) -> rank (n_name n) < K) -> K <= fuel ->
    match fst (execute exec r fuel g pv) with
    | RDone _ => True
    | RFailed e p => exists k sk calls, k < fuel /\ steps exec r g pv k (init_state pv) sk /\ ready_list g sk <> [] /\
                       superstep exec r g (ready_state g sk) pv (ready_list g sk) = (SErr e p, calls)
    | RPaused _ _ => True
    end.
  Proof.
    intros HK Hf.
    pose proof (run_loop_spec exec r fuel g pv (init_state pv) []) as Hspec. unfold execute.
    destruct (fst (run_loop exec r fuel g pv (init_state pv) [])) as [st|e q|pz s]; [exact I | | exact I].
    destruct Hspec as [Hnode|(-> & sk & Hst & Hne & ->)]; [exact Hnode|].
    exfalso. destruct (steps_prefix r fuel _ _ Hst K Hf) as [b [H1 H2]].
    pose proof (dag_quiescent_within r K b HK H1) as Hq.
    inversion H2; subst; congruence.
  Qed.

  (* every node of the ready list executes successfully when no node function raises *)
  Lemma ready_all_ok st :
    (forall n s ins e, In n (g_nodes g) -> exec n s ins <> ORaise e) ->
    InvS st -> Forall (step_ok exec g (ready_state g st) pv) (ready_list g st).
  Proof.
    intros Hnr HI. apply Coq.Lists.List.Forall_forall. intros n Hin.
    destruct (ready_list_r0 g st n Hin) as (Hn & _ & Hr).
    destruct (ready_same g st) as [[Ev _] _]. fold (ready_state g st) in Ev.
    unfold node_ready in Hr. apply andb_true_iff in Hr as [Hr _]. apply andb_true_iff in Hr as [Hr _].
    apply andb_true_iff in Hr as [_ Hav].
    assert (Hpv : forall x w, dget pv x = Some w -> vals (ready_state g st) !! x = Some w).
    { intros x w Hx. rewrite <- Ev. apply (inv_pv _ _ _ _ HI). exact Hx. }
    destruct (proj2 (collect_some_iff exec g pv Hwf (ready_state g st) n (n_inputs n) Hn Hpv) Hav) as [ins Hc].
    unfold step_ok, run_one. rewrite Hc.
    destruct (exec n (ready_state g st) ins) as [outs dec|e|p] eqn:Ee.
    - exists ins, outs, dec. reflexivity.
    - exfalso. apply (Hnr n _ _ e Hn Ee).
    - exfalso. apply (wf_nopause _ _ _ Hwf n _ _ p Hn Ee).
  Qed.

  (* C01_completes: with max_iterations >= K and node functions that do not raise, the run COMPLETES *)
  Theorem dag_completes r fuel K :
    (forall n, In n (g_nodes g) -> rank (n_name n) < K) -> K <= fuel ->
    (forall n s ins e, In n (g_nodes g) -> exec n s ins <> ORaise e) ->
    exists st, fst (execute exec r fuel g pv) = RDone st.
  Proof.
    intros HK Hf Hnr.
    pose proof (dag_budget_suffices r fuel K HK Hf) as Hb.
    pose proof (run_loop_spec exec r fuel g pv (init_state pv) []) as Hspec. unfold execute in *.
    destruct (fst (run_loop exec r fuel g pv (init_state pv) [])) as [st|e q|pz s].
    - exists st. reflexivity.
    - exfalso. destruct Hb as (k & sk & calls & _ & Hst & _ & Hs).
      assert (HI : InvS sk) by (apply (Inv_steps exec g pv Hwf r k _ _ Hst); apply (Inv_init exec g pv Hpvnd)).
      pose proof (ready_all_ok sk Hnr HI) as Hall.
      assert (Hni : List.filter is_interrupt (ready_list g sk) = []).
      { apply (no_interrupts exec g pv Hwf). intros n Hn. apply (ready_list_nodes g sk n Hn). }
      assert (Hsync : superstep exec Sync g (ready_state g sk) pv (ready_list g sk) =
                      superstep exec r g (ready_state g sk) pv (ready_list g sk)).
      { destruct r; [reflexivity|]. apply superstep_runners_agree; assumption. }
      rewrite <- Hsync in Hs. simpl in Hs.
      rewrite (superstep_sync_ok exec g _ pv _ _ [] Hall) in Hs. discriminate.
    - exfalso. destruct Hspec as (k & sk & s2 & calls & _ & Hst & _ & Hs & _).
      assert (HI : InvS sk) by (apply (Inv_steps exec g pv Hwf r k _ _ Hst); apply (Inv_init exec g pv Hpvnd)).
      pose proof (ready_all_ok sk Hnr HI) as Hall.
      assert (Hni : List.filter is_interrupt (ready_list g sk) = []).
      { apply (no_interrupts exec g pv Hwf). intros n Hn. apply (ready_list_nodes g sk n Hn). }
      assert (Hsync : superstep exec Sync g (ready_state g sk) pv (ready_list g sk) =
                      superstep exec r g (ready_state g sk) pv (ready_list g sk)).
      { destruct r; [reflexivity|]. apply superstep_runners_agree; assumption. }
      rewrite <- Hsync in Hs. simpl in Hs.
      rewrite (superstep_sync_ok exec g _ pv _ _ [] Hall) in Hs. discriminate.
  Qed.
End C01Term.
