(* EngineCheck.v — executable comparison helpers for the engine-level harness. *)
From HG Require Import Base Engine Exec SpecDenote GraphDef CheckLib.
From stdpp Require Import gmap.

Definition call_eqb (a b : call) : bool :=
  Pos.eqb (fst a) (fst b) && dict_eqb val_eqb (snd a) (snd b).

Fixpoint count_call (c : call) (l : list call) : nat :=
  match l with [] => 0 | x :: l' => (if call_eqb c x then 1 else 0) + count_call c l' end.

Definition calls_multiset_eqb (a b : list call) : bool :=
  Nat.eqb (length a) (length b) && forallb (fun c => Nat.eqb (count_call c a) (count_call c b)) a.

Definition count_name (x : name) (l : list call) : nat :=
  length (List.filter (fun c => Pos.eqb (fst c) x) l).

(* last call of node x in a log *)
Definition last_call (x : name) (l : list call) : option (dict val) :=
  match rev (List.filter (fun c => Pos.eqb (fst c) x) l) with c :: _ => Some (snd c) | [] => None end.

(* C01 oracle pieces, all phrased against the SPEC denote *)
Definition spec_ran (ft : dict fexp) (gt : dict gate_cfg) (g : graph) (pv : dict val) : list (name * dict val) :=
  d_ran (denote (exec_basic ft gt) g pv).

(* every node: called at least once iff the spec evaluates it *)
Definition runs_iff_evaluable (ft : dict fexp) (gt : dict gate_cfg) (g : graph) (pv : dict val) (log : list call) : bool :=
  let ran := spec_ran ft gt g pv in
  forallb (fun n => Bool.eqb (Nat.ltb 0 (count_name (n_name n) log)) (dmem ran (n_name n))) (g_nodes g).

(* the final call of every evaluated node received exactly the spec's arguments *)
Definition last_args_match (ft : dict fexp) (gt : dict gate_cfg) (g : graph) (pv : dict val) (log : list call) : bool :=
  let ran := spec_ran ft gt g pv in
  forallb (fun na => match last_call (fst na) log with
                     | Some args => dict_eqb val_eqb args (snd na)
                     | None => false end) ran.

(* a node whose upstream-fed parameters carry no default runs exactly once *)
Definition edge_fed_default (g : graph) (n : node) : bool :=
  existsb (fun p => pos_in p (n_hasdef n) && pos_in p (flat_map n_outputs (g_nodes g))) (n_inputs n).
(* ... of the node itself or of any node upstream of it (a re-executed producer re-triggers its consumers) *)
Definition upstream_default (g : graph) (n : node) : bool :=
  existsb (fun m => edge_fed_default g m &&
                    (Pos.eqb (n_name m) (n_name n) || reaches (g_nodes g) (n_name m) (n_name n))) (g_nodes g).
Definition exactly_once (ft : dict fexp) (gt : dict gate_cfg) (g : graph) (pv : dict val) (log : list call) : bool :=
  let ran := spec_ran ft gt g pv in
  forallb (fun n => if dmem ran (n_name n) && negb (upstream_default g n)
                    then Nat.eqb (count_name (n_name n) log) 1 else true) (g_nodes g).

Definition map_results_eqb (m : err + list result) (real : list (nat * dict val * option err)) : bool :=
  match m with
  | inl _ => false
  | inr rs => list_eqb (fun (a : result) (b : nat * dict val * option err) =>
                Nat.eqb (res_status a) (fst (fst b)) && dict_eqb val_eqb (res_values a) (snd (fst b)) &&
                opt_eqb Pos.eqb (res_err a) (snd b)) rs real
  end.

Definition pause_eqb (a b : pause) : bool :=
  list_eqb Pos.eqb (p_node a) (p_node b) && Pos.eqb (p_out a) (p_out b) && val_eqb (p_value a) (p_value b).
