(* GateProofs.v — C03 at run level: a node whose only controlling gate is closed by default is never scheduled before that
   gate has completed an execution, in any state a run reaches (any graph, either runner). *)
From HG Require Import Base Engine EngineProofs NodeOrder Provenance LoopProofs.
From stdpp Require Import gmap.

Section Gates.
  Variable exec : node -> state -> dict val -> outcome.
  Variable g : graph.
  Variable pv : dict val.

  Local Notation app := (apply_success exec g).

  (* a standing decision belongs to a gate that has an execution record *)
  Definition DecExec (st : state) : Prop := forall G, decs st !! G <> None -> execs st !! G <> None.

  Lemma write_decisions_decs_src snap pi : forall acc G,
    decs (write_decisions exec g snap pv pi acc) !! G <> None ->
    decs acc !! G <> None \/ exists n, In n pi /\ n_name n = G.
  Proof.
    unfold write_decisions. induction pi as [|n pi IH]; intros acc G H; simpl in *; [left; exact H|].
    destruct (IH _ _ H) as [H1|(m & Hm & HG)]; [|right; exists m; auto].
    destruct (Pos.eq_dec (n_name n) G) as [<-|Hne]; [right; exists n; auto|].
    left. destruct (snd (run_one exec g snap pv n)) as [outs [d|]|e|p]; try exact H1.
    destruct d as [d'|]; simpl in H1; [rewrite lookup_insert_ne in H1 by exact Hne | rewrite lookup_delete_ne in H1 by exact Hne]; exact H1.
  Qed.

  Lemma fold_app_execs_in snap rd : forall acc n,
    In n rd -> step_ok exec g snap pv n -> execs (fold_left (app snap pv) rd acc) !! n_name n <> None.
  Proof.
    induction rd as [|a rd IH]; intros acc n Hin Hok; [contradiction|]. simpl. destruct Hin as [->|Hin]; [|apply IH; assumption].
    apply (fold_app_execs_mono exec g pv). destruct Hok as (ins & outs & dec & Hr).
    unfold apply_success. rewrite Hr. simpl. rewrite execs_apply_outputs. rewrite lookup_insert. discriminate.
  Qed.

  Lemma fold_app_decs snap rd : forall acc, decs (fold_left (app snap pv) rd acc) = decs acc.
  Proof.
    induction rd as [|n rd IH]; intros acc; simpl; [reflexivity|]. rewrite IH. apply apply_success_fields.
  Qed.

  (* a successful superstep, either runner: decisions are written only for nodes that also get an execution record *)
  Lemma DecExec_superstep r snap rd b calls :
    DecExec snap -> superstep exec r g snap pv rd = (SOk b, calls) -> DecExec b.
  Proof.
    intros HD Hs G HG.
    assert (Hshape : exists rd' pi, b = fold_left (app snap pv) rd' (write_decisions exec g snap pv pi snap) /\
                       Forall (step_ok exec g snap pv) rd' /\ (forall n, In n pi -> exists m, In m rd' /\ n_name m = n_name n)).
    { destruct r; simpl in Hs.
      - assert (Hall : Forall (step_ok exec g snap pv) rd) by (eapply (sync_all_ok exec pv); exact Hs).
        rewrite (superstep_sync_ok exec g snap pv rd snap [] Hall) in Hs. injection Hs as <- _.
        exists rd, rd. split; [reflexivity|]. split; [exact Hall|]. intros n Hn. exists n. auto.
      - unfold superstep_async in Hs.
        destruct (first_failure exec g snap pv (isolate rd)) as [[e|p]|] eqn:Ef; try discriminate.
        injection Hs as <- _.
        exists (isolate rd), (List.filter (fun n => pos_in (n_name n) (map n_name (isolate rd))) rd).
        split; [reflexivity|]. split; [apply (async_all_ok exec pv); exact Ef|].
        intros n Hn. apply filter_In in Hn as [_ Hn]. apply pos_in_In in Hn. apply in_map_iff in Hn as [m [E Hm]]. exists m. auto. }
    destruct Hshape as (rd' & pi & -> & Hall & Hpi).
    rewrite fold_app_decs in HG.
    apply write_decisions_decs_src in HG as [HG|(n & Hn & <-)].
    - apply (fold_app_execs_mono exec g pv).
      destruct (write_decisions_same exec g snap pv pi snap) as [_ Hex]. rewrite Hex. apply HD. exact HG.
    - destruct (Hpi n Hn) as [m [Hm Hname]]. rewrite <- Hname. apply fold_app_execs_in; [exact Hm|].
      rewrite Coq.Lists.List.Forall_forall in Hall. apply Hall. exact Hm.
  Qed.

  Lemma DecExec_same a b : decs a = decs b -> execs a = execs b -> DecExec a -> DecExec b.
  Proof. intros E1 E2 H G HG. rewrite <- E1 in HG. rewrite <- E2. apply H. exact HG. Qed.

  (* clearing stale decisions only removes decisions *)
  Lemma clear_stale_decs_sub st G : decs (clear_stale g st) !! G <> None -> decs st !! G <> None.
  Proof.
    rewrite clear_stale_decs. unfold cleared. destruct (decs st !! G) as [d|]; [discriminate | auto].
  Qed.

  Lemma DecExec_ready st : DecExec st -> DecExec (ready_state g st).
  Proof.
    intros H G HG. unfold ready_state, ready in *. simpl in *.
    destruct (clear_stale_same g st) as [_ Hex]. rewrite Hex. apply H. apply clear_stale_decs_sub. exact HG.
  Qed.

  Lemma DecExec_init : DecExec (init_state pv).
  Proof.
    intros G HG. unfold init_state in HG. rewrite decs_apply_outputs in HG. simpl in HG. rewrite lookup_empty in HG. congruence.
  Qed.

  Lemma DecExec_steps r k a b : steps exec r g pv k a b -> DecExec a -> DecExec b.
  Proof.
    induction 1 as [a|k a b c calls Hne Hs _ IH]; intros Ha; [exact Ha|]. apply IH.
    apply (DecExec_superstep r _ _ _ _ (DecExec_ready a Ha) Hs).
  Qed.

  (* C03_closed_gate_first *)
  Theorem closed_gate_runs_first r k st t G gn :
    steps exec r g pv k (init_state pv) st ->
    In t (ready_list g st) ->
    controlled_by g (n_name t) = [G] ->
    find_node g G = Some gn -> gate_default_open gn = false ->
    execs (ready_state g st) !! G <> None.
  Proof.
    intros Hst Hin Hc Hf Hclosed.
    assert (HD : DecExec (ready_state g st)).
    { apply DecExec_ready. apply (DecExec_steps r k _ _ Hst). apply DecExec_init. }
    assert (Hne : controlled_by g (n_name t) <> []) by (rewrite Hc; discriminate).
    destruct (ready_activation g st t Hin Hne) as (G' & HG' & Hact). rewrite Hc in HG'. destruct HG' as [<-|[]].
    destruct Hact as [(d & Hd & _)|(_ & _ & gn' & Hf' & Hopen)].
    - apply HD. rewrite Hd. discriminate.
    - rewrite Hf in Hf'. injection Hf' as <-. congruence.
  Qed.
End Gates.
