(* Dispatch.v — the event dispatcher (events/dispatcher.py: emit / emit_async / shutdown / shutdown_async) over
   processors that may raise on any event or at shutdown.  An event is identified by its index in the stream; a
   processor's observable state is the list of indices handed to it and how often it was shut down. *)
From HG Require Import Base.

Record proc := mk_proc { p_fail_event : nat -> bool; p_fail_shutdown : bool }.
Record pstate := mk_pstate { ps_log : list nat; ps_shutdowns : nat }.

Definition deliver (k : nat) (st : pstate) : pstate := mk_pstate (ps_log st ++ [k]) (ps_shutdowns st).
Definition shut (st : pstate) : pstate := mk_pstate (ps_log st) (S (ps_shutdowns st)).

(* returns the processors' new states and whether an exception escapes to the caller (the runner) *)
Fixpoint emit (strict : bool) (ps : list proc) (sts : list pstate) (k : nat) : list pstate * bool :=
  match ps, sts with
  | p :: ps', st :: sts' =>
      if p_fail_event p k && strict then (deliver k st :: sts', true)
      else let r := emit strict ps' sts' k in (deliver k st :: fst r, snd r)
  | _, _ => ([], false)
  end.

(* shutdown(): best effort; strict re-raises the first error after visiting every processor *)
Fixpoint shutdown (strict : bool) (ps : list proc) (sts : list pstate) : list pstate * bool :=
  match ps, sts with
  | p :: ps', st :: sts' =>
      let r := shutdown strict ps' sts' in
      (shut st :: fst r, (p_fail_shutdown p && strict) || snd r)
  | _, _ => ([], false)
  end.

Fixpoint emit_all (strict : bool) (ps : list proc) (sts : list pstate) (ks : list nat) : list pstate * bool :=
  match ks with
  | [] => (sts, false)
  | k :: ks' => let r := emit strict ps sts k in
                if snd r then r else emit_all strict ps (fst r) ks'
  end.

(* ---------- theorems (non-strict = the mode every runner uses) ---------- *)

Lemma emit_nonstrict ps : forall sts k, length sts = length ps ->
  emit false ps sts k = (map (deliver k) sts, false).
Proof.
  induction ps as [|p ps IH]; intros [|st sts] k H; simpl in *; try discriminate; [reflexivity|].
  rewrite andb_false_r. rewrite IH by lia. reflexivity.
Qed.

Lemma emit_all_nonstrict ps ks : forall sts, length sts = length ps ->
  emit_all false ps sts ks = (map (fun st => mk_pstate (ps_log st ++ ks) (ps_shutdowns st)) sts, false).
Proof.
  induction ks as [|k ks IH]; intros sts H; simpl.
  - f_equal. rewrite <- (map_id sts) at 1. apply map_ext. intros [l n]. simpl. rewrite app_nil_r. reflexivity.
  - rewrite emit_nonstrict by exact H. simpl. rewrite IH by (rewrite map_length; exact H).
    f_equal. rewrite map_map. apply map_ext. intros [l n]. simpl. rewrite <- app_assoc. reflexivity.
Qed.

Lemma shutdown_nonstrict ps : forall sts, length sts = length ps ->
  shutdown false ps sts = (map shut sts, false).
Proof.
  induction ps as [|p ps IH]; intros [|st sts] H; simpl in *; try discriminate; [reflexivity|].
  rewrite IH by lia. simpl. rewrite andb_false_r. reflexivity.
Qed.

(* whatever the processors do, after a whole stream and the final shutdown every processor — the
   failing ones and the healthy ones beside them — has been handed every event exactly once, in
   order, and shut down exactly once; and no exception reached the runner *)
Theorem dispatcher_isolates ps ks :
  let sts0 := map (fun _ => mk_pstate [] 0) ps in
  let r1 := emit_all false ps sts0 ks in
  let r2 := shutdown false ps (fst r1) in
  snd r1 = false /\ snd r2 = false /\ fst r2 = map (fun _ => mk_pstate ks 1) ps.
Proof.
  simpl. rewrite emit_all_nonstrict by (rewrite map_length; reflexivity). simpl.
  rewrite shutdown_nonstrict by (rewrite !map_length; reflexivity). simpl.
  repeat split. rewrite !map_map. apply map_ext. intros p. reflexivity.
Qed.
