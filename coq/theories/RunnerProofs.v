(* RunnerProofs.v — C02 at the level of whole runs: SyncRunner and AsyncRunner agree, for every graph without interrupts
   (cyclic and gated ones included), every executor and every budget: a COMPLETED synchronous run is the asynchronous run (same
   final state, same per-superstep call log); a FAILED one fails with the same error; a paused one pauses at the same place. *)
From HG Require Import Base Engine EngineProofs.
From stdpp Require Import gmap.

Section Runners.
  Variable exec : node -> state -> dict val -> outcome.
  Variable g : graph.
  Variable pv : dict val.
  Hypothesis Hnoint : forall n, In n (g_nodes g) -> is_interrupt n = false.

  Lemma ready_no_interrupts st rd st' : ready g st = (st', rd) -> List.filter is_interrupt rd = [].
  Proof.
    intros Er. assert (Hin : forall n, In n rd -> In n (g_nodes g)).
    { intros n Hn. apply (proj1 (ready_list_r0 g st n ltac:(unfold ready_list; rewrite Er; exact Hn))). }
    clear Er. induction rd as [|a rd IH]; simpl; [reflexivity|].
    rewrite (Hnoint a (Hin a (or_introl eq_refl))). apply IH. intros n Hn. apply Hin. right. exact Hn.
  Qed.

  Lemma sync_ok_all snap rd : forall acc log b calls,
    superstep_sync exec g snap pv rd acc log = (SOk b, calls) -> Forall (step_ok exec g snap pv) rd.
  Proof.
    induction rd as [|n rd IH]; intros acc log b calls H; [constructor|].
    simpl in H. destruct (collect_inputs g snap pv n (n_inputs n)) as [ins|] eqn:Ec; [|discriminate].
    destruct (exec n snap ins) as [outs dec|e|p] eqn:Ee; try discriminate.
    constructor; [|eapply IH; eauto]. exists ins, outs, dec. unfold run_one. rewrite Ec, Ee. reflexivity.
  Qed.

  Theorem runners_agree_run fuel : forall st log,
    match run_loop exec Sync fuel g pv st log with
    | (RDone s, l) => run_loop exec Async fuel g pv st log = (RDone s, l)
    | (RFailed e _, _) => exists p' l', run_loop exec Async fuel g pv st log = (RFailed e p', l')
    | (RPaused pz s, _) => exists l', run_loop exec Async fuel g pv st log = (RPaused pz s, l')
    end.
  Proof.
    induction fuel as [|k IH]; intros st log; cbn [run_loop]; destruct (ready g st) as [st' rd] eqn:Er.
    - destruct rd; [reflexivity | eauto].
    - destruct rd as [|n rd]; [reflexivity|].
      pose proof (ready_no_interrupts st (n :: rd) st' Er) as Hni.
      pose proof (superstep_same_error exec g st' pv (n :: rd) Hni) as Herr.
      destruct (superstep exec Sync g st' pv (n :: rd)) as [[b|e p|pz s] calls] eqn:Es.
      + assert (Hok : Forall (step_ok exec g st' pv) (n :: rd)) by (eapply sync_ok_all; exact Es).
        rewrite <- (superstep_runners_agree exec g st' pv (n :: rd) Hni Hok), Es. apply IH.
      + destruct (superstep exec Async g st' pv (n :: rd)) as [[b'|e' p'|pz' s'] calls']; simpl in Herr; try discriminate.
        inversion Herr; subst. eauto.
      + destruct (superstep exec Async g st' pv (n :: rd)) as [[b'|e' p'|pz' s'] calls']; simpl in Herr; try discriminate.
        inversion Herr; subst. eauto.
  Qed.

  (* C02_runner_independent *)
  Theorem runners_agree fuel :
    match execute exec Sync fuel g pv with
    | (RDone s, l) => execute exec Async fuel g pv = (RDone s, l)
    | (RFailed e _, _) => exists p' l', execute exec Async fuel g pv = (RFailed e p', l')
    | (RPaused pz s, _) => exists l', execute exec Async fuel g pv = (RPaused pz s, l')
    end.
  Proof. apply runners_agree_run. Qed.
End Runners.
