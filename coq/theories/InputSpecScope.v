(* InputSpecScope.v — the per-target model of the selection scope (InputSpec.input_spec_s) contains the two uniform extremes
   the theorems about input_spec_w speak about: no target's descendants (= input_spec_w false) and every target's
   descendants (= input_spec_w true, for any set of targets that covers the gate targets met by the worklist). *)
From HG Require Import Base Engine GraphDef InputSpec.
From Coq Require Import List.
Import ListNotations.

Lemma iterate_expand_nil es k : iterate k (expand es) [] = [].
Proof. induction k as [|k IH]; [reflexivity|]. cbn [iterate]. exact IH. Qed.

Lemma filter_none {A} (l : list A) : List.filter (fun _ => false) l = [].
Proof. induction l as [|x l IH]; [reflexivity|exact IH]. Qed.

Lemma filter_all {A} (l : list A) : List.filter (fun _ => true) l = l.
Proof. induction l as [|x l IH]; [reflexivity|]. cbn. rewrite IH. reflexivity. Qed.

Lemma iterate_ext {A} (f g : A -> A) k x : (forall y, f y = g y) -> iterate k f x = iterate k g x.
Proof. intros H. revert x. induction k as [|k IH]; intros x; [reflexivity|]. cbn [iterate]. rewrite H. apply IH. Qed.

Theorem scope_none_is_lower_extreme nodes act sel :
  active_from_selection_s [] nodes act sel = active_from_selection false nodes act sel.
Proof.
  unfold active_from_selection_s, active_from_selection.
  destruct (map n_name (List.filter (fun n => pos_in (n_name n) act && existsb (fun o => pos_in o sel) (n_outputs n)) nodes)) as [|p ps];
    [reflexivity|].
  apply iterate_ext. intros needed. cbn [pos_in].
  rewrite filter_none. unfold reach_in. rewrite iterate_expand_nil. reflexivity.
Qed.

Theorem spec_none_is_lower_extreme nodes bound nb eps sel :
  input_spec_s [] nodes bound nb eps sel = input_spec_w false nodes bound nb eps sel.
Proof.
  unfold input_spec_s, input_spec_w, active_scope. destruct sel as [s|]; [|reflexivity].
  rewrite scope_none_is_lower_extreme. reflexivity.
Qed.

Lemma filter_keeps_all {A} (f : A -> bool) (l : list A) : (forall x, In x l -> f x = true) -> List.filter f l = l.
Proof.
  induction l as [|x l IH]; intros H; [reflexivity|]. cbn. rewrite (H x (or_introl eq_refl)). f_equal. apply IH.
  intros y Hy. apply H. right. exact Hy.
Qed.

(* a choice that covers every gate target of the graph is the upper extreme *)
Theorem scope_all_is_upper_extreme Ts nodes act sel :
  (forall n t, In n nodes -> is_gate n = true -> In t (gate_targets n) -> pos_in t Ts = true) ->
  active_from_selection_s Ts nodes act sel = active_from_selection true nodes act sel.
Proof.
  intros Hall. unfold active_from_selection_s, active_from_selection.
  destruct (map n_name (List.filter (fun n => pos_in (n_name n) act && existsb (fun o => pos_in o sel) (n_outputs n)) nodes)) as [|p ps];
    [reflexivity|].
  apply iterate_ext. intros needed. rewrite filter_keeps_all; [reflexivity|].
  intros t Ht. apply in_flat_map in Ht. destruct Ht as (n & Hn & Ht).
  destruct (is_gate n && pos_in (n_name n) needed) eqn:E; [|destruct Ht].
  apply Bool.andb_true_iff in E. destruct E as [Hg _]. apply filter_In in Ht. destruct Ht as [Ht _].
  exact (Hall n t Hn Hg Ht).
Qed.

Theorem spec_all_is_upper_extreme Ts nodes bound nb eps sel :
  (forall n t, In n nodes -> is_gate n = true -> In t (gate_targets n) -> pos_in t Ts = true) ->
  input_spec_s Ts nodes bound nb eps sel = input_spec_w true nodes bound nb eps sel.
Proof.
  intros H. unfold input_spec_s, input_spec_w, active_scope. destruct sel as [s|]; [|reflexivity].
  rewrite (scope_all_is_upper_extreme Ts nodes _ s H). reflexivity.
Qed.
