(* Isolation.v — what a node call may touch (C18).
   Values are immediates or references to mutable list objects in a shared heap.  Restates:
     runners/_shared/helpers.py   get_value_source (EDGE, PROVIDED, BOUND, DEFAULT in that order), _resolve_input
                                  (deep copy for DEFAULT only, everything else by reference), collect_inputs_for_node
     runners/_shared/types.py     GraphState (per-run values)
     runners/_shared/input_normalization.py  normalize_inputs (the caller's mapping is copied, never written)
   A node body may mutate (append its tag to) the objects it receives for the parameters listed in m_mutates and returns
   an immutable digest of everything it received.  Calls of several runs interleave arbitrarily over ONE heap (the
   process's memory): a schedule is any list of (run index, node).  Plain stdlib. *)
From HG Require Import Base.
From Coq Require Import Lia.

Definition mloc := nat.
Inductive mval := MInt (z : Z) | MRef (l : mloc).
Definition mheap := list (list Z).

Definition cell_of (h : mheap) (l : mloc) : list Z := nth l h [].
Definition deref (h : mheap) (v : mval) : list Z := match v with MInt z => [z] | MRef l => cell_of h l end.

Record mnode := mk_mnode {
  m_name : name;
  m_inputs : list name;
  m_defaults : dict mval;          (* signature defaults: the function object's own default objects *)
  m_mutates : list name;           (* parameters whose received object the body mutates *)
  m_tag : Z;
  m_output : name }.

Record mrun := mk_mrun {
  r_state : dict mval;             (* GraphState.values of this run *)
  r_provided : dict mval;          (* the caller's input mapping *)
  r_bound : dict mval }.           (* graph.inputs.bound *)

Inductive src_kind := KEdge | KProvided | KBound | KDefault | KMissing.

(* get_value_source *)
Definition source (n : mnode) (r : mrun) (p : name) : src_kind * mval :=
  match dget (r_state r) p with
  | Some v => (KEdge, v)
  | None =>
      match dget (r_provided r) p with
      | Some v => (KProvided, v)
      | None =>
          match dget (r_bound r) p with
          | Some v => (KBound, v)
          | None => match dget (m_defaults n) p with Some v => (KDefault, v) | None => (KMissing, MInt 0) end
          end
      end
  end.

(* _resolve_input: deep copy for DEFAULT only *)
Definition resolve_one (h : mheap) (n : mnode) (r : mrun) (p : name) : mheap * (src_kind * mval) :=
  match source n r p with
  | (KDefault, MRef l) => (h ++ [cell_of h l], (KDefault, MRef (length h)))
  | x => (h, x)
  end.

Definition received := list (name * (src_kind * mval)).

Fixpoint resolve_all (h : mheap) (n : mnode) (r : mrun) (ps : list name) : mheap * received :=
  match ps with
  | [] => (h, [])
  | p :: ps' => let (h1, x) := resolve_one h n r p in
                let (h2, rest) := resolve_all h1 n r ps' in (h2, (p, x) :: rest)
  end.

Fixpoint set_cell (h : mheap) (l : mloc) (c : list Z) : mheap :=
  match h, l with
  | [], _ => []
  | _ :: h', O => c :: h'
  | x :: h', S l' => x :: set_cell h' l' c
  end.

Definition recv_get (rc : received) (p : name) : option mval :=
  match find (fun x => Pos.eqb (fst x) p) rc with Some x => Some (snd (snd x)) | None => None end.

(* the body: append the tag to every received object it mutates *)
Fixpoint mutate (h : mheap) (rc : received) (muts : list name) (tag : Z) : mheap :=
  match muts with
  | [] => h
  | p :: muts' =>
      let h1 := match recv_get rc p with
                | Some (MRef l) => set_cell h l (cell_of h l ++ [tag])
                | _ => h
                end in
      mutate h1 rc muts' tag
  end.

Definition contents (h : mheap) (rc : received) : list (list Z) := map (fun x => deref h (snd (snd x))) rc.
Definition digest (cs : list (list Z)) (tag : Z) : Z := fold_left (fun a c => fold_left Z.add c a) cs tag.

Record call_rec := mk_call {
  c_received : received;             (* per parameter: where it came from and which object *)
  c_before : list (list Z);          (* what the body saw on entry *)
  c_after : list (list Z);
  c_out : Z }.

Definition exec_call (h : mheap) (r : mrun) (n : mnode) : mheap * mrun * call_rec :=
  let (h1, rc) := resolve_all h n r (m_inputs n) in
  let before := contents h1 rc in
  let h2 := mutate h1 rc (m_mutates n) (m_tag n) in
  let after := contents h2 rc in
  let out := digest after (m_tag n) in
  (h2, mk_mrun (dset (r_state r) (m_output n) (MInt out)) (r_provided r) (r_bound r), mk_call rc before after out).

(* a schedule over several runs sharing the heap *)
Fixpoint set_run (rs : list mrun) (i : nat) (r : mrun) : list mrun :=
  match rs, i with
  | [], _ => []
  | _ :: rs', O => r :: rs'
  | x :: rs', S i' => x :: set_run rs' i' r
  end.

Record step_rec := mk_step { s_run : nat; s_before : mrun; s_node : mnode; s_call : call_rec }.

Fixpoint exec_sched (h : mheap) (rs : list mrun) (sched : list (nat * mnode)) : mheap * list mrun * list step_rec :=
  match sched with
  | [] => (h, rs, [])
  | (i, n) :: rest =>
      match nth_error rs i with
      | Some r =>
          let '(h1, r1, c) := exec_call h r n in
          let '(h2, rs2, cs) := exec_sched h1 (set_run rs i r1) rest in
          (h2, rs2, mk_step i r n c :: cs)
      | None => exec_sched h rs rest
      end
  end.
