(* ScopeProofs.v — C16 at the level of whole runs: with entry points configured, EVERY node call of EVERY run (either runner, any
   executor, any budget, however the run ends) is a call of a node in the active set - nothing outside the scope ever runs. *)
From HG Require Import Base Engine EngineProofs.
From stdpp Require Import gmap.

Section Scope.
  Variable exec : node -> state -> dict val -> outcome.

  Lemma sync_calls_sub g snap pv rd : forall acc log c,
    In c (snd (superstep_sync exec g snap pv rd acc log)) -> In c log \/ exists n, In n rd /\ fst c = n_name n.
  Proof.
    induction rd as [|n rd IH]; intros acc log c H; simpl in H; [left; exact H|].
    destruct (collect_inputs g snap pv n (n_inputs n)) as [ins|]; [|left; exact H].
    destruct (exec n snap ins) as [outs dec|e|p].
    - apply IH in H as [H|(m & Hm & E)]; [|right; exists m; split; [right; exact Hm | exact E]].
      apply in_app_or in H as [H|[<-|[]]]; [left; exact H | right; exists n; split; [left; reflexivity | reflexivity]].
    - simpl in H. apply in_app_or in H as [H|[<-|[]]]; [left; exact H | right; exists n; split; [left; reflexivity | reflexivity]].
    - simpl in H. apply in_app_or in H as [H|[<-|[]]]; [left; exact H | right; exists n; split; [left; reflexivity | reflexivity]].
  Qed.

  Lemma isolate_sub rd n : In n (isolate rd) -> In n rd.
  Proof.
    unfold isolate. destruct (List.filter is_interrupt rd) as [|i l] eqn:E; [auto|].
    intros [<-|[]]. assert (Hi : In i (List.filter is_interrupt rd)) by (rewrite E; left; reflexivity).
    apply filter_In in Hi as [Hi _]. exact Hi.
  Qed.

  Lemma async_calls_sub g snap pv rd c : In c (async_calls exec g snap pv rd) -> exists n, In n rd /\ fst c = n_name n.
  Proof.
    unfold async_calls. intros H. apply in_flat_map in H as (n & Hn & Hc).
    destruct (fst (run_one exec g snap pv n)) as [ins|]; [|contradiction]. destruct Hc as [<-|[]]. exists n. auto.
  Qed.

  Lemma superstep_calls_sub r g snap pv rd c :
    In c (snd (superstep exec r g snap pv rd)) -> exists n, In n rd /\ fst c = n_name n.
  Proof.
    destruct r; unfold superstep.
    - intros H. apply sync_calls_sub in H as [[]|H]; exact H.
    - unfold superstep_async. cbn [snd]. intros H. apply async_calls_sub in H as (n & Hn & E).
      exists n. split; [apply isolate_sub; exact Hn | exact E].
  Qed.

  (* C16_run_scope *)
  Theorem run_only_active r g pv a : g_active g = Some a ->
    forall fuel st log,
    (forall cs c, In cs log -> In c cs -> In (fst c) a) ->
    forall cs c, In cs (snd (run_loop exec r fuel g pv st log)) -> In c cs -> In (fst c) a.
  Proof.
    intros Ha. induction fuel as [|k IH]; intros st log Hlog cs c; cbn [run_loop].
    - destruct (ready g st) as [st' rd]. destruct rd; simpl; apply Hlog.
    - destruct (ready g st) as [st' rd] eqn:Er. destruct rd as [|n rd]; [simpl; apply Hlog|].
      assert (Hstep : forall cs0 c0, In cs0 (log ++ [snd (superstep exec r g st' pv (n :: rd))]) -> In c0 cs0 -> In (fst c0) a).
      { intros cs0 c0 Hin Hc0. apply in_app_or in Hin as [Hin|[<-|[]]]; [exact (Hlog cs0 c0 Hin Hc0)|].
        apply superstep_calls_sub in Hc0 as (m & Hm & ->).
        apply (ready_active g st m a Ha). unfold ready_list. rewrite Er. exact Hm. }
      destruct (superstep exec r g st' pv (n :: rd)) as [[b|e p|pz s] calls] eqn:Es; simpl in Hstep |- *.
      + apply IH. exact Hstep.
      + exact (Hstep cs c).
      + exact (Hstep cs c).
  Qed.

  Corollary execute_only_active r fuel g pv a : g_active g = Some a ->
    forall cs c, In cs (snd (execute exec r fuel g pv)) -> In c cs -> In (fst c) a.
  Proof. intros Ha. unfold execute. apply (run_only_active r g pv a Ha). intros cs c []. Qed.
End Scope.
