(* Exec.v — a concrete executor used ONLY to run the model against the
   implementation: node functions are terms of a small expression language that
   harness/pdl.py implements identically as generated Python functions.  Also
   restates wrap_outputs (helpers.py), execute_ifelse / execute_route
   (gate_execution.py) and validate_routing_decision (routing_validation.py). *)
From HG Require Import Base Engine.
From stdpp Require Import gmap.

Definition ETypeError : err := 3%positive.
Definition EValueError : err := 4%positive.
Definition EUnsupported : err := 5%positive.

Inductive dret := RNone | REnd | ROne (t : name) | RMany (ts : list target).

Inductive fexp :=
| FSym (id : positive)                        (* returns a free term naming itself and its arguments *)
| FAdd (k : Z)                                (* first argument + k *)
| FConst (v : val)
| FRaise (e : err)
| FRaiseIfGe (thr : Z) (e : err) (f : fexp)   (* raise e when the first argument >= thr, else f *)
| GLt (k : Z)                                 (* if/else gate: first argument < k *)
| GTable (tbl : list (Z * dret)) (dflt : dret).  (* route gate: look the first argument up *)

Record gate_cfg := mk_gcfg {
  gc_when_true : target; gc_when_false : target;     (* IfElseNode *)
  gc_fallback : option target; gc_multi : bool;      (* RouteNode *)
  gc_is_ifelse : bool }.

Definition first_int (ins : dict val) : option Z :=
  match ins with (_, VInt z) :: _ => Some z | _ => None end.

Fixpoint seqZ (n : nat) : list Z :=
  match n with O => [] | S k => seqZ k ++ [Z.of_nat k] end.

Inductive fres := FVal (v : val) | FExc (e : err) | FDec (d : dret) | FBool (b : bool).

Fixpoint eval_fexp (f : fexp) (ndata : nat) (ins : dict val) : fres :=
  let args := map snd ins in
  match f with
  | FSym id =>
      match ndata with
      | 0 | 1 => FVal (VTup (VStr id :: args))
      | _ => FVal (VTup (map (fun j => VTup (VStr id :: VInt j :: args)) (seqZ ndata)))
      end
  | FAdd k => match first_int ins with
              | Some z => match ndata with
                          | 0 | 1 => FVal (VInt (z + k))
                          | _ => FVal (VTup (map (fun j => VInt (z + k + j)) (seqZ ndata)))
                          end
              | None => FExc ETypeError end
  | FConst v => FVal v
  | FRaise e => FExc e
  | FRaiseIfGe thr e f' =>
      match first_int ins with
      | Some z => if Z.leb thr z then FExc e else eval_fexp f' ndata ins
      | None => eval_fexp f' ndata ins
      end
  | GLt k => match first_int ins with Some z => FBool (Z.ltb z k) | None => FExc ETypeError end
  | GTable tbl dflt =>
      match first_int ins with
      | Some z => match List.find (fun kv => Z.eqb (fst kv) z) tbl with
                  | Some kv => FDec (snd kv) | None => FDec dflt end
      | None => FDec dflt
      end
  end.

(* wrap_outputs *)
Definition emit_outs (n : node) : dict val :=
  map (fun o => (o, VSentinel)) (skipn (n_ndata n) (n_outputs n)).

Definition wrap_outputs (n : node) (v : val) : option (dict val) :=
  let data := firstn (n_ndata n) (n_outputs n) in
  match data with
  | [] => Some (emit_outs n)
  | [o] => Some ((o, v) :: emit_outs n)
  | _ => match v with
         | VTup vs => if Nat.eqb (length vs) (length data)
                      then Some (combine data vs ++ emit_outs n) else None
         | _ => None
         end
  end.

Definition target_eqb (a b : target) : bool :=
  match a, b with
  | TEnd, TEnd => true
  | TNode x, TNode y => Pos.eqb x y
  | _, _ => false
  end.
Definition target_in (t : target) (ts : list target) : bool := existsb (target_eqb t) ts.

Definition dec_of_target (t : target) : decision :=
  match t with TEnd => DEnd | TNode x => DOne x end.

(* execute_route + validate_routing_decision *)
Definition route_decide (gi : gate_info) (gc : gate_cfg) (d : dret) : err + option decision :=
  let d' := match d, gc_fallback gc with
            | RNone, Some fb => match fb with TEnd => REnd | TNode x => ROne x end
            | _, _ => d end in
  match d' with
  | RNone => inr None
  | REnd => if gc_multi gc then inl ETypeError
            else if target_in TEnd (gt_targets gi) then inr (Some DEnd) else inl EValueError
  | ROne x => if gc_multi gc then inl ETypeError
              else if target_in (TNode x) (gt_targets gi) then inr (Some (DOne x)) else inl EValueError
  | RMany ts => if gc_multi gc then
                  if forallb (fun t => target_in t (gt_targets gi)) ts
                  then inr (Some (DMany (flat_map (fun t => match t with TNode x => [x] | TEnd => [] end) ts)))
                  else inl EValueError
                else inl ETypeError
  end.

Section Exec.
  Variable ftab : dict fexp.          (* n_fn -> function expression *)
  Variable gtab : dict gate_cfg.      (* gate name -> executor configuration *)

  Definition exec_basic (n : node) (snap : state) (ins : dict val) : outcome :=
    match dget ftab (n_fn n) with
    | None => ORaise EUnsupported
    | Some f =>
        match n_kind n with
        | KFunc =>
            match eval_fexp f (n_ndata n) ins with
            | FVal v => match wrap_outputs n v with Some outs => OOk outs None | None => ORaise EValueError end
            | FExc e => ORaise e
            | _ => ORaise ETypeError
            end
        | KGate gi =>
            match dget gtab (n_name n) with
            | None => ORaise EUnsupported
            | Some gc =>
                match eval_fexp f 0 ins with
                | FExc e => ORaise e
                | FBool b =>
                    if gc_is_ifelse gc
                    then OOk (emit_outs n) (Some (Some (dec_of_target (if b then gc_when_true gc else gc_when_false gc))))
                    else ORaise ETypeError
                | FDec d =>
                    if gc_is_ifelse gc then ORaise ETypeError
                    else match route_decide gi gc d with
                         | inl e => ORaise e
                         | inr dec => OOk (emit_outs n) (Some dec)
                         end
                | FVal _ => ORaise ETypeError
                end
            end
        | _ => ORaise EUnsupported
        end
    end.
End Exec.

(* ---------------- packaged results for comparison ---------------- *)

Record result := mk_result {
  res_status : nat;                 (* 0 completed, 1 failed, 2 paused *)
  res_values : dict val;
  res_err : option err;
  res_log : list (list call);
  res_state : state }.

Definition package (g : graph) (sel : option (list name)) (r : rres * list (list call)) : result :=
  match r with
  | (RDone st, log) => mk_result 0 (filter_outputs g st sel) None log st
  | (RFailed e st, log) => mk_result 1 (filter_outputs g st sel) (Some e) log st
  | (RPaused p st, log) => mk_result 2 (filter_outputs g st sel) None log st
  end.

Definition run_basic (ftab : dict fexp) (gtab : dict gate_cfg) (r : runner) (fuel : nat)
           (g : graph) (pv : dict val) (sel : option (list name)) : result :=
  package g sel (execute (exec_basic ftab gtab) r fuel g pv).
