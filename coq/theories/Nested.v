(* Nested.v — executors for GraphNode (nested run, map_over) and InterruptNode, by nesting depth.
   Restates:
     runners/sync/executors/graph_node.py, runners/async_/executors/graph_node.py
       (map_inputs_to_func_params -> runner.run / runner.map -> map_outputs_from_original /
        collect_as_lists; PAUSED nested result re-raised with a prefixed path)
     runners/_shared/helpers.py  generate_map_inputs (_generate_zip_inputs / _generate_product_inputs),
                                 collect_as_lists
     runners/_shared/template_sync.py / template_async.py  map(): per-item run with
        error_handling="continue"; raise mode surfaces the first failing item
     runners/async_/executors/interrupt_node.py  resume / handler / pause
   Recursion is on an explicit nesting-depth budget d; the harness passes d > actual depth. *)
From HG Require Import Base Rename Engine Exec GraphDef InputSpec.
From stdpp Require Import gmap.

Inductive map_mode := MZip | MProduct.
Record mapcfg := mk_mapcfg { mc_over : list name; mc_mode : map_mode; mc_continue : bool }.

Inductive ngraph :=
| NG (g : graph) (sel : option (list name)) (eps : option (list name)) (ft : dict fexp) (gt : dict gate_cfg) (subs : list (name * nsub))
with nsub :=
| NSub (inner : ngraph) (hin hout : history) (cur_out : list name) (mc : option mapcfg).

Definition default_max_iterations : nat := 1000.

(* ---------------- generate_map_inputs ---------------- *)

Definition as_list (v : val) : option (list val) :=
  match v with VList l => Some l | VTup l => Some l | _ => None end.

Fixpoint all_some {A} (l : list (option A)) : option (list A) :=
  match l with
  | [] => Some []
  | Some x :: l' => match all_some l' with Some r => Some (x :: r) | None => None end
  | None :: _ => None
  end.

Fixpoint transpose (n : nat) (cols : list (list val)) : list (list val) :=
  match n with
  | O => []
  | S k => map (fun c => List.hd VNone c) cols :: transpose k (map (fun c => List.tl c) cols)
  end.

Fixpoint cartesian (cols : list (list val)) : list (list val) :=
  match cols with
  | [] => [[]]
  | c :: rest => flat_map (fun x => map (fun r => x :: r) (cartesian rest)) c
  end.

(* returns the per-item input dicts, or the error generate_map_inputs raises *)
Definition generate_map_inputs (values : dict val) (over : list name) (mode : map_mode) : err + list (dict val) :=
  match all_some (map (fun k => match dget values k with Some v => as_list v | None => None end) over) with
  | None => inl ETypeError
  | Some cols =>
      let broadcast := List.filter (fun kv => negb (pos_in (fst kv) over)) values in
      match over with
      | [] => inr [broadcast]
      | _ =>
          match mode with
          | MZip =>
              match cols with
              | [] => inr [broadcast]
              | c0 :: _ =>
                  if forallb (fun c => Nat.eqb (length c) (length c0)) cols
                  then inr (map (fun row => broadcast ++ combine over row) (transpose (length c0) cols))
                  else inl EValueError
              end
          | MProduct => inr (map (fun row => broadcast ++ combine over row) (cartesian cols))
          end
      end
  end.

(* ---------------- collect_as_lists ---------------- *)

Inductive item_res :=
| IOk (values : dict val)
| IFail (e : err) (partial : dict val)
| IPaused (p : pause).

Definition first_item_error (rs : list item_res) : option err :=
  match List.find (fun r => match r with IFail _ _ => true | IPaused _ => true | IOk _ => false end) rs with
  | Some (IFail e _) => Some e
  | Some (IPaused _) => Some EUnsupported
  | _ => None
  end.

Definition collect_as_lists (hout : history) (cur_out : list name) (continue_mode : bool) (rs : list item_res)
  : err + dict val :=
  match (if continue_mode then None else first_item_error rs) with
  | Some e => inl e
  | None =>
      inr (map (fun o =>
             (o, VList (map (fun r => match r with
                                      | IOk values => match dget (gn_map_outputs hout cur_out values) o with
                                                      | Some v => v | None => VNone end
                                      | _ => VNone end) rs))) cur_out)
  end.

(* ---------------- InterruptNode ---------------- *)

Definition exec_interrupt (ft : dict fexp) (n : node) (st : state) (ins : dict val) : outcome :=
  let data := firstn (n_ndata n) (n_outputs n) in
  let present := forallb (fun o => match vals st !! o with Some _ => true | None => false end) data in
  let fresh := match execs st !! n_name n with None => true | Some _ => false end in
  if present && fresh then
    OOk (flat_map (fun o => match vals st !! o with Some v => [(o, v)] | None => [] end) data ++ emit_outs n) None
  else
    match dget ft (n_fn n) with
    | None => ORaise EUnsupported
    | Some f =>
        match eval_fexp f 1 ins with
        | FExc e => ORaise e            (* surfaced wrapped in RuntimeError by the implementation (known finding) *)
        | FVal VNone =>
            match data with
            | [] => ORaise EUnsupported
            | o :: _ => OPause (mk_pause [n_name n] o (match ins with (_, v) :: _ => v | [] => VNone end))
            end
        | FVal v => match data with
                    | [] => OOk (emit_outs n) None
                    | o :: _ => OOk ((o, v) :: emit_outs n) None
                    end
        | _ => ORaise ETypeError
        end
    end.

(* ---------------- the executor, by nesting depth ---------------- *)

Definition rres_to_item (g : graph) (sel : option (list name)) (r : rres) : item_res :=
  match r with
  | RDone st => IOk (filter_outputs g st sel)
  | RFailed e st => IFail e (filter_outputs g st sel)
  | RPaused p _ => IPaused p
  end.

(* runner.map over the items: the synchronous map stops at the first failure in raise mode *)
Fixpoint map_items (run_item : dict val -> item_res) (sync_stop : bool) (items : list (dict val)) : list item_res :=
  match items with
  | [] => []
  | it :: rest =>
      let r := run_item it in
      match r with
      | IOk _ => r :: map_items run_item sync_stop rest
      | _ => if sync_stop then [r] else r :: map_items run_item sync_stop rest
      end
  end.

(* Graph._get_emit_only_outputs of a nested graph: output names that no node produces as DATA.  A GraphNode's data
   outputs are its outputs minus the emit-only names of the graph it wraps (GraphNode.data_outputs). *)
Fixpoint emit_only (d : nat) (ng : ngraph) {struct d} : list name :=
  match d with
  | O => []
  | S d' =>
      match ng with
      | NG g _ _ _ _ subs =>
          let data_of := fun n : node =>
            match n_kind n with
            | KGraph =>
                match dget subs (n_name n) with
                | Some (NSub inner _ hout cur_out _) =>
                    List.filter (fun c => negb (pos_in (gn_resolve_original hout c) (emit_only d' inner))) cur_out
                | None => n_outputs n
                end
            | _ => firstn (n_ndata n) (n_outputs n)
            end in
          let data := flat_map data_of (g_nodes g) in
          List.filter (fun o => negb (pos_in o data)) (flat_map n_outputs (g_nodes g))
      end
  end.

(* helpers.add_graph_node_emit_signals: when the nested run completed, the wrapper's ordering-only outputs get
   the emit sentinel (the nested result never carries sentinels) *)
Definition with_signals (sig : list name) (hout : history) (cur_out : list name) (outs : dict val) : dict val :=
  let is_sig := fun c => pos_in (gn_resolve_original hout c) sig in
  List.filter (fun kv => negb (is_sig (fst kv))) outs ++
  map (fun c => (c, VSentinel)) (List.filter is_sig cur_out).

Fixpoint exec_ng (d : nat) (r : runner) (ft : dict fexp) (gt : dict gate_cfg) (subs : list (name * nsub))
         (n : node) (st : state) (ins : dict val) {struct d} : outcome :=
  match n_kind n with
  | KInterrupt => exec_interrupt ft n st ins
  | KGraph =>
      match d with
      | O => ORaise EUnsupported
      | S d' =>
          match dget subs (n_name n) with
          | None => ORaise EUnsupported
          | Some (NSub (NG ig isel ieps ift igt isubs) hin hout cur_out mc) =>
              let sig := emit_only d' (NG ig isel ieps ift igt isubs) in
              let inner_inputs := map_inputs_to_params hin ins in
              let run_inner := fun pv => fst (execute (exec_ng d' r ift igt isubs) r default_max_iterations ig pv) in
              match mc with
              | None =>
                  match run_inner inner_inputs with
                  | RDone s => OOk (with_signals sig hout cur_out (gn_map_outputs hout cur_out (filter_outputs ig s isel))) None
                  | RFailed e _ => ORaise e
                  | RPaused p _ => OPause (mk_pause (n_name n :: p_node p) (p_out p) (p_value p))
                  end
              | Some cfg =>
                  let over := gn_original_params hin (mc_over cfg) in
                  match generate_map_inputs inner_inputs over (mc_mode cfg) with
                  | inl e => ORaise e
                  | inr items =>
                      let stop := match r with Sync => negb (mc_continue cfg) | Async => false end in
                      let rs := map_items (fun it => rres_to_item ig isel (run_inner it)) stop items in
                      match collect_as_lists hout cur_out (mc_continue cfg) rs with
                      | inl e => ORaise e
                      | inr outs => OOk (with_signals sig hout cur_out outs) None
                      end
                  end
              end
          end
      end
  | _ => exec_basic ft gt n st ins
  end.

Definition run_ng (d : nat) (r : runner) (fuel : nat) (ng : ngraph) (pv : dict val) (sel_override : option (option (list name)))
  : result :=
  match ng with
  | NG g sel _ ft gt subs =>
      let eff := match sel_override with Some s => s | None => sel end in
      package g eff (execute (exec_ng d r ft gt subs) r fuel g pv)
  end.

Definition run_pause (d : nat) (r : runner) (fuel : nat) (ng : ngraph) (pv : dict val) : option pause :=
  match ng with
  | NG g sel _ ft gt subs =>
      match fst (execute (exec_ng d r ft gt subs) r fuel g pv) with
      | RPaused p _ => Some p
      | _ => None
      end
  end.

(* runner.map at top level: one packaged result per generated input combination *)
Definition map_top (d : nat) (r : runner) (ng : ngraph) (pv : dict val) (over : list name) (mode : map_mode)
  : err + list result :=
  match generate_map_inputs pv over mode with
  | inl e => inl e
  | inr items => inr (map (fun it => run_ng d r default_max_iterations ng it None) items)
  end.

(* ---------------- the complete call log, nested calls included ---------------- *)

Fixpoint calls_ng (d : nat) (r : runner) (fuel : nat) (ng : ngraph) (pv : dict val) {struct d} : list call :=
  match ng with
  | NG g sel _ ft gt subs =>
      let outer := concat (snd (execute (exec_ng d r ft gt subs) r fuel g pv)) in
      match d with
      | O => outer
      | S d' =>
          flat_map (fun c : call =>
                 match dget subs (fst c) with
                 | None => [c]
                 | Some (NSub inner hin hout cur_out mc) =>
                     let inner_inputs := map_inputs_to_params hin (snd c) in
                     match mc with
                     | None => calls_ng d' r default_max_iterations inner inner_inputs
                     | Some cfg =>
                         match generate_map_inputs inner_inputs (gn_original_params hin (mc_over cfg)) (mc_mode cfg) with
                         | inl _ => []
                         | inr items =>
                             let stop := match r with Sync => negb (mc_continue cfg) | Async => false end in
                             (fix go (its : list (dict val)) : list call :=
                                match its with
                                | [] => []
                                | it :: rest =>
                                    let here := calls_ng d' r default_max_iterations inner it in
                                    let failed := match res_status (run_ng d' r default_max_iterations inner it None) with
                                                  | 0 => false | _ => true end in
                                    if failed && stop then here else here ++ go rest
                                end) items
                         end
                     end
                 end) outer
      end
  end.

(* ---------------- building nested graphs: the interface of a GraphNode ---------------- *)

Definition ng_graph (ng : ngraph) : graph := match ng with NG g _ _ _ _ _ => g end.
Definition ng_sel (ng : ngraph) : option (list name) := match ng with NG _ s _ _ _ _ => s end.
Definition ng_eps (ng : ngraph) : option (list name) := match ng with NG _ _ e _ _ _ => e end.

(* Graph.inputs of a (nested) graph; its g_bound already holds the merged bindings *)
Definition ng_spec (ng : ngraph) : ispec :=
  input_spec (g_nodes (ng_graph ng)) (g_bound (ng_graph ng)) [] (ng_eps ng) (ng_sel ng).

Definition current_names (orig : list name) (h : history) : list name :=
  match run_history orig h with Some c => c | None => orig end.

(* GraphNode.__init__ + with_inputs / with_outputs: name, inputs = inner.inputs.all, outputs =
   inner.selected or inner.outputs, has_default_for / default value looked up through the renames *)
Definition graphnode_of (nm : name) (inner : ngraph) (hin hout : history) : node :=
  let inodes := g_nodes (ng_graph inner) in
  let ibound := g_bound (ng_graph inner) in
  let orig_in := is_all (ng_spec inner) in
  let cur_in := current_names orig_in hin in
  let orig_out := match ng_sel inner with Some s => s | None => graph_outputs (ng_graph inner) end in
  let cur_out := current_names orig_out hout in
  let users := fun o => List.filter (fun m => pos_in o (n_inputs m)) inodes in
  let hasdef := List.filter (fun c => let o := gn_resolve_original hin c in
                    dmem ibound o || existsb (fun m => pos_in o (n_hasdef m)) (users o)) cur_in in
  let defval := flat_map (fun c => let o := gn_resolve_original hin c in
                    match dget ibound o with
                    | Some v => [(c, v)]
                    | None =>
                        match users o with
                        | [] => []
                        | m0 :: _ => if forallb (fun m => dmem (n_defval m) o) (users o)
                                     then match dget (n_defval m0) o with Some v => [(c, v)] | None => [] end
                                     else []
                        end
                    end) cur_in in
  mk_node nm cur_in cur_out (length cur_out) [] hasdef defval KGraph (if existsb is_interrupt inodes then 2%positive else 1%positive).

(* input_spec._collect_bound_values: bindings of nested graphs, under the wrapper's current input names *)
Definition nested_bound (nodes : list node) (subs : list (name * nsub)) : dict val :=
  flat_map (fun kv =>
    match snd kv with
    | NSub inner hin _ _ _ =>
        match List.find (fun n => Pos.eqb (n_name n) (fst kv)) nodes with
        | Some n => flat_map (fun c => match dget (g_bound (ng_graph inner)) (gn_resolve_original hin c) with
                                       | Some v => [(c, v)] | None => [] end) (n_inputs n)
        | None => []
        end
    end) subs.

Definition mk_ng (nodes : list node) (own_bound : dict val) (eps sel : option (list name))
           (ft : dict fexp) (gt : dict gate_cfg) (subs : list (name * nsub)) : ngraph :=
  let nb := List.filter (fun kv => negb (dmem own_bound (fst kv))) (nested_bound nodes subs) in
  let merged := dupdate own_bound nb in
  let active := match eps with Some e => Some (active_from_entrypoints nodes e) | None => None end in
  NG (mk_graph nodes merged active) sel eps ft gt subs.

Definition mk_sub (nm : name) (inner : ngraph) (hin hout : history) (mc : option mapcfg) : name * nsub :=
  (nm, NSub inner hin hout (n_outputs (graphnode_of nm inner hin hout)) mc).
