(* RenameProofs.v — proofs about Rename.v (kept apart from the model so that the
   model still evaluates when a proof breaks). *)
From HG Require Import Base Rename.

(* ---------- generic facts on association lists / dicts ---------- *)

Fixpoint alast {V} (ups : list (name * V)) (k : name) : option V :=
  match ups with
  | [] => None
  | (k', v) :: u =>
      match alast u k with
      | Some w => Some w
      | None => if Pos.eqb k' k then Some v else None
      end
  end.

Lemma dget_dupdate {V} (ups : list (name * V)) : forall d k,
  dget (dupdate d ups) k = match alast ups k with Some v => Some v | None => dget d k end.
Proof.
  induction ups as [|[k' v] u IH]; intros d k; [reflexivity|].
  unfold dupdate in *. cbn [fold_left fst snd alast]. rewrite IH.
  destruct (alast u k); [reflexivity|]. rewrite dget_dset. destruct (Pos.eqb k' k); reflexivity.
Qed.

Lemma alast_In {V} (ups : list (name * V)) k v : alast ups k = Some v -> In (k, v) ups.
Proof.
  induction ups as [|[k' v'] u IH]; simpl; [discriminate|].
  destruct (alast u k) eqn:E.
  - intros [= ->]. right; auto.
  - destruct (Pos.eqb k' k) eqn:E2; [|discriminate].
    apply Pos.eqb_eq in E2; subst. intros [= ->]. left; reflexivity.
Qed.

Lemma alast_None {V} (ups : list (name * V)) k : alast ups k = None <-> ~ In k (map fst ups).
Proof.
  induction ups as [|[k' v'] u IH]; simpl; [intuition|].
  destruct (alast u k) eqn:E.
  - split; [discriminate|]. intro H. exfalso. apply H. right.
    apply alast_In in E. apply (in_map fst) in E. exact E.
  - destruct (Pos.eqb k' k) eqn:E2.
    + apply Pos.eqb_eq in E2; subst. split; [discriminate|]. intro H; exfalso; apply H; left; reflexivity.
    + split; [|reflexivity]. intros _ [H|H].
      * subst. rewrite Pos.eqb_refl in E2; discriminate.
      * apply IH in H; [exact H | reflexivity].
Qed.

Lemma alast_all {V} (ups : list (name * V)) k v :
  (exists v', In (k, v') ups) -> (forall v', In (k, v') ups -> v' = v) -> alast ups k = Some v.
Proof.
  intros [v0 H0] Hall. destruct (alast ups k) eqn:E.
  - apply alast_In in E. f_equal. auto.
  - apply alast_None in E. exfalso; apply E. apply (in_map fst) in H0; exact H0.
Qed.

Lemma dupdate_nodup {V} (ups : list (name * V)) : forall d,
  NoDup (dkeys d) -> NoDup (dkeys (dupdate d ups)).
Proof.
  induction ups as [|[k v] u IH]; intros d H; [exact H|].
  unfold dupdate in *; simpl. apply IH. apply dset_nodup; exact H.
Qed.

Lemma nodup_dget {V} (d : dict V) k v : NoDup (dkeys d) -> In (k, v) d -> dget d k = Some v.
Proof.
  induction d as [|[k0 v0] d IH]; simpl; intros Hnd Hin; [contradiction|].
  inversion Hnd as [|? ? Hn Hd]; subst. destruct Hin as [[= -> ->]|Hin].
  - rewrite Pos.eqb_refl; reflexivity.
  - destruct (Pos.eqb k0 k) eqn:E.
    + apply Pos.eqb_eq in E; subst. exfalso; apply Hn. apply (in_map fst) in Hin; exact Hin.
    + auto.
Qed.

Lemma alast_nodup {V} (d : dict V) k : NoDup (dkeys d) -> alast d k = dget d k.
Proof.
  intro H. destruct (dget d k) eqn:E.
  - apply alast_all.
    + exists v. apply dget_Some_in; exact E.
    + intros v' Hin. apply (nodup_dget _ _ _ H) in Hin. congruence.
  - apply alast_None. apply dget_None_notin in E. exact E.
Qed.

(* dict.update(dict(pairs)) looks up like "last pair wins, else the old dict" *)
Lemma dget_dupdate2 {V} (ups : list (name * V)) d k :
  dget (dupdate d (dupdate [] ups)) k
  = match alast ups k with Some v => Some v | None => dget d k end.
Proof.
  rewrite dget_dupdate, alast_nodup by (apply dupdate_nodup; constructor).
  rewrite dget_dupdate. destruct (alast ups k); reflexivity.
Qed.

Lemma dkeys_dupdate_in {V} (ups : list (name * V)) : forall d k,
  In k (dkeys (dupdate d ups)) -> In k (dkeys d) \/ In k (map fst ups).
Proof.
  induction ups as [|[k' v] u IH]; intros d k H; [left; exact H|].
  unfold dupdate in *; simpl in H. apply IH in H as [H|H].
  - apply dkeys_dset_in in H as [->|H]; [right; left; reflexivity | left; exact H].
  - right; right; exact H.
Qed.

Lemma dupdate_nil_nodup {V} (l : list (name * V)) : NoDup (map fst l) -> dupdate [] l = l.
Proof.
  assert (G : forall d, NoDup (map fst (d ++ l)) -> dupdate d l = d ++ l).
  { induction l as [|[k v] l IH]; intros d H.
    - rewrite app_nil_r; reflexivity.
    - unfold dupdate in *; simpl.
      assert (Hd : dset d k v = d ++ [(k, v)]).
      { clear IH. induction d as [|[k0 v0] d IHd]; [reflexivity|].
        simpl in H. inversion H as [|? ? Hn Hd]; subst. simpl.
        destruct (Pos.eqb k0 k) eqn:E.
        - apply Pos.eqb_eq in E; subst. exfalso; apply Hn.
          rewrite map_app, in_app_iff. right; left; reflexivity.
        - f_equal. apply IHd; exact Hd. }
      rewrite Hd. rewrite IH; rewrite <- app_assoc; [reflexivity | exact H]. }
  intro H. apply (G []). exact H.
Qed.

Lemma NoDup_map_inj {A B} (f : A -> B) (l : list A) x y :
  NoDup (map f l) -> In x l -> In y l -> f x = f y -> x = y.
Proof.
  induction l as [|a l IH]; simpl; intros Hnd Hx Hy Hf; [contradiction|].
  inversion Hnd as [|? ? Hn Hd]; subst.
  destruct Hx as [->|Hx], Hy as [->|Hy]; auto.
  - exfalso; apply Hn. rewrite Hf. apply in_map; exact Hy.
  - exfalso; apply Hn. rewrite <- Hf. apply in_map; exact Hx.
Qed.

(* ---------- the pairing (original, current) by position ---------- *)

Definition step_pairs (b : batch) (pc : list (name * name)) : list (name * name) :=
  map (fun x => (fst x, sub b (snd x))) pc.

Lemma step_pairs_fst b pc : map fst (step_pairs b pc) = map fst pc.
Proof. unfold step_pairs. rewrite map_map. reflexivity. Qed.
Lemma step_pairs_snd b pc : map snd (step_pairs b pc) = map (sub b) (map snd pc).
Proof. unfold step_pairs. rewrite !map_map. reflexivity. Qed.

Lemma step_pairs_in b pc p c' :
  In (p, c') (step_pairs b pc) -> exists c, In (p, c) pc /\ c' = sub b c.
Proof. unfold step_pairs. rewrite in_map_iff. intros [[p0 c0] [[= <- <-] H]]. eauto. Qed.

Lemma sub_inj b pc x y :
  NoDup (map snd (step_pairs b pc)) -> In x pc -> In y pc ->
  sub b (snd x) = sub b (snd y) -> x = y.
Proof.
  intros Hnd. rewrite step_pairs_snd, map_map in Hnd.
  apply (NoDup_map_inj (fun z => sub b (snd z))); exact Hnd.
Qed.

Definition batch_valid (b : batch) (pc : list (name * name)) : Prop :=
  NoDup (dkeys b) /\ (forall o n, In (o, n) b -> In o (map snd pc)) /\
  NoDup (map snd (step_pairs b pc)).

(* ---------- reverse map ---------- *)

Definition rev_inv (pc : list (name * name)) (rm : dict name) : Prop :=
  forall p c, In (p, c) pc -> rget rm c = p.

Lemma rget_rev_step rm b k :
  rget (rev_step rm b) k =
  match alast (map (fun on => (snd on, rget rm (fst on))) b) k with
  | Some v => v | None => rget rm k end.
Proof.
  unfold rget at 1, rev_step. rewrite dget_dupdate2.
  destruct (alast _ k); reflexivity.
Qed.

Lemma rev_step_inv b pc rm :
  batch_valid b pc -> rev_inv pc rm -> rev_inv (step_pairs b pc) (rev_step rm b).
Proof.
  intros (Hkeys & Hold & Hnd) Hinv p c' Hin.
  apply step_pairs_in in Hin as (c & Hpc & ->).
  rewrite rget_rev_step.
  destruct (dget b c) as [n|] eqn:Eb;
    [replace (sub b c) with n by (unfold sub; rewrite Eb; reflexivity)
    |replace (sub b c) with c by (unfold sub; rewrite Eb; reflexivity)].
  - (* c is renamed to n by this batch *)
    rewrite (alast_all _ n (rget rm c)).
    + apply Hinv; exact Hpc.
    + exists (rget rm c). apply in_map_iff. exists (c, n). split; [reflexivity|].
      apply dget_Some_in; exact Eb.
    + intros v' Hv'. apply in_map_iff in Hv' as [[o n'] [[= -> <-] Hb]].
      destruct (proj1 (in_map_iff snd pc o) (Hold _ _ Hb)) as [[p' o'] [Ho Hpo]]. simpl in Ho; subst o'.
      assert (E : (p', o) = (p, c)).
      { apply (sub_inj b pc); auto. simpl. unfold sub.
        rewrite Eb, (nodup_dget _ _ _ Hkeys Hb). reflexivity. }
      injection E as -> ->. reflexivity.
  - (* c is untouched; nothing in the batch may be renamed to c *)
    destruct (alast _ c) as [v|] eqn:Ea; [|apply Hinv; exact Hpc].
    exfalso. apply alast_In in Ea. apply in_map_iff in Ea as [[o n'] [[= -> <-] Hb]].
    destruct (proj1 (in_map_iff snd pc o) (Hold _ _ Hb)) as [[p' o'] [Ho Hpo]]. simpl in Ho; subst o'.
    assert (E : (p', o) = (p, c)).
    { apply (sub_inj b pc); auto. simpl. unfold sub.
      rewrite Eb, (nodup_dget _ _ _ Hkeys Hb). reflexivity. }
    injection E as -> ->.
    apply (nodup_dget _ _ _ Hkeys) in Hb. congruence.
Qed.

(* ---------- forward map ---------- *)

Definition fwd_inv (pc : list (name * name)) (fm : dict name) : Prop :=
  (forall p c, In (p, c) pc -> rget fm p = c) /\
  (forall k, In k (dkeys fm) -> In k (map fst pc)) /\
  NoDup (dkeys fm).

Lemma pairs_fst_inj (pc : list (name * name)) p c1 c2 :
  NoDup (map fst pc) -> In (p, c1) pc -> In (p, c2) pc -> c1 = c2.
Proof.
  intros Hnd H1 H2.
  assert (E : (p, c1) = (p, c2)) by (apply (NoDup_map_inj fst pc); auto).
  congruence.
Qed.
Lemma pairs_snd_inj (pc : list (name * name)) p1 p2 c :
  NoDup (map snd pc) -> In (p1, c) pc -> In (p2, c) pc -> p1 = p2.
Proof.
  intros Hnd H1 H2.
  assert (E : (p1, c) = (p2, c)) by (apply (NoDup_map_inj snd pc); auto).
  congruence.
Qed.

Lemma key_of_correct pc fm p c :
  NoDup (map fst pc) -> NoDup (map snd pc) -> fwd_inv pc fm ->
  In (p, c) pc -> key_of fm c = p.
Proof.
  intros Hf Hs (Hget & Hkeys & Hnd) Hpc.
  unfold key_of, find_key_by_val.
  match goal with |- context [find ?f fm] => destruct (find f fm) as [[k v]|] eqn:Ef end.
  - apply find_some in Ef as [Hin Hv]. simpl in Hv. apply Pos.eqb_eq in Hv; subst v. simpl.
    assert (Hk : In k (map fst pc)) by (apply Hkeys; apply (in_map fst) in Hin; exact Hin).
    apply in_map_iff in Hk as [[k' c'] [Hk' Hpc']]. simpl in Hk'; subst k'.
    pose proof (Hget _ _ Hpc') as Hg. unfold rget in Hg.
    rewrite (nodup_dget _ _ _ Hnd Hin) in Hg. subst c'.
    eapply pairs_snd_inj; eauto.
  - (* no entry has value c: then p itself is unrenamed and equals c *)
    pose proof (Hget _ _ Hpc) as Hg. unfold rget in Hg.
    destruct (dget fm p) as [v|] eqn:Ed; [|symmetry; exact Hg].
    subst v. exfalso. apply dget_Some_in in Ed.
    apply (find_none _ _ Ef) in Ed. simpl in Ed. rewrite Pos.eqb_refl in Ed. discriminate.
Qed.

Lemma rget_fwd_step fm b k :
  rget (fwd_step fm b) k =
  match alast (map (fun on => (key_of fm (fst on), snd on)) b) k with
  | Some v => v | None => rget fm k end.
Proof.
  unfold rget at 1, fwd_step. rewrite dget_dupdate2.
  destruct (alast _ k); reflexivity.
Qed.

Lemma fwd_step_inv b pc fm :
  NoDup (map fst pc) -> NoDup (map snd pc) ->
  batch_valid b pc -> fwd_inv pc fm -> fwd_inv (step_pairs b pc) (fwd_step fm b).
Proof.
  intros Hf Hs (Hkeysb & Hold & Hnd) Hinv.
  pose proof Hinv as (Hget & Hkeys & Hndf).
  assert (Hko : forall o n, In (o, n) b -> exists p, In (p, o) pc /\ key_of fm o = p).
  { intros o n Hb. destruct (proj1 (in_map_iff snd pc o) (Hold _ _ Hb)) as [[p' o'] [Ho Hpo]].
    simpl in Ho; subst o'. exists p'. split; [exact Hpo|]. exact (key_of_correct pc fm p' o Hf Hs Hinv Hpo). }
  split; [|split].
  - intros p c' Hin. apply step_pairs_in in Hin as (c & Hpc & ->).
    rewrite rget_fwd_step.
    destruct (dget b c) as [n|] eqn:Eb;
    [replace (sub b c) with n by (unfold sub; rewrite Eb; reflexivity)
    |replace (sub b c) with c by (unfold sub; rewrite Eb; reflexivity)].
    + rewrite (alast_all _ p n); [reflexivity | |].
      * exists n. apply in_map_iff. exists (c, n). split.
        -- simpl. f_equal. exact (key_of_correct pc fm p c Hf Hs Hinv Hpc).
        -- apply dget_Some_in; exact Eb.
      * intros v' Hv'. apply in_map_iff in Hv' as [[o n'] [[= Hk <-] Hb]].
        destruct (Hko _ _ Hb) as (p' & Hpo & Hk'). rewrite Hk' in Hk. subst p'.
        assert (o = c) by (exact (pairs_fst_inj pc p o c Hf Hpo Hpc)). subst o.
        apply (nodup_dget _ _ _ Hkeysb) in Hb. congruence.
    + destruct (alast _ p) as [v|] eqn:Ea; [|apply Hget; exact Hpc].
      exfalso. apply alast_In in Ea. apply in_map_iff in Ea as [[o n'] [[= Hk <-] Hb]].
      destruct (Hko _ _ Hb) as (p' & Hpo & Hk'). rewrite Hk' in Hk. subst p'.
      assert (o = c) by (exact (pairs_fst_inj pc p o c Hf Hpo Hpc)). subst o.
      apply (nodup_dget _ _ _ Hkeysb) in Hb. congruence.
  - intros k Hk. rewrite step_pairs_fst. unfold fwd_step in Hk.
    apply dkeys_dupdate_in in Hk as [Hk|Hk]; [apply Hkeys; exact Hk|].
    apply dkeys_dupdate_in in Hk as [Hk|Hk]; [contradiction|].
    rewrite map_map in Hk. apply in_map_iff in Hk as [[o n] [Hk Hb]]. simpl in Hk.
    destruct (Hko _ _ Hb) as (p' & Hpo & Hk'). rewrite Hk' in Hk. subst k.
    apply (in_map fst) in Hpo; exact Hpo.
  - unfold fwd_step. apply dupdate_nodup; exact Hndf.
Qed.

(* ---------- from apply_batch / run_history to the pair view ---------- *)

Lemma apply_batch_valid pc b cur' :
  NoDup (dkeys b) ->
  apply_batch (map snd pc) b = Some cur' ->
  batch_valid b pc /\ cur' = map snd (step_pairs b pc).
Proof.
  unfold apply_batch. intros Hk H.
  destruct (forallb _ b) eqn:Ef; [|discriminate].
  destruct (nodup_b _) eqn:En; [|discriminate]. injection H as <-.
  rewrite step_pairs_snd. split; [|reflexivity].
  split; [exact Hk|]. split.
  - intros o n Hb. rewrite forallb_forall in Ef. apply Ef in Hb. simpl in Hb.
    apply pos_in_In; exact Hb.
  - rewrite step_pairs_snd. apply nodup_b_NoDup; exact En.
Qed.

Definition history_keys_ok (h : history) : Prop := Forall (fun b => NoDup (dkeys b)) h.

Lemma run_history_inv h : forall pc rm fm cur',
  history_keys_ok h ->
  NoDup (map fst pc) -> NoDup (map snd pc) ->
  rev_inv pc rm -> fwd_inv pc fm ->
  run_history (map snd pc) h = Some cur' ->
  exists pc', map fst pc' = map fst pc /\ map snd pc' = cur' /\ NoDup cur' /\
              rev_inv pc' (fold_left rev_step h rm) /\ fwd_inv pc' (fold_left fwd_step h fm).
Proof.
  induction h as [|b h IH]; intros pc rm fm cur' Hk Hf Hs Hr Hw Hrun.
  - simpl in Hrun. injection Hrun as <-. exists pc. auto.
  - simpl in Hrun. destruct (apply_batch (map snd pc) b) as [cur1|] eqn:Ea; [|discriminate].
    inversion Hk as [|? ? Hkb Hkh]; subst.
    destruct (apply_batch_valid _ _ _ Hkb Ea) as [Hv ->].
    pose proof Hv as (_ & _ & Hnd1).
    destruct (IH (step_pairs b pc) (rev_step rm b) (fwd_step fm b) cur') as (pc' & H1 & H2 & H3 & H4 & H5); auto.
    + rewrite step_pairs_fst; exact Hf.
    + apply rev_step_inv; assumption.
    + apply fwd_step_inv; assumption.
    + exists pc'. rewrite H1, step_pairs_fst. simpl. auto.
Qed.

Lemma combine_self_fst (l : list name) : map fst (combine l l) = l.
Proof. induction l; simpl; congruence. Qed.
Lemma combine_self_snd (l : list name) : map snd (combine l l) = l.
Proof. induction l; simpl; congruence. Qed.
Lemma combine_self_in (l : list name) p c : In (p, c) (combine l l) -> p = c.
Proof. induction l; simpl; [contradiction|]. intros [[= -> ->]|H]; auto. Qed.
Lemma combine_fst_snd {A B} (pc : list (A * B)) : combine (map fst pc) (map snd pc) = pc.
Proof. induction pc as [|[a b] pc IH]; simpl; congruence. Qed.

(* The main theorem on histories: after any accepted history, the reverse map
   sends every current name to the original at the same position, and the
   forward map sends every original to the current name at the same position. *)
Theorem history_maps_correct (orig : list name) (h : history) (cur : list name) :
  NoDup orig -> history_keys_ok h -> run_history orig h = Some cur ->
  length cur = length orig /\ NoDup cur /\
  map (rget (reverse_map h)) cur = orig /\
  map (rget (forward_map h)) orig = cur.
Proof.
  intros Hnd Hk Hrun.
  destruct (run_history_inv h (combine orig orig) [] [] cur) as (pc & H1 & H2 & H3 & H4 & H5); auto.
  - rewrite combine_self_fst; exact Hnd.
  - rewrite combine_self_snd; exact Hnd.
  - intros p c Hin. apply combine_self_in in Hin. subst. reflexivity.
  - split; [|split; [intros k []|constructor]].
    intros p c Hin. apply combine_self_in in Hin. subst. reflexivity.
  - rewrite combine_self_snd; exact Hrun.
  - rewrite combine_self_fst in H1. subst cur. rewrite <- H1.
    split; [rewrite !map_length; reflexivity|]. split; [exact H3|]. split.
    + rewrite map_map. apply map_ext_in. intros [p c] Hin. simpl. apply H4; exact Hin.
    + destruct H5 as (Hg & _ & _). rewrite map_map. apply map_ext_in. intros [p c] Hin. simpl.
      apply Hg; exact Hin.
Qed.

(* pointwise forms against the positional specification sigma / sigma_inv *)
Lemma rget_combine_map {A} (f : A -> name) (g : A -> name) (l : list A) x :
  NoDup (map f l) -> In x l -> rget (combine (map f l) (map g l)) (f x) = g x.
Proof.
  intros Hnd Hin. unfold rget. rewrite (nodup_dget _ (f x) (g x)); [reflexivity | |].
  - clear Hin. replace (dkeys (combine (map f l) (map g l))) with (map f l); [exact Hnd|].
    unfold dkeys. clear Hnd. induction l; simpl; congruence.
  - clear Hnd. induction l as [|a l IH]; simpl in *; [contradiction|].
    destruct Hin as [->|Hin]; [left; reflexivity | right; auto].
Qed.

Lemma rget_combine_id (f : name -> name) (l : list name) x :
  NoDup l -> In x l -> rget (combine l (map f l)) x = f x.
Proof.
  intros Hnd Hin. pose proof (rget_combine_map (fun z => z) f l x) as H.
  rewrite map_id in H. apply H; assumption.
Qed.

Theorem reverse_pointwise orig h cur c :
  NoDup orig -> history_keys_ok h -> run_history orig h = Some cur ->
  In c cur -> rget (reverse_map h) c = sigma_inv orig cur c.
Proof.
  intros Hnd Hk Hrun Hin.
  destruct (history_maps_correct _ _ _ Hnd Hk Hrun) as (Hlen & Hndc & Hr & Hf).
  unfold sigma_inv. rewrite <- Hr. symmetry. apply rget_combine_id; assumption.
Qed.

Theorem forward_pointwise orig h cur o :
  NoDup orig -> history_keys_ok h -> run_history orig h = Some cur ->
  In o orig -> rget (forward_map h) o = sigma orig cur o.
Proof.
  intros Hnd Hk Hrun Hin.
  destruct (history_maps_correct _ _ _ Hnd Hk Hrun) as (Hlen & Hndc & Hr & Hf).
  unfold sigma. rewrite <- Hf. symmetry. apply rget_combine_id; assumption.
Qed.

(* sigma and sigma_inv are mutually inverse on live names *)
Theorem sigma_inverse orig cur :
  NoDup orig -> NoDup cur -> length cur = length orig ->
  (forall o, In o orig -> sigma_inv orig cur (sigma orig cur o) = o) /\
  (forall c, In c cur -> sigma orig cur (sigma_inv orig cur c) = c).
Proof.
  intros Ho Hc Hlen.
  assert (E : exists pc, map fst pc = orig /\ map snd pc = cur).
  { exists (combine orig cur). split.
    - clear Ho Hc. revert cur Hlen. induction orig as [|a o IH]; intros [|b c] H; simpl in *; try discriminate; auto.
      f_equal. apply IH. congruence.
    - clear Ho Hc. revert cur Hlen. induction orig as [|a o IH]; intros [|b c] H; simpl in *; try discriminate; auto.
      f_equal. apply IH. congruence. }
  destruct E as (pc & <- & <-). unfold sigma, sigma_inv. split.
  - intros o Hin. apply in_map_iff in Hin as [x [<- Hx]].
    rewrite (rget_combine_map fst snd pc x Ho Hx). apply (rget_combine_map snd fst pc x Hc Hx).
  - intros c Hin. apply in_map_iff in Hin as [x [<- Hx]].
    rewrite (rget_combine_map snd fst pc x Hc Hx). apply (rget_combine_map fst snd pc x Ho Hx).
Qed.

(* ---------- what the wrapped function / inner graph receives ---------- *)

Theorem call_receives_originals {V} orig h cur (vs : list V) :
  NoDup orig -> history_keys_ok h -> run_history orig h = Some cur ->
  length vs = length cur ->
  map_inputs_to_params h (combine cur vs) = combine orig vs.
Proof.
  intros Hnd Hk Hrun Hlen.
  destruct (history_maps_correct _ _ _ Hnd Hk Hrun) as (Hlen' & Hndc & Hr & Hf).
  unfold map_inputs_to_params.
  assert (E : map (fun kv : name * V => (rget (reverse_map h) (fst kv), snd kv)) (combine cur vs)
              = combine orig vs).
  { rewrite <- Hr. clear -Hlen. revert vs Hlen.
    induction cur as [|c cur IH]; intros [|v vs] H; simpl in *; try discriminate; auto.
    f_equal. apply IH. congruence. }
  rewrite E. apply dupdate_nil_nodup.
  replace (map fst (combine orig vs)) with orig; [exact Hnd|].
  assert (L : length orig = length vs) by congruence.
  clear -L. revert vs L. induction orig as [|o orig IH]; intros [|v vs] H; simpl in *; try discriminate; auto.
  f_equal. apply IH. congruence.
Qed.

(* signature defaults follow the parameter to its current name *)
Theorem defaults_follow {V} orig h cur (sd : dict V) :
  NoDup orig -> history_keys_ok h -> run_history orig h = Some cur ->
  (forall k, In k (dkeys sd) -> In k orig) ->
  defaults_current h sd = dupdate [] (map (fun kv => (sigma orig cur (fst kv), snd kv)) sd).
Proof.
  intros Hnd Hk Hrun Hsub. unfold defaults_current. f_equal.
  apply map_ext_in. intros [k v] Hin. simpl. f_equal.
  apply (forward_pointwise orig h cur k); auto. apply Hsub.
  apply (in_map fst) in Hin; exact Hin.
Qed.

(* ---------- GraphNode ---------- *)

Theorem gn_resolve_correct orig h cur c :
  NoDup orig -> history_keys_ok h -> run_history orig h = Some cur ->
  In c cur -> gn_resolve_original h c = sigma_inv orig cur c.
Proof. apply reverse_pointwise. Qed.

Theorem gn_original_params_correct orig h cur ps :
  NoDup orig -> history_keys_ok h -> run_history orig h = Some cur ->
  incl ps cur -> gn_original_params h ps = map (sigma_inv orig cur) ps.
Proof.
  intros Hnd Hk Hrun Hincl. unfold gn_original_params. apply map_ext_in.
  intros p Hp. apply (reverse_pointwise orig h cur p); auto.
Qed.

Theorem gn_map_outputs_correct {V} orig h cur (outs : dict V) :
  NoDup orig -> history_keys_ok h -> run_history orig h = Some cur ->
  gn_map_outputs h cur outs
  = dupdate [] (map (fun kv => (sigma orig cur (fst kv), snd kv)) outs).
Proof.
  intros Hnd Hk Hrun.
  destruct (history_maps_correct _ _ _ Hnd Hk Hrun) as (Hlen & Hndc & Hr & Hf).
  unfold gn_map_outputs, sigma.
  replace (map (fun o => (rget (reverse_map h) o, o)) cur) with (combine orig cur).
  - rewrite (dupdate_nil_nodup (combine orig cur)); [reflexivity|].
    replace (map fst (combine orig cur)) with orig; [exact Hnd|].
    clear -Hlen. revert cur Hlen. induction orig as [|o orig IH]; intros [|c cur] H; simpl in *; try discriminate; auto.
    f_equal. apply IH. congruence.
  - rewrite <- Hr. clear. induction cur as [|c cur IH]; simpl; congruence.
Qed.

(* map_over / clone lists follow renames: after the history they name the same
   positions they named before. *)
Definition comp (h : history) (x : name) : name := fold_left (fun y b => sub b y) h x.

Lemma run_history_comp h : forall cur cur',
  run_history cur h = Some cur' -> cur' = map (comp h) cur.
Proof.
  induction h as [|b h IH]; intros cur cur' H; simpl in H.
  - injection H as <-. unfold comp; simpl. rewrite map_id; reflexivity.
  - destruct (apply_batch cur b) as [c1|] eqn:E; [|discriminate].
    apply IH in H. subst cur'. unfold apply_batch in E.
    destruct (forallb _ b); [|discriminate]. destruct (nodup_b _); [|discriminate].
    injection E as <-. rewrite map_map. reflexivity.
Qed.

Lemma follow_history_comp h : forall ps, follow_history ps h = map (comp h) ps.
Proof.
  induction h as [|b h IH]; intros ps; simpl.
  - unfold comp; simpl. rewrite map_id; reflexivity.
  - unfold follow_history in *. simpl. rewrite IH. unfold follow. rewrite map_map. reflexivity.
Qed.

Theorem follow_history_correct orig h cur ps :
  NoDup orig -> run_history orig h = Some cur ->
  incl ps orig -> follow_history ps h = map (sigma orig cur) ps.
Proof.
  intros Hnd Hrun Hincl. rewrite follow_history_comp.
  apply run_history_comp in Hrun. subst cur.
  apply map_ext_in. intros p Hp. unfold sigma. symmetry.
  apply rget_combine_id; auto.
Qed.
