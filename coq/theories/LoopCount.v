(* LoopCount.v — C04: the signal-synchronised loop  "x := f x; while P x: x := f x"  (Samples.loop: a body node 10 producing x
   and emitting `done`, an exit gate 13 reading x and waiting for `done`, open by default) runs EXACTLY as the sequential loop
   does, for EVERY predicate P, body function f, start value, runner and sufficient budget: the final x is f^n x0 where n is the
   first n >= 1 with P (f^n x0) = false, the body ran n times and the gate n times - no skipped, repeated or extra iteration.
   (Hypothesis: every pass changes x - a pass that leaves x unchanged bumps no version, and the engine stops there.) *)
From HG Require Import Base Engine Exec EngineProofs Samples.
From stdpp Require Import gmap.

Local Open Scope positive_scope.

Section LoopCount.
  Variable P : Z -> bool.
  Variable f : Z -> Z.

  (* the executor of the two nodes: the body computes f and emits `done`; the gate continues while P *)
  Variable exec : node -> state -> dict val -> outcome.
  Hypothesis Hbody : forall st x, exec body_node st [(1, VInt x)] = OOk [(1, VInt (f x)); (20, VSentinel)] None.
  Hypothesis Hgate : forall st x, exec loop_gate st [(1, VInt x)] = OOk [] (Some (Some (if P x then DOne 10 else DEnd))).

  (* ---------------------------------------------------------------- readiness, in closed form *)
  Definition stale_on_x (st : state) (e : option exec_rec) : bool :=
    match e with Some r => negb (Nat.eqb (ver st 1) (default 0%nat (dget (r_in r) 1))) | None => true end.

  Definition body_rdy (st : state) : bool :=
    match decs st !! 13 with
    | Some d => activated_by d 10
    | None => match execs st !! 13 with Some _ => false | None => true end
    end &&
    match vals st !! 1 with Some _ => true | None => false end &&
    stale_on_x st (execs st !! 10).

  Definition gate_rdy (st : state) : bool :=
    match vals st !! 1 with Some _ => true | None => false end &&
    match vals st !! 20 with
    | None => false
    | Some _ => match execs st !! 13 with
                | None => true
                | Some r => Nat.ltb (default 0%nat (dget (r_wait r) 20)) (ver st 20)
                end
    end &&
    stale_on_x st (execs st !! 13).

  Lemma node_ready_body st : node_ready loop st body_node = body_rdy st.
  Proof.
    unfold node_ready, body_rdy, stale_on_x.
    assert (Hc : controlled_by loop 10 = [13]) by reflexivity.
    assert (Hf : find_node loop 13 = Some loop_gate) by reflexivity.
    assert (Hg : Engine.gated loop body_node = true) by reflexivity.
    unfold activated. cbn [n_name body_node]. rewrite Hc. cbn [existsb]. unfold gate_opens. rewrite Hf.
    cbn [n_inputs body_node forallb]. unfold has_input at 1. cbn [g_bound loop dmem dget n_hasdef body_node pos_in existsb].
    unfold wait_ok. cbn [n_wait body_node forallb]. unfold needs_execution. cbn [n_name body_node].
    unfold is_stale. cbn [n_inputs body_node existsb]. rewrite Hg. cbn [negb andb].
    change (gate_default_open loop_gate) with true.
    destruct (decs st !! 13) as [d|]; destruct (execs st !! 13); destruct (vals st !! 1); destruct (execs st !! 10);
      rewrite ?orb_false_r, ?andb_true_r; reflexivity.
  Qed.

  Lemma node_ready_gate st : node_ready loop st loop_gate = gate_rdy st.
  Proof.
    unfold node_ready, gate_rdy, stale_on_x.
    assert (Hc : controlled_by loop 13 = []) by reflexivity.
    assert (Hg : Engine.gated loop loop_gate = false) by reflexivity.
    unfold activated. cbn [n_name loop_gate]. rewrite Hc.
    cbn [n_inputs loop_gate forallb]. unfold has_input at 1. cbn [g_bound loop dmem dget n_hasdef loop_gate pos_in existsb].
    unfold wait_ok. cbn [n_wait loop_gate forallb n_name]. unfold needs_execution. cbn [n_name loop_gate].
    unfold is_stale. cbn [n_inputs loop_gate existsb]. rewrite Hg. cbn [negb andb n_outputs loop_gate pos_in existsb].
    destruct (vals st !! 1); destruct (vals st !! 20); destruct (execs st !! 13);
      rewrite ?orb_false_r, ?andb_true_r; reflexivity.
  Qed.

  Lemma ready_loop st :
    ready loop st =
    (clear_stale loop st,
     if gate_rdy (clear_stale loop st) then [loop_gate]
     else if body_rdy (clear_stale loop st) then [body_node] else []).
  Proof.
    unfold ready. set (st' := clear_stale loop st). f_equal.
    change (g_nodes loop) with [body_node; loop_gate]. cbn [List.filter].
    change (is_active loop body_node) with true. change (is_active loop loop_gate) with true. cbn [andb].
    rewrite node_ready_body, node_ready_gate.
    destruct (body_rdy st'), (gate_rdy st'); reflexivity.
  Qed.

  (* ---------------------------------------------------------------- one node per superstep *)
  Lemma superstep_single r snap pv n ins outs dec :
    is_interrupt n = false ->
    collect_inputs loop snap pv n (n_inputs n) = Some ins -> exec n snap ins = OOk outs dec ->
    superstep exec r loop snap pv [n] = (SOk (commit snap snap n outs dec), [(n_name n, ins)]).
  Proof.
    intros Hi Hc He. destruct r; unfold superstep.
    - cbn [superstep_sync]. rewrite Hc, He. reflexivity.
    - unfold superstep_async, isolate. cbn [List.filter]. rewrite Hi.
      cbn [map List.filter]. assert (Hp : pos_in (n_name n) [n_name n] = true) by (apply pos_in_In; left; reflexivity).
      rewrite Hp. unfold write_decisions, first_failure, async_calls. cbn [fold_left fold_right flat_map].
      unfold apply_success, run_one. rewrite Hc, He. cbn [snd fst app]. unfold commit.
      destruct dec as [d|]; reflexivity.
  Qed.

  (* ---------------------------------------------------------------- clearing the stale decision *)
  Lemma needs_gate st : needs_execution loop st loop_gate = stale_on_x st (execs st !! 13).
  Proof.
    unfold needs_execution, stale_on_x. cbn [n_name loop_gate]. destruct (execs st !! 13) as [r|]; [|reflexivity].
    unfold is_stale. cbn [n_inputs loop_gate existsb].
    assert (Hg : Engine.gated loop loop_gate = false) by reflexivity. rewrite Hg.
    cbn [negb andb n_outputs loop_gate pos_in existsb]. rewrite orb_false_r. reflexivity.
  Qed.

  Lemma clear_stale_loop st :
    clear_stale loop st =
    match decs st !! 13 with
    | Some DEnd => st
    | Some _ => if stale_on_x st (execs st !! 13) then set_dec st 13 None else st
    | None => st
    end.
  Proof.
    unfold clear_stale. change (g_nodes loop) with [body_node; loop_gate]. cbn [fold_left].
    change (is_gate body_node) with false. change (is_gate loop_gate) with true. cbn iota.
    cbn [n_name loop_gate]. rewrite needs_gate. reflexivity.
  Qed.

  (* ---------------------------------------------------------------- versions under update_value *)
  Lemma ver_update_changed st x old v :
    vals st !! x = Some old -> val_eqb v VSentinel = false -> val_eqb old v = false ->
    ver (update_value st x v) x = S (ver st x).
  Proof.
    intros Ho Hs Hne. unfold update_value. rewrite Ho, Hs, Hne. unfold ver at 1. simpl. rewrite lookup_insert. reflexivity.
  Qed.

  Lemma ver_update_absent st x v : vals st !! x = None -> ver (update_value st x v) x = S (ver st x).
  Proof. intros Ho. unfold update_value. rewrite Ho. unfold ver at 1. simpl. rewrite lookup_insert. reflexivity. Qed.

  (* ---------------------------------------------------------------- the state after the body / after the gate *)
  Definition after_body (snap : state) (x : Z) : state :=
    commit snap snap body_node [(1, VInt (f x)); (20, VSentinel)] None.
  Definition after_gate (snap : state) (d : decision) : state :=
    commit snap snap loop_gate [] (Some (Some d)).

  Lemma after_body_obs snap x :
    vals snap !! 1 = Some (VInt x) -> f x <> x ->
    let s := after_body snap x in
    vals s !! 1 = Some (VInt (f x)) /\ vals s !! 20 = Some VSentinel /\
    ver s 1 = S (ver snap 1) /\ ver s 20 = S (ver snap 20) /\
    (exists rb, execs s !! 10 = Some rb /\ dget (r_in rb) 1 = Some (ver snap 1)) /\
    execs s !! 13 = execs snap !! 13 /\ decs s !! 13 = decs snap !! 13.
  Proof.
    intros Hx Hne s. unfold s, after_body, commit. cbn [apply_outputs fold_left fst snd].
    set (s1 := update_value snap 1 (VInt (f x))). set (s2 := update_value s1 20 VSentinel).
    assert (V1 : vals s2 !! 1 = Some (VInt (f x))).
    { unfold s2. rewrite vals_update_ne by discriminate. apply vals_update_same. }
    assert (V20 : vals s2 !! 20 = Some VSentinel) by apply vals_update_same.
    assert (R1 : ver s2 1 = S (ver snap 1)).
    { unfold s2. rewrite ver_update_ne by discriminate. apply (ver_update_changed snap 1 (VInt x)); [exact Hx | reflexivity|].
      simpl. apply Z.eqb_neq. intros E. apply Hne. symmetry. exact E. }
    assert (R20 : ver s2 20 = S (ver snap 20)).
    { unfold s2. rewrite ver_update_sentinel. f_equal. unfold s1. apply ver_update_ne. discriminate. }
    assert (E : execs s2 = execs snap) by (unfold s2, s1; rewrite !execs_update; reflexivity).
    assert (D : decs s2 = decs snap) by (unfold s2, s1; rewrite !decs_update; reflexivity).
    repeat split; try assumption.
    - exists (record_of snap body_node). split; [simpl; apply lookup_insert | reflexivity].
    - simpl. rewrite lookup_insert_ne by discriminate. rewrite E. reflexivity.
    - simpl. rewrite D. reflexivity.
  Qed.

  Lemma after_gate_obs snap d :
    let s := after_gate snap d in
    vals s = vals snap /\ (forall y, ver s y = ver snap y) /\
    (exists rg, execs s !! 13 = Some rg /\ dget (r_in rg) 1 = Some (ver snap 1) /\ dget (r_wait rg) 20 = Some (ver snap 20)) /\
    execs s !! 10 = execs snap !! 10 /\ decs s !! 13 = Some d.
  Proof.
    intros s. unfold s, after_gate, commit. cbn [apply_outputs fold_left]. repeat split.
    - exists (record_of snap loop_gate). split; [simpl; apply lookup_insert | split; reflexivity].
    - simpl. rewrite lookup_insert_ne by discriminate. reflexivity.
    - simpl. apply lookup_insert.
  Qed.

  Lemma stale_some st r a b : ver st 1 = a -> dget (r_in r) 1 = Some b -> stale_on_x st (Some r) = negb (Nat.eqb a b).
  Proof. intros Ha Hb. unfold stale_on_x. rewrite Ha, Hb. reflexivity. Qed.

  Lemma eqb_S_false k : Nat.eqb (S k) k = false.
  Proof. apply Nat.eqb_neq. lia. Qed.

  (* ---------------------------------------------------------------- the invariant between passes *)
  Definition gate_part (k : nat) (st : state) : Prop :=
    (k = 1%nat /\ execs st !! 13 = None /\ decs st !! 13 = None) \/
    ((1 < k)%nat /\ exists rg, execs st !! 13 = Some rg /\ dget (r_in rg) 1 = Some k /\
                               dget (r_wait rg) 20 = Some (k - 1)%nat /\ decs st !! 13 = Some (DOne 10)).

  (* after the k-th pass of the body (k >= 1), before the gate looks at x *)
  Definition IG (k : nat) (x : Z) (st : state) : Prop :=
    vals st !! 1 = Some (VInt x) /\ vals st !! 20 = Some VSentinel /\ ver st 1 = S k /\ ver st 20 = k /\
    (exists rb, execs st !! 10 = Some rb /\ dget (r_in rb) 1 = Some k) /\ gate_part k st /\ (1 <= k)%nat.

  Definition cnt (nm : name) (log : list (list call)) : nat :=
    length (List.filter (fun c : call => Pos.eqb (fst c) nm) (concat log)).

  Lemma cnt_snoc nm log n ins : cnt nm (log ++ [[(n, ins)]])%list = (cnt nm log + if Pos.eqb n nm then 1 else 0)%nat.
  Proof.
    unfold cnt. rewrite concat_app, List.filter_app, app_length. simpl. destruct (Pos.eqb n nm); reflexivity.
  Qed.

  Lemma collect_x st pv n x : n_inputs n = [1] -> vals st !! 1 = Some (VInt x) ->
    collect_inputs loop st pv n (n_inputs n) = Some [(1, VInt x)].
  Proof. intros Hi Hx. rewrite Hi. cbn [collect_inputs]. unfold resolve. rewrite Hx. reflexivity. Qed.

  (* the gate's turn *)
  Lemma gate_turn k x st : IG k x st ->
    let st' := clear_stale loop st in
    ready loop st = (st', [loop_gate]) /\
    vals st' = vals st /\ (forall y, ver st' y = ver st y) /\ execs st' = execs st /\ decs st' !! 13 = None.
  Proof.
    intros (Hx & Hd & Hv1 & Hv20 & (rb & Hrb & Hrbi) & Hg & Hk) st'.
    assert (Hst' : vals st' = vals st /\ (forall y, ver st' y = ver st y) /\ execs st' = execs st /\ decs st' !! 13 = None).
    { unfold st'. rewrite clear_stale_loop. destruct Hg as [(-> & He & Hdc)|(Hk1 & rg & He & Hri & Hrw & Hdc)].
      - rewrite Hdc. repeat split; auto.
      - rewrite Hdc, He. rewrite (stale_some st rg (S k) k Hv1 Hri), eqb_S_false. cbn [negb].
        repeat split; auto. apply lookup_delete. }
    split; [|exact Hst']. destruct Hst' as (Ev & Evr & Ee & Edc).
    rewrite ready_loop. fold st'. f_equal.
    assert (Hgr : gate_rdy st' = true).
    { unfold gate_rdy. rewrite Ev, Hx, Hd, Ee, Evr.
      destruct Hg as [(-> & He & _)|(Hk1 & rg & He & Hri & Hrw & _)]; rewrite He; [reflexivity|].
      rewrite (stale_some st' rg (S k) k (eq_trans (Evr 1) Hv1) Hri), eqb_S_false, Hrw, Hv20.
      change (default 0%nat (Some (k - 1)%nat)) with (k - 1)%nat.
      assert (E1 : Nat.ltb (k - 1) k = true) by (apply Nat.ltb_lt; lia). rewrite E1. reflexivity. }
    rewrite Hgr. reflexivity.
  Qed.

  (* the state after the gate decided, when it is not the end *)
  Definition IB (k : nat) (x : Z) (st : state) : Prop :=
    vals st !! 1 = Some (VInt x) /\ vals st !! 20 = Some VSentinel /\ ver st 1 = S k /\ ver st 20 = k /\
    (exists rb, execs st !! 10 = Some rb /\ dget (r_in rb) 1 = Some k) /\
    (exists rg, execs st !! 13 = Some rg /\ dget (r_in rg) 1 = Some (S k) /\ dget (r_wait rg) 20 = Some k) /\
    (1 <= k)%nat.

  Lemma after_gate_IB k x st d : IG k x st -> decs (after_gate (clear_stale loop st) d) !! 13 = Some d /\ IB k x (after_gate (clear_stale loop st) d).
  Proof.
    intros HI. pose proof HI as (Hx & Hd & Hv1 & Hv20 & (rb & Hrb & Hrbi) & Hg & Hk).
    destruct (gate_turn k x st HI) as (_ & Ev & Evr & Ee & Edc).
    destruct (after_gate_obs (clear_stale loop st) d) as (Av & Avr & (rg & Arg & Ari & Arw) & A10 & Adc).
    split; [exact Adc|]. unfold IB. rewrite Av, Ev, !Avr, !Evr, A10, Ee. repeat split; auto.
    - eauto.
    - exists rg. rewrite Ari, Arw, !Evr, Hv1, Hv20. auto.
  Qed.

  Lemma body_turn k x st : IB k x st -> decs st !! 13 = Some (DOne 10) -> ready loop st = (st, [body_node]).
  Proof.
    intros (Hx & Hd & Hv1 & Hv20 & (rb & Hrb & Hrbi) & (rg & Hrg & Hrgi & Hrgw) & Hk) Hdc.
    assert (Sg : stale_on_x st (Some rg) = false) by (rewrite (stale_some st rg (S k) (S k) Hv1 Hrgi), Nat.eqb_refl; reflexivity).
    assert (Sb : stale_on_x st (Some rb) = true) by (rewrite (stale_some st rb (S k) k Hv1 Hrbi), eqb_S_false; reflexivity).
    assert (Hc : clear_stale loop st = st) by (rewrite clear_stale_loop, Hdc, Hrg, Sg; reflexivity).
    rewrite ready_loop, Hc. f_equal.
    unfold gate_rdy, body_rdy. rewrite Hx, Hd, Hrg, Hrb, Hdc, Sg, Sb. cbn [activated_by]. rewrite Pos.eqb_refl, !andb_false_r. reflexivity.
  Qed.

  Lemma end_turn k x st : IB k x st -> decs st !! 13 = Some DEnd -> ready loop st = (st, []).
  Proof.
    intros (Hx & Hd & Hv1 & Hv20 & (rb & Hrb & Hrbi) & (rg & Hrg & Hrgi & Hrgw) & Hk) Hdc.
    assert (Sg : stale_on_x st (Some rg) = false) by (rewrite (stale_some st rg (S k) (S k) Hv1 Hrgi), Nat.eqb_refl; reflexivity).
    assert (Hc : clear_stale loop st = st) by (rewrite clear_stale_loop, Hdc; reflexivity).
    rewrite ready_loop, Hc. f_equal.
    unfold gate_rdy, body_rdy. rewrite Hx, Hd, Hrg, Hdc, Sg. cbn [activated_by]. rewrite !andb_false_r. reflexivity.
  Qed.

  Lemma after_body_IG k x st : IB k x st -> decs st !! 13 = Some (DOne 10) -> f x <> x -> IG (S k) (f x) (after_body st x).
  Proof.
    intros (Hx & Hd & Hv1 & Hv20 & (rb & Hrb & Hrbi) & (rg & Hrg & Hrgi & Hrgw) & Hk) Hdc Hne.
    destruct (after_body_obs st x Hx Hne) as (B1 & B20 & Bv1 & Bv20 & (rb' & Brb & Brbi) & B13 & Bdc).
    unfold IG. split; [exact B1|]. split; [exact B20|]. split; [rewrite Bv1, Hv1; reflexivity|].
    split; [rewrite Bv20, Hv20; reflexivity|].
    split; [exists rb'; split; [exact Brb | rewrite Brbi, Hv1; reflexivity]|]. split; [|lia].
    right. split; [lia|]. exists rg. rewrite B13, Bdc. split; [exact Hrg|]. split; [exact Hrgi|].
    split; [replace (S k - 1)%nat with k by lia; exact Hrgw | exact Hdc].
  Qed.

  (* ---------------------------------------------------------------- the loop, pass by pass *)
  Variable r : runner.
  Variable pv : dict val.

  Lemma run_from_gate : forall m k x st log fuel,
    IG k x st ->
    (forall j, (j < m)%nat -> P (Nat.iter j f x) = true /\ f (Nat.iter j f x) <> Nat.iter j f x) ->
    P (Nat.iter m f x) = false -> (2 * m + 1 <= fuel)%nat ->
    exists st' log', run_loop exec r fuel loop pv st log = (RDone st', log') /\
      vals st' !! 1 = Some (VInt (Nat.iter m f x)) /\
      cnt 10 log' = (cnt 10 log + m)%nat /\ cnt 13 log' = (cnt 13 log + S m)%nat.
  Proof.
    induction m as [|m IH]; intros k x st log fuel HI Hpass Hend Hfuel.
    - (* the gate says END *)
      destruct fuel as [|fuel]; [lia|]. change (Nat.iter 0 f x) with x in *.
      destruct (gate_turn k x st HI) as (Hr & Ev & Evr & Ee & Edc).
      pose proof HI as (Hx & _).
      cbn [run_loop]. rewrite Hr.
      rewrite (superstep_single r (clear_stale loop st) pv loop_gate [(1, VInt x)] [] (Some (Some DEnd)) eq_refl).
      2:{ apply collect_x; [reflexivity | rewrite Ev; exact Hx]. }
      2:{ rewrite Hgate, Hend. reflexivity. }
      fold (after_gate (clear_stale loop st) DEnd).
      destruct (after_gate_IB k x st DEnd HI) as (Hdc & HB).
      pose proof (end_turn k x _ HB Hdc) as Hre.
      exists (after_gate (clear_stale loop st) DEnd), (log ++ [[(13, [(1, VInt x)])]])%list.
      split; [|split; [exact (proj1 HB) | rewrite !cnt_snoc; change (Pos.eqb 13 10) with false; change (Pos.eqb 13 13) with true; split; lia]].
      destruct fuel; cbn [run_loop]; rewrite Hre; reflexivity.
    - (* the gate says: once more *)
      destruct (Hpass 0%nat ltac:(lia)) as (Hp0 & Hne0). change (Nat.iter 0 f x) with x in Hp0, Hne0.
      destruct fuel as [|[|fuel]]; [lia | lia |].
      destruct (gate_turn k x st HI) as (Hr & Ev & Evr & Ee & Edc).
      pose proof HI as (Hx & _).
      cbn [run_loop]. rewrite Hr.
      rewrite (superstep_single r (clear_stale loop st) pv loop_gate [(1, VInt x)] [] (Some (Some (DOne 10))) eq_refl).
      2:{ apply collect_x; [reflexivity | rewrite Ev; exact Hx]. }
      2:{ rewrite Hgate, Hp0. reflexivity. }
      fold (after_gate (clear_stale loop st) (DOne 10)).
      destruct (after_gate_IB k x st (DOne 10) HI) as (Hdc & HB).
      set (s2 := after_gate (clear_stale loop st) (DOne 10)) in *.
      cbn [run_loop]. rewrite (body_turn k x s2 HB Hdc).
      rewrite (superstep_single r s2 pv body_node [(1, VInt x)] [(1, VInt (f x)); (20, VSentinel)] None eq_refl).
      2:{ apply collect_x; [reflexivity | exact (proj1 HB)]. }
      2:{ apply Hbody. }
      fold (after_body s2 x).
      pose proof (after_body_IG k x s2 HB Hdc Hne0) as HI'.
      destruct (IH (S k) (f x) (after_body s2 x) ((log ++ [[(13, [(1, VInt x)])]]) ++ [[(10, [(1, VInt x)])]])%list fuel HI')
        as (st' & log' & Hrun & Hval & Hc10 & Hc13).
      + intros j Hj. rewrite <- !Nat.iter_succ_r. apply Hpass. lia.
      + rewrite <- Nat.iter_succ_r. exact Hend.
      + lia.
      + exists st', log'. split; [exact Hrun|]. split; [rewrite Nat.iter_succ_r; exact Hval|].
        rewrite !cnt_snoc in Hc10, Hc13. change (Pos.eqb 13 10) with false in Hc10. change (Pos.eqb 10 10) with true in Hc10.
        change (Pos.eqb 13 13) with true in Hc13. change (Pos.eqb 10 13) with false in Hc13. cbn iota in Hc10, Hc13. split; lia.
  Qed.
End LoopCount.

(* C04_loop_exact *)
Theorem loop_runs_exactly (P : Z -> bool) (f : Z -> Z) (exec : node -> state -> dict val -> outcome) (r : runner)
        (x0 : Z) (n fuel : nat) :
  (forall st x, exec body_node st [(1%positive, VInt x)] = OOk [(1%positive, VInt (f x)); (20%positive, VSentinel)] None) ->
  (forall st x, exec loop_gate st [(1%positive, VInt x)] = OOk [] (Some (Some (if P x then DOne 10 else DEnd)))) ->
  (1 <= n)%nat ->
  (forall j, (1 <= j < n)%nat -> P (Nat.iter j f x0) = true) ->
  P (Nat.iter n f x0) = false ->
  (forall j, (j < n)%nat -> Nat.iter (S j) f x0 <> Nat.iter j f x0) ->
  (2 * n <= fuel)%nat ->
  exists st log,
    execute exec r fuel loop [(1%positive, VInt x0)] = (RDone st, log) /\
    vals st !! 1%positive = Some (VInt (Nat.iter n f x0)) /\
    cnt 10 log = n /\ cnt 13 log = n.
Proof.
  intros Hbody Hgate Hn Hcont Hend Hchg Hfuel. set (pv := [(1%positive, VInt x0)]).
  unfold execute. destruct fuel as [|fuel]; [lia|].
  set (s0 := init_state pv).
  assert (V1 : vals s0 !! 1%positive = Some (VInt x0)) by (unfold s0, pv, init_state; cbn [apply_outputs fold_left fst snd]; apply vals_update_same).
  assert (V20 : vals s0 !! 20%positive = None).
  { unfold s0, pv, init_state. cbn [apply_outputs fold_left fst snd]. rewrite vals_update_ne by discriminate. apply lookup_empty. }
  assert (R1 : ver s0 1 = 1%nat).
  { unfold s0, pv, init_state. cbn [apply_outputs fold_left fst snd]. rewrite ver_update_absent by apply lookup_empty. reflexivity. }
  assert (R20 : ver s0 20 = 0%nat).
  { unfold s0, pv, init_state. cbn [apply_outputs fold_left fst snd]. rewrite ver_update_ne by discriminate. reflexivity. }
  assert (E : execs s0 = ∅) by (unfold s0, pv, init_state; cbn [apply_outputs fold_left fst snd]; rewrite execs_update; reflexivity).
  assert (D : decs s0 = ∅) by (unfold s0, pv, init_state; cbn [apply_outputs fold_left fst snd]; rewrite decs_update; reflexivity).
  assert (Hc : clear_stale loop s0 = s0) by (rewrite clear_stale_loop, D, lookup_empty; reflexivity).
  assert (Hr : ready loop s0 = (s0, [body_node])).
  { rewrite ready_loop, Hc.
    assert (G : gate_rdy s0 = false) by (unfold gate_rdy; rewrite V1, V20; reflexivity).
    assert (B : body_rdy s0 = true) by (unfold body_rdy, stale_on_x; rewrite V1, E, D, !lookup_empty; reflexivity).
    rewrite G, B. reflexivity. }
  cbn [run_loop]. rewrite Hr.
  rewrite (superstep_single exec r s0 pv body_node [(1%positive, VInt x0)] [(1%positive, VInt (f x0)); (20%positive, VSentinel)] None eq_refl).
  2:{ apply collect_x; [reflexivity | exact V1]. }
  2:{ apply Hbody. }
  fold (after_body f s0 x0).
  assert (Hne0 : f x0 <> x0) by (apply (Hchg 0%nat); lia).
  destruct (after_body_obs f s0 x0 V1 Hne0) as (B1 & B20 & Bv1 & Bv20 & (rb & Brb & Brbi) & B13 & Bdc).
  assert (HI : IG 1 (f x0) (after_body f s0 x0)).
  { unfold IG. split; [exact B1|]. split; [exact B20|]. split; [rewrite Bv1, R1; reflexivity|]. split; [rewrite Bv20, R20; reflexivity|].
    split; [exists rb; split; [exact Brb | rewrite Brbi, R1; reflexivity]|]. split; [|lia].
    left. split; [reflexivity|]. rewrite B13, Bdc, E, D, !lookup_empty. auto. }
  destruct (run_from_gate P f exec Hbody Hgate r pv (n - 1) 1 (f x0) (after_body f s0 x0) ([] ++ [[(n_name body_node, [(1%positive, VInt x0)])]]) fuel HI)
    as (st' & log' & Hrun & Hval & Hc10 & Hc13).
  - intros j Hj. rewrite <- !Nat.iter_succ_r. split; [apply Hcont; lia | apply (Hchg (S j)); lia].
  - rewrite <- Nat.iter_succ_r. replace (S (n - 1)) with n by lia. exact Hend.
  - lia.
  - exists st', log'. split; [exact Hrun|]. split.
    + rewrite <- Nat.iter_succ_r in Hval. replace (S (n - 1)) with n in Hval by lia. exact Hval.
    + rewrite !cnt_snoc in Hc10, Hc13. cbn [n_name body_node] in Hc10, Hc13.
      change (Pos.eqb 10 10) with true in Hc10. change (Pos.eqb 10 13) with false in Hc13. cbn iota in Hc10, Hc13.
      unfold cnt in Hc10 at 2. unfold cnt in Hc13 at 2. simpl in Hc10, Hc13. split; lia.
Qed.

(* the executor the correspondence harness runs (Exec.exec_basic with the function table of the loop families: the body adds m,
   the gate continues while x < bound) is an instance *)
Definition loop_family_ft (m bound : Z) : dict fexp := [(1%positive, FAdd m); (2%positive, GLt bound)].

Theorem loop_family_exact (m bound : Z) (r : runner) (x0 : Z) (n fuel : nat) :
  (1 <= n)%nat ->
  (forall j, (1 <= j < n)%nat -> Z.ltb (Nat.iter j (fun x => x + m)%Z x0) bound = true) ->
  Z.ltb (Nat.iter n (fun x => x + m)%Z x0) bound = false ->
  m <> 0%Z ->
  (2 * n <= fuel)%nat ->
  exists st log,
    execute (exec_basic (loop_family_ft m bound) loop_gt) r fuel loop [(1%positive, VInt x0)] = (RDone st, log) /\
    vals st !! 1%positive = Some (VInt (Nat.iter n (fun x => x + m)%Z x0)) /\
    cnt 10 log = n /\ cnt 13 log = n.
Proof.
  intros Hn Hc He Hm Hf.
  apply (loop_runs_exactly (fun x => Z.ltb x bound) (fun x => x + m)%Z); try assumption.
  - intros st x. reflexivity.
  - intros st x. unfold exec_basic. cbn. destruct (Z.ltb x bound); reflexivity.
  - intros j _. cbn [Nat.iter]. simpl. lia.
Qed.
