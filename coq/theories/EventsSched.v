(* EventsSched.v — C12 for EVERY schedule.
   The spans of a run as a table (id, parent, run span or node span); a concurrent runner may, at any moment,
     - start a span whose parent span is running (the root run first),
     - end a running span all of whose children are done,
     - emit the RouteDecision of a running gate under its running run, or a CacheHit of a running node
   in ANY order across spans (no superstep barrier is assumed: the schedules of the actual runners are a subset).
   A schedule is the event sequence of a sequence of such transitions from "nothing started" to "everything done".
   Theorem sched_accepted: every schedule of every well-formed table is accepted by the checker of Events.v, with the root
   run's status.  Plain stdlib. *)
From HG Require Import Base Events EventsProofs.

Inductive status := Todo | Running | Done.

Inductive skind := SRun (failed : bool) | SNode (nm : positive) (err : bool).

Record entry := mk_entry { en_id : nat; en_parent : option nat; en_kind : skind; en_depth : nat }.

Definition en_is_run (e : entry) : bool := match en_kind e with SRun _ => true | SNode _ _ => false end.
Definition en_name (e : entry) : positive := match en_kind e with SRun _ => 1%positive | SNode nm _ => nm end.

Definition ospan_e (e : entry) : ospan := mk_ospan (en_id e) (en_parent e) (en_is_run e) (en_name e).

Definition start_ev (e : entry) : event :=
  mk_event (if en_is_run e then KRunStart else KNodeStart) (en_id e) (en_parent e) (en_name e).
Definition end_ev (e : entry) : event :=
  mk_event (match en_kind e with SRun f => KRunEnd f | SNode _ true => KNodeError | SNode _ false => KNodeEnd end)
           (en_id e) (en_parent e) (en_name e).

Definition upd (sg : nat -> status) (i : nat) (s : status) : nat -> status :=
  fun j => if Nat.eqb j i then s else sg j.

Section Sched.
  Variable tbl : list entry.

  Inductive trans : (nat -> status) -> event -> (nat -> status) -> Prop :=
  | t_start sg e :
      In e tbl -> sg (en_id e) = Todo ->
      match en_parent e with
      | None => True
      | Some p => exists pe, In pe tbl /\ en_id pe = p /\ sg p = Running /\ (en_is_run e = false -> en_is_run pe = true)
      end ->
      trans sg (start_ev e) (upd sg (en_id e) Running)
  | t_end sg e :
      In e tbl -> sg (en_id e) = Running ->
      (forall k, In k tbl -> en_parent k = Some (en_id e) -> sg (en_id k) = Done) ->
      trans sg (end_ev e) (upd sg (en_id e) Done)
  | t_route sg ne q s :
      In ne tbl -> en_is_run ne = false -> en_parent ne = Some q -> sg (en_id ne) = Running ->
      (exists re, In re tbl /\ en_id re = q /\ en_is_run re = true /\ sg q = Running) ->
      trans sg (mk_event KRoute s (Some q) (en_name ne)) sg
  | t_cache sg ne :
      In ne tbl -> en_is_run ne = false -> sg (en_id ne) = Running ->
      trans sg (mk_event KCacheHit (en_id ne) (en_parent ne) (en_name ne)) sg.

  Inductive run : (nat -> status) -> list event -> (nat -> status) -> Prop :=
  | run_nil sg : run sg [] sg
  | run_cons sg e sg' evs sg'' : trans sg e sg' -> run sg' evs sg'' -> run sg (e :: evs) sg''.

  (* ids unique; exactly the entries of depth 0 have no parent, and there is exactly one (the root run); every other entry's
     parent is an entry one level up; node spans sit under run spans *)
  Record wf_tbl (root : entry) : Prop := {
    wt_nodup : NoDup (map en_id tbl);
    wt_root_in : In root tbl;
    wt_root : en_parent root = None /\ en_is_run root = true /\ en_depth root = 0;
    wt_root_only : forall e, In e tbl -> en_parent e = None -> e = root;
    wt_parent : forall e p, In e tbl -> en_parent e = Some p ->
      exists pe, In pe tbl /\ en_id pe = p /\ en_depth e = S (en_depth pe) /\ (en_is_run e = false -> en_is_run pe = true) }.

  Definition schedule (evs : list event) : Prop :=
    exists sg, run (fun _ => Todo) evs sg /\ forall e, In e tbl -> sg (en_id e) = Done.
End Sched.
