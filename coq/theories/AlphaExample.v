(* AlphaExample.v — the hypotheses of Alpha.alpha_runs are satisfiable: the diamond DAG with every value name shifted by one. *)
From HG Require Import Base Engine Exec GraphDef EngineProofs C01Proofs Alpha Samples InlineExample.
From stdpp Require Import gmap.
Local Open Scope positive_scope.

Global Instance succ_inj : Inj (=) (=) Pos.succ.
Proof. intros a b H. apply Pos.succ_inj. exact H. Qed.

Definition ex_unrename (d : dict val) : dict val := map (fun kv => (Pos.pred (fst kv), snd kv)) d.

(* the executor of the renamed nodes: the original function, called with the original parameter names *)
Definition ex_exec' (n' : node) (s : state) (ins' : dict val) : outcome :=
  match find_node dag (n_name n') with
  | Some n => rename_out Pos.succ (exec_basic dag_ft [] n s (ex_unrename ins'))
  | None => ORaise EUnsupported
  end.

Definition ex_dag' : graph := rename_graph Pos.succ dag.
Definition ex_pv0 : dict val := [(1, VInt 5)].
Definition ex_pv' : dict val := rename_dict Pos.succ ex_pv0.

Lemma ex_unrename_rename ins : ex_unrename (rename_dict Pos.succ ins) = ins.
Proof.
  unfold ex_unrename, rename_dict. induction ins as [|[k v] l IH]; simpl; [reflexivity|].
  rewrite Pos.pred_succ, IH. reflexivity.
Qed.

Lemma ex_dag_cases n : In n (g_nodes dag) ->
  n = fnode 14 [32; 33] [34] 4 \/ n = fnode 11 [31] [32] 2 \/ n = fnode 10 [1] [31] 1 \/ n = fnode 12 [31] [33] 3.
Proof. simpl. intuition. Qed.

Lemma ex_exec_related n s ins : In n (g_nodes dag) ->
  ex_exec' (rename_node Pos.succ n) s (rename_dict Pos.succ ins) = rename_out Pos.succ (exec_basic dag_ft [] n s ins).
Proof.
  intros H. unfold ex_exec'. rewrite ex_unrename_rename.
  destruct (ex_dag_cases n H) as [-> | [-> | [-> | ->]]]; reflexivity.
Qed.

Lemma ex_dag'_cases n : In n (g_nodes ex_dag') ->
  n = rename_node Pos.succ (fnode 14 [32; 33] [34] 4) \/ n = rename_node Pos.succ (fnode 11 [31] [32] 2) \/
  n = rename_node Pos.succ (fnode 10 [1] [31] 1) \/ n = rename_node Pos.succ (fnode 12 [31] [33] 3).
Proof. simpl. intuition. Qed.

Lemma ex_wf' : WF ex_exec' ex_dag' ex_pv'.
Proof.
  split.
  - intros n H. destruct (ex_dag'_cases n H) as [-> | [-> | [-> | ->]]]; split; try reflexivity; left; reflexivity.
  - reflexivity.
  - repeat constructor; simpl; intuition congruence.
  - repeat constructor; simpl; intuition congruence.
  - exists (fun x : positive => match x with 10 => 0%nat | 11 => 1%nat | 12 => 1%nat | _ => 2%nat end).
    intros n m p Hi Hm Hp Ho.
    destruct (ex_dag'_cases n Hi) as [-> | [-> | [-> | ->]]]; destruct (ex_dag'_cases m Hm) as [-> | [-> | [-> | ->]]];
      simpl in *; intuition (try congruence; try lia); subst; simpl in *; intuition (try congruence; try lia).
  - intros x Hx. unfold dmem in Hx. simpl in Hx. destruct (Pos.eqb 2 x) eqn:E; [|discriminate].
    apply Pos.eqb_eq in E. subst. simpl. intuition congruence.
  - intros n p H. destruct (ex_dag'_cases n H) as [-> | [-> | [-> | ->]]]; reflexivity.
  - intros n s1 s2 i H. destruct (ex_dag'_cases n H) as [-> | [-> | [-> | ->]]]; reflexivity.
  - intros n s i outs dec H _ He. destruct (ex_dag'_cases n H) as [-> | [-> | [-> | ->]]]; vm_compute in He;
      injection He as <- <-; split; reflexivity.
  - intros n s i p _ He. unfold ex_exec' in He. destruct (find_node dag (n_name n)) as [m|]; [|discriminate].
    destruct (exec_basic dag_ft [] m s (ex_unrename i)) as [o d|e|q] eqn:E; simpl in He; try discriminate.
    exact (ex_basic_nopause _ _ _ _ _ E).
  - intros n H. destruct (ex_dag'_cases n H) as [-> | [-> | [-> | ->]]]; reflexivity.
Qed.

Lemma ex_dag_wf : WF (exec_basic dag_ft []) dag ex_pv0.
Proof.
  assert (Hn : forall n, In n (g_nodes dag) ->
            (n = fnode 14 [32; 33] [34] 4 \/ n = fnode 11 [31] [32] 2 \/ n = fnode 10 [1] [31] 1 \/ n = fnode 12 [31] [33] 3)%positive).
  { simpl. intuition. }
  split.
  - intros n H. destruct (Hn n H) as [-> | [-> | [-> | ->]]]; split; try reflexivity; left; reflexivity.
  - reflexivity.
  - repeat constructor; simpl; intuition congruence.
  - repeat constructor; simpl; intuition congruence.
  - exists (fun x : positive => match x with 10%positive => 0%nat | 11%positive => 1%nat | 12%positive => 1%nat | _ => 2%nat end).
    intros n m p Hi Hm Hp Ho.
    destruct (Hn n Hi) as [-> | [-> | [-> | ->]]]; destruct (Hn m Hm) as [-> | [-> | [-> | ->]]];
      simpl in *; intuition (try congruence; try lia); subst; simpl in *; intuition (try congruence; try lia).
  - intros x Hx. unfold dmem in Hx. simpl in Hx. destruct (Pos.eqb 1 x) eqn:E; [|discriminate].
    apply Pos.eqb_eq in E. subst. simpl. intuition congruence.
  - intros n p H. destruct (Hn n H) as [-> | [-> | [-> | ->]]]; reflexivity.
  - reflexivity.
  - intros n s ins outs dec H _ He. destruct (Hn n H) as [-> | [-> | [-> | ->]]]; vm_compute in He;
      injection He as <- <-; split; reflexivity.
  - intros n s ins p _. unfold exec_basic. destruct (dget dag_ft (n_fn n)); [|discriminate].
    destruct (n_kind n); try discriminate.
    destruct (eval_fexp f (n_ndata n) ins); try discriminate. destruct (wrap_outputs n v); discriminate.
  - intros n H. destruct (Hn n H) as [-> | [-> | [-> | ->]]]; reflexivity.
Qed.

(* the theorem, instantiated: completed runs of the shifted diamond return the values of the original diamond, shifted *)
Theorem ex_alpha_runs r1 r2 f1 f2 s s' l l' :
  execute (exec_basic dag_ft []) r1 f1 dag ex_pv0 = (RDone s, l) ->
  execute ex_exec' r2 f2 ex_dag' ex_pv' = (RDone s', l') ->
  vals s' = kmap Pos.succ (vals s).
Proof.
  apply (alpha_runs Pos.succ dag ex_pv0 (exec_basic dag_ft []) ex_exec').
  - intros n st ins H. apply ex_exec_related. exact H.
  - exact ex_dag_wf.
  - exact ex_wf'.
  - repeat constructor; simpl; intuition.
  - repeat constructor; simpl; intuition.
Qed.
