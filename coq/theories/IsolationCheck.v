(* IsolationCheck.v — projections of an execution trace for the generated cases files.  Executable only. *)
From HG Require Import Base CheckLib Isolation.

Definition zlist_eqb (a b : list Z) : bool := list_eqb Z.eqb a b.
Definition zll_eqb (a b : list (list Z)) : bool := list_eqb zlist_eqb a b.
Definition zlll_eqb (a b : list (list (list Z))) : bool := list_eqb zll_eqb a b.

(* which object each parameter received: 0 immediate, 1 an object created for this call, 2+k the k-th pre-existing object *)
Definition obj_code (n0 : nat) (v : mval) : nat :=
  match v with MInt _ => 0 | MRef l => if Nat.ltb l n0 then 2 + l else 1 end.

Definition trace_runs (tr : list step_rec) : list nat := map s_run tr.
Definition trace_before (tr : list step_rec) : list (list (list Z)) := map (fun st => c_before (s_call st)) tr.
Definition trace_after (tr : list step_rec) : list (list (list Z)) := map (fun st => c_after (s_call st)) tr.
Definition trace_out (tr : list step_rec) : list Z := map (fun st => c_out (s_call st)) tr.
Definition trace_objs (n0 : nat) (tr : list step_rec) : list (list nat) :=
  map (fun st => map (fun x => obj_code n0 (snd (snd x))) (c_received (s_call st))) tr.

Definition natl_eqb (a b : list nat) : bool := list_eqb Nat.eqb a b.
Definition natll_eqb (a b : list (list nat)) : bool := list_eqb natl_eqb a b.

Definition final_heap (x : mheap * list mrun * list step_rec) : mheap := fst (fst x).
Definition final_trace (x : mheap * list mrun * list step_rec) : list step_rec := snd x.
