(* Rename.v — executable model of hypergraph's rename machinery.
   Restates, function by function:
     nodes/base.py      HyperNode._with_renamed, _check_rename_duplicates
     nodes/_rename.py   build_reverse_rename_map
     nodes/_callable.py _build_forward_rename_map, CallableMixin.defaults,
                        CallableMixin.map_inputs_to_params
     nodes/graph_node.py GraphNode._resolve_original_input_name,
                        map_inputs_to_params, map_outputs_from_original,
                        _original_map_params, with_inputs (map_over/clone follow)
   A history is the list of batches of ONE kind ("inputs" or "outputs"); each
   batch is the {old: new} dict of one with_inputs/with_outputs call (all its
   RenameEntry objects share a batch_id); the constructor's rename_inputs
   (batch_id None) is the first batch when present. *)
From HG Require Import Base.

Definition batch := dict name.            (* old -> new, insertion order *)
Definition history := list batch.

Definition sub (b : batch) (v : name) : name :=
  match dget b v with Some n => n | None => v end.

(* _with_renamed on a tuple attribute: every old name must be current, the
   result must be duplicate free (RenameError otherwise). *)
Definition apply_batch (cur : list name) (b : batch) : option (list name) :=
  if forallb (fun kv => pos_in (fst kv) cur) b
  then let new := map (sub b) cur in
       if nodup_b new then Some new else None
  else None.

Fixpoint run_history (cur : list name) (h : history) : option (list name) :=
  match h with
  | [] => Some cur
  | b :: h' => match apply_batch cur b with
               | Some cur' => run_history cur' h'
               | None => None
               end
  end.

Definition rget (rm : dict name) (k : name) : name :=
  match dget rm k with Some o => o | None => k end.

(* build_reverse_rename_map: one loop iteration per batch *)
Definition rev_step (rm : dict name) (b : batch) : dict name :=
  let batch_updates := dupdate [] (map (fun on => (snd on, rget rm (fst on))) b) in
  dupdate rm batch_updates.
Definition reverse_map (h : history) : dict name := fold_left rev_step h [].

(* _build_forward_rename_map *)
Definition find_key_by_val (fm : dict name) (v : name) : option name :=
  match find (fun kv => Pos.eqb (snd kv) v) fm with
  | Some kv => Some (fst kv) | None => None end.
Definition key_of (fm : dict name) (o : name) : name :=
  match find_key_by_val fm o with Some k => k | None => o end.
Definition fwd_step (fm : dict name) (b : batch) : dict name :=
  let batch_updates := dupdate [] (map (fun on => (key_of fm (fst on), snd on)) b) in
  dupdate fm batch_updates.
Definition forward_map (h : history) : dict name := fold_left fwd_step h [].

(* CallableMixin.map_inputs_to_params / GraphNode.map_inputs_to_params:
   {reverse_map.get(key, key): value for key, value in inputs.items()} *)
Definition map_inputs_to_params {V} (h : history) (inputs : dict V) : dict V :=
  let rm := reverse_map h in
  dupdate [] (map (fun kv => (rget rm (fst kv), snd kv)) inputs).

(* CallableMixin.defaults: {rename_map.get(name, name): default for name in
   signature if it has a default} *)
Definition defaults_current {V} (h : history) (sig_defaults : dict V) : dict V :=
  let fm := forward_map h in
  dupdate [] (map (fun kv => (rget fm (fst kv), snd kv)) sig_defaults).

(* GraphNode._resolve_original_input_name (after fix F1: consults the batch-aware
   reverse map) *)
Definition gn_resolve_original (h : history) (param : name) : name :=
  rget (reverse_map h) param.

(* GraphNode.map_outputs_from_original (after fix F2: forward map built from the
   node's live outputs) *)
Definition gn_map_outputs {V} (h : history) (cur_outputs : list name) (outs : dict V) : dict V :=
  let rm := reverse_map h in
  let forward := dupdate [] (map (fun o => (rget rm o, o)) cur_outputs) in
  dupdate [] (map (fun kv => (rget forward (fst kv), snd kv)) outs).

(* GraphNode._original_map_params / _original_clone *)
Definition gn_original_params (h : history) (ps : list name) : list name :=
  map (rget (reverse_map h)) ps.

(* GraphNode.with_inputs keeps _map_over / _clone in the current namespace *)
Definition follow (ps : list name) (b : batch) : list name := map (sub b) ps.
Definition follow_history (ps : list name) (h : history) : list name :=
  fold_left follow h ps.

(* ---- pre-fix definitions (Legacy): what the pinned commit did ---- *)
Definition gn_resolve_original_legacy (h : history) (param : name) : name :=
  fold_left (fun cur e => if Pos.eqb (snd e) cur then fst e else cur)
            (rev (concat h)) param.
Definition gn_map_outputs_legacy {V} (h : history) (outs : dict V) : dict V :=
  let rm := reverse_map h in
  let forward := dupdate [] (map (fun kv => (snd kv, fst kv)) rm) in
  dupdate [] (map (fun kv => (rget forward (fst kv), snd kv)) outs).

(* ---- the specification: positions never move ---- *)
(* The i-th current name denotes the i-th original parameter. *)
Definition sigma (orig cur : list name) (o : name) : name :=
  rget (combine orig cur) o.
Definition sigma_inv (orig cur : list name) (c : name) : name :=
  rget (combine cur orig) c.
