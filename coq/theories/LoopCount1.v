(* LoopCount1.v — C04, the other loop family: the gate reads the loop variable DIRECTLY (no ordering signal):
     while P x: x := f x
   loop1: body node 10 (x -> x), exit gate 13 reading x with targets [10; END], open by default.  For EVERY P, f, start value,
   runner and budget >= 2n+1: the run completes with x = f^n x0 where n >= 0 is the first n with P (f^n x0) = false, after
   exactly n executions of the body and n+1 of the gate (it also decides the exit).  Same proof scheme as LoopCount.v. *)
From HG Require Import Base Engine Exec EngineProofs Samples LoopCount.
From stdpp Require Import gmap.

Local Open Scope positive_scope.

Definition body1 : node := mk_node 10 [1] [1] 1%nat [] [] [] KFunc 1.
Definition gate1 : node := mk_node 13 [1] [] 0%nat [] [] [] (KGate (mk_gate [TNode 10; TEnd] true)) 2.
Definition loop1 : graph := mk_graph [body1; gate1] [] None.

Section LoopCount1.
  Variable P : Z -> bool.
  Variable f : Z -> Z.
  Variable exec : node -> state -> dict val -> outcome.
  Hypothesis Hbody : forall st x, exec body1 st [(1, VInt x)] = OOk [(1, VInt (f x))] None.
  Hypothesis Hgate : forall st x, exec gate1 st [(1, VInt x)] = OOk [] (Some (Some (if P x then DOne 10 else DEnd))).

  Definition body_rdy1 (st : state) : bool :=
    match decs st !! 13 with
    | Some d => activated_by d 10
    | None => match execs st !! 13 with Some _ => false | None => true end
    end &&
    match vals st !! 1 with Some _ => true | None => false end &&
    stale_on_x st (execs st !! 10).

  Definition gate_rdy1 (st : state) : bool :=
    match vals st !! 1 with Some _ => true | None => false end && stale_on_x st (execs st !! 13).

  Lemma node_ready_body1 st : node_ready loop1 st body1 = body_rdy1 st.
  Proof.
    unfold node_ready, body_rdy1, stale_on_x.
    assert (Hc : controlled_by loop1 10 = [13]) by reflexivity.
    assert (Hf : find_node loop1 13 = Some gate1) by reflexivity.
    assert (Hg : Engine.gated loop1 body1 = true) by reflexivity.
    unfold activated. cbn [n_name body1]. rewrite Hc. cbn [existsb]. unfold gate_opens. rewrite Hf.
    cbn [n_inputs body1 forallb]. unfold has_input at 1. cbn [g_bound loop1 dmem dget n_hasdef body1 pos_in existsb].
    unfold wait_ok. cbn [n_wait body1 forallb]. unfold needs_execution. cbn [n_name body1].
    unfold is_stale. cbn [n_inputs body1 existsb]. rewrite Hg. cbn [negb andb].
    change (gate_default_open gate1) with true.
    destruct (decs st !! 13) as [d|]; destruct (execs st !! 13); destruct (vals st !! 1); destruct (execs st !! 10);
      rewrite ?orb_false_r, ?andb_true_r; reflexivity.
  Qed.

  Lemma node_ready_gate1 st : node_ready loop1 st gate1 = gate_rdy1 st.
  Proof.
    unfold node_ready, gate_rdy1, stale_on_x.
    assert (Hc : controlled_by loop1 13 = []) by reflexivity.
    assert (Hg : Engine.gated loop1 gate1 = false) by reflexivity.
    unfold activated. cbn [n_name gate1]. rewrite Hc.
    cbn [n_inputs gate1 forallb]. unfold has_input at 1. cbn [g_bound loop1 dmem dget n_hasdef gate1 pos_in existsb].
    unfold wait_ok. cbn [n_wait gate1 forallb n_name]. unfold needs_execution. cbn [n_name gate1].
    unfold is_stale. cbn [n_inputs gate1 existsb]. rewrite Hg. cbn [negb andb n_outputs gate1 pos_in existsb].
    destruct (vals st !! 1); destruct (execs st !! 13); rewrite ?orb_false_r, ?andb_true_r; reflexivity.
  Qed.

  Lemma ready_loop1 st :
    ready loop1 st =
    (clear_stale loop1 st,
     if gate_rdy1 (clear_stale loop1 st) then [gate1]
     else if body_rdy1 (clear_stale loop1 st) then [body1] else []).
  Proof.
    unfold ready. set (st' := clear_stale loop1 st). f_equal.
    change (g_nodes loop1) with [body1; gate1]. cbn [List.filter].
    change (is_active loop1 body1) with true. change (is_active loop1 gate1) with true. cbn [andb].
    rewrite node_ready_body1, node_ready_gate1.
    destruct (body_rdy1 st'), (gate_rdy1 st'); reflexivity.
  Qed.

  Lemma superstep_single1 r snap pv n ins outs dec :
    is_interrupt n = false ->
    collect_inputs loop1 snap pv n (n_inputs n) = Some ins -> exec n snap ins = OOk outs dec ->
    superstep exec r loop1 snap pv [n] = (SOk (commit snap snap n outs dec), [(n_name n, ins)]).
  Proof.
    intros Hi Hc He. destruct r; unfold superstep.
    - cbn [superstep_sync]. rewrite Hc, He. reflexivity.
    - unfold superstep_async, isolate. cbn [List.filter]. rewrite Hi.
      cbn [map List.filter]. assert (Hp : pos_in (n_name n) [n_name n] = true) by (apply pos_in_In; left; reflexivity).
      rewrite Hp. unfold write_decisions, first_failure, async_calls. cbn [fold_left fold_right flat_map].
      unfold apply_success, run_one. rewrite Hc, He. cbn [snd fst app]. unfold commit.
      destruct dec as [d|]; reflexivity.
  Qed.

  Lemma needs_gate1 st : needs_execution loop1 st gate1 = stale_on_x st (execs st !! 13).
  Proof.
    unfold needs_execution, stale_on_x. cbn [n_name gate1]. destruct (execs st !! 13) as [r|]; [|reflexivity].
    unfold is_stale. cbn [n_inputs gate1 existsb].
    assert (Hg : Engine.gated loop1 gate1 = false) by reflexivity. rewrite Hg.
    cbn [negb andb n_outputs gate1 pos_in existsb]. rewrite orb_false_r. reflexivity.
  Qed.

  Lemma clear_stale_loop1 st :
    clear_stale loop1 st =
    match decs st !! 13 with
    | Some DEnd => st
    | Some _ => if stale_on_x st (execs st !! 13) then set_dec st 13 None else st
    | None => st
    end.
  Proof.
    unfold clear_stale. change (g_nodes loop1) with [body1; gate1]. cbn [fold_left].
    change (is_gate body1) with false. change (is_gate gate1) with true. cbn iota.
    cbn [n_name gate1]. rewrite needs_gate1. reflexivity.
  Qed.

  Definition after_body1 (snap : state) (x : Z) : state := commit snap snap body1 [(1, VInt (f x))] None.
  Definition after_gate1 (snap : state) (d : decision) : state := commit snap snap gate1 [] (Some (Some d)).

  Lemma after_body1_obs snap x :
    vals snap !! 1 = Some (VInt x) -> f x <> x ->
    let s := after_body1 snap x in
    vals s !! 1 = Some (VInt (f x)) /\ ver s 1 = S (ver snap 1) /\
    (exists rb, execs s !! 10 = Some rb /\ dget (r_in rb) 1 = Some (ver snap 1)) /\
    execs s !! 13 = execs snap !! 13 /\ decs s !! 13 = decs snap !! 13.
  Proof.
    intros Hx Hne s. unfold s, after_body1, commit. cbn [apply_outputs fold_left fst snd].
    set (s1 := update_value snap 1 (VInt (f x))).
    assert (V1 : vals s1 !! 1 = Some (VInt (f x))) by apply vals_update_same.
    assert (R1 : ver s1 1 = S (ver snap 1)).
    { apply (ver_update_changed snap 1 (VInt x)); [exact Hx | reflexivity|].
      simpl. apply Z.eqb_neq. intros E. apply Hne. symmetry. exact E. }
    assert (E : execs s1 = execs snap) by (unfold s1; rewrite execs_update; reflexivity).
    assert (D : decs s1 = decs snap) by (unfold s1; rewrite decs_update; reflexivity).
    repeat split; try assumption.
    - exists (record_of snap body1). split; [simpl; apply lookup_insert | reflexivity].
    - simpl. rewrite lookup_insert_ne by discriminate. rewrite E. reflexivity.
    - simpl. rewrite D. reflexivity.
  Qed.

  Lemma after_gate1_obs snap d :
    let s := after_gate1 snap d in
    vals s = vals snap /\ (forall y, ver s y = ver snap y) /\
    (exists rg, execs s !! 13 = Some rg /\ dget (r_in rg) 1 = Some (ver snap 1)) /\
    execs s !! 10 = execs snap !! 10 /\ decs s !! 13 = Some d.
  Proof.
    intros s. unfold s, after_gate1, commit. cbn [apply_outputs fold_left]. repeat split.
    - exists (record_of snap gate1). split; [simpl; apply lookup_insert | reflexivity].
    - simpl. rewrite lookup_insert_ne by discriminate. reflexivity.
    - simpl. apply lookup_insert.
  Qed.

  (* ---------------------------------------------------------------- invariants *)
  (* k passes of the body done; the records of body and gate (if any) are one version behind x *)
  Definition rec_part (k : nat) (e : option exec_rec) : Prop :=
    (k = 0%nat /\ e = None) \/ ((1 <= k)%nat /\ exists r, e = Some r /\ dget (r_in r) 1 = Some k).

  Definition JG (k : nat) (x : Z) (st : state) : Prop :=
    vals st !! 1 = Some (VInt x) /\ ver st 1 = S k /\ rec_part k (execs st !! 10) /\ rec_part k (execs st !! 13) /\
    ((k = 0%nat /\ decs st !! 13 = None) \/ ((1 <= k)%nat /\ decs st !! 13 = Some (DOne 10))).

  Definition JB (k : nat) (x : Z) (st : state) : Prop :=
    vals st !! 1 = Some (VInt x) /\ ver st 1 = S k /\ rec_part k (execs st !! 10) /\
    (exists rg, execs st !! 13 = Some rg /\ dget (r_in rg) 1 = Some (S k)).

  Lemma rec_part_stale k st e : ver st 1 = S k -> rec_part k e -> stale_on_x st e = true.
  Proof.
    intros Hv [(-> & ->)|(Hk & r & -> & Hr)]; [reflexivity|].
    rewrite (stale_some st r (S k) k Hv Hr), eqb_S_false. reflexivity.
  Qed.

  Lemma collect_x1 st pv n x : n_inputs n = [1] -> vals st !! 1 = Some (VInt x) ->
    collect_inputs loop1 st pv n (n_inputs n) = Some [(1, VInt x)].
  Proof. intros Hi Hx. rewrite Hi. cbn [collect_inputs]. unfold resolve. rewrite Hx. reflexivity. Qed.

  Lemma gate_turn1 k x st : JG k x st ->
    let st' := clear_stale loop1 st in
    ready loop1 st = (st', [gate1]) /\
    vals st' = vals st /\ (forall y, ver st' y = ver st y) /\ execs st' = execs st /\ decs st' !! 13 = None.
  Proof.
    intros (Hx & Hv & Hb & Hg & Hd) st'.
    assert (Hst' : vals st' = vals st /\ (forall y, ver st' y = ver st y) /\ execs st' = execs st /\ decs st' !! 13 = None).
    { unfold st'. rewrite clear_stale_loop1. destruct Hd as [(-> & Hdc)|(Hk & Hdc)]; rewrite Hdc; [repeat split; auto|].
      rewrite (rec_part_stale k st _ Hv Hg). repeat split; auto. apply lookup_delete. }
    split; [|exact Hst']. destruct Hst' as (Ev & Evr & Ee & Edc).
    rewrite ready_loop1. fold st'. f_equal.
    assert (Hgr : gate_rdy1 st' = true).
    { unfold gate_rdy1. rewrite Ev, Hx, Ee. apply (rec_part_stale k st' _ (eq_trans (Evr 1) Hv) Hg). }
    rewrite Hgr. reflexivity.
  Qed.

  Lemma after_gate1_JB k x st d : JG k x st ->
    decs (after_gate1 (clear_stale loop1 st) d) !! 13 = Some d /\ JB k x (after_gate1 (clear_stale loop1 st) d).
  Proof.
    intros HI. pose proof HI as (Hx & Hv & Hb & Hg & Hd).
    destruct (gate_turn1 k x st HI) as (_ & Ev & Evr & Ee & Edc).
    destruct (after_gate1_obs (clear_stale loop1 st) d) as (Av & Avr & (rg & Arg & Ari) & A10 & Adc).
    split; [exact Adc|]. unfold JB. rewrite Av, Ev, Avr, Evr, A10, Ee. repeat split; auto.
    exists rg. rewrite Ari, Evr, Hv. auto.
  Qed.

  Lemma body_turn1 k x st : JB k x st -> decs st !! 13 = Some (DOne 10) -> ready loop1 st = (st, [body1]).
  Proof.
    intros (Hx & Hv & Hb & (rg & Hrg & Hrgi)) Hdc.
    assert (Sg : stale_on_x st (Some rg) = false) by (rewrite (stale_some st rg (S k) (S k) Hv Hrgi), Nat.eqb_refl; reflexivity).
    assert (Hc : clear_stale loop1 st = st) by (rewrite clear_stale_loop1, Hdc, Hrg, Sg; reflexivity).
    rewrite ready_loop1, Hc. f_equal.
    unfold gate_rdy1, body_rdy1. rewrite Hx, Hrg, Hdc, Sg, (rec_part_stale k st _ Hv Hb). cbn [activated_by].
    rewrite Pos.eqb_refl, andb_false_r. reflexivity.
  Qed.

  Lemma end_turn1 k x st : JB k x st -> decs st !! 13 = Some DEnd -> ready loop1 st = (st, []).
  Proof.
    intros (Hx & Hv & Hb & (rg & Hrg & Hrgi)) Hdc.
    assert (Sg : stale_on_x st (Some rg) = false) by (rewrite (stale_some st rg (S k) (S k) Hv Hrgi), Nat.eqb_refl; reflexivity).
    assert (Hc : clear_stale loop1 st = st) by (rewrite clear_stale_loop1, Hdc; reflexivity).
    rewrite ready_loop1, Hc. f_equal.
    unfold gate_rdy1, body_rdy1. rewrite Hx, Hrg, Hdc, Sg. cbn [activated_by]. rewrite !andb_false_r. reflexivity.
  Qed.

  Lemma after_body1_JG k x st : JB k x st -> decs st !! 13 = Some (DOne 10) -> f x <> x -> JG (S k) (f x) (after_body1 st x).
  Proof.
    intros (Hx & Hv & Hb & (rg & Hrg & Hrgi)) Hdc Hne.
    destruct (after_body1_obs st x Hx Hne) as (B1 & Bv1 & (rb' & Brb & Brbi) & B13 & Bdc).
    unfold JG. split; [exact B1|]. split; [rewrite Bv1, Hv; reflexivity|].
    split; [right; split; [lia|]; exists rb'; split; [exact Brb | rewrite Brbi, Hv; reflexivity]|].
    split; [right; split; [lia|]; exists rg; rewrite B13; auto|].
    right. split; [lia|]. rewrite Bdc. exact Hdc.
  Qed.

  Variable r : runner.
  Variable pv : dict val.

  Lemma run_from_gate1 : forall m k x st log fuel,
    JG k x st ->
    (forall j, (j < m)%nat -> P (Nat.iter j f x) = true /\ f (Nat.iter j f x) <> Nat.iter j f x) ->
    P (Nat.iter m f x) = false -> (2 * m + 1 <= fuel)%nat ->
    exists st' log', run_loop exec r fuel loop1 pv st log = (RDone st', log') /\
      vals st' !! 1 = Some (VInt (Nat.iter m f x)) /\
      cnt 10 log' = (cnt 10 log + m)%nat /\ cnt 13 log' = (cnt 13 log + S m)%nat.
  Proof.
    induction m as [|m IH]; intros k x st log fuel HI Hpass Hend Hfuel.
    - destruct fuel as [|fuel]; [lia|]. change (Nat.iter 0 f x) with x in *.
      destruct (gate_turn1 k x st HI) as (Hr & Ev & Evr & Ee & Edc).
      pose proof HI as (Hx & _).
      cbn [run_loop]. rewrite Hr.
      rewrite (superstep_single1 r (clear_stale loop1 st) pv gate1 [(1, VInt x)] [] (Some (Some DEnd)) eq_refl).
      2:{ apply collect_x1; [reflexivity | rewrite Ev; exact Hx]. }
      2:{ rewrite Hgate, Hend. reflexivity. }
      fold (after_gate1 (clear_stale loop1 st) DEnd).
      destruct (after_gate1_JB k x st DEnd HI) as (Hdc & HB).
      pose proof (end_turn1 k x _ HB Hdc) as Hre.
      exists (after_gate1 (clear_stale loop1 st) DEnd), (log ++ [[(13, [(1, VInt x)])]])%list.
      split; [|split; [exact (proj1 HB) | rewrite !cnt_snoc; change (Pos.eqb 13 10) with false; change (Pos.eqb 13 13) with true; split; lia]].
      destruct fuel; cbn [run_loop]; rewrite Hre; reflexivity.
    - destruct (Hpass 0%nat ltac:(lia)) as (Hp0 & Hne0). change (Nat.iter 0 f x) with x in Hp0, Hne0.
      destruct fuel as [|[|fuel]]; [lia | lia |].
      destruct (gate_turn1 k x st HI) as (Hr & Ev & Evr & Ee & Edc).
      pose proof HI as (Hx & _).
      cbn [run_loop]. rewrite Hr.
      rewrite (superstep_single1 r (clear_stale loop1 st) pv gate1 [(1, VInt x)] [] (Some (Some (DOne 10))) eq_refl).
      2:{ apply collect_x1; [reflexivity | rewrite Ev; exact Hx]. }
      2:{ rewrite Hgate, Hp0. reflexivity. }
      fold (after_gate1 (clear_stale loop1 st) (DOne 10)).
      destruct (after_gate1_JB k x st (DOne 10) HI) as (Hdc & HB).
      set (s2 := after_gate1 (clear_stale loop1 st) (DOne 10)) in *.
      cbn [run_loop]. rewrite (body_turn1 k x s2 HB Hdc).
      rewrite (superstep_single1 r s2 pv body1 [(1, VInt x)] [(1, VInt (f x))] None eq_refl).
      2:{ apply collect_x1; [reflexivity | exact (proj1 HB)]. }
      2:{ apply Hbody. }
      fold (after_body1 s2 x).
      pose proof (after_body1_JG k x s2 HB Hdc Hne0) as HI'.
      destruct (IH (S k) (f x) (after_body1 s2 x) ((log ++ [[(13, [(1, VInt x)])]]) ++ [[(10, [(1, VInt x)])]])%list fuel HI')
        as (st' & log' & Hrun & Hval & Hc10 & Hc13).
      + intros j Hj. rewrite <- !Nat.iter_succ_r. apply Hpass. lia.
      + rewrite <- Nat.iter_succ_r. exact Hend.
      + lia.
      + exists st', log'. split; [exact Hrun|]. split; [rewrite Nat.iter_succ_r; exact Hval|].
        rewrite !cnt_snoc in Hc10, Hc13. change (Pos.eqb 13 10) with false in Hc10. change (Pos.eqb 10 10) with true in Hc10.
        change (Pos.eqb 13 13) with true in Hc13. change (Pos.eqb 10 13) with false in Hc13. cbn iota in Hc10, Hc13. split; lia.
  Qed.
End LoopCount1.

(* C04_while_exact *)
Theorem while_runs_exactly (P : Z -> bool) (f : Z -> Z) (exec : node -> state -> dict val -> outcome) (r : runner)
        (x0 : Z) (n fuel : nat) :
  (forall st x, exec body1 st [(1%positive, VInt x)] = OOk [(1%positive, VInt (f x))] None) ->
  (forall st x, exec gate1 st [(1%positive, VInt x)] = OOk [] (Some (Some (if P x then DOne 10 else DEnd)))) ->
  (forall j, (j < n)%nat -> P (Nat.iter j f x0) = true) ->
  P (Nat.iter n f x0) = false ->
  (forall j, (j < n)%nat -> Nat.iter (S j) f x0 <> Nat.iter j f x0) ->
  (2 * n + 1 <= fuel)%nat ->
  exists st log,
    execute exec r fuel loop1 [(1%positive, VInt x0)] = (RDone st, log) /\
    vals st !! 1%positive = Some (VInt (Nat.iter n f x0)) /\
    cnt 10 log = n /\ cnt 13 log = S n.
Proof.
  intros Hbody Hgate Hcont Hend Hchg Hfuel. set (pv := [(1%positive, VInt x0)]).
  unfold execute. set (s0 := init_state pv).
  assert (V1 : vals s0 !! 1%positive = Some (VInt x0)) by (unfold s0, pv, init_state; cbn [apply_outputs fold_left fst snd]; apply vals_update_same).
  assert (R1 : ver s0 1 = 1%nat).
  { unfold s0, pv, init_state. cbn [apply_outputs fold_left fst snd]. rewrite ver_update_absent by apply lookup_empty. reflexivity. }
  assert (E : execs s0 = ∅) by (unfold s0, pv, init_state; cbn [apply_outputs fold_left fst snd]; rewrite execs_update; reflexivity).
  assert (D : decs s0 = ∅) by (unfold s0, pv, init_state; cbn [apply_outputs fold_left fst snd]; rewrite decs_update; reflexivity).
  assert (HI : JG 0 x0 s0).
  { unfold JG. split; [exact V1|]. split; [exact R1|]. rewrite E, D, !lookup_empty.
    split; [left; auto|]. split; [left; auto|]. left; auto. }
  destruct (run_from_gate1 P f exec Hbody Hgate r pv n 0 x0 s0 [] fuel HI) as (st' & log' & Hrun & Hval & Hc10 & Hc13).
  - intros j Hj. split; [apply Hcont; exact Hj | apply (Hchg j); exact Hj].
  - exact Hend.
  - exact Hfuel.
  - exists st', log'. split; [exact Hrun|]. split; [exact Hval|]. unfold cnt in Hc10 at 2. unfold cnt in Hc13 at 2.
    simpl in Hc10, Hc13. split; lia.
Qed.

Theorem while_family_exact (m bound : Z) (r : runner) (x0 : Z) (n fuel : nat) :
  (forall j, (j < n)%nat -> Z.ltb (Nat.iter j (fun x => x + m)%Z x0) bound = true) ->
  Z.ltb (Nat.iter n (fun x => x + m)%Z x0) bound = false ->
  m <> 0%Z ->
  (2 * n + 1 <= fuel)%nat ->
  exists st log,
    execute (exec_basic (loop_family_ft m bound) loop_gt) r fuel loop1 [(1%positive, VInt x0)] = (RDone st, log) /\
    vals st !! 1%positive = Some (VInt (Nat.iter n (fun x => x + m)%Z x0)) /\
    cnt 10 log = n /\ cnt 13 log = S n.
Proof.
  intros Hc He Hm Hf.
  apply (while_runs_exactly (fun x => Z.ltb x bound) (fun x => x + m)%Z); try assumption.
  - intros st x. reflexivity.
  - intros st x. unfold exec_basic. cbn. destruct (Z.ltb x bound); reflexivity.
  - intros j _. cbn [Nat.iter]. simpl. lia.
Qed.

(* what the harness observes of these two model programs, to compare with the implementation's run of the same loop *)
Definition loop_obs (g : graph) (r : runner) (fuel : nat) (m bound x0 : Z) : nat * option val * nat * nat :=
  let res := execute (exec_basic (loop_family_ft m bound) loop_gt) r fuel g [(1%positive, VInt x0)] in
  let st := match fst res with RDone s => s | RFailed _ s => s | RPaused _ s => s end in
  (match fst res with RDone _ => 0%nat | RFailed _ _ => 1%nat | RPaused _ _ => 2%nat end, vals st !! 1%positive, cnt 10 (snd res), cnt 13 (snd res)).

Definition loop_obs_eqb (a b : nat * option val * nat * nat) : bool :=
  let '(s1, v1, b1, g1) := a in let '(s2, v2, b2, g2) := b in
  Nat.eqb s1 s2 && match v1, v2 with Some x, Some y => val_eqb x y | None, None => true | _, _ => false end &&
  Nat.eqb b1 b2 && Nat.eqb g1 g2.

Definition triple_nat_eqb (a b : nat * nat * nat) : bool :=
  let '(a1, a2, a3) := a in let '(b1, b2, b3) := b in Nat.eqb a1 b1 && Nat.eqb a2 b2 && Nat.eqb a3 b3.
