(* DispatchPayload.v — what a processor can do to the objects an event carries (C13).
   A routing decision with several targets is a LIST the scheduler keeps reading (state.routing_decisions).  Restates
   runners/_shared/event_helpers.py build_route_decision_event: since repository fix f0e90c6 the event carries its own copy
   of the list; before, it carried the scheduler's list itself.  Processors may do anything to the list they are handed
   (keep it, consume it, append to it) without raising.  Plain stdlib. *)
From HG Require Import Base.
From Coq Require Import Lia.

Definition pheap := list (list name).           (* list objects by location *)
Definition pcell (h : pheap) (l : nat) : list name := nth l h [].

Fixpoint pset (h : pheap) (l : nat) (c : list name) : pheap :=
  match h, l with
  | [], _ => []
  | _ :: h', O => c :: h'
  | x :: h', S l' => x :: pset h' l' c
  end.

(* what one processor does with the list payload of the event it receives *)
Inductive paction := PKeep | PClear | PAppend (x : name) | PDropFirst.

Definition act (h : pheap) (l : nat) (a : paction) : pheap :=
  match a with
  | PKeep => h
  | PClear => pset h l []
  | PAppend x => pset h l (pcell h l ++ [x])
  | PDropFirst => pset h l (tl (pcell h l))
  end.

(* every registered processor, in order, is handed the object at location l *)
Definition deliver_list (h : pheap) (l : nat) (acts : list paction) : pheap := fold_left (fun h a => act h l a) acts h.

(* build_route_decision_event + emit: the scheduler's decision list lives at location d *)
Definition emit_decision (copy : bool) (h : pheap) (d : nat) (acts : list paction) : pheap :=
  if copy then deliver_list (h ++ [pcell h d]) (length h) acts else deliver_list h d acts.

Lemma pset_length h l c : length (pset h l c) = length h.
Proof. revert l. induction h as [|x h IH]; intros [|l]; cbn; auto. Qed.

Lemma pcell_pset_ne h l l' c : l <> l' -> pcell (pset h l c) l' = pcell h l'.
Proof.
  unfold pcell. revert l l'. induction h as [|x h IH]; intros l l' H.
  - destruct l, l'; reflexivity.
  - destruct l as [|l], l' as [|l']; cbn [pset nth]; try reflexivity; try congruence.
    apply IH. congruence.
Qed.

Lemma act_frame h l a l' : l <> l' -> pcell (act h l a) l' = pcell h l' /\ length (act h l a) = length h.
Proof.
  intros H. destruct a; cbn [act]; (split; [try reflexivity; apply pcell_pset_ne; exact H | try reflexivity; apply pset_length]).
Qed.

Lemma deliver_frame acts : forall h l l', l <> l' -> pcell (deliver_list h l acts) l' = pcell h l'.
Proof.
  induction acts as [|a acts IH]; intros h l l' H; cbn [deliver_list fold_left]; [reflexivity|].
  fold (deliver_list (act h l a) l acts). rewrite IH by exact H. apply act_frame. exact H.
Qed.

(* with the copy, whatever the processors do, the scheduler's list is what it was *)
Theorem copy_protects_decision h d acts :
  d < length h -> pcell (emit_decision true h d acts) d = pcell h d.
Proof.
  intros Hd. unfold emit_decision. rewrite deliver_frame by lia.
  unfold pcell. rewrite app_nth1 by exact Hd. reflexivity.
Qed.

(* ... and so is every other pre-existing object *)
Theorem copy_protects_everything h d acts l :
  l < length h -> pcell (emit_decision true h d acts) l = pcell h l.
Proof.
  intros Hl. unfold emit_decision. rewrite deliver_frame by lia.
  unfold pcell. rewrite app_nth1 by exact Hl. reflexivity.
Qed.

(* the event carrying the scheduler's own list: one consuming processor empties the decision *)
Local Open Scope positive_scope.
Example aliased_decision_refuted :
  pcell (emit_decision false [[11; 12]] 0 [PKeep; PClear]) 0 = [] /\
  pcell (emit_decision true [[11; 12]] 0 [PKeep; PClear]) 0 = [11; 12].
Proof. split; reflexivity. Qed.
