(* EventsTree.v — C12 for nested, mapped and asynchronous runs: the SPAN TREE of a run of the engine model.
     * stree: a run span holds superstep groups of node spans (or, for a map, one run span per item); a node span holds the
       RouteDecision of a gate or the run span(s) a GraphNode launches (events/types.py; runners/_shared/template_*.py run / map;
       executors/graph_node.py);
     * tree_ng: that tree, computed from the nested engine model (Nested.exec_ng) - one node span per call of every superstep's
       log, NodeError for the calls that raise, the inner run (or the map run with its item runs) under a GraphNode's span;
     * lin: the event stream a synchronous runner emits for a tree (depth first, span ids in order of first use);
     * sim: equality of a model tree and the tree rebuilt from an observed stream, up to the order of node spans within one
       superstep and of the item runs of an asynchronous map (all that a concurrent schedule may vary).
   EventsTreeProofs.v proves that lin of EVERY well-shaped tree is accepted by the checker of Events.v. *)
From HG Require Import Base Rename Engine Exec Events EventsProofs EventsModel Nested.
From stdpp Require Import gmap.

Inductive slabel :=
| LRun (failed is_map : bool)
| LNode (name : positive) (err route : bool)
| LStep.                                    (* a superstep group: no event of its own *)

Inductive stree := ST (l : slabel) (kids : list stree).

Definition st_label (t : stree) : slabel := match t with ST l _ => l end.
Definition st_kids (t : stree) : list stree := match t with ST _ k => k end.

(* span ids used by a tree: one per run, one per node plus one for its RouteDecision *)
Fixpoint size (t : stree) : nat :=
  match t with
  | ST l kids =>
      let fix go (ks : list stree) : nat := match ks with [] => 0 | k :: ks' => size k + go ks' end in
      match l with
      | LRun _ _ => S (go kids)
      | LNode _ _ route => (if route then 2 else 1) + go kids
      | LStep => go kids
      end
  end.

Fixpoint sizes (ks : list stree) : nat := match ks with [] => 0 | k :: ks' => size k + sizes ks' end.

(* the stream of a synchronous run: depth first; ids are first-use indices *)
Fixpoint lin (id : nat) (parent : option nat) (t : stree) : list event :=
  match t with
  | ST l kids =>
      let fix go (i : nat) (p : option nat) (ks : list stree) : list event :=
        match ks with [] => [] | k :: ks' => lin i p k ++ go (i + size k) p ks' end in
      match l with
      | LRun failed _ =>
          mk_event KRunStart id parent 1%positive :: go (S id) (Some id) kids ++ [mk_event (KRunEnd failed) id parent 1%positive]
      | LNode nm err route =>
          mk_event KNodeStart id parent nm ::
          (if route then [mk_event KRoute (S id) parent nm] else []) ++
          go (if route then S (S id) else S id) (Some id) kids ++
          [mk_event (if err then KNodeError else KNodeEnd) id parent nm]
      | LStep => go id parent kids
      end
  end.

Fixpoint lins (i : nat) (p : option nat) (ks : list stree) : list event :=
  match ks with [] => [] | k :: ks' => lin i p k ++ lins (i + size k) p ks' end.

(* shapes the runners produce: node spans sit under run spans (through superstep groups), run spans anywhere *)
Fixpoint shape_ok (under_run : bool) (t : stree) : bool :=
  match t with
  | ST l kids =>
      match l with
      | LRun _ _ => forallb (shape_ok true) kids
      | LNode _ _ route => under_run && forallb (shape_ok false) kids
      | LStep => forallb (shape_ok under_run) kids
      end
  end.

Definition is_run_tree (t : stree) : bool := match st_label t with LRun _ _ => true | _ => false end.
Definition run_failed (t : stree) : bool := match st_label t with LRun f _ => f | _ => false end.

(* ------------------------------------------------------------------ the tree of a model run *)

Definition rres_failed (r : rres) : bool := match r with RFailed _ _ => true | _ => false end.

(* the item runs of a map: the synchronous map stops at the first failing item in raise mode *)
Fixpoint item_trees (run_item : dict val -> stree) (stop : bool) (items : list (dict val)) : list stree :=
  match items with
  | [] => []
  | it :: rest => let t := run_item it in if run_failed t && stop then [t] else t :: item_trees run_item stop rest
  end.

Fixpoint tree_ng (d : nat) (r : runner) (fuel : nat) (ng : ngraph) (pv : dict val) {struct d} : stree :=
  match ng with
  | NG g _ _ ft gt subs =>
      let res := execute (exec_ng d r ft gt subs) r fuel g pv in
      let node_tree := fun c : call =>
        let nm := fst c in
        match find_node g nm with
        | None => ST (LNode nm false false) []
        | Some n =>
            let err := match exec_ng d r ft gt subs n empty_state (snd c) with ORaise _ => true | _ => false end in
            let kids :=
              match d, n_kind n, dget subs nm with
              | S d', KGraph, Some (NSub inner hin hout cur_out mc) =>
                  let inner_inputs := map_inputs_to_params hin (snd c) in
                  match mc with
                  | None => [tree_ng d' r default_max_iterations inner inner_inputs]
                  | Some cfg =>
                      match generate_map_inputs inner_inputs (gn_original_params hin (mc_over cfg)) (mc_mode cfg) with
                      | inl _ => []
                      | inr [] => []
                      | inr items =>
                          let stop := match r with Sync => negb (mc_continue cfg) | Async => false end in
                          let trees := item_trees (tree_ng d' r default_max_iterations inner) stop items in
                          let any_failed := existsb run_failed trees in
                          let group := match r with Sync => trees | Async => [ST LStep trees] end in
                          [ST (LRun (any_failed && negb (mc_continue cfg)) true) group]
                      end
                  end
              | _, _, _ => []
              end in
            ST (LNode nm err (is_gate n && negb err)) kids
        end in
      ST (LRun (rres_failed (fst res)) false) (map (fun calls => ST LStep (map node_tree calls)) (snd res))
  end.

(* runner.map at top level (template_*.map): a map run span holding one run span per generated input combination; nothing at
   all is emitted when the inputs cannot be generated or there is no combination *)
Definition tree_map_top (d : nat) (r : runner) (fuel : nat) (ng : ngraph) (pv : dict val) (over : list name) (mode : map_mode)
           (continue_mode : bool) : option stree :=
  match generate_map_inputs pv over mode with
  | inl _ => None
  | inr [] => None
  | inr items =>
      let stop := match r with Sync => negb continue_mode | Async => false end in
      let trees := item_trees (tree_ng d r fuel ng) stop items in
      let group := match r with Sync => trees | Async => [ST LStep trees] end in
      Some (ST (LRun (existsb run_failed trees && negb continue_mode) true) group)
  end.

(* ------------------------------------------------------------------ comparison with an observed tree *)

Definition slabel_eqb (a b : slabel) : bool :=
  match a, b with
  | LRun f1 m1, LRun f2 m2 => Bool.eqb f1 f2 && Bool.eqb m1 m2
  | LNode n1 e1 r1, LNode n2 e2 r2 => Pos.eqb n1 n2 && Bool.eqb e1 e2 && Bool.eqb r1 r2
  | LStep, LStep => true
  | _, _ => false
  end.

(* remove the first element related to x *)
Fixpoint take_first {A} (f : A -> bool) (l : list A) : option (list A) :=
  match l with
  | [] => None
  | y :: l' => if f y then Some l' else match take_first f l' with Some r => Some (y :: r) | None => None end
  end.

(* every model element finds its own partner among the first (length ms) observed elements, in any order *)
Fixpoint match_block {A B} (rel : A -> B -> bool) (ms : list A) (os : list B) : bool :=
  match ms with
  | [] => match os with [] => true | _ => false end
  | m :: ms' => match take_first (rel m) os with Some os' => match_block rel ms' os' | None => false end
  end.

(* model tree m against observed tree o (whose runs list their children without superstep groups): a model superstep group
   matches the next (length group) observed children in any order; everything else matches in order *)
Fixpoint sim (fuel : nat) (m o : stree) : bool :=
  match fuel with
  | O => false
  | S k =>
      slabel_eqb (st_label m) (st_label o) &&
      (fix walk (ms os : list stree) : bool :=
         match ms with
         | [] => match os with [] => true | _ => false end
         | ST LStep group :: ms' =>
             let n := length group in
             match_block (sim k) group (firstn n os) && Nat.eqb (length (firstn n os)) n && walk ms' (skipn n os)
         | m1 :: ms' =>
             match os with
             | o1 :: os' => sim k m1 o1 && walk ms' os'
             | [] => false
             end
         end) (st_kids m) (st_kids o)
  end.

(* the observed stream of a synchronous run is compared event by event (EventsModel.events_eqb) with lin of the model tree *)
Definition lin_root (t : stree) : list event := lin 0 None t.
