(* SemaProofs.v — bound, progress and termination of the permit discipline (C15). *)
From HG Require Import Base Sema.

(* ---------- induction principles for the nested types ---------- *)
Section Ind.
  Variable P : jst -> Prop.
  Hypothesis HL : forall p, P (TLeaf p).
  Hypothesis HP : forall ts, Forall P ts -> P (TPar ts).
  Hypothesis HS : forall cur todo, Forall P cur -> P (TSteps cur todo).
  Hypothesis HO : forall w act q, Forall P act -> P (TPool w act q).
  Fixpoint jst_ind2 (t : jst) : P t :=
    let fix go (l : list jst) : Forall P l :=
      match l with [] => Forall_nil P | x :: l' => Forall_cons x (jst_ind2 x) (go l') end in
    match t with
    | TLeaf p => HL p
    | TPar ts => HP ts (go ts)
    | TSteps cur todo => HS cur todo (go cur)
    | TPool w act q => HO w act q (go act)
    end.
End Ind.

Section IndJ.
  Variable P : job -> Prop.
  Hypothesis HL : P JLeaf.
  Hypothesis HP : forall js, Forall P js -> P (JPar js).
  Hypothesis HS : forall ss, Forall (Forall P) ss -> P (JSteps ss).
  Hypothesis HO : forall w js, Forall P js -> P (JPool w js).
  Fixpoint job_ind2 (j : job) : P j :=
    let fix go (l : list job) : Forall P l :=
      match l with [] => Forall_nil P | x :: l' => Forall_cons x (job_ind2 x) (go l') end in
    let fix go2 (l : list (list job)) : Forall (Forall P) l :=
      match l with [] => Forall_nil _ | x :: l' => Forall_cons x (go x) (go2 l') end in
    match j with
    | JLeaf => HL
    | JPar js => HP js (go js)
    | JSteps ss => HS ss (go2 ss)
    | JPool w js => HO w js (go js)
    end.
End IndJ.

(* ---------- sums ---------- *)
Lemma list_sum_app' a b : list_sum (a ++ b) = list_sum a + list_sum b.
Proof. induction a; simpl; lia. Qed.

Lemma sum_map_app {A} (f : A -> nat) a b : list_sum (map f (a ++ b)) = list_sum (map f a) + list_sum (map f b).
Proof. rewrite map_app. apply list_sum_app'. Qed.

Lemma sum_map_zero {A} (f : A -> nat) l : Forall (fun x => f x = 0) l -> list_sum (map f l) = 0.
Proof. induction 1 as [|x l Hx _ IH]; simpl; lia. Qed.

Lemma sum_map_ext {A} (f g : A -> nat) l : Forall (fun x => f x = g x) l -> list_sum (map f l) = list_sum (map g l).
Proof. induction 1 as [|x l Hx _ IH]; simpl; lia. Qed.

(* ---------- a finished subtree neither runs nor has work left; a fresh one does not run ---------- *)
Lemma final_facts t : finalb t = true -> running t = 0 /\ mu t = 0.
Proof.
  induction t as [p|ts IH|cur todo IH|w act q IH] using jst_ind2; simpl; intros H.
  - destruct p; try discriminate. split; reflexivity.
  - assert (G : Forall (fun x => running x = 0) ts /\ Forall (fun x => mu x = 0) ts).
    { rewrite forallb_forall in H. split; apply Forall_forall; intros x Hx; rewrite Forall_forall in IH; apply IH; auto. }
    destruct G as [G1 G2]. split; apply sum_map_zero; assumption.
  - apply andb_true_iff in H as [H Ht]. destruct todo; [|discriminate].
    assert (G : Forall (fun x => running x = 0) cur /\ Forall (fun x => mu x = 0) cur).
    { rewrite forallb_forall in H. split; apply Forall_forall; intros x Hx; rewrite Forall_forall in IH; apply IH; auto. }
    destruct G as [G1 G2]. split; [apply sum_map_zero; assumption|]. simpl. rewrite (sum_map_zero _ _ G2). reflexivity.
  - apply andb_true_iff in H as [H Ht]. destruct q; [|discriminate].
    assert (G : Forall (fun x => running x = 0) act /\ Forall (fun x => mu x = 0) act).
    { rewrite forallb_forall in H. split; apply Forall_forall; intros x Hx; rewrite Forall_forall in IH; apply IH; auto. }
    destruct G as [G1 G2]. split; [apply sum_map_zero; assumption|]. simpl. rewrite (sum_map_zero _ _ G2). reflexivity.
Qed.

Lemma in_firstn {A} n (l : list A) x : In x (firstn n l) -> In x l.
Proof. revert l. induction n as [|n IH]; intros [|a l] H; simpl in *; try contradiction. destruct H as [->|H]; auto. Qed.

Lemma sum_map_le {A} (f g : A -> nat) l : Forall (fun x => f x <= g x) l -> list_sum (map f l) <= list_sum (map g l).
Proof. induction 1 as [|x l Hx _ IH]; simpl; lia. Qed.

Lemma start_facts j : running (start j) = 0 /\ mu (start j) <= mu_j j.
Proof.
  induction j as [|js IH|ss IH|w js IH] using job_ind2; simpl.
  - split; [reflexivity | lia].
  - rewrite !map_map. split.
    + apply sum_map_zero. eapply Forall_impl; [|exact IH]. intros a [H _]; exact H.
    + apply sum_map_le. eapply Forall_impl; [|exact IH]. intros a [_ H]; exact H.
  - destruct ss as [|s rest]; simpl; [split; [reflexivity | lia]|].
    inversion IH as [|? ? Hs Hrest]; subst. rewrite !map_map. split.
    + apply sum_map_zero. eapply Forall_impl; [|exact Hs]. intros a [H _]; exact H.
    + assert (list_sum (map (fun x => mu (start x)) s) <= list_sum (map mu_j s)).
      { apply sum_map_le. eapply Forall_impl; [|exact Hs]. intros a [_ H]; exact H. }
      lia.
  - rewrite firstn_map, !map_map.
    assert (Hf : Forall (fun x => running (start x) = 0 /\ mu (start x) <= mu_j x) (firstn w js)).
    { apply Forall_forall. intros x Hx. rewrite Forall_forall in IH. apply IH. eapply in_firstn; eauto. }
    split.
    + apply sum_map_zero. eapply Forall_impl; [|exact Hf]. intros a [H _]; exact H.
    + assert (H1 : list_sum (map (fun x => mu (start x)) (firstn w js)) <= list_sum (map (fun j => S (mu_j j)) (firstn w js))).
      { apply sum_map_le. eapply Forall_impl; [|exact Hf]. intros a [_ H]. lia. }
      rewrite <- (firstn_skipn w js) at 3. rewrite sum_map_app. lia.
Qed.

(* ---------- the bound: running + free is invariant ---------- *)
Lemma step_conserves' a b : step a b -> running (fst b) + snd b = running (fst a) + snd a.
Proof.
  induction 1; simpl in *.
  - lia.
  - lia.
  - rewrite !sum_map_app. simpl. lia.
  - rewrite !sum_map_app. simpl. lia.
  - rewrite map_map.
    assert (E1 : list_sum (map (fun x => running (start x)) s) = 0).
    { apply sum_map_zero. apply Forall_forall. intros x _. apply start_facts. }
    assert (E2 : list_sum (map running cur) = 0).
    { apply sum_map_zero. apply Forall_forall. intros x Hx. rewrite forallb_forall in H. apply final_facts. apply H; exact Hx. }
    lia.
  - rewrite !sum_map_app. simpl. lia.
  - rewrite !sum_map_app. simpl. destruct (final_facts x H) as [E _]. destruct (start_facts j) as [E2 _]. lia.
Qed.

Theorem step_conserves t f t' f' : step (t, f) (t', f') -> running t' + f' = running t + f.
Proof. intros H. apply (step_conserves' _ _ H). Qed.

Inductive steps : jst * nat -> jst * nat -> nat -> Prop :=
| steps_nil c : steps c c 0
| steps_cons a b c n : step a b -> steps b c n -> steps a c (S n).

(* with k permits, at no reachable configuration are more than k leaves running *)
Theorem bound_reachable j k t f n : steps (start j, k) (t, f) n -> running t + f = k /\ running t <= k.
Proof.
  intros H. assert (G : forall a b n, steps a b n -> running (fst b) + snd b = running (fst a) + snd a).
  { clear. induction 1 as [c|[t f] [t' f'] c n Hs _ IH]; [reflexivity|]. simpl in *. rewrite IH. apply step_conserves; exact Hs. }
  specialize (G _ _ _ H). simpl in G. destruct (start_facts j) as [E _]. lia.
Qed.

(* ---------- termination: every transition decreases the measure ---------- *)
Lemma step_decreases' a b : step a b -> mu (fst b) < mu (fst a).
Proof.
  induction 1; simpl in *.
  - lia.
  - lia.
  - rewrite !sum_map_app. simpl. lia.
  - rewrite !sum_map_app. simpl. lia.
  - rewrite map_map.
    assert (E1 : list_sum (map (fun x => mu (start x)) s) <= list_sum (map mu_j s)).
    { apply sum_map_le. apply Forall_forall. intros x _. apply start_facts. }
    assert (E2 : list_sum (map mu cur) = 0).
    { apply sum_map_zero. apply Forall_forall. intros x Hx. rewrite forallb_forall in H. apply final_facts. apply H; exact Hx. }
    lia.
  - rewrite !sum_map_app. simpl. lia.
  - rewrite !sum_map_app. simpl. destruct (final_facts x H) as [_ E]. destruct (start_facts j) as [_ E2]. lia.
Qed.

Theorem step_decreases t f t' f' : step (t, f) (t', f') -> mu t' < mu t.
Proof. intros H. apply (step_decreases' _ _ H). Qed.

(* no schedule is longer than the initial measure: no livelock, no starvation *)
Theorem schedules_bounded a b n : steps a b n -> n + mu (fst b) <= mu (fst a).
Proof.
  induction 1 as [c|[t f] [t' f'] c n Hs _ IH]; [lia|]. simpl in *. pose proof (step_decreases _ _ _ _ Hs). lia.
Qed.

(* ---------- progress: no deadlock ---------- *)
Fixpoint wft (t : jst) : bool :=
  match t with
  | TLeaf _ => true
  | TPar ts => forallb wft ts
  | TSteps cur todo => forallb wft cur && forallb (forallb wfj) todo
  | TPool w act q => forallb wft act && forallb wfj q && (match act with [] => match q with [] => true | _ => false end | _ => true end)
  end.

Lemma find_nonfinal l : forallb finalb l = false -> exists l1 x l2, l = l1 ++ x :: l2 /\ finalb x = false.
Proof.
  induction l as [|a l IH]; simpl; [discriminate|]. destruct (finalb a) eqn:E; simpl.
  - intros H. destruct (IH H) as (l1 & x & l2 & -> & Hx). exists (a :: l1), x, l2. auto.
  - intros _. exists [], a, l. auto.
Qed.

(* if nothing is running, a not-yet-finished tree can move as soon as one permit is free *)
Lemma progress_idle t : wft t = true -> finalb t = false -> running t = 0 ->
  forall f, exists t' f', step (t, S f) (t', f').
Proof.
  induction t as [p|ts IH|cur todo IH|w act q IH] using jst_ind2; simpl; intros Hw Hf Hr f.
  - destruct p; try discriminate. eexists _, _. apply s_acquire.
  - destruct (find_nonfinal ts Hf) as (l1 & x & l2 & -> & Hx).
    rewrite Forall_forall in IH. rewrite forallb_forall in Hw.
    rewrite sum_map_app in Hr. simpl in Hr.
    destruct (IH x ltac:(apply in_or_app; right; left; reflexivity) (Hw x ltac:(apply in_or_app; right; left; reflexivity)) Hx ltac:(lia) f) as (x' & f' & Hs).
    eexists _, _. apply s_par. exact Hs.
  - apply andb_true_iff in Hw as [Hw1 Hw2].
    destruct (forallb finalb cur) eqn:Ec.
    + destruct todo as [|s todo]; [simpl in Hf; discriminate|]. eexists _, _. apply s_steps_next. exact Ec.
    + destruct (find_nonfinal cur Ec) as (l1 & x & l2 & -> & Hx).
      rewrite Forall_forall in IH. rewrite forallb_forall in Hw1. rewrite sum_map_app in Hr. simpl in Hr.
      destruct (IH x ltac:(apply in_or_app; right; left; reflexivity) (Hw1 x ltac:(apply in_or_app; right; left; reflexivity)) Hx ltac:(lia) f) as (x' & f' & Hs).
      eexists _, _. apply s_steps_in. exact Hs.
  - apply andb_true_iff in Hw as [Hw Hshape]. apply andb_true_iff in Hw as [Hw1 Hw2].
    destruct (forallb finalb act) eqn:Ec.
    + destruct q as [|j q]; [simpl in Hf; discriminate|].
      destruct act as [|x act]; [discriminate|]. simpl in Ec. apply andb_true_iff in Ec as [Ex _].
      eexists _, _. apply (s_pool_next w [] x act j q). exact Ex.
    + destruct (find_nonfinal act Ec) as (l1 & x & l2 & -> & Hx).
      rewrite Forall_forall in IH. rewrite forallb_forall in Hw1. rewrite sum_map_app in Hr. simpl in Hr.
      destruct (IH x ltac:(apply in_or_app; right; left; reflexivity) (Hw1 x ltac:(apply in_or_app; right; left; reflexivity)) Hx ltac:(lia) f) as (x' & f' & Hs).
      eexists _, _. apply s_pool_in. exact Hs.
Qed.

(* a running leaf can always finish, whatever the number of free permits *)
Lemma progress_running t : 0 < running t -> forall f, exists t' f', step (t, f) (t', f').
Proof.
  induction t as [p|ts IH|cur todo IH|w act q IH] using jst_ind2; simpl; intros Hr f.
  - destruct p; try lia. eexists _, _. apply s_release.
  - assert (G : exists l1 x l2, ts = l1 ++ x :: l2 /\ 0 < running x).
    { clear -Hr. induction ts as [|a ts IHt]; simpl in Hr; [lia|]. destruct (running a) eqn:E.
      - destruct (IHt ltac:(lia)) as (l1 & x & l2 & -> & Hx). exists (a :: l1), x, l2. auto.
      - exists [], a, ts. split; [reflexivity | lia]. }
    destruct G as (l1 & x & l2 & -> & Hx). rewrite Forall_forall in IH.
    destruct (IH x ltac:(apply in_or_app; right; left; reflexivity) Hx f) as (x' & f' & Hs). eexists _, _. apply s_par. exact Hs.
  - assert (G : exists l1 x l2, cur = l1 ++ x :: l2 /\ 0 < running x).
    { clear -Hr. induction cur as [|a ts IHt]; simpl in Hr; [lia|]. destruct (running a) eqn:E.
      - destruct (IHt ltac:(lia)) as (l1 & x & l2 & -> & Hx). exists (a :: l1), x, l2. auto.
      - exists [], a, ts. split; [reflexivity | lia]. }
    destruct G as (l1 & x & l2 & -> & Hx). rewrite Forall_forall in IH.
    destruct (IH x ltac:(apply in_or_app; right; left; reflexivity) Hx f) as (x' & f' & Hs). eexists _, _. apply s_steps_in. exact Hs.
  - assert (G : exists l1 x l2, act = l1 ++ x :: l2 /\ 0 < running x).
    { clear -Hr. induction act as [|a ts IHt]; simpl in Hr; [lia|]. destruct (running a) eqn:E.
      - destruct (IHt ltac:(lia)) as (l1 & x & l2 & -> & Hx). exists (a :: l1), x, l2. auto.
      - exists [], a, ts. split; [reflexivity | lia]. }
    destruct G as (l1 & x & l2 & -> & Hx). rewrite Forall_forall in IH.
    destruct (IH x ltac:(apply in_or_app; right; left; reflexivity) Hx f) as (x' & f' & Hs). eexists _, _. apply s_pool_in. exact Hs.
Qed.

(* every reachable, unfinished configuration with k >= 1 permits in total has an enabled transition *)
Theorem no_deadlock t f k :
  wft t = true -> running t + f = k -> 1 <= k -> finalb t = false -> exists t' f', step (t, f) (t', f').
Proof.
  intros Hw Hk Hk1 Hf. destruct (running t) eqn:Er.
  - destruct f as [|f]; [lia|]. apply progress_idle; assumption.
  - apply progress_running. lia.
Qed.

(* ---------- well-formedness is established by `start` and kept by every transition ---------- *)
Lemma wft_start j : wfj j = true -> wft (start j) = true.
Proof.
  induction j as [|js IH|ss IH|w js IH] using job_ind2; simpl; intros H.
  - reflexivity.
  - rewrite forallb_forall in *. intros x Hx. apply in_map_iff in Hx as (y & <- & Hy).
    rewrite Forall_forall in IH. apply IH; auto.
  - destruct ss as [|s rest]; simpl in *; [reflexivity|].
    apply andb_true_iff in H as [Hs Hrest]. inversion IH as [|? ? IHs _]; subst.
    apply andb_true_iff. split; [|exact Hrest].
    rewrite forallb_forall in *. intros x Hx. apply in_map_iff in Hx as (y & <- & Hy).
    rewrite Forall_forall in IHs. apply IHs; auto.
  - apply andb_true_iff in H as [Hw Hjs]. apply Nat.ltb_lt in Hw.
    apply andb_true_iff. split; [apply andb_true_iff; split|].
    + rewrite forallb_forall in *. intros x Hx. apply in_firstn in Hx. apply in_map_iff in Hx as (y & <- & Hy).
      rewrite Forall_forall in IH. apply IH; auto.
    + rewrite forallb_forall in *. intros x Hx. apply Hjs.
      rewrite <- (firstn_skipn w js). apply in_or_app. right. exact Hx.
    + destruct js as [|a js]; [destruct w; reflexivity|]. destruct w; [lia|]. reflexivity.
Qed.

Lemma forallb_app' {A} (f : A -> bool) a b : forallb f (a ++ b) = forallb f a && forallb f b.
Proof. induction a; simpl; [reflexivity|]. rewrite IHa. apply andb_assoc. Qed.

Lemma wft_step' a b : step a b -> wft (fst a) = true -> wft (fst b) = true.
Proof.
  induction 1; simpl in *; intros Hw.
  - reflexivity.
  - reflexivity.
  - rewrite forallb_app' in *. simpl in *. apply andb_true_iff in Hw as [H1 H2]. apply andb_true_iff in H2 as [H2 H3].
    rewrite H1, H3, (IHstep H2). reflexivity.
  - apply andb_true_iff in Hw as [Hc Ht]. rewrite forallb_app' in *. simpl in *.
    apply andb_true_iff in Hc as [H1 H2]. apply andb_true_iff in H2 as [H2 H3].
    rewrite H1, H3, (IHstep H2), Ht. reflexivity.
  - apply andb_true_iff in Hw as [_ Ht]. simpl in Ht. apply andb_true_iff in Ht as [Hs Hrest].
    apply andb_true_iff. split; [|exact Hrest].
    rewrite forallb_forall in *. intros x Hx. apply in_map_iff in Hx as (y & <- & Hy). apply wft_start. apply Hs; exact Hy.
  - apply andb_true_iff in Hw as [Hw Hshape]. apply andb_true_iff in Hw as [Hc Hq].
    rewrite forallb_app' in *. simpl in *. apply andb_true_iff in Hc as [H1 H2]. apply andb_true_iff in H2 as [H2 H3].
    rewrite H1, H3, (IHstep H2), Hq. simpl. destruct l1; reflexivity.
  - apply andb_true_iff in Hw as [Hw Hshape]. apply andb_true_iff in Hw as [Hc Hq].
    rewrite forallb_app' in *. simpl in *. apply andb_true_iff in Hc as [H1 H2]. apply andb_true_iff in H2 as [H2 H3].
    apply andb_true_iff in Hq as [Hj Hq].
    rewrite H1, H3, Hq, (wft_start j Hj). simpl. destruct l1; reflexivity.
Qed.

Lemma wft_steps a b n : steps a b n -> wft (fst a) = true -> wft (fst b) = true.
Proof. induction 1 as [c|x y z n Hs _ IH]; intros H; [exact H|]. apply IH. eapply wft_step'; eauto. Qed.

(* every configuration reachable from a well-formed job with k >= 1 permits is final or can move *)
Theorem no_deadlock_reachable j k t f n :
  wfj j = true -> 1 <= k -> steps (start j, k) (t, f) n -> finalb t = false ->
  exists t' f', step (t, f) (t', f').
Proof.
  intros Hj Hk Hs Hf. destruct (bound_reachable j k t f n Hs) as [E _].
  eapply no_deadlock; eauto. apply (wft_steps _ _ _ Hs). simpl. apply wft_start; exact Hj.
Qed.
