(* EventsProofs.v — what acceptance by the checker of Events.v guarantees. *)
From HG Require Import Base Events.

Definition is_open_kind (k : ekind) : bool := match k with KRunStart | KNodeStart => true | _ => false end.
Definition is_close_kind (k : ekind) : bool := match k with KRunEnd _ | KNodeEnd | KNodeError => true | _ => false end.

Definition opened (evs : list event) : list nat := map e_span (filter (fun e => is_open_kind (e_kind e)) evs).
Definition closed (evs : list event) : list nat := map e_span (filter (fun e => is_close_kind (e_kind e)) evs).

Definition open_ids (st : cstate) : list nat := map o_id (c_open st).

Record Inv (pre : list event) (st : cstate) : Prop := {
  i_seen : c_seen st = rev (opened pre);
  i_nodup : NoDup (opened pre);
  i_open : open_ids st = filter (fun s => negb (nat_in s (closed pre))) (rev (opened pre));
  i_closed : NoDup (closed pre) /\ incl (closed pre) (opened pre);
  i_parent : forall o p, In o (c_open st) -> o_parent o = Some p -> In p (open_ids st) }.

Lemma nat_in_In x l : nat_in x l = true <-> In x l.
Proof.
  unfold nat_in. rewrite existsb_exists. split.
  - intros [y [Hy E]]. apply Nat.eqb_eq in E. subst. exact Hy.
  - intros H. exists x. split; [exact H | apply Nat.eqb_refl].
Qed.
Lemma nat_in_nIn x l : nat_in x l = false <-> ~ In x l.
Proof. rewrite <- nat_in_In. destruct (nat_in x l); split; congruence. Qed.

Lemma opened_app a b : opened (a ++ b) = opened a ++ opened b.
Proof. unfold opened. rewrite filter_app, map_app. reflexivity. Qed.
Lemma closed_app a b : closed (a ++ b) = closed a ++ closed b.
Proof. unfold closed. rewrite filter_app, map_app. reflexivity. Qed.

Lemma find_open_in st s o : find_open st s = Some o -> In o (c_open st) /\ o_id o = s.
Proof. unfold find_open. intros H. apply find_some in H as [H1 H2]. apply Nat.eqb_eq in H2. auto. Qed.

Lemma find_open_ids st s o : find_open st s = Some o -> In s (open_ids st).
Proof. intros H. apply find_open_in in H as [H <-]. unfold open_ids. apply in_map. exact H. Qed.

Lemma map_filter_ids (l : list ospan) s :
  map o_id (filter (fun o => negb (Nat.eqb (o_id o) s)) l) = filter (fun x => negb (Nat.eqb x s)) (map o_id l).
Proof. induction l as [|o l IH]; simpl; [reflexivity|]. destruct (Nat.eqb (o_id o) s); simpl; congruence. Qed.

Lemma filter_filter {A} (f g : A -> bool) l : filter f (filter g l) = filter (fun x => g x && f x) l.
Proof. induction l as [|a l IH]; simpl; [reflexivity|]. destruct (g a); simpl; [destruct (f a); simpl; congruence | exact IH]. Qed.

Lemma nat_in_app x a b : nat_in x (a ++ b) = nat_in x a || nat_in x b.
Proof. unfold nat_in. apply existsb_app. Qed.

Lemma Inv_init : Inv [] cinit.
Proof.
  split; simpl.
  - reflexivity.
  - constructor.
  - reflexivity.
  - split; [constructor | intros x []].
  - intros o p [].
Qed.

(* unchanged state, event neither opens nor closes *)
Lemma Inv_neutral pre st e :
  is_open_kind (e_kind e) = false -> is_close_kind (e_kind e) = false -> Inv pre st -> Inv (pre ++ [e]) st.
Proof.
  intros Ho Hc [I1 I2 I3 I4 I5].
  assert (Eo : opened (pre ++ [e]) = opened pre) by (rewrite opened_app; unfold opened at 2; simpl; rewrite Ho; apply app_nil_r).
  assert (Ec : closed (pre ++ [e]) = closed pre) by (rewrite closed_app; unfold closed at 2; simpl; rewrite Hc; apply app_nil_r).
  split; rewrite ?Eo, ?Ec; assumption.
Qed.

Lemma Inv_open pre st e o :
  is_open_kind (e_kind e) = true -> nat_in (e_span e) (c_seen st) = false -> o_id o = e_span e ->
  (forall p, o_parent o = Some p -> In p (open_ids st)) ->
  Inv pre st -> Inv (pre ++ [e]) (push_open st o).
Proof.
  intros Ho Hs Hid Hpar [I1 I2 I3 [I4a I4b] I5].
  assert (Hc : is_close_kind (e_kind e) = false) by (destruct (e_kind e); simpl in *; congruence).
  assert (Eo : opened (pre ++ [e]) = opened pre ++ [e_span e]) by (rewrite opened_app; unfold opened at 2; simpl; rewrite Ho; reflexivity).
  assert (Ec : closed (pre ++ [e]) = closed pre) by (rewrite closed_app; unfold closed at 2; simpl; rewrite Hc; apply app_nil_r).
  assert (Hnew : ~ In (e_span e) (opened pre)).
  { apply nat_in_nIn in Hs. rewrite I1 in Hs. intros Hin. apply Hs. apply in_rev in Hin. exact Hin. }
  split; rewrite ?Eo, ?Ec.
  - simpl. rewrite Hid, I1, rev_app_distr. reflexivity.
  - apply NoDup_app_intro; [exact I2 | constructor; [intros []|constructor] |].
    intros x Hx [<-|[]]. contradiction.
  - unfold open_ids in *. simpl. rewrite rev_app_distr. simpl.
    assert (Hn : nat_in (e_span e) (closed pre) = false).
    { apply nat_in_nIn. intros Hin. apply Hnew. apply I4b. exact Hin. }
    rewrite Hn. simpl. rewrite Hid, I3. reflexivity.
  - split; [exact I4a|]. intros x Hx. apply in_or_app. left. apply I4b. exact Hx.
  - intros o' p [<-|Hin] Hp; unfold open_ids; simpl.
    + right. apply Hpar. exact Hp.
    + right. eapply I5; eauto.
Qed.

Lemma Inv_close pre st e o :
  is_close_kind (e_kind e) = true -> find_open st (e_span e) = Some o -> has_open_child st (e_span e) = false ->
  Inv pre st -> Inv (pre ++ [e]) (remove_open st (e_span e)).
Proof.
  intros Hc Hf Hch [I1 I2 I3 [I4a I4b] I5].
  assert (Ho : is_open_kind (e_kind e) = false) by (destruct (e_kind e); simpl in *; congruence).
  assert (Eo : opened (pre ++ [e]) = opened pre) by (rewrite opened_app; unfold opened at 2; simpl; rewrite Ho; apply app_nil_r).
  assert (Ec : closed (pre ++ [e]) = closed pre ++ [e_span e]) by (rewrite closed_app; unfold closed at 2; simpl; rewrite Hc; reflexivity).
  pose proof (find_open_ids st _ _ Hf) as Hin. rewrite I3 in Hin. apply filter_In in Hin as [Hin1 Hin2].
  apply negb_true_iff, nat_in_nIn in Hin2. apply in_rev in Hin1.
  split; rewrite ?Eo, ?Ec.
  - exact I1.
  - exact I2.
  - unfold open_ids, remove_open. simpl. rewrite map_filter_ids. fold (open_ids st). rewrite I3, filter_filter.
    apply filter_ext. intros x. rewrite nat_in_app. unfold nat_in at 2. simpl. rewrite orb_false_r, negb_orb.
    reflexivity.
  - split.
    + apply NoDup_app_intro; [exact I4a | constructor; [intros []|constructor] |].
      intros x Hx [<-|[]]. contradiction.
    + intros x Hx. apply in_app_or in Hx as [Hx|[<-|[]]]; [apply I4b; exact Hx | exact Hin1].
  - intros o' p Ho' Hp. unfold remove_open in Ho'. simpl in Ho'. apply filter_In in Ho' as [Ho' _].
    pose proof (I5 o' p Ho' Hp) as Hpin.
    unfold open_ids, remove_open. simpl. rewrite map_filter_ids. apply filter_In. split; [exact Hpin|].
    apply negb_true_iff. destruct (Nat.eqb p (e_span e)) eqn:E; [|reflexivity].
    apply Nat.eqb_eq in E. subst p. exfalso.
    assert (has_open_child st (e_span e) = true); [|congruence].
    unfold has_open_child. apply existsb_exists. exists o'. split; [exact Ho'|]. rewrite Hp. apply Nat.eqb_refl.
Qed.

(* one checker step preserves the invariant *)
Lemma Inv_step pre st e st' : Inv pre st -> cstep st e = Some st' -> Inv (pre ++ [e]) st'.
Proof.
  intros HI H. unfold cstep in H. destruct (e_kind e) eqn:Ek.
  - (* RunStart *)
    destruct (nat_in (e_span e) (c_seen st)) eqn:Es; [discriminate|].
    destruct (e_parent e) as [p|].
    + destruct (find_open st p) as [o|] eqn:Ef; [|discriminate]. injection H as <-.
      apply Inv_open; [rewrite Ek; reflexivity | exact Es | reflexivity | | exact HI].
      simpl. intros p' [= <-]. eapply find_open_ids; eauto.
    + destruct (c_seen st) eqn:Ec; [|discriminate]. injection H as <-.
      apply Inv_open; [rewrite Ek; reflexivity | rewrite Ec; reflexivity | reflexivity | | exact HI].
      simpl. discriminate.
  - (* RunEnd *)
    destruct (find_open st (e_span e)) as [o|] eqn:Ef; [|discriminate].
    destruct (o_run o); simpl in H; [|discriminate].
    destruct (has_open_child st (e_span e)) eqn:Eh; simpl in H; [discriminate|]. injection H as <-.
    eapply Inv_close; eauto. rewrite Ek. reflexivity.
  - (* NodeStart *)
    destruct (nat_in (e_span e) (c_seen st)) eqn:Es; [discriminate|].
    destruct (e_parent e) as [p|]; [|discriminate].
    destruct (find_open st p) as [o|] eqn:Ef; [|discriminate].
    destruct (o_run o); [|discriminate]. injection H as <-.
    apply Inv_open; [rewrite Ek; reflexivity | exact Es | reflexivity | | exact HI].
    simpl. intros p' [= <-]. eapply find_open_ids; eauto.
  - (* NodeEnd *)
    destruct (find_open st (e_span e)) as [o|] eqn:Ef; [|discriminate].
    destruct (negb (o_run o) && opt_nat_eqb (o_parent o) (e_parent e)); simpl in H; [|discriminate].
    destruct (has_open_child st (e_span e)) eqn:Eh; simpl in H; [discriminate|]. injection H as <-.
    eapply Inv_close; eauto. rewrite Ek. reflexivity.
  - (* NodeError *)
    destruct (find_open st (e_span e)) as [o|] eqn:Ef; [|discriminate].
    destruct (negb (o_run o) && opt_nat_eqb (o_parent o) (e_parent e)); simpl in H; [|discriminate].
    destruct (has_open_child st (e_span e)) eqn:Eh; simpl in H; [discriminate|]. injection H as <-.
    eapply Inv_close; eauto. rewrite Ek. reflexivity.
  - (* CacheHit *)
    destruct (find_open st (e_span e)) as [o|]; [|discriminate].
    destruct (negb (o_run o) && Pos.eqb (o_node o) (e_node e)); [|discriminate]. injection H as <-.
    apply Inv_neutral; auto; rewrite Ek; reflexivity.
  - (* Route *)
    destruct (e_parent e) as [p|]; [|discriminate]. destruct (find_open st p) as [o|]; [|discriminate].
    destruct (o_run o && _); [|discriminate]. injection H as <-.
    apply Inv_neutral; auto; rewrite Ek; reflexivity.
  - injection H as <-. apply Inv_neutral; auto; rewrite Ek; reflexivity.
Qed.

Lemma crun_app st a b : crun st (a ++ b) = match crun st a with Some st' => crun st' b | None => None end.
Proof. revert st. induction a as [|e a IH]; intros st; simpl; [reflexivity|]. destruct (cstep st e); [apply IH | reflexivity]. Qed.

Lemma Inv_run evs : forall pre st st', Inv pre st -> crun st evs = Some st' -> Inv (pre ++ evs) st'.
Proof.
  induction evs as [|e evs IH]; intros pre st st' HI H; simpl in H.
  - injection H as <-. rewrite app_nil_r. exact HI.
  - destruct (cstep st e) as [st1|] eqn:Es; [|discriminate].
    replace (pre ++ e :: evs) with ((pre ++ [e]) ++ evs) by (rewrite <- app_assoc; reflexivity).
    eapply IH; [eapply Inv_step; eauto | exact H].
Qed.

(* ---------- consequences for every accepted stream ---------- *)

Lemma count_nodup_le1 (l : list nat) s : NoDup l -> count_occ Nat.eq_dec l s <= 1.
Proof.
  intros H. induction H as [|x l Hx _ IH]; simpl; [lia|].
  destruct (Nat.eq_dec x s) as [->|]; [|exact IH].
  assert (count_occ Nat.eq_dec l s = 0) by (apply count_occ_not_In; exact Hx). lia.
Qed.

(* every span is opened at most once, and is closed exactly as often as it is opened *)
Theorem accepted_spans_balanced evs st :
  crun cinit evs = Some st -> c_open st = [] ->
  NoDup (opened evs) /\ NoDup (closed evs) /\ (forall s, In s (opened evs) <-> In s (closed evs)).
Proof.
  intros H Ho. pose proof (Inv_run evs [] cinit st Inv_init H) as HI. simpl in HI.
  destruct HI as [I1 I2 I3 [I4a I4b] I5].
  split; [exact I2|]. split; [exact I4a|]. intros s. split; [|apply I4b].
  intros Hs. unfold open_ids in I3. rewrite Ho in I3. simpl in I3.
  destruct (nat_in s (closed evs)) eqn:E; [apply nat_in_In; exact E|]. exfalso.
  assert (Hin : In s (filter (fun s0 => negb (nat_in s0 (closed evs))) (rev (opened evs)))).
  { apply filter_In. split; [rewrite <- in_rev; exact Hs | rewrite E; reflexivity]. }
  rewrite <- I3 in Hin. contradiction.
Qed.

(* at every point of an accepted stream: a span is never closed before it is opened, and the parent
   of every open span is itself still open (children are closed before their parents) *)
Theorem accepted_prefix_nesting pre post st :
  crun cinit (pre ++ post) = Some st ->
  exists mid, crun cinit pre = Some mid /\
    incl (closed pre) (opened pre) /\
    forall o p, In o (c_open mid) -> o_parent o = Some p -> In p (open_ids mid).
Proof.
  intros H. rewrite crun_app in H. destruct (crun cinit pre) as [mid|] eqn:E; [|discriminate].
  exists mid. split; [reflexivity|].
  pose proof (Inv_run pre [] cinit mid Inv_init E) as HI. simpl in HI. destruct HI as [_ _ _ [_ I4b] I5].
  split; [exact I4b | exact I5].
Qed.

(* the full check: first event opens the root run, the last closes it with the observed status *)
Theorem wf_b_root failed evs :
  wf_b failed evs = true ->
  exists e0 rest st, evs = e0 :: rest /\ e_kind e0 = KRunStart /\ e_parent e0 = None /\
    crun cinit evs = Some st /\ c_open st = [] /\
    e_kind (last evs e0) = KRunEnd failed /\ e_span (last evs e0) = e_span e0.
Proof.
  unfold wf_b. destruct evs as [|e0 rest]; [discriminate|].
  destruct (e_kind e0) eqn:Ek; try discriminate. destruct (e_parent e0) eqn:Ep; [discriminate|].
  destruct (crun cinit (e0 :: rest)) as [st|] eqn:Er; [|discriminate].
  destruct (c_open st) eqn:Eo; [|discriminate].
  destruct (last (e0 :: rest) e0) as [k s p n] eqn:El. destruct k; try discriminate.
  intros H. apply andb_true_iff in H as [H1 H2]. apply Nat.eqb_eq in H1. apply Bool.eqb_prop in H2. subst.
  exists e0, rest, st. repeat split; auto; rewrite El; reflexivity.
Qed.
