(* InputSpec.v — executable model of the reported input specification and of run-time input
   validation.  Restates:
     graph/input_spec.py   compute_input_spec, _compute_active_scope, _active_from_entrypoints,
                           _active_from_selection, _compute_entrypoints, _get_all_cycle_params,
                           _categorize_param, _collect_bound_values, InputSpec.all
     runners/_shared/validation.py  validate_inputs (steps 1, 5, 6 for calls that supply only
                           graph inputs: no internal override, no unknown names),
                           _validate_cycle_entry, _group_entrypoints_by_scc, _check_cycle_entry
   networkx is replaced by the reachability of GraphDef.v (inferred-edge graphs). *)
From HG Require Import Base Engine GraphDef.
From stdpp Require Import gmap.

Record ispec := mk_ispec {
  is_required : list name;
  is_optional : list name;
  is_entry : list (name * list name);      (* entry node -> cycle parameters to seed *)
  is_bound : dict val }.

Definition names_of (nodes : list node) : list name := map n_name nodes.

(* edges of a sub-graph induced by a set of node names *)
Definition induced (es : list (name * name)) (act : list name) : list (name * name) :=
  List.filter (fun e => pos_in (fst e) act && pos_in (snd e) act) es.

(* data edges with the value they carry *)
Definition data_edges_v (nodes : list node) : list (name * name * name) :=
  flat_map (fun n => flat_map (fun p => match first_producer nodes p with
                                        | Some s => [(s, n_name n, p)] | None => [] end) (n_inputs n)) nodes.

Definition edge_produced (nodes : list node) (act : list name) : list name :=
  flat_map (fun e => match e with (s, d, p) => if pos_in s act && pos_in d act then [p] else [] end)
           (data_edges_v nodes).

Definition reach_in (es : list (name * name)) (k : nat) (srcs : list name) : list name :=
  iterate k (expand es) srcs.

Definition preds (es : list (name * name)) (x : name) : list name :=
  map fst (List.filter (fun e => Pos.eqb (snd e) x) es).

Definition union (a b : list name) : list name :=
  fold_left (fun acc y => if pos_in y acc then acc else acc ++ [y]) b a.

(* _active_from_selection.  The implementation's worklist adds the descendants of a gate target only when
   that target is not yet marked at the moment the gate is popped, and the pop order depends on set
   iteration order; `with_desc` selects the two extremes (all such descendants / none). *)
Definition active_from_selection (with_desc : bool) (nodes : list node) (act : list name) (sel : list name) : list name :=
  let producers := map n_name (List.filter (fun n => pos_in (n_name n) act &&
                                              existsb (fun o => pos_in o sel) (n_outputs n)) nodes) in
  match producers with
  | [] => []
  | _ =>
      let es := induced (all_edges nodes) act in
      let k := length nodes in
      let step := fun needed =>
        let with_preds := fold_left (fun acc x => union acc (List.filter (fun y => pos_in y act) (preds es x))) needed needed in
        let gate_t := flat_map (fun n => if is_gate n && pos_in (n_name n) needed
                                         then List.filter (fun t => pos_in t act) (gate_targets n) else []) nodes in
        union (union with_preds gate_t) (if with_desc then reach_in es k gate_t else []) in
      iterate (S k) step producers
  end.

Definition active_scope (wd : bool) (nodes : list node) (eps : option (list name)) (sel : option (list name)) : list name :=
  let a0 := match eps with None => names_of nodes | Some e => active_from_entrypoints nodes e end in
  match sel with None => a0 | Some s => active_from_selection wd nodes a0 s end.

Definition act_nodes (nodes : list node) (act : list name) : list node :=
  List.filter (fun n => pos_in (n_name n) act) nodes.

(* data-only graph restricted to the active nodes *)
Definition data_es (nodes : list node) (act : list name) : list (name * name) :=
  induced (data_edges nodes) act.

Definition dreach (nodes : list node) (act : list name) (a b : name) : bool :=
  pos_in b (reach_in (data_es nodes act) (length nodes) (succs (data_es nodes act) a)).

Definition same_scc (nodes : list node) (act : list name) (a b : name) : bool :=
  Pos.eqb a b || (dreach nodes act a b && dreach nodes act b a).

Definition in_cycle (nodes : list node) (act : list name) (a : name) : bool := dreach nodes act a a.

(* _get_all_cycle_params: p is consumed by n, carried by a data edge of the active graph, and some
   producer m of p lies on a cycle with n *)
Definition cycle_params (nodes : list node) (act : list name) : list name :=
  let an := act_nodes nodes act in
  let ep := edge_produced nodes act in
  dedup (flat_map (fun n =>
    List.filter (fun p => pos_in p ep &&
       existsb (fun m => pos_in p (n_outputs m) &&
                         (if Pos.eqb (n_name m) (n_name n) then in_cycle nodes act (n_name n)
                          else dreach nodes act (n_name n) (n_name m) && dreach nodes act (n_name m) (n_name n))) an)
      (n_inputs n)) an) [].

Definition interrupt_produced (an : list node) (p : name) : bool :=
  existsb (fun n => is_interrupt_node n && pos_in p (n_outputs n)) an.

(* _compute_entrypoints *)
Definition entrypoints (nodes : list node) (act : list name) (bound : dict val) : list (name * list name) :=
  let an := act_nodes nodes act in
  let cp := cycle_params nodes act in
  match cp with
  | [] => []
  | _ => flat_map (fun n =>
           if negb (is_gate n) && in_cycle nodes act (n_name n) then
             let needed := List.filter (fun p => pos_in p cp && negb (dmem bound p) &&
                                                  negb (interrupt_produced an p) && negb (pos_in p (n_hasdef n))) (n_inputs n) in
             match needed with [] => [] | _ => [(n_name n, needed)] end
           else []) an
  end.

Definition any_default (an : list node) (p : name) : bool :=
  existsb (fun n => pos_in p (n_inputs n) && pos_in p (n_hasdef n)) an.

(* compute_input_spec; `nested_bound` = the bindings exposed by nested GraphNodes (already
   translated to the wrapper's current input names) *)
Definition input_spec_w (wd : bool) (nodes : list node) (bound : dict val) (nested_bound : dict val)
           (eps sel : option (list name)) : ispec :=
  let act := active_scope wd nodes eps sel in
  let an := act_nodes nodes act in
  let ep := edge_produced nodes act in
  let entry := entrypoints nodes act bound in
  let entry_params := flat_map snd entry in
  let params := dedup (flat_map n_inputs an) [] in
  let free := List.filter (fun p => negb (pos_in p entry_params) && negb (pos_in p ep)) params in
  let opt := List.filter (fun p => dmem bound p || any_default an p) free in
  let req := List.filter (fun p => negb (dmem bound p || any_default an p)) free in
  mk_ispec req opt entry (dupdate bound (List.filter (fun kv => negb (dmem bound (fst kv))) nested_bound)).

Definition input_spec := input_spec_w true.

Definition is_all (s : ispec) : list name :=
  is_required s ++ is_optional s ++
  dedup (List.filter (fun p => negb (pos_in p (is_required s ++ is_optional s))) (flat_map snd (is_entry s))) [].

(* ---------------- validate_inputs (calls that supply graph inputs only) ---------------- *)

Inductive vres := VOk | VMissing | VValueError.

Definition subset (a b : list name) : bool := forallb (fun x => pos_in x b) a.

Fixpoint names_eqb' (a b : list name) : bool :=
  match a, b with
  | [], [] => true
  | x :: a', y :: b' => Pos.eqb x y && names_eqb' a' b'
  | _, _ => false
  end.

(* _check_cycle_entry for one cycle *)
Definition check_group (entry : list (name * list name)) (group : list name) (provided : list name) : vres :=
  let satisfied := List.filter (fun nm => match dget entry nm with
                                          | Some needed => subset needed provided | None => false end) group in
  match satisfied with
  | [] => VMissing
  | [_] => VOk
  | s0 :: rest =>
      match dget entry s0 with
      | Some p0 => if forallb (fun nm => match dget entry nm with
                                         | Some p => names_eqb' p p0 | None => false end) rest
                   then VOk else VValueError
      | None => VValueError
      end
  end.

(* _group_entrypoints_by_scc: SCCs of the data graph of the WHOLE graph *)
Definition scc_groups (nodes : list node) (entry : list (name * list name)) : list (list name) :=
  let all := names_of nodes in
  fold_left (fun groups nm =>
    match List.find (fun grp => match grp with h :: _ => same_scc nodes all h nm | [] => false end) groups with
    | Some _ => map (fun grp => match grp with
                                | h :: _ => if same_scc nodes all h nm then grp ++ [nm] else grp
                                | [] => grp end) groups
    | None => groups ++ [[nm]]
    end) (map fst entry) [].

Definition validate_w (wd : bool) (nodes : list node) (bound nested_bound : dict val) (eps sel : option (list name))
           (pv : dict val) : vres :=
  let s := input_spec_w wd nodes bound nested_bound eps sel in
  let provided := dkeys (is_bound s) ++ dkeys pv in
  let cyc := fold_left (fun acc grp => match acc with
                                       | VOk => check_group (is_entry s) grp provided
                                       | bad => bad end) (scc_groups nodes (is_entry s)) VOk in
  match cyc with
  | VOk => if subset (is_required s) provided then VOk else VMissing
  | bad => bad
  end.

Definition validate := validate_w true.

Definition vres_eqb (a b : vres) : bool :=
  match a, b with VOk, VOk | VMissing, VMissing | VValueError, VValueError => true | _, _ => false end.

Definition nameset_eqb' (a b : list name) : bool := subset a b && subset b a.
Definition spec_eqb (a b : ispec) : bool :=
  nameset_eqb' (is_required a) (is_required b) && nameset_eqb' (is_optional a) (is_optional b) &&
  Nat.eqb (length (is_entry a)) (length (is_entry b)) &&
  forallb (fun kv => match dget (is_entry b) (fst kv) with Some v => nameset_eqb' (snd kv) v | None => false end) (is_entry a) &&
  Nat.eqb (length (is_bound a)) (length (is_bound b)) &&
  forallb (fun kv => match dget (is_bound b) (fst kv) with Some v => val_eqb (snd kv) v | None => false end) (is_bound a).
Definition either_spec (lo hi real : ispec) : bool := spec_eqb lo real || spec_eqb hi real.
Definition either_vres (m : vres * vres) (real : vres) : bool := vres_eqb (fst m) real || vres_eqb (snd m) real.

(* The worklist of _active_from_selection decides PER GATE TARGET whether the target's descendants join the scope (they do iff
   the target is not yet marked when its gate is popped, which depends on set iteration order).  `active_from_selection` above
   has the two uniform extremes; here the choice is a set S of targets whose descendants are taken, and a reported spec is
   admissible when SOME S explains it (S = all targets is the `true` extreme, S = [] the `false` one). *)
Definition active_from_selection_s (Ts : list name) (nodes : list node) (act : list name) (sel : list name) : list name :=
  let producers := map n_name (List.filter (fun n => pos_in (n_name n) act &&
                                              existsb (fun o => pos_in o sel) (n_outputs n)) nodes) in
  match producers with
  | [] => []
  | _ =>
      let es := induced (all_edges nodes) act in
      let k := length nodes in
      let step := fun needed =>
        let with_preds := fold_left (fun acc x => union acc (List.filter (fun y => pos_in y act) (preds es x))) needed needed in
        let gate_t := flat_map (fun n => if is_gate n && pos_in (n_name n) needed
                                         then List.filter (fun t => pos_in t act) (gate_targets n) else []) nodes in
        union (union with_preds gate_t) (reach_in es k (List.filter (fun t => pos_in t Ts) gate_t)) in
      iterate (S k) step producers
  end.

Definition input_spec_s (Ts : list name) (nodes : list node) (bound : dict val) (nested_bound : dict val)
           (eps sel : option (list name)) : ispec :=
  let a0 := match eps with None => names_of nodes | Some e => active_from_entrypoints nodes e end in
  let act := match sel with None => a0 | Some s => active_from_selection_s Ts nodes a0 s end in
  let an := act_nodes nodes act in
  let ep := edge_produced nodes act in
  let entry := entrypoints nodes act bound in
  let entry_params := flat_map snd entry in
  let params := dedup (flat_map n_inputs an) [] in
  let free := List.filter (fun p => negb (pos_in p entry_params) && negb (pos_in p ep)) params in
  let opt := List.filter (fun p => dmem bound p || any_default an p) free in
  let req := List.filter (fun p => negb (dmem bound p || any_default an p)) free in
  mk_ispec req opt entry (dupdate bound (List.filter (fun kv => negb (dmem bound (fst kv))) nested_bound)).

Fixpoint sublists (l : list name) : list (list name) :=
  match l with
  | [] => [[]]
  | x :: r => let rs := sublists r in rs ++ map (cons x) rs
  end.

Definition all_gate_targets (nodes : list node) : list name :=
  dedup (flat_map (fun n => if is_gate n then gate_targets n else []) nodes) [].

(* some per-target choice explains the reported spec (at most 2^6 choices are tried; beyond that the two extremes) *)
Definition some_scope_spec (nodes : list node) (bound nested_bound : dict val) (eps sel : option (list name)) (real : ispec) : bool :=
  let ts := all_gate_targets nodes in
  let choices := if Nat.leb (length ts) 6 then sublists ts else [[]; ts] in
  existsb (fun Ts => spec_eqb (input_spec_s Ts nodes bound nested_bound eps sel) real) choices.

(* validate_inputs under a per-target choice of the selection scope, and "some choice explains the observed verdict" *)
Definition validate_s (Ts : list name) (nodes : list node) (bound nested_bound : dict val) (eps sel : option (list name))
           (pv : dict val) : vres :=
  let s := input_spec_s Ts nodes bound nested_bound eps sel in
  let provided := dkeys (is_bound s) ++ dkeys pv in
  let cyc := fold_left (fun acc grp => match acc with
                                       | VOk => check_group (is_entry s) grp provided
                                       | bad => bad end) (scc_groups nodes (is_entry s)) VOk in
  match cyc with
  | VOk => if subset (is_required s) provided then VOk else VMissing
  | bad => bad
  end.

Definition some_scope_vres (nodes : list node) (bound nested_bound : dict val) (eps sel : option (list name)) (pv : dict val)
           (real : vres) : bool :=
  let ts := all_gate_targets nodes in
  let choices := if Nat.leb (length ts) 6 then sublists ts else [[]; ts] in
  existsb (fun Ts => vres_eqb (validate_s Ts nodes bound nested_bound eps sel pv) real) choices.
