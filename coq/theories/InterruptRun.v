(* InterruptRun.v — C14 at the level of whole runs, for the chain  A(x) -> a ; I(a) -> d [interrupt] ; B(a, d) -> b  with ARBITRARY
   node functions, under the asynchronous runner (the only one that accepts interrupts):
     (1) a handler that does not answer PAUSES the run at I, after A and before B: the pause names I, its output and the value
         of its input; the state returned holds a and neither d nor b; B was never called;
     (2) the same call with the response supplied under d RESUMES: I passes the response on, B runs once, the run completes;
     (3) that result is the result of the run whose handler answers by itself with the same response.
   The interrupt executor is any function with the three behaviours of Nested.exec_interrupt proved in C14_pause,
   C14_resume_passes and interrupt_auto. *)
From HG Require Import Base Engine Exec EngineProofs Samples LoopCount.
From stdpp Require Import gmap.

Local Open Scope positive_scope.

Definition nodeA : node := fnode 10 [1] [31] 1.
Definition nodeI : node := mk_node 15 [31] [32] 1%nat [] [] [] KInterrupt 5.
Definition nodeB : node := fnode 11 [31; 32] [33] 2.
Definition chain : graph := mk_graph [nodeA; nodeI; nodeB] [] None.

Section InterruptRun.
  Variable fa : Z -> val.
  Variable fb : val -> val -> val.
  Variable exec : node -> state -> dict val -> outcome.
  Hypothesis HA : forall st x, exec nodeA st [(1, VInt x)] = OOk [(31, fa x)] None.
  Hypothesis HB : forall st a d, exec nodeB st [(31, a); (32, d)] = OOk [(33, fb a d)] None.

  (* ---------------------------------------------------------------- readiness in closed form (no gates, no wait_for) *)
  Definition stale_on (st : state) (p : name) (e : option exec_rec) : bool :=
    match e with Some r => negb (Nat.eqb (ver st p) (default 0%nat (dget (r_in r) p))) | None => true end.
  Definition has (st : state) (p : name) : bool := match vals st !! p with Some _ => true | None => false end.

  Definition rdyA (st : state) : bool := has st 1 && stale_on st 1 (execs st !! 10).
  Definition rdyI (st : state) : bool := has st 31 && stale_on st 31 (execs st !! 15).
  Definition rdyB (st : state) : bool :=
    has st 31 && has st 32 &&
    match execs st !! 11 with
    | Some r => negb (Nat.eqb (ver st 31) (default 0%nat (dget (r_in r) 31))) || negb (Nat.eqb (ver st 32) (default 0%nat (dget (r_in r) 32)))
    | None => true
    end.

  Lemma node_ready_A st : node_ready chain st nodeA = rdyA st.
  Proof.
    unfold node_ready, rdyA, stale_on, has.
    assert (Hc : controlled_by chain 10 = []) by reflexivity.
    assert (Hg : Engine.gated chain nodeA = false) by reflexivity.
    unfold activated. cbn [n_name nodeA fnode]. rewrite Hc.
    cbn [n_inputs nodeA fnode forallb]. unfold has_input at 1. cbn [g_bound chain dmem dget n_hasdef nodeA fnode pos_in existsb].
    unfold wait_ok. cbn [n_wait nodeA fnode forallb]. unfold needs_execution. cbn [n_name nodeA fnode].
    unfold is_stale. cbn [n_inputs nodeA fnode existsb]. rewrite Hg. cbn [negb andb n_outputs nodeA fnode pos_in existsb Pos.eqb].
    destruct (vals st !! 1); destruct (execs st !! 10); rewrite ?orb_false_r, ?andb_true_r; reflexivity.
  Qed.

  Lemma node_ready_I st : node_ready chain st nodeI = rdyI st.
  Proof.
    unfold node_ready, rdyI, stale_on, has.
    assert (Hc : controlled_by chain 15 = []) by reflexivity.
    assert (Hg : Engine.gated chain nodeI = false) by reflexivity.
    unfold activated. cbn [n_name nodeI]. rewrite Hc.
    cbn [n_inputs nodeI forallb]. unfold has_input at 1. cbn [g_bound chain dmem dget n_hasdef nodeI pos_in existsb].
    unfold wait_ok. cbn [n_wait nodeI forallb]. unfold needs_execution. cbn [n_name nodeI].
    unfold is_stale. cbn [n_inputs nodeI existsb]. rewrite Hg. cbn [negb andb n_outputs nodeI pos_in existsb Pos.eqb].
    destruct (vals st !! 31); destruct (execs st !! 15); rewrite ?orb_false_r, ?andb_true_r; reflexivity.
  Qed.

  Lemma node_ready_B st : node_ready chain st nodeB = rdyB st.
  Proof.
    unfold node_ready, rdyB, has.
    assert (Hc : controlled_by chain 11 = []) by reflexivity.
    assert (Hg : Engine.gated chain nodeB = false) by reflexivity.
    unfold activated. cbn [n_name nodeB fnode]. rewrite Hc.
    cbn [n_inputs nodeB fnode forallb]. unfold has_input. cbn [g_bound chain dmem dget n_hasdef nodeB fnode pos_in existsb].
    unfold wait_ok. cbn [n_wait nodeB fnode forallb]. unfold needs_execution. cbn [n_name nodeB fnode].
    unfold is_stale. cbn [n_inputs nodeB fnode existsb]. rewrite Hg. cbn [negb andb n_outputs nodeB fnode pos_in existsb Pos.eqb].
    destruct (vals st !! 31); destruct (vals st !! 32); destruct (execs st !! 11); rewrite ?orb_false_r, ?andb_true_r; reflexivity.
  Qed.

  Lemma clear_stale_chain st : clear_stale chain st = st.
  Proof. reflexivity. Qed.

  Lemma ready_chain st :
    ready chain st =
    (st, ((if rdyA st then [nodeA] else []) ++ (if rdyI st then [nodeI] else []) ++ (if rdyB st then [nodeB] else []))%list).
  Proof.
    unfold ready. rewrite clear_stale_chain. f_equal.
    change (g_nodes chain) with [nodeA; nodeI; nodeB]. cbn [List.filter].
    change (is_active chain nodeA) with true. change (is_active chain nodeI) with true. change (is_active chain nodeB) with true.
    cbn [andb]. rewrite node_ready_A, node_ready_I, node_ready_B.
    destruct (rdyA st), (rdyI st), (rdyB st); reflexivity.
  Qed.

  (* ---------------------------------------------------------------- one node of the asynchronous step *)
  Lemma async_one snap pv rd n ins :
    isolate rd = [n] -> List.filter (fun m => pos_in (n_name m) [n_name n]) rd = [n] ->
    collect_inputs chain snap pv n (n_inputs n) = Some ins ->
    superstep exec Async chain snap pv rd =
    (match exec n snap ins with
     | OOk outs dec => SOk (commit snap snap n outs dec)
     | ORaise e => SErr e snap
     | OPause p => SPause p snap
     end, [(n_name n, ins)]).
  Proof.
    intros Hiso Hpi Hc. unfold superstep, superstep_async. rewrite Hiso. cbn [map]. rewrite Hpi.
    unfold write_decisions, first_failure, async_calls. cbn [fold_left fold_right flat_map].
    unfold apply_success, run_one. rewrite Hc. cbn [snd fst app].
    destruct (exec n snap ins) as [outs dec|e|p]; [|reflexivity|reflexivity].
    unfold commit. destruct dec as [d|]; reflexivity.
  Qed.

  (* ---------------------------------------------------------------- states *)
  Definition afterA (snap : state) (x : Z) : state := commit snap snap nodeA [(31, fa x)] None.

  Lemma afterA_obs snap x : vals snap !! 31 = None ->
    let s := afterA snap x in
    vals s !! 31 = Some (fa x) /\ ver s 31 = S (ver snap 31) /\
    (forall p, p <> 31 -> vals s !! p = vals snap !! p /\ ver s p = ver snap p) /\
    (exists r, execs s !! 10 = Some r /\ dget (r_in r) 1 = Some (ver snap 1)) /\
    execs s !! 15 = execs snap !! 15 /\ execs s !! 11 = execs snap !! 11.
  Proof.
    intros Hn s. unfold s, afterA, commit. cbn [apply_outputs fold_left fst snd]. repeat split.
    - apply vals_update_same.
    - simpl. apply ver_update_absent. exact Hn.
    - simpl. apply vals_update_ne. congruence.
    - simpl. unfold ver. simpl. apply ver_update_ne. congruence.
    - exists (record_of snap nodeA). split; [simpl; apply lookup_insert | reflexivity].
    - simpl. rewrite lookup_insert_ne by discriminate. rewrite execs_update. reflexivity.
    - simpl. rewrite lookup_insert_ne by discriminate. rewrite execs_update. reflexivity.
  Qed.

  Variable pv : dict val.

  (* a start state: x supplied, a not yet computed, nothing executed (d may or may not be supplied) *)
  Definition Start (x : Z) (s0 : state) : Prop :=
    vals s0 !! 1 = Some (VInt x) /\ vals s0 !! 31 = None /\ vals s0 !! 33 = None /\ execs s0 = ∅.

  Lemma collect1 st n p v : n_inputs n = [p] -> vals st !! p = Some v -> collect_inputs chain st pv n (n_inputs n) = Some [(p, v)].
  Proof. intros Hi Hv. rewrite Hi. cbn [collect_inputs]. unfold resolve. rewrite Hv. reflexivity. Qed.

  Lemma collect2 st n p q v w : n_inputs n = [p; q] -> vals st !! p = Some v -> vals st !! q = Some w ->
    collect_inputs chain st pv n (n_inputs n) = Some [(p, v); (q, w)].
  Proof. intros Hi Hv Hw. rewrite Hi. cbn [collect_inputs]. unfold resolve. rewrite Hv, Hw. reflexivity. Qed.

  (* superstep 1: A alone *)
  Lemma step_A x s0 log fuel : Start x s0 ->
    run_loop exec Async (S fuel) chain pv s0 log =
    run_loop exec Async fuel chain pv (afterA s0 x) (log ++ [[(10, [(1, VInt x)])]])%list.
  Proof.
    intros (H1 & H31 & H33 & He).
    assert (RA : rdyA s0 = true) by (unfold rdyA, has, stale_on; rewrite H1, He, lookup_empty; reflexivity).
    assert (RI : rdyI s0 = false) by (unfold rdyI, has; rewrite H31; reflexivity).
    assert (RB : rdyB s0 = false) by (unfold rdyB, has; rewrite H31; reflexivity).
    cbn [run_loop]. rewrite ready_chain, RA, RI, RB. cbn [app].
    rewrite (async_one s0 pv [nodeA] nodeA [(1, VInt x)] eq_refl eq_refl (collect1 s0 nodeA 1 (VInt x) eq_refl H1)).
    rewrite HA. reflexivity.
  Qed.

  (* the state after A: what is ready next *)
  Lemma afterA_ready x s0 : Start x s0 ->
    let s1 := afterA s0 x in
    rdyA s1 = false /\ rdyI s1 = true /\ rdyB s1 = has s0 32 /\
    vals s1 !! 31 = Some (fa x) /\ vals s1 !! 32 = vals s0 !! 32 /\ vals s1 !! 33 = None /\ vals s1 !! 1 = Some (VInt x) /\
    ver s1 32 = ver s0 32 /\ ver s1 31 = S (ver s0 31) /\
    execs s1 !! 15 = None /\ execs s1 !! 11 = None /\
    (exists ra, execs s1 !! 10 = Some ra /\ dget (r_in ra) 1 = Some (ver s1 1)).
  Proof.
    intros (H1 & H31 & H33 & He) s1.
    destruct (afterA_obs s0 x H31) as (V31 & R31 & Hoth & (ra & Hra & Hrai) & E15 & E11).
    destruct (Hoth 1 ltac:(discriminate)) as [V1 R1]. destruct (Hoth 32 ltac:(discriminate)) as [V32 R32].
    destruct (Hoth 33 ltac:(discriminate)) as [V33 _].
    fold s1 in V31, R31, Hra, E15, E11, V1, R1, V32, R32, V33.
    rewrite He, lookup_empty in E15, E11.
    assert (SA : stale_on s1 1 (Some ra) = false).
    { unfold stale_on. rewrite Hrai, R1. change (default 0%nat (Some (ver s0 1))) with (ver s0 1). rewrite Nat.eqb_refl. reflexivity. }
    split; [unfold rdyA; rewrite Hra, SA; apply andb_false_r|].
    split; [unfold rdyI, has, stale_on; rewrite V31, E15; reflexivity|].
    split; [unfold rdyB, has; rewrite V31, V32, E11; destruct (vals s0 !! 32); reflexivity|].
    rewrite V1, V33, H1, H33. repeat split; auto.
    exists ra. rewrite R1. auto.
  Qed.

  Definition ask_ins (x : Z) : dict val := [(31, fa x)].

  (* ---------------------------------------------------------------- (1) the run pauses *)
  Theorem run_pauses x s0 log fuel :
    Start x s0 -> vals s0 !! 32 = None ->
    (forall st a, vals st !! 32 = None -> exec nodeI st [(31, a)] = OPause (mk_pause [15] 32 a)) ->
    run_loop exec Async (S (S fuel)) chain pv s0 log =
    (RPaused (mk_pause [15] 32 (fa x)) (afterA s0 x), (log ++ [[(10, [(1, VInt x)])]]) ++ [[(15, ask_ins x)]])%list.
  Proof.
    intros HS H32 HP. rewrite (step_A x s0 log (S fuel) HS).
    destruct (afterA_ready x s0 HS) as (RA & RI & RB & V31 & V32 & V33 & V1 & _).
    assert (RB' : rdyB (afterA s0 x) = false) by (rewrite RB; unfold has; rewrite H32; reflexivity).
    cbn [run_loop]. rewrite ready_chain, RA, RI, RB'. cbn [app].
    rewrite (async_one (afterA s0 x) pv [nodeI] nodeI (ask_ins x) eq_refl eq_refl (collect1 _ nodeI 31 (fa x) eq_refl V31)).
    unfold ask_ins. rewrite HP by (rewrite V32; exact H32). reflexivity.
  Qed.

  (* ---------------------------------------------------------------- after the interrupt passed the value d on *)
  Definition afterI (snap : state) (d : val) : state := commit snap snap nodeI [(32, d)] None.
  Definition afterB (snap : state) (a d : val) : state := commit snap snap nodeB [(33, fb a d)] None.

  Lemma afterI_obs snap d :
    let s := afterI snap d in
    vals s !! 32 = Some d /\
    (forall p, p <> 32 -> vals s !! p = vals snap !! p /\ ver s p = ver snap p) /\
    (exists ri, execs s !! 15 = Some ri /\ dget (r_in ri) 31 = Some (ver snap 31)) /\
    execs s !! 10 = execs snap !! 10 /\ execs s !! 11 = execs snap !! 11.
  Proof.
    intros s. unfold s, afterI, commit. cbn [apply_outputs fold_left fst snd]. repeat split.
    - apply vals_update_same.
    - simpl. apply vals_update_ne. congruence.
    - simpl. unfold ver. simpl. apply ver_update_ne. congruence.
    - exists (record_of snap nodeI). split; [simpl; apply lookup_insert | reflexivity].
    - simpl. rewrite lookup_insert_ne by discriminate. rewrite execs_update. reflexivity.
    - simpl. rewrite lookup_insert_ne by discriminate. rewrite execs_update. reflexivity.
  Qed.

  Definition Mid (x : Z) (d : val) (s : state) : Prop :=
    vals s !! 1 = Some (VInt x) /\ vals s !! 31 = Some (fa x) /\ vals s !! 32 = Some d /\ vals s !! 33 = None /\
    (exists ra, execs s !! 10 = Some ra /\ dget (r_in ra) 1 = Some (ver s 1)) /\
    (exists ri, execs s !! 15 = Some ri /\ dget (r_in ri) 31 = Some (ver s 31)) /\
    execs s !! 11 = None.

  Lemma stale_false st p r : dget (r_in r) p = Some (ver st p) -> stale_on st p (Some r) = false.
  Proof.
    intros H. unfold stale_on. rewrite H. change (default 0%nat (Some (ver st p))) with (ver st p).
    rewrite Nat.eqb_refl. reflexivity.
  Qed.

  Lemma afterI_Mid x s0 d : Start x s0 -> Mid x d (afterI (afterA s0 x) d).
  Proof.
    intros HS. destruct (afterA_ready x s0 HS) as (_ & _ & _ & V31 & _ & V33 & V1 & _ & _ & _ & E11 & (ra & Hra & Hrai)).
    destruct (afterI_obs (afterA s0 x) d) as (W32 & Woth & (ri & Hri & Hrii) & W10 & W11).
    destruct (Woth 1 ltac:(discriminate)) as [W1 R1]. destruct (Woth 31 ltac:(discriminate)) as [W31 R31].
    destruct (Woth 33 ltac:(discriminate)) as [W33 _].
    unfold Mid. rewrite W1, W31, W33, V1, V31, V33, W10, W11, R1, R31. repeat split; auto; eauto.
  Qed.

  (* B's turn, and the end of the run *)
  Lemma finish_from_mid x d s log fuel : Mid x d s ->
    let s3 := afterB s (fa x) d in
    run_loop exec Async (S fuel) chain pv s log = (RDone s3, (log ++ [[(11, [(31, fa x); (32, d)])]])%list) /\
    vals s3 !! 31 = Some (fa x) /\ vals s3 !! 32 = Some d /\ vals s3 !! 33 = Some (fb (fa x) d).
  Proof.
    intros (V1 & V31 & V32 & V33 & (ra & Hra & Hrai) & (ri & Hri & Hrii) & E11) s3.
    assert (RA : rdyA s = false) by (unfold rdyA; rewrite Hra, (stale_false s 1 ra Hrai); apply andb_false_r).
    assert (RI : rdyI s = false) by (unfold rdyI; rewrite Hri, (stale_false s 31 ri Hrii); apply andb_false_r).
    assert (RB : rdyB s = true) by (unfold rdyB, has; rewrite V31, V32, E11; reflexivity).
    (* the state after B *)
    assert (O3 : vals s3 !! 33 = Some (fb (fa x) d) /\ (forall p, p <> 33 -> vals s3 !! p = vals s !! p /\ ver s3 p = ver s p) /\
                 execs s3 !! 11 = Some (record_of s nodeB) /\ execs s3 !! 10 = execs s !! 10 /\ execs s3 !! 15 = execs s !! 15).
    { unfold s3, afterB, commit. cbn [apply_outputs fold_left fst snd]. repeat split.
      - apply vals_update_same.
      - simpl. apply vals_update_ne. congruence.
      - simpl. unfold ver. simpl. apply ver_update_ne. congruence.
      - simpl. apply lookup_insert.
      - simpl. rewrite lookup_insert_ne by discriminate. rewrite execs_update. reflexivity.
      - simpl. rewrite lookup_insert_ne by discriminate. rewrite execs_update. reflexivity. }
    destruct O3 as (W33 & Woth & W11 & W10 & W15).
    destruct (Woth 1 ltac:(discriminate)) as [W1 R1]. destruct (Woth 31 ltac:(discriminate)) as [W31 R31].
    destruct (Woth 32 ltac:(discriminate)) as [W32 R32].
    assert (RA3 : rdyA s3 = false).
    { unfold rdyA. rewrite W10, Hra. rewrite (stale_false s3 1 ra) by (rewrite R1; exact Hrai). apply andb_false_r. }
    assert (RI3 : rdyI s3 = false).
    { unfold rdyI. rewrite W15, Hri. rewrite (stale_false s3 31 ri) by (rewrite R31; exact Hrii). apply andb_false_r. }
    assert (RB3 : rdyB s3 = false).
    { unfold rdyB. rewrite W11. cbn [record_of r_in n_inputs nodeB fnode map dget Pos.eqb]. rewrite R31, R32.
      change (default 0%nat (Some (ver s 31))) with (ver s 31). change (default 0%nat (Some (ver s 32))) with (ver s 32).
      rewrite !Nat.eqb_refl. simpl. apply andb_false_r. }
    split; [|rewrite W31, W32; auto].
    cbn [run_loop]. rewrite ready_chain, RA, RI, RB. cbn [app].
    rewrite (async_one s pv [nodeB] nodeB [(31, fa x); (32, d)] eq_refl eq_refl (collect2 s nodeB 31 32 (fa x) d eq_refl V31 V32)).
    rewrite HB. fold (afterB s (fa x) d). fold s3.
    destruct fuel; cbn [run_loop]; rewrite ready_chain, RA3, RI3, RB3; reflexivity.
  Qed.

  (* ---------------------------------------------------------------- (2) the resumed run, (3) the run whose handler answers *)
  Theorem run_resumes x s0 d log fuel :
    Start x s0 -> vals s0 !! 32 = Some d ->
    (forall st a v, vals st !! 32 = Some v -> execs st !! 15 = None -> exec nodeI st [(31, a)] = OOk [(32, v)] None) ->
    exists s3,
      run_loop exec Async (S (S (S fuel))) chain pv s0 log =
        (RDone s3, ((log ++ [[(10, [(1, VInt x)])]]) ++ [[(15, ask_ins x)]]) ++ [[(11, [(31, fa x); (32, d)])]])%list /\
      vals s3 !! 31 = Some (fa x) /\ vals s3 !! 32 = Some d /\ vals s3 !! 33 = Some (fb (fa x) d).
  Proof.
    intros HS H32 HR. rewrite (step_A x s0 log (S (S fuel)) HS).
    destruct (afterA_ready x s0 HS) as (RA & RI & RB & V31 & V32 & V33 & V1 & _ & _ & E15 & E11 & _).
    assert (RB' : rdyB (afterA s0 x) = true) by (rewrite RB; unfold has; rewrite H32; reflexivity).
    cbn [run_loop]. rewrite ready_chain, RA, RI, RB'. cbn [app].
    rewrite (async_one (afterA s0 x) pv [nodeI; nodeB] nodeI (ask_ins x) eq_refl eq_refl (collect1 _ nodeI 31 (fa x) eq_refl V31)).
    unfold ask_ins at 1. rewrite (HR (afterA s0 x) (fa x) d) by (rewrite ?V32; assumption).
    fold (afterI (afterA s0 x) d).
    destruct (finish_from_mid x d (afterI (afterA s0 x) d) ((log ++ [[(10, [(1, VInt x)])]]) ++ [[(n_name nodeI, ask_ins x)]])%list fuel
                (afterI_Mid x s0 d HS)) as (Hrun & W).
    eexists. split; [exact Hrun | exact W].
  Qed.

  Theorem run_answered x s0 d log fuel :
    Start x s0 -> vals s0 !! 32 = None ->
    (forall st a, vals st !! 32 = None -> exec nodeI st [(31, a)] = OOk [(32, d)] None) ->
    exists s3,
      run_loop exec Async (S (S (S fuel))) chain pv s0 log =
        (RDone s3, ((log ++ [[(10, [(1, VInt x)])]]) ++ [[(15, ask_ins x)]]) ++ [[(11, [(31, fa x); (32, d)])]])%list /\
      vals s3 !! 31 = Some (fa x) /\ vals s3 !! 32 = Some d /\ vals s3 !! 33 = Some (fb (fa x) d).
  Proof.
    intros HS H32 HR. rewrite (step_A x s0 log (S (S fuel)) HS).
    destruct (afterA_ready x s0 HS) as (RA & RI & RB & V31 & V32 & V33 & V1 & _ & _ & E15 & E11 & _).
    assert (RB' : rdyB (afterA s0 x) = false) by (rewrite RB; unfold has; rewrite H32; reflexivity).
    cbn [run_loop]. rewrite ready_chain, RA, RI, RB'. cbn [app].
    rewrite (async_one (afterA s0 x) pv [nodeI] nodeI (ask_ins x) eq_refl eq_refl (collect1 _ nodeI 31 (fa x) eq_refl V31)).
    unfold ask_ins at 1. rewrite (HR (afterA s0 x) (fa x)) by (rewrite V32; exact H32).
    fold (afterI (afterA s0 x) d).
    destruct (finish_from_mid x d (afterI (afterA s0 x) d) ((log ++ [[(10, [(1, VInt x)])]]) ++ [[(n_name nodeI, ask_ins x)]])%list fuel
                (afterI_Mid x s0 d HS)) as (Hrun & W).
    eexists. split; [exact Hrun | exact W].
  Qed.
End InterruptRun.

(* ------------------------------------------------------------------ whole runs, from the inputs *)
Lemma start_of_inputs x : Start x (init_state [(1%positive, VInt x)]).
Proof.
  unfold Start, init_state. cbn [apply_outputs fold_left fst snd].
  split; [apply vals_update_same|]. split; [rewrite vals_update_ne by discriminate; apply lookup_empty|].
  split; [rewrite vals_update_ne by discriminate; apply lookup_empty|]. rewrite execs_update. reflexivity.
Qed.

Lemma start_of_inputs_resp x d : Start x (init_state [(1%positive, VInt x); (32%positive, d)]) /\
  vals (init_state [(1%positive, VInt x); (32%positive, d)]) !! 32%positive = Some d.
Proof.
  unfold Start, init_state. cbn [apply_outputs fold_left fst snd].
  split; [|apply vals_update_same].
  split; [rewrite vals_update_ne by discriminate; apply vals_update_same|].
  split; [rewrite !vals_update_ne by discriminate; apply lookup_empty|].
  split; [rewrite !vals_update_ne by discriminate; apply lookup_empty|]. rewrite !execs_update. reflexivity.
Qed.

Section Whole.
  Variable fa : Z -> val.
  Variable fb : val -> val -> val.
  Variable exec : node -> state -> dict val -> outcome.
  Hypothesis HA : forall st x, exec nodeA st [(1%positive, VInt x)] = OOk [(31%positive, fa x)] None.
  Hypothesis HB : forall st a d, exec nodeB st [(31%positive, a); (32%positive, d)] = OOk [(33%positive, fb a d)] None.

  (* C14_run_pauses: a handler that does not answer *)
  Theorem chain_pauses x fuel :
    (forall st a, vals st !! 32%positive = None -> exec nodeI st [(31%positive, a)] = OPause (mk_pause [15%positive] 32%positive a)) ->
    exists s,
      execute exec Async (S (S fuel)) chain [(1%positive, VInt x)] =
        (RPaused (mk_pause [15%positive] 32%positive (fa x)) s,
         [[(10%positive, [(1%positive, VInt x)])]; [(15%positive, [(31%positive, fa x)])]]) /\
      vals s !! 31%positive = Some (fa x) /\ vals s !! 32%positive = None /\ vals s !! 33%positive = None.
  Proof.
    intros HP. pose proof (start_of_inputs x) as HS.
    assert (H32 : vals (init_state [(1%positive, VInt x)]) !! 32%positive = None).
    { unfold init_state. cbn [apply_outputs fold_left fst snd]. rewrite vals_update_ne by discriminate. apply lookup_empty. }
    exists (afterA fa (init_state [(1%positive, VInt x)]) x). split.
    - unfold execute. rewrite (run_pauses fa exec HA _ x _ [] fuel HS H32 HP). reflexivity.
    - destruct (afterA_ready fa x _ HS) as (_ & _ & _ & V31 & V32 & V33 & _). rewrite V32. auto.
  Qed.

  (* C14_run_resumes: the response supplied under the interrupt's output *)
  Theorem chain_resumes x d fuel :
    (forall st a v, vals st !! 32%positive = Some v -> execs st !! 15%positive = None -> exec nodeI st [(31%positive, a)] = OOk [(32%positive, v)] None) ->
    exists s,
      execute exec Async (S (S (S fuel))) chain [(1%positive, VInt x); (32%positive, d)] =
        (RDone s, [[(10%positive, [(1%positive, VInt x)])]; [(15%positive, [(31%positive, fa x)])];
                   [(11%positive, [(31%positive, fa x); (32%positive, d)])]]) /\
      vals s !! 31%positive = Some (fa x) /\ vals s !! 32%positive = Some d /\ vals s !! 33%positive = Some (fb (fa x) d).
  Proof.
    intros HR. destruct (start_of_inputs_resp x d) as [HS H32].
    destruct (run_resumes fa fb exec HA HB [(1%positive, VInt x); (32%positive, d)] x _ d [] fuel HS H32 HR) as (s3 & Hrun & W).
    exists s3. split; [exact Hrun | exact W].
  Qed.

  (* C14_run_answered: the handler answers by itself *)
  Theorem chain_answered x d fuel :
    (forall st a, vals st !! 32%positive = None -> exec nodeI st [(31%positive, a)] = OOk [(32%positive, d)] None) ->
    exists s,
      execute exec Async (S (S (S fuel))) chain [(1%positive, VInt x)] =
        (RDone s, [[(10%positive, [(1%positive, VInt x)])]; [(15%positive, [(31%positive, fa x)])];
                   [(11%positive, [(31%positive, fa x); (32%positive, d)])]]) /\
      vals s !! 31%positive = Some (fa x) /\ vals s !! 32%positive = Some d /\ vals s !! 33%positive = Some (fb (fa x) d).
  Proof.
    intros HR. pose proof (start_of_inputs x) as HS.
    assert (H32 : vals (init_state [(1%positive, VInt x)]) !! 32%positive = None).
    { unfold init_state. cbn [apply_outputs fold_left fst snd]. rewrite vals_update_ne by discriminate. apply lookup_empty. }
    destruct (run_answered fa fb exec HA HB [(1%positive, VInt x)] x _ d [] fuel HS H32 HR) as (s3 & Hrun & W).
    exists s3. split; [exact Hrun | exact W].
  Qed.
End Whole.
