(* DeriveProofs.v — no derivation operation changes what any existing object shows (C07).
   Invariants: Wf (every container an object points to is allocated) and Coh (a filled cache holds what would be
   recomputed).  Every operation only appends to the heap or fills a cache; hence the view of every object that
   existed before is the same afterwards, for every history of operations. *)
From HG Require Import Base Rename Derive.
From Coq Require Import Lia.

Definition Wf (h : heap) : Prop :=
  (forall g, In g (h_graphs h) -> go_bound g < length (h_cells h)) /\
  (forall n, In n (h_nodes h) -> no_hist n < length (h_cells h) /\ forall m, no_map n = Some m -> m < length (h_cells h)).

Definition Coh (h : heap) : Prop :=
  (forall g c, In g (h_graphs h) -> go_cache g = Some c -> c = gdeps_now h g) /\
  (forall n d, In n (h_nodes h) -> no_cache n = Some d -> d = defaults_now h n).

(* h' extends h: everything h holds is still there, unchanged *)
Definition ext (h h' : heap) : Prop :=
  exists cs gs ns, h_cells h' = h_cells h ++ cs /\ h_graphs h' = h_graphs h ++ gs /\ h_nodes h' = h_nodes h ++ ns /\
    Forall (fun g => go_bound g < length (h_cells h') /\ go_cache g = None) gs /\
    Forall (fun n => no_hist n < length (h_cells h') /\ (forall m, no_map n = Some m -> m < length (h_cells h')) /\ no_cache n = None) ns.

Lemma nth_error_app_l {A} (l l' : list A) i : i < length l -> nth_error (l ++ l') i = nth_error l i.
Proof. intros H. apply nth_error_app1. exact H. Qed.

Section Ext.
  Variables h h' : heap.
  Hypothesis Hw : Wf h.
  Hypothesis He : ext h h'.

  Lemma ext_cell l : l < length (h_cells h) -> cell_at h' l = cell_at h l.
  Proof. destruct He as [cs [gs [ns [E _]]]]. unfold cell_at. rewrite E. apply nth_error_app_l. Qed.

  Lemma ext_obs_graph g : In g (h_graphs h) -> obs_graph h' g = obs_graph h g.
  Proof.
    intros Hg. destruct Hw as [W1 _]. specialize (W1 g Hg).
    unfold obs_graph, gdeps_now, dict_at. rewrite (ext_cell _ W1). reflexivity.
  Qed.

  Lemma ext_obs_node n : In n (h_nodes h) -> obs_node h' n = obs_node h n.
  Proof.
    intros Hn. destruct Hw as [_ W2]. destruct (W2 n Hn) as [A B].
    unfold obs_node, defaults_now, hist_at, list_at. rewrite (ext_cell _ A).
    destruct (no_map n) as [m|]; [rewrite (ext_cell _ (B m eq_refl))|]; reflexivity.
  Qed.

  Lemma ext_view_graph l : l < length (h_graphs h) -> view_graph h' l = view_graph h l.
  Proof.
    intros Hl. destruct He as [cs [gs [ns [_ [E _]]]]]. unfold view_graph. rewrite E, nth_error_app_l by exact Hl.
    destruct (nth_error (h_graphs h) l) as [g|] eqn:Eg; [|reflexivity]. simpl. f_equal. apply ext_obs_graph.
    eapply nth_error_In. exact Eg.
  Qed.

  Lemma ext_view_node l : l < length (h_nodes h) -> view_node h' l = view_node h l.
  Proof.
    intros Hl. destruct He as [cs [gs [ns [_ [_ [E _]]]]]]. unfold view_node. rewrite E, nth_error_app_l by exact Hl.
    destruct (nth_error (h_nodes h) l) as [n|] eqn:En; [|reflexivity]. simpl. f_equal. apply ext_obs_node.
    eapply nth_error_In. exact En.
  Qed.

  Lemma ext_Wf : Wf h'.
  Proof.
    destruct He as [cs [gs [ns [E1 [E2 [E3 [F1 F2]]]]]]]. destruct Hw as [W1 W2]. split.
    - intros g Hg. rewrite E2 in Hg. apply in_app_or in Hg. destruct Hg as [Hg|Hg].
      + specialize (W1 g Hg). rewrite E1, app_length. lia.
      + rewrite Forall_forall in F1. apply (F1 g Hg).
    - intros n Hn. rewrite E3 in Hn. apply in_app_or in Hn. destruct Hn as [Hn|Hn].
      + destruct (W2 n Hn) as [A B]. rewrite E1, app_length. split; [lia|]. intros m Hm. specialize (B m Hm). lia.
      + rewrite Forall_forall in F2. destruct (F2 n Hn) as [A [B _]]. split; assumption.
  Qed.

  Hypothesis Hc : Coh h.

  Lemma ext_Coh : Coh h'.
  Proof.
    destruct Hc as [C1 C2]. pose proof He as He'. destruct He' as [cs [gs [ns [E1 [E2 [E3 [F1 F2]]]]]]]. split.
    - intros g c Hg Hcache. rewrite E2 in Hg. apply in_app_or in Hg. destruct Hg as [Hg|Hg].
      + pose proof (ext_obs_graph g Hg) as Ho. unfold obs_graph in Ho. injection Ho as Hb _.
        rewrite (C1 g c Hg Hcache). unfold gdeps_now. rewrite Hb. reflexivity.
      + rewrite Forall_forall in F1. destruct (F1 g Hg) as [_ N]. rewrite N in Hcache. discriminate.
    - intros n d Hn Hcache. rewrite E3 in Hn. apply in_app_or in Hn. destruct Hn as [Hn|Hn].
      + pose proof (ext_obs_node n Hn) as Ho. unfold obs_node in Ho. injection Ho as Hh _.
        rewrite (C2 n d Hn Hcache). unfold defaults_now. rewrite Hh. reflexivity.
      + rewrite Forall_forall in F2. destruct (F2 n Hn) as [_ [_ N]]. rewrite N in Hcache. discriminate.
  Qed.
End Ext.

Lemma ext_refl h : ext h h.
Proof. exists [], [], []. rewrite !app_nil_r. repeat split; constructor. Qed.

(* every derivation extends the heap *)
Ltac ext_fin :=
  simpl; rewrite ?app_nil_r, <- ?app_assoc; simpl;
  repeat match goal with
         | |- _ /\ _ => split
         | |- Forall _ [] => constructor
         | |- Forall _ (_ :: _) => constructor
         | |- forall m, _ = Some m -> _ =>
             let m := fresh in let E := fresh in intros m E; simpl in E; first [discriminate E | inversion E; subst; clear E]
         | |- _ < _ => simpl; rewrite ?app_length; simpl; lia
         | |- _ = _ => reflexivity
         end.

Lemma derive_graph_ext h g bound sel eps h1 l :
  derive_graph h g bound sel eps = (h1, l) -> ext h h1 /\ l = length (h_graphs h).
Proof.
  unfold derive_graph, alloc_cell, alloc_graph. simpl. intros E. inversion E; subst. split; [|reflexivity].
  exists [CDict bound], [mk_gobj (go_nodes g) (length (h_cells h)) sel eps None], []. ext_fin.
Qed.

Lemma derive_node_ext h n nm ins outs hist map h1 l :
  derive_node h n nm ins outs hist map = (h1, l) -> ext h h1 /\ l = length (h_nodes h).
Proof.
  unfold derive_node, alloc_cell, alloc_node. destruct map as [m|]; simpl; intros E; inversion E; subst; (split; [|reflexivity]).
  - exists [CHist (fst hist) (snd hist); CList m],
           [], [mk_nobj nm ins outs (length (h_cells h)) (no_sig n) None (no_graph n) (Some (length (h_cells h ++ [CHist (fst hist) (snd hist)])))].
    ext_fin.
  - exists [CHist (fst hist) (snd hist)], [], [mk_nobj nm ins outs (length (h_cells h)) (no_sig n) None (no_graph n) None]. ext_fin.
Qed.

Lemma ext_trans h1 h2 h3 : ext h1 h2 -> ext h2 h3 -> ext h1 h3.
Proof.
  intros [c1 [g1 [n1 [A1 [A2 [A3 [A4 A5]]]]]]] [c2 [g2 [n2 [B1 [B2 [B3 [B4 B5]]]]]]].
  assert (L : length (h_cells h2) <= length (h_cells h3)) by (rewrite B1, app_length; lia).
  exists (c1 ++ c2), (g1 ++ g2), (n1 ++ n2).
  split; [rewrite B1, A1, app_assoc; reflexivity|]. split; [rewrite B2, A2, app_assoc; reflexivity|].
  split; [rewrite B3, A3, app_assoc; reflexivity|]. split.
  - apply Forall_app. split; [|exact B4]. eapply Forall_impl; [|exact A4]. intros g [P Q]. split; [lia|exact Q].
  - apply Forall_app. split; [|exact B5]. eapply Forall_impl; [|exact A5]. intros n [P [Q R]]. split; [lia|]. split; [|exact R].
    intros m Hm. specialize (Q m Hm). lia.
Qed.

Lemma alloc_cell_ext h c : ext h (fst (alloc_cell h c)).
Proof.
  exists [c], [], []. unfold alloc_cell. simpl. rewrite !app_nil_r. repeat split; constructor.
Qed.

Definition is_touch (o : op) : bool := match o with OTouchG _ | OTouchN _ => true | _ => false end.

Lemma step_ext h o h' r : is_touch o = false -> step h o = Some (h', r) -> ext h h'.
Proof.
  intros Ht Hs. destruct o; try discriminate; unfold step in Hs.
  - (* ONode *) simpl in Hs. inversion Hs; subst. exists [CHist [] []], [], [mk_nobj nm ins outs (length (h_cells h)) sig None None None].
    ext_fin.
  - (* OGraph *) simpl in Hs. inversion Hs; subst. exists [CDict []], [mk_gobj ns (length (h_cells h)) None None None], [].
    ext_fin.
  - (* OBind *) destruct (nth_error (h_graphs h) g) as [go|]; [|discriminate].
    pose proof (alloc_cell_ext h (CDict (dict_at h (go_bound go)))) as E0.
    destruct (alloc_cell h (CDict (dict_at h (go_bound go)))) as [h1 l1]. simpl in E0. cbv beta iota zeta in Hs.
    destruct (derive_graph h1 go _ _ _) as [h2 l] eqn:E. inversion Hs; subst.
    apply derive_graph_ext in E. destruct E as [E _]. eapply ext_trans; [exact E0|exact E].
  - (* OUnbind *) destruct (nth_error (h_graphs h) g) as [go|]; [|discriminate].
    pose proof (alloc_cell_ext h (CDict (dict_at h (go_bound go)))) as E0.
    destruct (alloc_cell h (CDict (dict_at h (go_bound go)))) as [h1 l1]. simpl in E0. cbv beta iota zeta in Hs.
    destruct (derive_graph h1 go _ _ _) as [h2 l] eqn:E. inversion Hs; subst.
    apply derive_graph_ext in E. destruct E as [E _]. eapply ext_trans; [exact E0|exact E].
  - (* OSelect *) destruct (nth_error (h_graphs h) g) as [go|]; [|discriminate].
    destruct (derive_graph _ go _ _ _) as [h2 l] eqn:E. inversion Hs; subst. apply derive_graph_ext in E. apply E.
  - (* OEntry *) destruct (nth_error (h_graphs h) g) as [go|]; [|discriminate].
    destruct (derive_graph _ go _ _ _) as [h2 l] eqn:E. inversion Hs; subst. apply derive_graph_ext in E. apply E.
  - (* OAddNodes *) destruct (nth_error (h_graphs h) g) as [go|]; [|discriminate]. destruct ns as [|n0 ns'].
    + inversion Hs; subst. apply ext_refl.
    + pose proof (alloc_cell_ext h (CDict [])) as E0.
      destruct (alloc_cell h (CDict [])) as [h1 l1]. simpl in E0. cbv beta iota zeta in Hs.
      destruct (derive_graph h1 _ _ None None) as [h2 l2] eqn:E2.
      apply derive_graph_ext in E2. destruct E2 as [E2 _].
      destruct (go_sel go) as [s|].
      * destruct (derive_graph h2 _ _ (Some s) None) as [h3 l3] eqn:E3. inversion Hs; subst.
        apply derive_graph_ext in E3. destruct E3 as [E3 _]. eapply ext_trans; [exact E0|]. eapply ext_trans; [exact E2|exact E3].
      * inversion Hs; subst. eapply ext_trans; [exact E0|exact E2].
  - (* OAsNode *) destruct (nth_error (h_graphs h) g) as [go|]; [|discriminate]. simpl in Hs. inversion Hs; subst.
    exists [CHist [] []], [], [mk_nobj nm ins outs (length (h_cells h)) [] None (Some g) None].
    ext_fin.
  - (* OWithName *) destruct (nth_error (h_nodes h) n) as [no|]; [|discriminate].
    destruct (derive_node _ no _ _ _ _ _) as [h1 l] eqn:E. inversion Hs; subst. apply derive_node_ext in E. apply E.
  - (* OWithInputs *) destruct (nth_error (h_nodes h) n) as [no|]; [|discriminate].
    destruct (hist_at h (no_hist no)) as [ha hb]. destruct b as [|kv b'].
    + destruct (derive_node _ no _ _ _ _ _) as [h1 l] eqn:E. inversion Hs; subst. apply derive_node_ext in E. apply E.
    + destruct (apply_batch _ _) as [new|]; [|discriminate].
      destruct (derive_node _ no _ _ _ _ _) as [h1 l] eqn:E. inversion Hs; subst. apply derive_node_ext in E. apply E.
  - (* OWithOutputs *) destruct (nth_error (h_nodes h) n) as [no|]; [|discriminate].
    destruct (hist_at h (no_hist no)) as [ha hb]. destruct b as [|kv b'].
    + destruct (derive_node _ no _ _ _ _ _) as [h1 l] eqn:E. inversion Hs; subst. apply derive_node_ext in E. apply E.
    + destruct (apply_batch _ _) as [new|]; [|discriminate].
      destruct (derive_node _ no _ _ _ _ _) as [h1 l] eqn:E. inversion Hs; subst. apply derive_node_ext in E. apply E.
  - (* OMapOver *) destruct (nth_error (h_nodes h) n) as [no|]; [|discriminate].
    destruct (derive_node _ no _ _ _ _ _) as [h1 l] eqn:E. inversion Hs; subst. apply derive_node_ext in E. apply E.
Qed.

(* ---------------- cache fills ---------------- *)

Lemma set_nth_length {A} (l : list A) i x : length (set_nth l i x) = length l.
Proof. revert i. induction l as [|y l IH]; intros [|i]; simpl; try reflexivity. rewrite IH. reflexivity. Qed.

Lemma nth_error_set_nth_eq {A} (l : list A) i x y : nth_error l i = Some y -> nth_error (set_nth l i x) i = Some x.
Proof. revert i. induction l as [|z l IH]; intros [|i]; simpl; try discriminate; auto. Qed.

Lemma nth_error_set_nth_ne {A} (l : list A) i j x : i <> j -> nth_error (set_nth l i x) j = nth_error l j.
Proof. revert i j. induction l as [|z l IH]; intros [|i] [|j] H; simpl; try reflexivity; try congruence. apply IH. congruence. Qed.

Lemma In_set_nth {A} (l : list A) i x y : In y (set_nth l i x) -> y = x \/ In y l.
Proof.
  revert i. induction l as [|z l IH]; intros [|i]; simpl; auto.
  - intros [H|H]; auto.
  - intros [H|H]; auto. destruct (IH i H); auto.
Qed.

Record stable (h h' : heap) : Prop := mk_stable {
  st_wf : Wf h';
  st_coh : Coh h';
  st_glen : length (h_graphs h) <= length (h_graphs h');
  st_nlen : length (h_nodes h) <= length (h_nodes h');
  st_graphs : forall l, l < length (h_graphs h) -> view_graph h' l = view_graph h l;
  st_nodes : forall l, l < length (h_nodes h) -> view_node h' l = view_node h l }.

Lemma ext_stable h h' : Wf h -> Coh h -> ext h h' -> stable h h'.
Proof.
  intros Hw Hc He. constructor.
  - apply (ext_Wf h h' Hw He).
  - apply (ext_Coh h h' Hw He Hc).
  - destruct He as [cs [gs [ns [_ [E _]]]]]. rewrite E, app_length. lia.
  - destruct He as [cs [gs [ns [_ [_ [E _]]]]]]. rewrite E, app_length. lia.
  - intros l Hl. apply (ext_view_graph h h' Hw He l Hl).
  - intros l Hl. apply (ext_view_node h h' Hw He l Hl).
Qed.

Lemma stable_refl h : Wf h -> Coh h -> stable h h.
Proof. intros Hw Hc. apply ext_stable; [exact Hw|exact Hc|apply ext_refl]. Qed.

Lemma touch_graph_stable h g go :
  Wf h -> Coh h -> nth_error (h_graphs h) g = Some go -> go_cache go = None ->
  stable h (set_graph h g (mk_gobj (go_nodes go) (go_bound go) (go_sel go) (go_eps go) (Some (gdeps_now h go)))).
Proof.
  intros [W1 W2] [C1 C2] Hg Hn. set (go' := mk_gobj _ _ _ _ _). set (h' := set_graph h g go').
  assert (Hcells : h_cells h' = h_cells h) by reflexivity.
  assert (Hdeps : forall x, gdeps_now h' x = gdeps_now h x) by (intros x; reflexivity).
  assert (Hobs : forall x, obs_graph h' x = obs_graph h x) by (intros x; reflexivity).
  constructor.
  - split; [|exact W2]. intros x Hx. apply In_set_nth in Hx. destruct Hx as [->|Hx]; [|apply W1, Hx].
    simpl. apply W1. eapply nth_error_In. exact Hg.
  - split; [|exact C2]. intros x c Hx Hcache. apply In_set_nth in Hx. destruct Hx as [->|Hx]; [|apply C1; assumption].
    simpl in Hcache. inversion Hcache. reflexivity.
  - simpl. rewrite set_nth_length. lia.
  - simpl. lia.
  - intros l Hl. unfold view_graph. simpl. destruct (Nat.eq_dec g l) as [<-|Hne].
    + rewrite (nth_error_set_nth_eq _ _ _ _ Hg), Hg. simpl. f_equal. unfold obs_graph. simpl. rewrite Hn. reflexivity.
    + rewrite (nth_error_set_nth_ne _ _ _ _ Hne). reflexivity.
  - intros l Hl. reflexivity.
Qed.

Lemma touch_node_stable h n no :
  Wf h -> Coh h -> nth_error (h_nodes h) n = Some no -> no_cache no = None ->
  stable h (set_node h n (mk_nobj (no_name no) (no_inputs no) (no_outputs no) (no_hist no) (no_sig no) (Some (defaults_now h no))
                                  (no_graph no) (no_map no))).
Proof.
  intros [W1 W2] [C1 C2] Hg Hn. set (no' := mk_nobj _ _ _ _ _ _ _ _). set (h' := set_node h n no').
  constructor.
  - split; [exact W1|]. intros x Hx. apply In_set_nth in Hx. destruct Hx as [->|Hx]; [|apply W2, Hx].
    simpl. apply W2. eapply nth_error_In. exact Hg.
  - split; [exact C1|]. intros x d Hx Hcache. apply In_set_nth in Hx. destruct Hx as [->|Hx]; [|apply C2; assumption].
    simpl in Hcache. inversion Hcache. reflexivity.
  - simpl. lia.
  - simpl. rewrite set_nth_length. lia.
  - intros l Hl. reflexivity.
  - intros l Hl. unfold view_node. simpl. destruct (Nat.eq_dec n l) as [<-|Hne].
    + rewrite (nth_error_set_nth_eq _ _ _ _ Hg), Hg. simpl. f_equal. unfold obs_node. simpl. rewrite Hn. reflexivity.
    + rewrite (nth_error_set_nth_ne _ _ _ _ Hne). reflexivity.
Qed.

(* ---------------- one operation, then any history ---------------- *)

Theorem step_stable h o h' r : Wf h -> Coh h -> step h o = Some (h', r) -> stable h h'.
Proof.
  intros Hw Hc Hs. destruct (is_touch o) eqn:Ht.
  - destruct o; try discriminate; simpl in Hs.
    + destruct (nth_error (h_graphs h) g) as [go|] eqn:Eg; [|discriminate]. destruct (go_cache go) eqn:Ec.
      * inversion Hs; subst. apply stable_refl; assumption.
      * inversion Hs; subst. apply touch_graph_stable; assumption.
    + destruct (nth_error (h_nodes h) n) as [no|] eqn:En; [|discriminate]. destruct (no_cache no) eqn:Ec.
      * inversion Hs; subst. apply stable_refl; assumption.
      * inversion Hs; subst. apply touch_node_stable; assumption.
  - apply ext_stable; [exact Hw|exact Hc|]. eapply step_ext; [exact Ht|exact Hs].
Qed.

Lemma stable_trans h1 h2 h3 : stable h1 h2 -> stable h2 h3 -> stable h1 h3.
Proof.
  intros [A1 A2 A3 A4 A5 A6] [B1 B2 B3 B4 B5 B6]. constructor; try assumption; try lia.
  - intros l Hl. rewrite B5 by lia. apply A5, Hl.
  - intros l Hl. rewrite B6 by lia. apply A6, Hl.
Qed.

Theorem run_ops_stable ops : forall h, Wf h -> Coh h -> stable h (run_ops h ops).
Proof.
  induction ops as [|o ops IH]; intros h Hw Hc; simpl; [apply stable_refl; assumption|].
  destruct (step h o) as [[h' r]|] eqn:Hs; [|apply IH; assumption].
  pose proof (step_stable h o h' r Hw Hc Hs) as S. eapply stable_trans; [exact S|]. apply IH; [apply (st_wf _ _ S)|apply (st_coh _ _ S)].
Qed.

Lemma Wf_empty : Wf empty_heap.
Proof. split; intros x []. Qed.
Lemma Coh_empty : Coh empty_heap.
Proof. split; intros x y []. Qed.

(* every object ever created, at any point of any history, shows the same view at every later point *)
Theorem views_never_change ops1 ops2 :
  let h1 := run_ops empty_heap ops1 in
  let h2 := run_ops h1 ops2 in
  (forall l, l < length (h_graphs h1) -> view_graph h2 l = view_graph h1 l) /\
  (forall l, l < length (h_nodes h1) -> view_node h2 l = view_node h1 l).
Proof.
  cbv zeta. pose proof (run_ops_stable ops1 empty_heap Wf_empty Coh_empty) as S1.
  pose proof (run_ops_stable ops2 _ (st_wf _ _ S1) (st_coh _ _ S1)) as S2.
  split; [apply (st_graphs _ _ S2)|apply (st_nodes _ _ S2)].
Qed.

(* a derivation returns a NEW object (add_nodes() with no nodes documents `return self`) *)
Definition returns_graph (o : op) : bool :=
  match o with OGraph _ | OBind _ _ | OUnbind _ _ | OSelect _ _ | OEntry _ _ | OAddNodes _ _ => true | _ => false end.
Definition is_noop_add (o : op) : bool := match o with OAddNodes _ [] => true | _ => false end.

Theorem result_is_new h o h' l : is_touch o = false -> is_noop_add o = false -> step h o = Some (h', Some l) ->
  if returns_graph o then length (h_graphs h) <= l /\ l < length (h_graphs h')
  else length (h_nodes h) <= l /\ l < length (h_nodes h').
Proof.
  intros Ht Hn Hs. destruct o; try discriminate; unfold step in Hs; simpl returns_graph; cbv iota.
  - simpl in Hs. inversion Hs; subst. simpl. rewrite app_length. simpl. lia.
  - simpl in Hs. inversion Hs; subst. simpl. rewrite app_length. simpl. lia.
  - destruct (nth_error (h_graphs h) g) as [go|]; [|discriminate].
    destruct (alloc_cell h _) as [h1 l1] eqn:E1. cbv beta iota zeta in Hs. destruct (derive_graph h1 go _ _ _) as [h2 l2] eqn:E. inversion Hs; subst.
    unfold alloc_cell in E1. inversion E1; subst. unfold derive_graph, alloc_cell, alloc_graph in E. simpl in E. inversion E; subst. simpl.
    rewrite app_length. simpl. lia.
  - destruct (nth_error (h_graphs h) g) as [go|]; [|discriminate].
    destruct (alloc_cell h _) as [h1 l1] eqn:E1. cbv beta iota zeta in Hs. destruct (derive_graph h1 go _ _ _) as [h2 l2] eqn:E. inversion Hs; subst.
    unfold alloc_cell in E1. inversion E1; subst. unfold derive_graph, alloc_cell, alloc_graph in E. simpl in E. inversion E; subst. simpl.
    rewrite app_length. simpl. lia.
  - destruct (nth_error (h_graphs h) g) as [go|]; [|discriminate]. destruct (derive_graph h go _ _ _) as [h2 l2] eqn:E. inversion Hs; subst.
    unfold derive_graph, alloc_cell, alloc_graph in E. simpl in E. inversion E; subst. simpl. rewrite app_length. simpl. lia.
  - destruct (nth_error (h_graphs h) g) as [go|]; [|discriminate]. destruct (derive_graph h go _ _ _) as [h2 l2] eqn:E. inversion Hs; subst.
    unfold derive_graph, alloc_cell, alloc_graph in E. simpl in E. inversion E; subst. simpl. rewrite app_length. simpl. lia.
  - destruct (nth_error (h_graphs h) g) as [go|]; [|discriminate]. destruct ns as [|n0 ns']; [discriminate|].
    destruct (alloc_cell h _) as [h1 l1] eqn:E1. cbv beta iota zeta in Hs. unfold alloc_cell in E1. inversion E1; subst.
    destruct (derive_graph _ _ _ None None) as [h2 l2] eqn:E2. unfold derive_graph, alloc_cell, alloc_graph in E2. simpl in E2. inversion E2; subst.
    destruct (go_sel go) as [s|].
    + destruct (derive_graph _ _ _ (Some s) None) as [h3 l3] eqn:E3. unfold derive_graph, alloc_cell, alloc_graph in E3. simpl in E3.
      inversion E3; subst. inversion Hs; subst. simpl. rewrite !app_length. simpl. lia.
    + inversion Hs; subst. simpl. rewrite app_length. simpl. lia.
  - destruct (nth_error (h_graphs h) g) as [go|]; [|discriminate]. simpl in Hs. inversion Hs; subst. simpl. rewrite app_length. simpl. lia.
  - destruct (nth_error (h_nodes h) n) as [no|]; [|discriminate]. destruct (derive_node h no _ _ _ _ _) as [h1 l1] eqn:E. inversion Hs; subst.
    pose proof (derive_node_ext _ _ _ _ _ _ _ _ _ E) as [[cs [gs [ns [_ [_ [E3 _]]]]]] ->].
    unfold derive_node, alloc_cell, alloc_node in E. destruct (map_of h no); simpl in E; inversion E; subst; simpl; rewrite app_length; simpl; lia.
  - destruct (nth_error (h_nodes h) n) as [no|]; [|discriminate]. destruct (hist_at h (no_hist no)) as [ha hb]. destruct b as [|kv b'].
    + destruct (derive_node h no _ _ _ _ _) as [h1 l1] eqn:E. inversion Hs; subst.
      unfold derive_node, alloc_cell, alloc_node in E. destruct (map_of h no); simpl in E; inversion E; subst; simpl; rewrite app_length; simpl; lia.
    + destruct (apply_batch _ _) as [new|]; [|discriminate]. destruct (derive_node h no _ _ _ _ _) as [h1 l1] eqn:E. inversion Hs; subst.
      unfold derive_node, alloc_cell, alloc_node in E. destruct (option_map _ (map_of h no)); simpl in E; inversion E; subst; simpl; rewrite app_length; simpl; lia.
  - destruct (nth_error (h_nodes h) n) as [no|]; [|discriminate]. destruct (hist_at h (no_hist no)) as [ha hb]. destruct b as [|kv b'].
    + destruct (derive_node h no _ _ _ _ _) as [h1 l1] eqn:E. inversion Hs; subst.
      unfold derive_node, alloc_cell, alloc_node in E. destruct (map_of h no); simpl in E; inversion E; subst; simpl; rewrite app_length; simpl; lia.
    + destruct (apply_batch _ _) as [new|]; [|discriminate]. destruct (derive_node h no _ _ _ _ _) as [h1 l1] eqn:E. inversion Hs; subst.
      unfold derive_node, alloc_cell, alloc_node in E. destruct (map_of h no); simpl in E; inversion E; subst; simpl; rewrite app_length; simpl; lia.
  - destruct (nth_error (h_nodes h) n) as [no|]; [|discriminate]. destruct (derive_node h no _ _ _ _ _) as [h1 l1] eqn:E. inversion Hs; subst.
    unfold derive_node, alloc_cell, alloc_node in E. simpl in E. inversion E; subst. simpl. rewrite app_length. simpl. lia.
Qed.
