(* CheckLib.v — boolean comparison helpers used by the generated cases files
   (harness/common.py CoqBatch).  Executable only; nothing here is a theorem. *)
From HG Require Import Base.

Fixpoint names_eqb (a b : list name) : bool :=
  match a, b with
  | [], [] => true
  | x :: a', y :: b' => Pos.eqb x y && names_eqb a' b'
  | _, _ => false
  end.

Definition opt_eqb {A} (eqb : A -> A -> bool) (a b : option A) : bool :=
  match a, b with
  | Some x, Some y => eqb x y
  | None, None => true
  | _, _ => false
  end.

Fixpoint list_eqb {A B} (eqb : A -> B -> bool) (a : list A) (b : list B) : bool :=
  match a, b with
  | [], [] => true
  | x :: a', y :: b' => eqb x y && list_eqb eqb a' b'
  | _, _ => false
  end.

Definition pair_eqb {A B} (ea : A -> A -> bool) (eb : B -> B -> bool) (a b : A * B) : bool :=
  ea (fst a) (fst b) && eb (snd a) (snd b).

(* dictionaries compared as finite maps (order-insensitive), keys assumed unique *)
Definition dict_eqb {V} (eqb : V -> V -> bool) (a b : dict V) : bool :=
  Nat.eqb (length a) (length b) &&
  forallb (fun kv => match dget b (fst kv) with Some v => eqb (snd kv) v | None => false end) a &&
  nodup_b (dkeys a) && nodup_b (dkeys b).

(* dictionaries compared as ordered association lists *)
Definition odict_eqb {V} (eqb : V -> V -> bool) (a b : dict V) : bool :=
  list_eqb (pair_eqb Pos.eqb eqb) a b.

Definition dictZ_eqb := @dict_eqb Z Z.eqb.
Definition dictN_eqb := @dict_eqb name Pos.eqb.
Definition dictV_eqb := @dict_eqb val val_eqb.
Definition onames_eqb := opt_eqb names_eqb.

(* set-like comparison of name lists *)
Definition nameset_eqb (a b : list name) : bool :=
  forallb (fun x => pos_in x b) a && forallb (fun x => pos_in x a) b.

Definition entry_eqb (a b : list (name * list name)) : bool :=
  Nat.eqb (length a) (length b) &&
  forallb (fun kv => match dget b (fst kv) with Some v => nameset_eqb (snd kv) v | None => false end) a.
