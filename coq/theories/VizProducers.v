(* VizProducers.v — the edges the flattened graph shows: a data edge from EVERY producer of a value.
   Restates graph/core.py Graph._edges_from_every_producer (used by to_flat_graph / _add_nested_edges): Graph.nx_graph draws
   a name produced by several nodes (exclusive branches, ordered writers) from its FIRST producer only; the flattened view
   adds, for every further producer s of a parameter p of a consumer c, the data edge s -> c (a new edge, or p appended to
   the value names of an existing data edge s -> c; a control / ordering edge between the pair is left as it is).
   `complete_forest` applies this at every nesting level.  Name-matched graphs only (explicit edges are taken as declared).
   Plain stdlib. *)
From HG Require Import Base Viz.

Definition producers_of (ts : list tnode) (p : name) : list name :=
  map t_name (filter (fun t => pos_in p (t_outs t)) ts).

(* (further producer, consumer, parameter), in the order the implementation visits them *)
Definition further (ts : list tnode) : list (name * name * name) :=
  flat_map (fun c => flat_map (fun p => map (fun s => (s, t_name c, p)) (tl (producers_of ts p))) (t_ins c)) ts.

Fixpoint add_edge (es : list tedge) (s c p : name) : list tedge :=
  match es with
  | [] => [(s, c, KData, [p])]
  | ((s', c', k, ns) as e) :: es' =>
      if Pos.eqb s s' && Pos.eqb c c'
      then (match k with KData => if pos_in p ns then e else (s', c', k, ns ++ [p]) | _ => e end) :: es'
      else e :: add_edge es' s c p
  end.

Definition complete_level (ts : list tnode) (es : list tedge) : list tedge :=
  fold_left (fun acc t => match t with (s, c, p) => add_edge acc s c p end) (further ts) es.

Fixpoint complete_tree (t : tnode) : tnode :=
  match t with
  | TN nm isg ins outs inm outm hend ch es =>
      TN nm isg ins outs inm outm hend
         ((fix go (l : list tnode) : list tnode := match l with [] => [] | c :: l' => complete_tree c :: go l' end) ch)
         (complete_level ch es)
  end.
Definition complete_forest (ts : list tnode) : list tnode := map complete_tree ts.

Definition pair_is (e : tedge) (s c : name) : bool := match e with (s', c', _, _) => Pos.eqb s s' && Pos.eqb c c' end.
Definition has_pair (es : list tedge) (s c : name) : bool := existsb (fun e => pair_is e s c) es.

(* ------------------------------------------------------------------ proofs *)
Lemma has_pair_cons e es a b : has_pair (e :: es) a b = pair_is e a b || has_pair es a b.
Proof. reflexivity. Qed.

(* the edge that add_edge leaves at the head when the pair matches *)
Definition touched (s' c' : name) (k : ekind) (ns : list name) (p : name) : tedge :=
  match k with KData => if pos_in p ns then (s', c', k, ns) else (s', c', k, ns ++ [p]) | _ => (s', c', k, ns) end.
Lemma touched_pair s' c' k ns p a b : pair_is (touched s' c' k ns p) a b = pair_is (s', c', k, ns) a b.
Proof. unfold touched. destruct k; [destruct (pos_in p ns)|..]; reflexivity. Qed.
Lemma add_edge_cons s' c' k ns es s c p :
  add_edge ((s', c', k, ns) :: es) s c p =
  if Pos.eqb s s' && Pos.eqb c c' then touched s' c' k ns p :: es else (s', c', k, ns) :: add_edge es s c p.
Proof. cbn [add_edge]. unfold touched. destruct (Pos.eqb s s' && Pos.eqb c c'); [|reflexivity]. destruct k; [destruct (pos_in p ns)|..]; reflexivity. Qed.

Lemma add_edge_has es s c p : has_pair (add_edge es s c p) s c = true.
Proof.
  induction es as [|[[[s' c'] k] ns] es IH].
  - cbn. rewrite !Pos.eqb_refl. reflexivity.
  - rewrite add_edge_cons. destruct (Pos.eqb s s' && Pos.eqb c c') eqn:E; rewrite has_pair_cons.
    + rewrite touched_pair. cbn [pair_is]. rewrite E. reflexivity.
    + rewrite IH. apply Bool.orb_true_r.
Qed.

Lemma add_edge_mono es s c p a b : has_pair es a b = true -> has_pair (add_edge es s c p) a b = true.
Proof.
  induction es as [|[[[s' c'] k] ns] es IH]; [discriminate|].
  rewrite add_edge_cons, has_pair_cons. intros H. apply Bool.orb_true_iff in H.
  destruct (Pos.eqb s s' && Pos.eqb c c'); rewrite has_pair_cons.
  - rewrite touched_pair. apply Bool.orb_true_iff. exact H.
  - apply Bool.orb_true_iff. destruct H as [H|H]; [left; exact H | right; apply IH; exact H].
Qed.

(* nothing but requested pairs is added *)
Lemma add_edge_only es s c p a b :
  has_pair (add_edge es s c p) a b = true -> has_pair es a b = true \/ (a = s /\ b = c).
Proof.
  induction es as [|[[[s' c'] k] ns] es IH].
  - cbn. rewrite Bool.orb_false_r. intros H. apply Bool.andb_true_iff in H. destruct H as [H1 H2].
    apply Pos.eqb_eq in H1, H2. right. split; congruence.
  - rewrite add_edge_cons. destruct (Pos.eqb s s' && Pos.eqb c c'); rewrite !has_pair_cons.
    + rewrite touched_pair. intros H. left. exact H.
    + intros H. apply Bool.orb_true_iff in H. destruct H as [H|H].
      * left. rewrite H. reflexivity.
      * destruct (IH H) as [H'|H']; [left; rewrite H'; apply Bool.orb_true_r | right; exact H'].
Qed.

Lemma fold_mono (l : list (name * name * name)) es a b :
  has_pair es a b = true ->
  has_pair (fold_left (fun acc t => match t with (s, c, p) => add_edge acc s c p end) l es) a b = true.
Proof.
  revert es. induction l as [|[[s c] p] l IH]; intros es H; cbn [fold_left]; [exact H|].
  apply IH. apply add_edge_mono. exact H.
Qed.

Lemma fold_has (l : list (name * name * name)) es s c p :
  In (s, c, p) l ->
  has_pair (fold_left (fun acc t => match t with (s, c, p) => add_edge acc s c p end) l es) s c = true.
Proof.
  revert es. induction l as [|[[s' c'] p'] l IH]; intros es Hin; [destruct Hin|].
  cbn [fold_left]. destruct Hin as [E|Hin].
  - inversion E; subst. apply fold_mono. apply add_edge_has.
  - apply IH. exact Hin.
Qed.

Lemma fold_only (l : list (name * name * name)) es a b :
  has_pair (fold_left (fun acc t => match t with (s, c, p) => add_edge acc s c p end) l es) a b = true ->
  has_pair es a b = true \/ exists p, In (a, b, p) l.
Proof.
  revert es. induction l as [|[[s c] p] l IH]; intros es H; cbn [fold_left] in H; [left; exact H|].
  destruct (IH _ H) as [H'|[q Hq]].
  - destruct (add_edge_only _ _ _ _ _ _ H') as [H''|[-> ->]]; [left; exact H''|]. right. exists p. left. reflexivity.
  - right. exists q. right. exact Hq.
Qed.

Lemma in_further ts s c p :
  In (s, c, p) (further ts) <->
  exists t, In t ts /\ t_name t = c /\ In p (t_ins t) /\ In s (tl (producers_of ts p)).
Proof.
  unfold further. rewrite in_flat_map. split.
  - intros (t & Ht & H). apply in_flat_map in H. destruct H as (q & Hq & H). apply in_map_iff in H.
    destruct H as (s0 & E & Hs). inversion E; subst. exists t. auto.
  - intros (t & Ht & <- & Hp & Hs). exists t. split; [exact Ht|]. apply in_flat_map. exists p. split; [exact Hp|].
    apply in_map_iff. exists s. auto.
Qed.

(* COMPLETENESS: once the first producer's edge is there (Graph.nx_graph), every producer of every consumed name has an
   edge to the consumer *)
Theorem complete_every_producer ts es c p s :
  In c ts -> In p (t_ins c) -> In s (producers_of ts p) ->
  (forall s0 rest, producers_of ts p = s0 :: rest -> has_pair es s0 (t_name c) = true) ->
  has_pair (complete_level ts es) s (t_name c) = true.
Proof.
  intros Hc Hp Hs Hfirst. unfold complete_level.
  destruct (producers_of ts p) as [|s0 rest] eqn:E; [destruct Hs|].
  destruct Hs as [<- | Hs].
  - apply fold_mono. apply (Hfirst s0 rest). reflexivity.
  - apply fold_has with (p := p). apply in_further. exists c. rewrite E. cbn [tl]. auto.
Qed.

(* SOUNDNESS: an added pair is a producer / consumer name match of this level *)
Theorem complete_only_matches ts es a b :
  has_pair (complete_level ts es) a b = true ->
  has_pair es a b = true \/
  exists t p, In t ts /\ t_name t = b /\ In p (t_ins t) /\ In a (producers_of ts p).
Proof.
  intros H. unfold complete_level in H. destruct (fold_only _ _ _ _ H) as [H'|[p Hp]]; [left; exact H'|].
  right. apply in_further in Hp. destruct Hp as (t & Ht & Hn & Hin & Hs). exists t, p. repeat split; try assumption.
  destruct (producers_of ts p); [destruct Hs | right; exact Hs].
Qed.

(* the nested structure is untouched: same nodes, names, interfaces at every level *)
Lemma complete_tree_name t : t_name (complete_tree t) = t_name t.
Proof. destruct t; reflexivity. Qed.
Lemma complete_tree_ins t : t_ins (complete_tree t) = t_ins t.
Proof. destruct t; reflexivity. Qed.
Lemma complete_tree_outs t : t_outs (complete_tree t) = t_outs t.
Proof. destruct t; reflexivity. Qed.
Lemma complete_tree_ch t : t_ch (complete_tree t) = complete_forest (t_ch t).
Proof.
  destruct t as [nm isg ins outs inm outm hend ch es]. cbn [complete_tree t_ch]. unfold complete_forest.
  induction ch as [|c ch IH]; [reflexivity|]. cbn [map]. rewrite <- IH. reflexivity.
Qed.
Lemma complete_tree_es t : t_es (complete_tree t) = complete_level (t_ch t) (t_es t).
Proof. destruct t; reflexivity. Qed.
