(* Provenance.v — C17 (and C11): in every state a run reaches, every value that is present was supplied by the caller or
   written by a node that has completed an execution.  Hence a waiter that is scheduled really runs AFTER a producer of
   each signal it waits for has completed (C17_after, strengthened), for every graph: gates, cycles, both runners. *)
From HG Require Import Base Engine EngineProofs NodeOrder.
From stdpp Require Import gmap.

Section Provenance.
  Variable exec : node -> state -> dict val -> outcome.
  Variable g : graph.
  Variable pv : dict val.
  (* a node function returns values for its own declared outputs only *)
  Hypothesis Hkeys : forall n s ins outs dec, exec n s ins = OOk outs dec ->
      forall k, In k (dkeys outs) -> In k (n_outputs n).

  Local Notation app := (apply_success exec g).

  (* every present value was provided, or is an output of a node of the graph that has completed an execution *)
  Definition Prov (st : state) : Prop :=
    forall x, vals st !! x <> None ->
      dmem pv x = true \/ exists n, In n (g_nodes g) /\ In x (n_outputs n) /\ execs st !! n_name n <> None.

  Lemma apply_outputs_dom outs : forall st x,
    vals (apply_outputs st outs) !! x <> None -> vals st !! x <> None \/ In x (dkeys outs).
  Proof.
    induction outs as [|[k v] outs IH]; intros st x H; [left; exact H|].
    unfold apply_outputs in *. simpl in *. destruct (IH (update_value st k v) x H) as [H1|H1]; [|right; right; exact H1].
    destruct (Pos.eq_dec k x) as [->|Hne]; [right; left; reflexivity|].
    left. rewrite vals_update_ne in H1 by exact Hne. exact H1.
  Qed.

  Lemma app_dom snap a n x :
    vals (app snap pv a n) !! x <> None ->
    vals a !! x <> None \/ (In x (n_outputs n) /\ execs (app snap pv a n) !! n_name n <> None).
  Proof.
    unfold apply_success, run_one.
    destruct (collect_inputs g snap pv n (n_inputs n)) as [ins|]; simpl; [|auto].
    destruct (exec n snap ins) as [outs dec|e|p] eqn:Ee; simpl; auto.
    intros H. apply apply_outputs_dom in H as [H|H]; [left; exact H|].
    right. split; [eapply Hkeys; eauto|]. rewrite lookup_insert. discriminate.
  Qed.

  Lemma app_execs_mono snap a n y : execs a !! y <> None -> execs (app snap pv a n) !! y <> None.
  Proof.
    unfold apply_success. destruct (snd (run_one exec g snap pv n)); auto.
    simpl. rewrite execs_apply_outputs. intros H. destruct (Pos.eq_dec (n_name n) y) as [->|Hne].
    - rewrite lookup_insert. discriminate.
    - rewrite lookup_insert_ne by exact Hne. exact H.
  Qed.

  Lemma fold_app_execs_mono snap rd : forall a y, execs a !! y <> None -> execs (fold_left (app snap pv) rd a) !! y <> None.
  Proof.
    induction rd as [|n rd IH]; intros a y H; simpl; [exact H|]. apply IH. apply app_execs_mono. exact H.
  Qed.

  Lemma fold_app_dom snap rd : forall a x,
    (forall n, In n rd -> In n (g_nodes g)) ->
    vals (fold_left (app snap pv) rd a) !! x <> None ->
    vals a !! x <> None \/
    exists n, In n (g_nodes g) /\ In x (n_outputs n) /\ execs (fold_left (app snap pv) rd a) !! n_name n <> None.
  Proof.
    induction rd as [|n rd IH]; intros a x Hrd H; simpl in *; [left; exact H|].
    destruct (IH (app snap pv a n) x (fun m Hm => Hrd m (or_intror Hm)) H) as [H1|H1]; [|right; exact H1].
    apply app_dom in H1 as [H1|[Ho He]]; [left; exact H1|].
    right. exists n. split; [apply Hrd; left; reflexivity|]. split; [exact Ho|].
    apply fold_app_execs_mono. exact He.
  Qed.

  (* the state after a successful superstep, under either runner *)
  Lemma superstep_shape r snap rd b calls :
    superstep exec r g snap pv rd = (SOk b, calls) ->
    exists rd' pi, incl rd' rd /\ b = fold_left (app snap pv) rd' (write_decisions exec g snap pv pi snap).
  Proof.
    destruct r; simpl; intros H.
    - exists rd, rd. split; [apply incl_refl|].
      assert (Hall : Forall (step_ok exec g snap pv) rd) by (eapply (sync_all_ok exec pv); exact H).
      rewrite (superstep_sync_ok exec g snap pv rd snap [] Hall) in H. injection H as <- _. reflexivity.
    - unfold superstep_async in H.
      exists (isolate rd), (List.filter (fun n => pos_in (n_name n) (map n_name (isolate rd))) rd).
      split.
      + unfold isolate. destruct (List.filter is_interrupt rd) as [|i l] eqn:E; [apply incl_refl|].
        intros x [<-|[]]. assert (Hin : In i (List.filter is_interrupt rd)) by (rewrite E; left; reflexivity).
        apply filter_In in Hin as [Hin _]. exact Hin.
      + destruct (first_failure exec g snap pv (isolate rd)) as [[e|p]|]; try discriminate.
        injection H as <- _. reflexivity.
  Qed.

  Lemma Prov_same a b : same_data a b -> execs a = execs b -> Prov a -> Prov b.
  Proof. intros [E1 _] E2 H x Hx. rewrite <- E1 in Hx. rewrite <- E2. apply H. exact Hx. Qed.

  Lemma Prov_superstep r snap rd b calls :
    (forall n, In n rd -> In n (g_nodes g)) -> Prov snap ->
    superstep exec r g snap pv rd = (SOk b, calls) -> Prov b.
  Proof.
    intros Hrd HP Hs. destruct (superstep_shape r snap rd b calls Hs) as (rd' & pi & Hincl & ->).
    destruct (write_decisions_same exec g snap pv pi snap) as [Hsd Hex].
    set (acc := write_decisions exec g snap pv pi snap) in *.
    intros x Hx. apply fold_app_dom in Hx as [Hx|Hx]; [|right; exact Hx | intros n Hn; apply Hrd, Hincl, Hn].
    assert (HPacc : Prov acc) by (apply (Prov_same snap acc Hsd); [symmetry; exact Hex | exact HP]).
    destruct (HPacc x Hx) as [Hp|(n & Hn & Ho & He)]; [left; exact Hp|].
    right. exists n. repeat split; auto. apply fold_app_execs_mono. exact He.
  Qed.

  Lemma Prov_init : Prov (init_state pv).
  Proof.
    intros x Hx. left. unfold init_state in Hx. apply apply_outputs_dom in Hx as [Hx|Hx].
    - simpl in Hx. rewrite lookup_empty in Hx. congruence.
    - unfold dmem. destruct (dget pv x) eqn:E; [reflexivity|]. exfalso.
      apply in_map_iff in Hx as ([k v] & Ek & Hin). simpl in Ek. subst k.
      apply dget_None_notin in E. apply E. apply in_map_iff. exists (x, v). auto.
  Qed.

  Lemma Prov_steps r k a b : steps exec r g pv k a b -> Prov a -> Prov b.
  Proof.
    induction 1 as [a|k a b c calls Hne Hs _ IH]; intros Ha; [exact Ha|]. apply IH.
    eapply Prov_superstep; [| |exact Hs].
    - intros n Hn. apply ready_list_r0 in Hn. tauto.
    - destruct (ready_same g a) as [Hsd He]. apply (Prov_same a _ Hsd); [symmetry; exact He | exact Ha].
  Qed.

  (* C17_after (strong form): a scheduled waiter runs after a producer of each awaited signal has completed *)
  Theorem waiter_after_producer r k st W s :
    steps exec r g pv k (init_state pv) st ->
    In W (ready_list g st) -> In s (n_wait W) -> dmem pv s = false ->
    exists P, In P (g_nodes g) /\ In s (n_outputs P) /\ execs (ready_state g st) !! n_name P <> None.
  Proof.
    intros Hst HW Hs Hpv.
    pose proof (waiter_after g st W s HW Hs) as Hv.
    assert (HP : Prov (ready_state g st)).
    { destruct (ready_same g st) as [Hsd He]. apply (Prov_same st _ Hsd); [symmetry; exact He|].
      apply (Prov_steps r k _ _ Hst). apply Prov_init. }
    destruct (HP s Hv) as [Hp|H]; [congruence | exact H].
  Qed.

  (* ---------- the partial state of a FAILED step (C11) ---------- *)

  Lemma superstep_err_shape r snap rd e p calls :
    superstep exec r g snap pv rd = (SErr e p, calls) ->
    p = snap \/ exists rd' pi, incl rd' rd /\ p = fold_left (app snap pv) rd' (write_decisions exec g snap pv pi snap).
  Proof.
    destruct r; simpl; intros H.
    - apply superstep_sync_partial in H as (pre & n & post & -> & _ & [(ins & _ & ->)|(_ & _ & ->)]); [|left; reflexivity].
      right. exists pre, pre. split; [|reflexivity]. intros x Hx. apply in_or_app. left. exact Hx.
    - right. unfold superstep_async in H.
      exists (isolate rd), (List.filter (fun n => pos_in (n_name n) (map n_name (isolate rd))) rd). split.
      + unfold isolate. destruct (List.filter is_interrupt rd) as [|i l] eqn:E; [apply incl_refl|].
        intros x [<-|[]]. assert (Hin : In i (List.filter is_interrupt rd)) by (rewrite E; left; reflexivity).
        apply filter_In in Hin as [Hin _]. exact Hin.
      + destruct (first_failure exec g snap pv (isolate rd)) as [[e'|p']|]; try discriminate.
        injection H as _ <- _. reflexivity.
  Qed.

  (* every value of a FAILED result was provided or written by a node that COMPLETED an execution *)
  Theorem failed_state_prov r snap rd e p calls :
    (forall n, In n rd -> In n (g_nodes g)) -> Prov snap ->
    superstep exec r g snap pv rd = (SErr e p, calls) -> Prov p.
  Proof.
    intros Hrd HP Hs. destruct (superstep_err_shape r snap rd e p calls Hs) as [->|(rd' & pi & Hincl & ->)]; [exact HP|].
    destruct (write_decisions_same exec g snap pv pi snap) as [Hsd Hex].
    set (acc := write_decisions exec g snap pv pi snap) in *.
    intros x Hx. apply fold_app_dom in Hx as [Hx|Hx]; [|right; exact Hx | intros n Hn; apply Hrd, Hincl, Hn].
    assert (HPacc : Prov acc) by (apply (Prov_same snap acc Hsd); [symmetry; exact Hex | exact HP]).
    destruct (HPacc x Hx) as [Hp|(n & Hn & Ho & He)]; [left; exact Hp|].
    right. exists n. repeat split; auto. apply fold_app_execs_mono. exact He.
  Qed.

  (* an execution record appears only for a node whose executor returned normally *)
  Lemma app_execs_src snap a n y :
    execs (app snap pv a n) !! y <> None -> execs a !! y <> None \/ (n_name n = y /\ step_ok exec g snap pv n).
  Proof.
    unfold apply_success, step_ok. destruct (run_one exec g snap pv n) as [oi out] eqn:E. simpl.
    destruct out as [outs dec|e|p]; auto.
    simpl. rewrite execs_apply_outputs. destruct (Pos.eq_dec (n_name n) y) as [<-|Hne].
    - intros _. right. split; [reflexivity|]. unfold run_one in E.
      destruct (collect_inputs g snap pv n (n_inputs n)) as [ins|]; [|injection E as _ E; discriminate].
      injection E as <- E. exists ins, outs, dec. reflexivity.
    - rewrite lookup_insert_ne by exact Hne. auto.
  Qed.

  Lemma fold_app_execs_src snap rd : forall a y,
    execs (fold_left (app snap pv) rd a) !! y <> None ->
    execs a !! y <> None \/ exists n, In n rd /\ n_name n = y /\ step_ok exec g snap pv n.
  Proof.
    induction rd as [|n rd IH]; intros a y H; simpl in *; [left; exact H|].
    destruct (IH _ _ H) as [H1|(m & Hm & Hy & Hok)]; [|right; exists m; auto].
    apply app_execs_src in H1 as [H1|[Hy Hok]]; [left; exact H1 | right; exists n; auto].
  Qed.

  (* C11: an output name whose only producer is a node that has never completed - in particular the node that just failed
     on its first execution, and everything that can only be computed through it - is NOT in the FAILED result *)
  Theorem failed_no_output_of_unfinished r snap rd e p calls x :
    (forall n, In n rd -> In n (g_nodes g)) -> Prov snap ->
    superstep exec r g snap pv rd = (SErr e p, calls) ->
    dmem pv x = false ->
    (forall m, In m (g_nodes g) -> In x (n_outputs m) -> execs snap !! n_name m = None /\
        forall m', In m' rd -> n_name m' = n_name m -> ~ step_ok exec g snap pv m') ->
    vals p !! x = None.
  Proof.
    intros Hrd HP Hs Hpv Hprod. destruct (vals p !! x) eqn:Ev; [|reflexivity]. exfalso.
    assert (Hne : vals p !! x <> None) by congruence.
    destruct (failed_state_prov r snap rd e p calls Hrd HP Hs x Hne) as [Hp|(m & Hm & Ho & He)]; [congruence|].
    destruct (Hprod m Hm Ho) as [Hnone Hnok].
    destruct (superstep_err_shape r snap rd e p calls Hs) as [->|(rd' & pi & Hincl & ->)]; [congruence|].
    apply fold_app_execs_src in He as [He|(m' & Hm' & Hy & Hok)].
    - destruct (write_decisions_same exec g snap pv pi snap) as [_ Hex]. rewrite Hex in He. congruence.
    - apply (Hnok m' (Hincl m' Hm') Hy Hok).
  Qed.
End Provenance.
