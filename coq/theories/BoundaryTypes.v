(* BoundaryTypes.v — the types a node offers to strict_types validation, through nested-graph boundaries.
   Restates
     nodes/base.py        HyperNode.get_input_types / get_output_types  (one entry: the node's own annotation)
     nodes/graph_node.py  GraphNode.get_input_types   (every inner consumer of the parameter, in inner node order,
                          recursively; a parameter that is mapped over receives list[T]),
                          GraphNode.get_output_types  (every inner producer of the output, recursively; with map_over
                          every output is list[T], bare `list` when the producer has no annotation),
                          _resolve_original_input_name / build_reverse_rename_map (outer name -> inner name)
     graph/validation.py  _validate_edge_types / _validate_type_pair (every (producer type, consumer type) pair of an
                          edge: both annotated and compatible)
   The set of input / output NAMES a GraphNode exposes is the subject of C05/C06/C08 and is a field here.
   Plain stdlib. *)
From HG Require Import Base Typing.
From Coq Require Import Permutation.

Inductive tnode :=
| TLeaf (nm : name) (ins outs : list name) (in_ty out_ty : dict ty)
| TGraph (nm : name) (ins outs : list name) (children : list tnode)
         (in_ren out_ren : dict name)      (* outer name -> inner name; identity when absent *)
         (map_over : list name).          (* outer names of the mapped parameters; [] = not a mapping node *)

Definition t_name (t : tnode) : name := match t with TLeaf n _ _ _ _ => n | TGraph n _ _ _ _ _ _ => n end.
Definition t_ins (t : tnode) : list name := match t with TLeaf _ i _ _ _ => i | TGraph _ i _ _ _ _ _ => i end.
Definition t_outs (t : tnode) : list name := match t with TLeaf _ _ o _ _ => o | TGraph _ _ o _ _ _ _ => o end.

Definition ren (d : dict name) (x : name) : name := match dget d x with Some y => y | None => x end.

Section BT.
  Variable list_id : positive.          (* the class `list` *)

  Definition wrap_in (mapped : bool) (o : option ty) : option ty :=
    if mapped then option_map (fun t => TCls list_id [t]) o else o.
  (* _wrap_type_for_map_over *)
  Definition wrap_out (mapped : bool) (o : option ty) : option ty :=
    if mapped then Some (match o with Some t => TCls list_id [t] | None => TCls list_id [] end) else o.
  Definition or_default {A} (l : list A) (d : A) : list A := match l with [] => [d] | _ => l end.

  Fixpoint in_types (t : tnode) (p : name) : list (option ty) :=
    match t with
    | TLeaf _ _ _ ity _ => [dget ity p]
    | TGraph _ _ _ ch iren _ mo =>
        let q := ren iren p in
        let inner := (fix go (l : list tnode) : list (option ty) :=
                        match l with
                        | [] => []
                        | c :: l' => (if pos_in q (t_ins c) then in_types c q else []) ++ go l'
                        end) ch in
        or_default (map (wrap_in (pos_in p mo)) inner) None
    end.

  Fixpoint out_types (t : tnode) (o : name) : list (option ty) :=
    match t with
    | TLeaf _ _ _ _ oty => [dget oty o]
    | TGraph _ _ _ ch _ oren mo =>
        let q := ren oren o in
        let mapped := negb (is_nil mo) in
        let inner := (fix go (l : list tnode) : list (option ty) :=
                        match l with
                        | [] => []
                        | c :: l' => (if pos_in q (t_outs c) then out_types c q else []) ++ go l'
                        end) ch in
        or_default (map (wrap_out mapped) inner) (wrap_out mapped None)
    end.

  (* the same, with the inner fix named, for reasoning *)
  Definition gather (f : tnode -> name -> list (option ty)) (sel : tnode -> list name) (q : name) (ch : list tnode)
      : list (option ty) :=
    flat_map (fun c => if pos_in q (sel c) then f c q else []) ch.

  Lemma in_types_graph nm ins outs ch iren oren mo p :
    in_types (TGraph nm ins outs ch iren oren mo) p =
    or_default (map (wrap_in (pos_in p mo)) (gather in_types t_ins (ren iren p) ch)) None.
  Proof.
    cbn [in_types]. unfold gather.
    match goal with |- or_default (map _ ?a) _ = or_default (map _ ?b) _ => assert (E : a = b) end.
    { induction ch as [|c ch IH]; [reflexivity|]. cbn [flat_map]. rewrite <- IH. reflexivity. }
    rewrite E. reflexivity.
  Qed.

  Lemma out_types_graph nm ins outs ch iren oren mo o :
    out_types (TGraph nm ins outs ch iren oren mo) o =
    or_default (map (wrap_out (negb (is_nil mo))) (gather out_types t_outs (ren oren o) ch))
               (wrap_out (negb (is_nil mo)) None).
  Proof.
    cbn [out_types]. unfold gather.
    match goal with |- or_default (map _ ?a) _ = or_default (map _ ?b) _ => assert (E : a = b) end.
    { induction ch as [|c ch IH]; [reflexivity|]. cbn [flat_map]. rewrite <- IH. reflexivity. }
    rewrite E. reflexivity.
  Qed.

  (* ---- _validate_edge_types: every pair, both sides annotated and compatible ---- *)
  Variable sub : positive -> positive -> bool.
  Variable any_id : positive.

  Definition pair_ok (a b : option ty) : bool :=
    match a, b with Some x, Some y => compat sub any_id x y | _, _ => false end.

  Definition edge_ok (src dst : tnode) (v : name) : bool :=
    forallb (fun a => forallb (pair_ok a) (in_types dst v)) (out_types src v).

  (* ---- the leaves a value reaches / comes from: the specification ---- *)
  (* (number of mapping levels the leaf sits under on this path, the leaf's own annotation) *)
  Fixpoint leaf_consumers (t : tnode) (p : name) : list (nat * option ty) :=
    match t with
    | TLeaf _ _ _ ity _ => [(0, dget ity p)]
    | TGraph _ _ _ ch iren _ mo =>
        let q := ren iren p in
        let k := if pos_in p mo then 1 else 0 in
        map (fun e => (k + fst e, snd e))
            ((fix go (l : list tnode) : list (nat * option ty) :=
                match l with
                | [] => []
                | c :: l' => (if pos_in q (t_ins c) then leaf_consumers c q else []) ++ go l'
                end) ch)
    end.

  Fixpoint wrap_n (k : nat) (o : option ty) : option ty :=
    match k with 0 => o | S k' => wrap_in true (wrap_n k' o) end.

  (* a GraphNode input always has an inner consumer (InputSpec derives the inputs from the inner consumers) *)
  Fixpoint wf_in (t : tnode) (p : name) : Prop :=
    match t with
    | TLeaf _ _ _ _ _ => True
    | TGraph _ _ _ ch iren _ _ =>
        let q := ren iren p in
        (exists c, In c ch /\ pos_in q (t_ins c) = true) /\
        (fix go (l : list tnode) : Prop :=
           match l with
           | [] => True
           | c :: l' => (pos_in q (t_ins c) = true -> wf_in c q) /\ go l'
           end) ch
    end.

  (* producers: (number of mapping levels above the leaf, the leaf's own return annotation) *)
  Fixpoint leaf_producers (t : tnode) (o : name) : list (nat * option ty) :=
    match t with
    | TLeaf _ _ _ _ oty => [(0, dget oty o)]
    | TGraph _ _ _ ch _ oren mo =>
        let q := ren oren o in
        let k := if is_nil mo then 0 else 1 in
        map (fun e => (k + fst e, snd e))
            ((fix go (l : list tnode) : list (nat * option ty) :=
                match l with
                | [] => []
                | c :: l' => (if pos_in q (t_outs c) then leaf_producers c q else []) ++ go l'
                end) ch)
    end.

  Fixpoint wrap_out_n (k : nat) (o : option ty) : option ty :=
    match k with 0 => o | S k' => wrap_out true (wrap_out_n k' o) end.

  (* a GraphNode output always has an inner producer *)
  Fixpoint wf_out (t : tnode) (o : name) : Prop :=
    match t with
    | TLeaf _ _ _ _ _ => True
    | TGraph _ _ _ ch _ oren _ =>
        let q := ren oren o in
        (exists c, In c ch /\ pos_in q (t_outs c) = true) /\
        (fix go (l : list tnode) : Prop :=
           match l with
           | [] => True
           | c :: l' => (pos_in q (t_outs c) = true -> wf_out c q) /\ go l'
           end) ch
    end.
End BT.
