(* InterruptProofs.v — interrupts: isolation, pause identity, resume (C14). *)
From HG Require Import Base Rename Engine Exec Nested NestedProofs EngineProofs.
From stdpp Require Import gmap.

(* the asynchronous step runs an interrupt alone: the first interrupt of the ready list *)
Lemma isolate_interrupt rd i rest :
  List.filter is_interrupt rd = i :: rest -> isolate rd = [i].
Proof. intros H. unfold isolate. rewrite H. reflexivity. Qed.

Lemma isolate_none rd : List.filter is_interrupt rd = [] -> isolate rd = rd.
Proof. intros H. unfold isolate. rewrite H. reflexivity. Qed.

Theorem interrupt_runs_alone exec g snap pv rd pi i rest :
  List.filter is_interrupt rd = i :: rest ->
  snd (superstep_async exec g snap pv rd pi) =
    match fst (run_one exec g snap pv i) with Some ins => [(n_name i, ins)] | None => [] end.
Proof.
  intros H. unfold superstep_async. rewrite (isolate_interrupt rd i rest H). simpl.
  unfold async_calls. simpl. rewrite app_nil_r. reflexivity.
Qed.

(* handler returned None: the node pauses, naming itself, its first data output and its first input's value *)
Theorem interrupt_pause ft n st ins f o outs' :
  vals st !! o = None ->                         (* no response supplied *)
  firstn (n_ndata n) (n_outputs n) = o :: outs' ->
  dget ft (n_fn n) = Some f -> eval_fexp f 1 ins = FVal VNone ->
  exec_interrupt ft n st ins =
    OPause (mk_pause [n_name n] o (match ins with (_, v) :: _ => v | [] => VNone end)).
Proof.
  intros Hv Hd Hf He. unfold exec_interrupt. rewrite Hd. simpl. rewrite Hv. simpl.
  rewrite Hf, He. reflexivity.
Qed.

(* the response is supplied under the output name and the node has not run yet: it passes, the
   handler is not consulted, and its outputs are exactly the supplied responses *)
Theorem interrupt_resume ft n st ins :
  forallb (fun o => match vals st !! o with Some _ => true | None => false end) (firstn (n_ndata n) (n_outputs n)) = true ->
  execs st !! n_name n = None ->
  exec_interrupt ft n st ins =
    OOk (flat_map (fun o => match vals st !! o with Some v => [(o, v)] | None => [] end)
                  (firstn (n_ndata n) (n_outputs n)) ++ emit_outs n) None.
Proof. intros Hp He. unfold exec_interrupt. rewrite Hp, He. reflexivity. Qed.

(* a handler that returns a value resolves the interrupt itself: the value goes to the first output *)
Theorem interrupt_auto ft n st ins f o outs' v :
  vals st !! o = None -> firstn (n_ndata n) (n_outputs n) = o :: outs' ->
  dget ft (n_fn n) = Some f -> eval_fexp f 1 ins = FVal v -> v <> VNone ->
  exec_interrupt ft n st ins = OOk ((o, v) :: emit_outs n) None.
Proof.
  intros Hv Hd Hf He Hn. unfold exec_interrupt. rewrite Hd. simpl. rewrite Hv. simpl.
  rewrite Hf, He. destruct v; try reflexivity. congruence.
Qed.

(* the PAUSED result carries the state reached BEFORE the step of the interrupt: values computed
   earlier are returned, nothing of the interrupted step is *)
Theorem paused_state exec r fuel g pv st log pz s :
  fst (run_loop exec r fuel g pv st log) = RPaused pz s ->
  exists k sk s2 calls, k < fuel /\ steps exec r g pv k st sk /\
    superstep exec r g (ready_state g sk) pv (ready_list g sk) = (SPause pz s2, calls) /\ s = ready_state g sk.
Proof.
  intros H. pose proof (run_loop_spec exec r fuel g pv st log) as Hs. rewrite H in Hs.
  destruct Hs as (k & sk & s2 & calls & Hk & Hst & _ & Hss & ->). eauto 10.
Qed.
