(* InterruptProofs.v — interrupts: isolation, pause identity, resume (C14). *)
From HG Require Import Base Rename Engine Exec Nested NestedProofs EngineProofs Samples.
From stdpp Require Import gmap.

(* the asynchronous step runs an interrupt alone: the first interrupt of the ready list *)
Lemma isolate_interrupt rd i rest :
  List.filter is_interrupt rd = i :: rest -> isolate rd = [i].
Proof. intros H. unfold isolate. rewrite H. reflexivity. Qed.

Lemma isolate_none rd : List.filter is_interrupt rd = [] -> isolate rd = rd.
Proof. intros H. unfold isolate. rewrite H. reflexivity. Qed.

Theorem interrupt_runs_alone exec g snap pv rd pi i rest :
  List.filter is_interrupt rd = i :: rest ->
  snd (superstep_async exec g snap pv rd pi) =
    match fst (run_one exec g snap pv i) with Some ins => [(n_name i, ins)] | None => [] end.
Proof.
  intros H. unfold superstep_async. rewrite (isolate_interrupt rd i rest H). simpl.
  unfold async_calls. simpl. rewrite app_nil_r. reflexivity.
Qed.

(* handler returned None: the node pauses, naming itself, its first data output and its first input's value *)
Theorem interrupt_pause ft n st ins f o outs' :
  vals st !! o = None ->                         (* no response supplied *)
  firstn (n_ndata n) (n_outputs n) = o :: outs' ->
  dget ft (n_fn n) = Some f -> eval_fexp f 1 ins = FVal VNone ->
  exec_interrupt ft n st ins =
    OPause (mk_pause [n_name n] o (match ins with (_, v) :: _ => v | [] => VNone end)).
Proof.
  intros Hv Hd Hf He. unfold exec_interrupt. rewrite Hd. simpl. rewrite Hv. simpl.
  rewrite Hf, He. reflexivity.
Qed.

(* the response is supplied under the output name and the node has not run yet: it passes, the
   handler is not consulted, and its outputs are exactly the supplied responses *)
Theorem interrupt_resume ft n st ins :
  forallb (fun o => match vals st !! o with Some _ => true | None => false end) (firstn (n_ndata n) (n_outputs n)) = true ->
  execs st !! n_name n = None ->
  exec_interrupt ft n st ins =
    OOk (flat_map (fun o => match vals st !! o with Some v => [(o, v)] | None => [] end)
                  (firstn (n_ndata n) (n_outputs n)) ++ emit_outs n) None.
Proof. intros Hp He. unfold exec_interrupt. rewrite Hp, He. reflexivity. Qed.

(* a handler that returns a value resolves the interrupt itself: the value goes to the first output *)
Theorem interrupt_auto ft n st ins f o outs' v :
  vals st !! o = None -> firstn (n_ndata n) (n_outputs n) = o :: outs' ->
  dget ft (n_fn n) = Some f -> eval_fexp f 1 ins = FVal v -> v <> VNone ->
  exec_interrupt ft n st ins = OOk ((o, v) :: emit_outs n) None.
Proof.
  intros Hv Hd Hf He Hn. unfold exec_interrupt. rewrite Hd. simpl. rewrite Hv. simpl.
  rewrite Hf, He. destruct v; try reflexivity. congruence.
Qed.

(* the PAUSED result carries the state reached BEFORE the step of the interrupt: values computed
   earlier are returned, nothing of the interrupted step is *)
Theorem paused_state exec r fuel g pv st log pz s :
  fst (run_loop exec r fuel g pv st log) = RPaused pz s ->
  exists k sk s2 calls, k < fuel /\ steps exec r g pv k st sk /\
    superstep exec r g (ready_state g sk) pv (ready_list g sk) = (SPause pz s2, calls) /\ s = ready_state g sk.
Proof.
  intros H. pose proof (run_loop_spec exec r fuel g pv st log) as Hs. rewrite H in Hs.
  destruct Hs as (k & sk & s2 & calls & Hk & Hst & _ & Hss & ->). eauto 10.
Qed.

(* NOTHING COMPUTED IS LOST (repository fix for finding F-s).  run_superstep_async runs alone every node that may pause - an
   InterruptNode, or a nested-graph node whose inner graph holds one (is_interrupt).  So, provided only such nodes pause, the
   step that pauses called the pausing node and no other: the pre-step state the runner attaches to the pause is everything
   that has been computed.  (Before the fix a GraphNode holding an interrupt was not isolated; its siblings ran in the pausing
   step and their outputs were dropped from the PAUSED result.) *)
Lemma first_failure_pause exec g snap pv rd p :
  first_failure exec g snap pv rd = Some (inr p) ->
  exists n, In n rd /\ snd (run_one exec g snap pv n) = OPause p.
Proof.
  induction rd as [|a rd IH]; [discriminate|]. cbn [first_failure List.fold_right].
  destruct (snd (run_one exec g snap pv a)) as [outs dec|e|q] eqn:Ea.
  - intros H. destruct (IH H) as (n & Hn & Hp). exists n. split; [right; exact Hn | exact Hp].
  - discriminate.
  - intros H. injection H as <-. exists a. split; [left; reflexivity | exact Ea].
Qed.

Theorem pausing_step_calls_only_the_pausing_node exec g snap pv rd pi p acc calls :
  (forall n q, In n rd -> snd (run_one exec g snap pv n) = OPause q -> is_interrupt n = true) ->
  superstep_async exec g snap pv rd pi = (SPause p acc, calls) ->
  exists i, isolate rd = [i] /\ is_interrupt i = true /\ snd (run_one exec g snap pv i) = OPause p /\
            calls = match fst (run_one exec g snap pv i) with Some ins => [(n_name i, ins)] | None => [] end.
Proof.
  intros Hsrc H. unfold superstep_async in H.
  destruct (List.filter is_interrupt rd) as [|i rest] eqn:Ef.
  - exfalso. rewrite (isolate_none rd Ef) in H.
    destruct (first_failure exec g snap pv rd) as [[e|q]|] eqn:Eff; try discriminate.
    destruct (first_failure_pause _ _ _ _ _ _ Eff) as (n & Hn & Hp).
    assert (Hin : In n (List.filter is_interrupt rd)) by (apply filter_In; split; [exact Hn | exact (Hsrc n q Hn Hp)]).
    rewrite Ef in Hin. destruct Hin.
  - rewrite (isolate_interrupt rd i rest Ef) in H.
    assert (Hi : is_interrupt i = true).
    { assert (Hin : In i (List.filter is_interrupt rd)) by (rewrite Ef; left; reflexivity). apply filter_In in Hin. apply Hin. }
    destruct (first_failure exec g snap pv [i]) as [[e|q]|] eqn:Eff; try discriminate.
    injection H as <- _ <-.
    destruct (first_failure_pause _ _ _ _ _ _ Eff) as (n & [<-|[]] & Hp).
    exists i. split; [apply (isolate_interrupt rd i rest Ef)|]. split; [exact Hi|]. split; [exact Hp|].
    unfold async_calls. cbn [flat_map]. rewrite app_nil_r. reflexivity.
Qed.

(* the flag of a nested-graph node is computed from the inner graph: it holds an interrupt iff one of its nodes may pause *)
Lemma graphnode_of_flag nm inner hin hout :
  is_interrupt (graphnode_of nm inner hin hout) = existsb is_interrupt (g_nodes (ng_graph inner)).
Proof.
  unfold graphnode_of, is_interrupt at 1. cbn [n_kind n_fn].
  destruct (existsb is_interrupt (g_nodes (ng_graph inner))); reflexivity.
Qed.

(* non-vacuity: sibling(x)->a ; inner = Graph([interrupt ask(x)->d]) as node 20 ; consume(d, a)->b.  The wrapper carries the flag,
   the pausing step calls it alone (the sibling is NOT called), and the paused result is empty - exactly as for the flat graph *)
Local Open Scope positive_scope.
Definition hold_inner : ngraph :=
  mk_ng [mk_node 11 [1] [32] 1%nat [] [] [] KInterrupt 2] [] None None [(2, FConst VNone)] [] [].
Definition hold_outer : ngraph :=
  mk_ng [fnode 10 [1] [31] 1; graphnode_of 20 hold_inner [] []; fnode 12 [32; 31] [33] 3] [] None None
        [(1, FSym 10); (3, FSym 12)] [] [mk_sub 20 hold_inner [] [] None].
Definition hold_flat : ngraph :=
  mk_ng [fnode 10 [1] [31] 1; mk_node 11 [1] [32] 1%nat [] [] [] KInterrupt 2; fnode 12 [32; 31] [33] 3] [] None None
        [(1, FSym 10); (2, FConst VNone); (3, FSym 12)] [] [].
Example nested_holder_runs_alone :
  is_interrupt (graphnode_of 20 hold_inner [] []) = true /\
  (let r := run_ng 3 Async 20 hold_outer [(1, VInt 5)] None in
   (res_status r, res_values r, res_log r) = (2%nat, [], [[(20, [(1, VInt 5)])]])) /\
  (let r := run_ng 3 Async 20 hold_flat [(1, VInt 5)] None in
   (res_status r, res_values r, res_log r) = (2%nat, [], [[(11, [(1, VInt 5)])]])).
Proof. vm_compute. repeat split; reflexivity. Qed.
