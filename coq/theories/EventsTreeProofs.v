(* EventsTreeProofs.v — C12: the stream a synchronous runner emits for ANY well-shaped span tree (nested graphs, maps, gates,
   failing nodes, to any depth) is accepted by the checker of Events.v, with the root run's status. *)
From HG Require Import Base Events EventsProofs EventsTree.

(* ---------------------------------------------------------------- induction over rose trees *)
Section Ind.
  Variable P : stree -> Prop.
  Hypothesis H : forall l kids, Forall P kids -> P (ST l kids).
  Fixpoint stree_ind2 (t : stree) : P t :=
    match t with
    | ST l kids => H l kids ((fix go (ks : list stree) : Forall P ks :=
                               match ks with [] => @List.Forall_nil _ P | k :: ks' => @List.Forall_cons _ P k ks' (stree_ind2 k) (go ks') end) kids)
    end.
End Ind.

(* ---------------------------------------------------------------- unfolding the nested fixpoints *)
Lemma size_unfold l kids :
  size (ST l kids) = match l with
                     | LRun _ _ => S (sizes kids)
                     | LNode _ _ route => (if route then 2 else 1) + sizes kids
                     | LStep => sizes kids
                     end.
Proof.
  assert (E : (fix go (ks : list stree) : nat := match ks with [] => 0 | k :: ks' => size k + go ks' end) kids = sizes kids).
  { induction kids as [|k ks IH]; simpl; [reflexivity | rewrite IH; reflexivity]. }
  destruct l; simpl; rewrite E; reflexivity.
Qed.

Lemma lin_unfold id parent l kids :
  lin id parent (ST l kids) =
  match l with
  | LRun failed _ =>
      mk_event KRunStart id parent 1%positive :: lins (S id) (Some id) kids ++ [mk_event (KRunEnd failed) id parent 1%positive]
  | LNode nm err route =>
      mk_event KNodeStart id parent nm ::
      (if route then [mk_event KRoute (S id) parent nm] else []) ++
      lins (if route then S (S id) else S id) (Some id) kids ++
      [mk_event (if err then KNodeError else KNodeEnd) id parent nm]
  | LStep => lins id parent kids
  end.
Proof.
  assert (E : forall i p, (fix go (i : nat) (p : option nat) (ks : list stree) : list event :=
                 match ks with [] => [] | k :: ks' => lin i p k ++ go (i + size k) p ks' end) i p kids = lins i p kids).
  { induction kids as [|k ks IH]; intros i p; simpl; [reflexivity | rewrite IH; reflexivity]. }
  destruct l; simpl; rewrite E; reflexivity.
Qed.

(* ---------------------------------------------------------------- the checker state between two subtrees *)
Definition Fresh (id : nat) (st : cstate) : Prop :=
  (forall s, In s (c_seen st) -> s < id) /\
  (forall o, In o (c_open st) -> o_id o < id /\ forall p, o_parent o = Some p -> p < id).

Definition Ctx (under_run : bool) (q : nat) (st : cstate) : Prop :=
  exists o, find_open st q = Some o /\ (under_run = true -> o_run o = true).

Lemma Fresh_mono a b st : a <= b -> Fresh a st -> Fresh b st.
Proof.
  intros Hab [H1 H2]. split.
  - intros s Hs. specialize (H1 s Hs). lia.
  - intros o Ho. destruct (H2 o Ho) as [Ha Hb]. split; [lia|]. intros p Hp. specialize (Hb p Hp). lia.
Qed.

Lemma Ctx_same_open u q st st' : c_open st' = c_open st -> Ctx u q st -> Ctx u q st'.
Proof. intros E (o & Ho & Hr). exists o. split; [unfold find_open in *; rewrite E; exact Ho | exact Hr]. Qed.

Lemma fresh_not_seen id st : Fresh id st -> nat_in id (c_seen st) = false.
Proof. intros [H _]. apply nat_in_nIn. intros Hin. specialize (H id Hin). lia. Qed.

(* opening span `id` under the open span q *)
Lemma push_facts id q st (me : ospan) :
  Fresh id st -> q < id -> o_id me = id -> o_parent me = Some q ->
  let st1 := push_open st me in
  Fresh (S id) st1 /\ find_open st1 id = Some me /\
  (forall o, find_open st q = Some o -> find_open st1 q = Some o).
Proof.
  intros [H1 H2] Hq Hid Hp st1. split; [|split].
  - split.
    + intros s [<-|Hs]; [lia | specialize (H1 s Hs); lia].
    + intros o [<-|Ho].
      * split; [lia|]. intros p E. rewrite Hp in E. injection E as <-. lia.
      * destruct (H2 o Ho) as [Ha Hb]. split; [lia|]. intros p E. specialize (Hb p E). lia.
  - unfold st1, find_open, push_open. simpl. rewrite Hid, Nat.eqb_refl. reflexivity.
  - intros o Ho. unfold st1, find_open, push_open. simpl. rewrite Hid.
    destruct (Nat.eqb id q) eqn:E; [apply Nat.eqb_eq in E; lia | exact Ho].
Qed.

(* closing it again, all its children closed: the open list is what it was *)
Lemma close_facts id q st st2 (me : ospan) :
  Fresh id st -> q < id -> o_id me = id -> o_parent me = Some q ->
  c_open st2 = me :: c_open st ->
  find_open st2 id = Some me /\ has_open_child st2 id = false /\ c_open (remove_open st2 id) = c_open st.
Proof.
  intros [H1 H2] Hq Hid Hp Ho. split; [|split].
  - unfold find_open. rewrite Ho. simpl. rewrite Hid, Nat.eqb_refl. reflexivity.
  - unfold has_open_child. rewrite Ho. simpl. rewrite Hp.
    destruct (Nat.eqb q id) eqn:E; [apply Nat.eqb_eq in E; lia|]. simpl.
    apply not_true_is_false. intros Hex. apply existsb_exists in Hex as (o & Hin & Hpo).
    destruct (o_parent o) as [p|] eqn:Ep; [|discriminate]. apply Nat.eqb_eq in Hpo. subst p.
    destruct (H2 o Hin) as [_ Hb]. specialize (Hb id Ep). lia.
  - unfold remove_open. simpl. rewrite Ho. simpl. rewrite Hid, Nat.eqb_refl. simpl.
    assert (G : forall l, (forall o, In o l -> o_id o < id) -> filter (fun o => negb (Nat.eqb (o_id o) id)) l = l).
    { induction l as [|a l IH]; intros Hl; simpl; [reflexivity|].
      assert (Ha : Nat.eqb (o_id a) id = false) by (apply Nat.eqb_neq; specialize (Hl a (or_introl eq_refl)); lia).
      rewrite Ha. simpl. rewrite IH; [reflexivity|]. intros o Hin. apply Hl. right. exact Hin. }
    apply G. intros o Hin. exact (proj1 (H2 o Hin)).
Qed.

Definition Accepts (t : stree) : Prop :=
  forall under_run id q st, shape_ok under_run t = true -> Fresh id st -> Ctx under_run q st -> q < id ->
  exists st', crun st (lin id (Some q) t) = Some st' /\ c_open st' = c_open st /\ Fresh (id + size t) st'.

Lemma lins_accepted kids : Forall Accepts kids ->
  forall under_run id q st, forallb (shape_ok under_run) kids = true -> Fresh id st -> Ctx under_run q st -> q < id ->
  exists st', crun st (lins id (Some q) kids) = Some st' /\ c_open st' = c_open st /\ Fresh (id + sizes kids) st'.
Proof.
  induction 1 as [|k ks Hk _ IH]; intros u id q st Hs Hf Hc Hq; simpl.
  - exists st. rewrite Nat.add_0_r. auto.
  - simpl in Hs. apply andb_true_iff in Hs as [Hs1 Hs2].
    destruct (Hk u id q st Hs1 Hf Hc Hq) as (st1 & E1 & O1 & F1).
    destruct (IH u (id + size k) q st1 Hs2 F1 (Ctx_same_open u q st st1 O1 Hc) ltac:(lia)) as (st2 & E2 & O2 & F2).
    exists st2. split; [rewrite crun_app, E1; exact E2|]. split; [congruence|].
    rewrite Nat.add_assoc. exact F2.
Qed.

Lemma tree_accepted t : Accepts t.
Proof.
  induction t as [l kids IHk] using stree_ind2. intros u id q st Hs Hf Hc Hq.
  rewrite lin_unfold, size_unfold. destruct Hc as (po & Hpo & Hprun).
  destruct l as [failed is_map | nm err route |].
  - (* a run span *)
    cbn [shape_ok] in Hs.
    set (me := mk_ospan id (Some q) true 1%positive).
    destruct (push_facts id q st me Hf Hq eq_refl eq_refl) as (F1 & Hme & Hkeep).
    set (st1 := push_open st me) in *.
    assert (E1 : cstep st (mk_event KRunStart id (Some q) 1%positive) = Some st1).
    { unfold cstep. simpl. rewrite (fresh_not_seen id st Hf), Hpo. reflexivity. }
    destruct (lins_accepted kids IHk true (S id) id st1 Hs F1) as (st2 & E2 & O2 & F2).
    { exists me. split; [exact Hme | reflexivity]. }
    { lia. }
    destruct (close_facts id q st st2 me Hf Hq eq_refl eq_refl O2) as (Hf2 & Hc2 & Hr2).
    exists (remove_open st2 id). split; [|split].
    + cbn [crun]. rewrite E1. rewrite crun_app, E2. cbn [crun]. unfold cstep. simpl. rewrite Hf2, Hc2. reflexivity.
    + exact Hr2.
    + destruct F2 as [S2 P2]. split.
      * intros s Hin. unfold remove_open in Hin. simpl in Hin. specialize (S2 s Hin). lia.
      * intros o Hin. rewrite Hr2 in Hin. destruct Hf as [_ Hfo]. destruct (Hfo o Hin) as [Ha Hb].
        split; [lia|]. intros p Ep. specialize (Hb p Ep). lia.
  - (* a node span *)
    cbn [shape_ok] in Hs. apply andb_true_iff in Hs as [Hu Hs]. subst u. specialize (Hprun eq_refl).
    set (me := mk_ospan id (Some q) false nm).
    destruct (push_facts id q st me Hf Hq eq_refl eq_refl) as (F1 & Hme & Hkeep).
    set (st1 := push_open st me) in *.
    assert (E1 : cstep st (mk_event KNodeStart id (Some q) nm) = Some st1).
    { unfold cstep. simpl. rewrite (fresh_not_seen id st Hf), Hpo, Hprun. reflexivity. }
    assert (ER : crun st1 (if route then [mk_event KRoute (S id) (Some q) nm] else []) = Some st1).
    { destruct route; [|reflexivity]. cbn [crun]. unfold cstep. simpl. rewrite (Hkeep po Hpo), Hprun. simpl.
      rewrite Nat.eqb_refl, Pos.eqb_refl. reflexivity. }
    set (id1 := if route then S (S id) else S id).
    assert (F1' : Fresh id1 st1) by (apply (Fresh_mono (S id)); [unfold id1; destruct route; lia | exact F1]).
    destruct (lins_accepted kids IHk false id1 id st1 Hs F1') as (st2 & E2 & O2 & F2).
    { exists me. split; [exact Hme | discriminate]. }
    { unfold id1; destruct route; lia. }
    destruct (close_facts id q st st2 me Hf Hq eq_refl eq_refl O2) as (Hf2 & Hc2 & Hr2).
    exists (remove_open st2 id). split; [|split].
    + cbn [crun]. rewrite E1. rewrite crun_app, ER. rewrite crun_app, E2. cbn [crun].
      assert (EC : cstep st2 (mk_event (if err then KNodeError else KNodeEnd) id (Some q) nm) = Some (remove_open st2 id)).
      { unfold cstep. destruct err; simpl; rewrite Hf2, Hc2; simpl; rewrite Nat.eqb_refl; reflexivity. }
      rewrite EC. reflexivity.
    + exact Hr2.
    + destruct F2 as [S2 P2]. split.
      * intros s Hin. unfold remove_open in Hin. simpl in Hin. specialize (S2 s Hin). unfold id1 in S2. destruct route; lia.
      * intros o Hin. rewrite Hr2 in Hin. destruct Hf as [_ Hfo]. destruct (Hfo o Hin) as [Ha Hb].
        split; [lia|]. intros p Ep. specialize (Hb p Ep). lia.
  - (* a superstep group *)
    cbn [shape_ok] in Hs.
    apply (lins_accepted kids IHk u id q st Hs Hf); [exists po; auto | exact Hq].
Qed.

(* C12_model_nested: the whole stream of a top-level run *)
Theorem lin_root_wf failed is_map kids :
  forallb (shape_ok true) kids = true ->
  wf_b failed (lin_root (ST (LRun failed is_map) kids)) = true.
Proof.
  intros Hs. unfold lin_root. rewrite lin_unfold.
  set (e0 := mk_event KRunStart 0 None 1%positive).
  set (eN := mk_event (KRunEnd failed) 0 None 1%positive).
  set (me := mk_ospan 0 None true 1%positive).
  set (st0 := push_open cinit me).
  assert (E0 : cstep cinit e0 = Some st0) by reflexivity.
  assert (F0 : Fresh 1 st0).
  { unfold st0, me, push_open, cinit. split; simpl; [intros s [<-|[]]; lia|]. intros o [<-|[]]. split; [simpl; lia | intros p Ep; discriminate]. }
  assert (kidsAcc : Forall Accepts kids) by (apply Forall_forall; intros k _; apply tree_accepted).
  destruct (lins_accepted kids kidsAcc true 1 0 st0 Hs F0) as (st1 & E1 & O1 & F1).
  { exists me. split; reflexivity. }
  { lia. }
  assert (Ho1 : c_open st1 = [me]) by (rewrite O1; reflexivity).
  assert (E2 : cstep st1 eN = Some (remove_open st1 0)).
  { unfold cstep. simpl. unfold find_open, has_open_child. rewrite Ho1. simpl. reflexivity. }
  unfold wf_b. cbn [e_kind e_parent e0].
  assert (Hrun : crun cinit (e0 :: lins 1 (Some 0) kids ++ [eN]) = Some (remove_open st1 0)).
  { cbn [crun]. rewrite E0. rewrite crun_app, E1. cbn [crun]. rewrite E2. reflexivity. }
  rewrite Hrun.
  assert (Ho2 : c_open (remove_open st1 0) = []) by (unfold remove_open; simpl; rewrite Ho1; reflexivity).
  rewrite Ho2.
  assert (Hlast : last (e0 :: lins 1 (Some 0) kids ++ [eN]) e0 = eN).
  { change (e0 :: ?l) with ([e0] ++ l). rewrite app_assoc. apply last_last. }
  rewrite Hlast. simpl. apply eqb_reflx.
Qed.

(* ---------------------------------------------------------------- the tree of every model run is well shaped *)
From HG Require Import Engine Exec Nested.

Lemma forallb_map_true {A B} (f : A -> B) (p : B -> bool) l : (forall a, In a l -> p (f a) = true) -> forallb p (map f l) = true.
Proof. intros H. apply forallb_forall. intros b Hb. apply in_map_iff in Hb as (a & <- & Ha). apply H. exact Ha. Qed.

Lemma tree_ng_is_run d r fuel ng pv : exists f kids, tree_ng d r fuel ng pv = ST (LRun f false) kids.
Proof. destruct d, ng; cbn [tree_ng]; eauto. Qed.

Lemma tree_ng_shape d : forall r fuel ng pv u, shape_ok u (tree_ng d r fuel ng pv) = true.
Proof.
  induction d as [|d IH]; intros r fuel [g sel eps ft gt subs] pv u; cbn [tree_ng shape_ok].
  - apply forallb_map_true. intros calls _. cbn [shape_ok]. apply forallb_map_true. intros c _.
    destruct (find_node g (fst c)) as [n|]; reflexivity.
  - apply forallb_map_true. intros calls _. cbn [shape_ok]. apply forallb_map_true. intros c _.
    destruct (find_node g (fst c)) as [n|]; [|reflexivity]. cbn [shape_ok andb].
    destruct (n_kind n); try reflexivity.
    destruct (dget subs (fst c)) as [[inner hin hout cur_out mc]|]; [|reflexivity].
    destruct mc as [cfg|].
    + destruct (generate_map_inputs _ _ _) as [e|items]; [reflexivity|].
      destruct items as [|it items]; [reflexivity|].
      cbn [forallb shape_ok]. rewrite andb_true_r.
      set (trees := item_trees _ _ (it :: items)).
      assert (Ht : forall v, forallb (shape_ok v) trees = true).
      { intros v. unfold trees. generalize (it :: items) as its. induction its as [|x xs IHx]; [reflexivity|].
        cbn [item_trees]. destruct (run_failed _ && _); cbn [forallb]; rewrite IH; [reflexivity | exact IHx]. }
      destruct r; cbn [forallb shape_ok]; rewrite ?Ht; reflexivity.
    + cbn [forallb]. rewrite IH. reflexivity.
Qed.

(* C12_model_nested_run: the stream a synchronous runner emits for ANY run of the nested engine model is accepted *)
Theorem tree_ng_wf d r fuel ng pv :
  wf_b (run_failed (tree_ng d r fuel ng pv)) (lin_root (tree_ng d r fuel ng pv)) = true.
Proof.
  pose proof (tree_ng_shape d r fuel ng pv true) as Hs.
  destruct (tree_ng_is_run d r fuel ng pv) as (f & kids & E). rewrite E in *. cbn [shape_ok] in Hs.
  apply lin_root_wf. exact Hs.
Qed.

Lemma item_trees_shape d r fuel ng stop items v : forallb (shape_ok v) (item_trees (tree_ng d r fuel ng) stop items) = true.
Proof.
  induction items as [|x xs IH]; [reflexivity|]. cbn [item_trees].
  destruct (run_failed _ && _); cbn [forallb]; rewrite tree_ng_shape; [reflexivity | exact IH].
Qed.

(* ... and so is the stream of every top-level map *)
Theorem tree_map_top_wf d r fuel ng pv over mode cont t :
  tree_map_top d r fuel ng pv over mode cont = Some t -> wf_b (run_failed t) (lin_root t) = true.
Proof.
  unfold tree_map_top. destruct (generate_map_inputs pv over mode) as [e|[|it items]]; try discriminate.
  pose proof (fun stop v => item_trees_shape d r fuel ng stop (it :: items) v) as Hsh.
  generalize dependent (item_trees (tree_ng d r fuel ng)). intros trees Hsh.
  intros [= <-]. cbn [run_failed st_label]. apply lin_root_wf.
  destruct r; cbn [forallb shape_ok]; rewrite ?Hsh; reflexivity.
Qed.
