(* EventsSchedProofs.v — every schedule of every well-formed span table is accepted by the checker (C12, any runner). *)
From HG Require Import Base Events EventsProofs EventsSched.

(* ---------------------------------------------------------------- the checker, by membership *)
Lemma find_open_member st o : NoDup (map o_id (c_open st)) -> In o (c_open st) -> find_open st (o_id o) = Some o.
Proof.
  unfold find_open. induction (c_open st) as [|a l IH]; intros Hnd Hin; [contradiction|]. simpl.
  simpl in Hnd. inversion Hnd as [|? ? Hni Hnd']; subst.
  destruct Hin as [->|Hin]; [rewrite Nat.eqb_refl; reflexivity|].
  destruct (Nat.eqb (o_id a) (o_id o)) eqn:E; [|apply IH; assumption].
  apply Nat.eqb_eq in E. exfalso. apply Hni. rewrite E. apply in_map. exact Hin.
Qed.

Lemma has_open_child_false st s :
  (forall o, In o (c_open st) -> o_parent o <> Some s) -> has_open_child st s = false.
Proof.
  intros H. unfold has_open_child. apply not_true_is_false. intros Hex. apply existsb_exists in Hex as (o & Hin & Hp).
  destruct (o_parent o) as [p|] eqn:Ep; [|discriminate]. apply Nat.eqb_eq in Hp. subst p. exact (H o Hin Ep).
Qed.

Lemma opt_nat_eqb_refl a : opt_nat_eqb a a = true.
Proof. destruct a; simpl; [apply Nat.eqb_refl | reflexivity]. Qed.

Lemma NoDup_map_filter {A B} (f : A -> B) (p : A -> bool) l : NoDup (map f l) -> NoDup (map f (filter p l)).
Proof.
  induction l as [|a l IH]; simpl; intros H; [constructor|]. inversion H as [|? ? Hni Hnd]; subst.
  destruct (p a); simpl; [|apply IH; exact Hnd]. constructor; [|apply IH; exact Hnd].
  intros Hin. apply Hni. apply in_map_iff in Hin as (x & E & Hx). apply filter_In in Hx as [Hx _].
  rewrite <- E. apply in_map. exact Hx.
Qed.

Section Proofs.
  Variable tbl : list entry.
  Variable root : entry.
  Hypothesis Hwf : wf_tbl tbl root.

  Lemma same_id e1 e2 : In e1 tbl -> In e2 tbl -> en_id e1 = en_id e2 -> e1 = e2.
  Proof.
    intros H1 H2 E. pose proof (wt_nodup _ _ Hwf) as Hnd. clear Hwf. induction tbl as [|a l IH]; [contradiction|].
    simpl in Hnd. inversion Hnd as [|? ? Hni Hnd']; subst.
    destruct H1 as [->|H1], H2 as [->|H2]; auto.
    - exfalso. apply Hni. rewrite E. apply in_map. exact H2.
    - exfalso. apply Hni. rewrite <- E. apply in_map. exact H1.
  Qed.

  (* nothing below a span that has not started has started; everything below a finished span is finished *)
  Definition K1 (sg : nat -> status) : Prop :=
    forall k p, In k tbl -> en_parent k = Some p -> sg p = Todo -> sg (en_id k) = Todo.
  Definition K2 (sg : nat -> status) : Prop :=
    forall k p, In k tbl -> en_parent k = Some p -> sg p = Done -> sg (en_id k) = Done.

  Lemma upd_same sg i s : upd sg i s i = s.
  Proof. unfold upd. rewrite Nat.eqb_refl. reflexivity. Qed.
  Lemma upd_other sg i s j : j <> i -> upd sg i s j = sg j.
  Proof. intros H. unfold upd. destruct (Nat.eqb j i) eqn:E; [apply Nat.eqb_eq in E; contradiction | reflexivity]. Qed.

  Lemma K_trans sg e sg' : trans tbl sg e sg' -> K1 sg -> K2 sg -> K1 sg' /\ K2 sg'.
  Proof.
    intros Ht H1 H2. destruct Ht as [sg e He Hs Hp | sg e He Hs Hk | |]; auto.
    - split.
      + intros k p Hk Hkp Hpt. destruct (Nat.eq_dec p (en_id e)) as [->|Hne]; [rewrite upd_same in Hpt; discriminate|].
        rewrite upd_other in Hpt by exact Hne.
        destruct (Nat.eq_dec (en_id k) (en_id e)) as [E|Hne2]; [|rewrite upd_other by exact Hne2; exact (H1 k p Hk Hkp Hpt)].
        apply (same_id k e Hk He) in E. subst k. rewrite Hkp in Hp. destruct Hp as (pe & _ & _ & Hr & _). congruence.
      + intros k p Hk Hkp Hpt. destruct (Nat.eq_dec p (en_id e)) as [->|Hne]; [rewrite upd_same in Hpt; discriminate|].
        rewrite upd_other in Hpt by exact Hne. pose proof (H2 k p Hk Hkp Hpt) as Hd.
        destruct (Nat.eq_dec (en_id k) (en_id e)) as [E|Hne2]; [rewrite E in Hd; congruence | rewrite upd_other by exact Hne2; exact Hd].
    - split.
      + intros k p Hk' Hkp Hpt. destruct (Nat.eq_dec p (en_id e)) as [->|Hne]; [rewrite upd_same in Hpt; discriminate|].
        rewrite upd_other in Hpt by exact Hne. pose proof (H1 k p Hk' Hkp Hpt) as Hd.
        destruct (Nat.eq_dec (en_id k) (en_id e)) as [E|Hne2]; [rewrite E in Hd; congruence | rewrite upd_other by exact Hne2; exact Hd].
      + intros k p Hk' Hkp Hpt. destruct (Nat.eq_dec (en_id k) (en_id e)) as [E|Hne2]; [rewrite E; apply upd_same|].
        rewrite upd_other by exact Hne2.
        destruct (Nat.eq_dec p (en_id e)) as [->|Hne]; [exact (Hk k Hk' Hkp)|].
        rewrite upd_other in Hpt by exact Hne. exact (H2 k p Hk' Hkp Hpt).
  Qed.

  (* by depth: the root's status decides everybody's, at the two ends *)
  Lemma depth_zero_root e : In e tbl -> en_depth e = 0 -> e = root.
  Proof.
    intros He Hd. apply (wt_root_only _ _ Hwf e He). destruct (en_parent e) as [p|] eqn:Ep; [|reflexivity].
    destruct (wt_parent _ _ Hwf e p He Ep) as (pe & _ & _ & Hdp & _). lia.
  Qed.

  Lemma all_by_depth (s : status) sg :
    (forall k p, In k tbl -> en_parent k = Some p -> sg p = s -> sg (en_id k) = s) ->
    sg (en_id root) = s -> forall e, In e tbl -> sg (en_id e) = s.
  Proof.
    intros HK Hr.
    assert (G : forall n e, In e tbl -> en_depth e = n -> sg (en_id e) = s).
    { induction n as [|n IH]; intros e He Hd.
      - rewrite (depth_zero_root e He Hd). exact Hr.
      - destruct (en_parent e) as [p|] eqn:Ep.
        + destruct (wt_parent _ _ Hwf e p He Ep) as (pe & Hpe & Hid & Hdp & _).
          apply (HK e p He Ep). rewrite <- Hid. apply (IH pe Hpe). lia.
        + rewrite (wt_root_only _ _ Hwf e He Ep) in Hd. destruct (wt_root _ _ Hwf) as (_ & _ & H0). lia. }
    intros e He. exact (G (en_depth e) e He eq_refl).
  Qed.

  (* ---------------------------------------------------------------- the checker state mirrors the statuses *)
  Record SInv (st : cstate) (sg : nat -> status) : Prop := {
    si_open : forall o, In o (c_open st) <-> exists e, In e tbl /\ o = ospan_e e /\ sg (en_id e) = Running;
    si_nodup : NoDup (map o_id (c_open st));
    si_seen : forall s, In s (c_seen st) <-> exists e, In e tbl /\ en_id e = s /\ sg s <> Todo }.

  Lemma running_found st sg e : SInv st sg -> In e tbl -> sg (en_id e) = Running -> find_open st (en_id e) = Some (ospan_e e).
  Proof.
    intros HI He Hr. change (en_id e) with (o_id (ospan_e e)). apply find_open_member; [exact (si_nodup _ _ HI)|].
    apply (si_open _ _ HI). eauto.
  Qed.

  Lemma trans_accepted st sg e sg' :
    K1 sg -> SInv st sg -> trans tbl sg e sg' -> exists st', cstep st e = Some st' /\ SInv st' sg'.
  Proof.
    intros HK1 HI Ht. destruct Ht as [sg e He Hs Hp | sg e He Hs Hk | sg ne q s Hne Hnr Hnp Hns (re & Hre & Hrid & Hrr & Hrs) | sg ne Hne Hnr Hns].
    - (* start *)
      assert (Hunseen : nat_in (en_id e) (c_seen st) = false).
      { apply nat_in_nIn. intros Hin. apply (si_seen _ _ HI) in Hin as (e' & _ & _ & Hn). congruence. }
      assert (Hstep : cstep st (start_ev e) = Some (push_open st (ospan_e e))).
      { unfold cstep, start_ev. destruct (en_parent e) as [p|] eqn:Ep.
        - destruct Hp as (pe & Hpe & Hpid & Hpr & Hkind). subst p.
          pose proof (running_found st sg pe HI Hpe Hpr) as Hf.
          destruct (en_is_run e) eqn:Er; simpl; rewrite Hunseen, Hf.
          + unfold ospan_e. rewrite Ep, Er. unfold en_name. unfold en_is_run in Er. destruct (en_kind e); [reflexivity | discriminate].
          + simpl. rewrite (Hkind eq_refl). unfold ospan_e. rewrite Ep, Er. reflexivity.
        - assert (Er : e = root) by (apply (wt_root_only _ _ Hwf e He Ep)). subst e.
          destruct (wt_root _ _ Hwf) as (_ & Hrun & _). rewrite Hrun. simpl. rewrite Hunseen.
          assert (Hall : forall e', In e' tbl -> sg (en_id e') = Todo) by (apply (all_by_depth Todo sg HK1 Hs)).
          assert (Hempty : c_seen st = []).
          { destruct (c_seen st) as [|s l] eqn:E; [reflexivity|]. exfalso.
            assert (Hin : In s (c_seen st)) by (rewrite E; left; reflexivity).
            apply (si_seen _ _ HI) in Hin as (e' & He' & <- & Hn). apply Hn. apply Hall. exact He'. }
          rewrite Hempty. unfold ospan_e. rewrite Ep, Hrun. unfold en_name. unfold en_is_run in Hrun.
          destruct (en_kind root); [reflexivity | discriminate]. }
      exists (push_open st (ospan_e e)). split; [exact Hstep|]. split.
      + intros o. unfold push_open. simpl. split.
        * intros [<-|Hin]; [exists e; rewrite upd_same; auto|].
          apply (si_open _ _ HI) in Hin as (e' & He' & -> & Hr'). exists e'. split; [exact He'|]. split; [reflexivity|].
          rewrite upd_other; [exact Hr' | intros E; rewrite E in Hr'; congruence].
        * intros (e' & He' & -> & Hr'). destruct (Nat.eq_dec (en_id e') (en_id e)) as [E|Hne].
          -- left. rewrite (same_id e' e He' He E). reflexivity.
          -- right. rewrite upd_other in Hr' by exact Hne. apply (si_open _ _ HI). eauto.
      + unfold push_open. simpl. constructor; [|exact (si_nodup _ _ HI)].
        intros Hin. apply in_map_iff in Hin as (o & Hid & Hin). apply (si_open _ _ HI) in Hin as (e' & He' & -> & Hr').
        simpl in Hid. rewrite (same_id e' e He' He Hid) in Hr'. congruence.
      + intros s. unfold push_open. simpl. split.
        * intros [<-|Hin]; [exists e; rewrite upd_same; repeat split; auto; discriminate|].
          apply (si_seen _ _ HI) in Hin as (e' & He' & <- & Hn). exists e'. repeat split; auto.
          destruct (Nat.eq_dec (en_id e') (en_id e)) as [E|Hne]; [rewrite E, upd_same; discriminate | rewrite upd_other by exact Hne; exact Hn].
        * intros (e' & He' & <- & Hn). destruct (Nat.eq_dec (en_id e') (en_id e)) as [E|Hne]; [left; auto|].
          right. rewrite upd_other in Hn by exact Hne. apply (si_seen _ _ HI). eauto.
    - (* end *)
      pose proof (running_found st sg e HI He Hs) as Hf.
      assert (Hnochild : has_open_child st (en_id e) = false).
      { apply has_open_child_false. intros o Hin Hpo. apply (si_open _ _ HI) in Hin as (k & Hk' & -> & Hr').
        simpl in Hpo. rewrite (Hk k Hk' Hpo) in Hr'. discriminate. }
      assert (Hstep : cstep st (end_ev e) = Some (remove_open st (en_id e))).
      { unfold cstep, end_ev. unfold en_is_run, ospan_e in *. destruct (en_kind e) as [f|nm [|]] eqn:Ek; simpl;
          rewrite Hf; unfold en_is_run; rewrite Ek; simpl; rewrite Hnochild, ?opt_nat_eqb_refl; reflexivity. }
      exists (remove_open st (en_id e)). split; [exact Hstep|]. split.
      + intros o. unfold remove_open. simpl. rewrite filter_In. split.
        * intros [Hin Hne]. apply (si_open _ _ HI) in Hin as (e' & He' & -> & Hr'). exists e'. split; [exact He'|]. split; [reflexivity|].
          simpl in Hne. apply negb_true_iff, Nat.eqb_neq in Hne. rewrite upd_other by exact Hne. exact Hr'.
        * intros (e' & He' & -> & Hr'). destruct (Nat.eq_dec (en_id e') (en_id e)) as [E|Hne]; [rewrite E, upd_same in Hr'; discriminate|].
          rewrite upd_other in Hr' by exact Hne. split; [apply (si_open _ _ HI); eauto|].
          simpl. apply negb_true_iff, Nat.eqb_neq. exact Hne.
      + unfold remove_open. simpl. apply NoDup_map_filter. exact (si_nodup _ _ HI).
      + intros s. unfold remove_open. simpl. rewrite (si_seen _ _ HI). split; intros (e' & He' & <- & Hn); exists e'; repeat split; auto.
        * destruct (Nat.eq_dec (en_id e') (en_id e)) as [E|Hne]; [rewrite E, upd_same; discriminate | rewrite upd_other by exact Hne; exact Hn].
        * destruct (Nat.eq_dec (en_id e') (en_id e)) as [E|Hne]; [rewrite E, Hs; discriminate | rewrite upd_other in Hn by exact Hne; exact Hn].
    - (* RouteDecision *)
      exists st. split; [|exact HI]. subst q. unfold cstep. simpl.
      rewrite (running_found st sg re HI Hre Hrs). simpl. rewrite Hrr. simpl.
      assert (Hex : existsb (fun c => negb (o_run c) && opt_nat_eqb (o_parent c) (Some (en_id re)) && Pos.eqb (o_node c) (en_name ne)) (c_open st) = true).
      { apply existsb_exists. exists (ospan_e ne). split; [apply (si_open _ _ HI); eauto|].
        simpl. rewrite Hnr, Hnp. simpl. rewrite Nat.eqb_refl, Pos.eqb_refl. reflexivity. }
      rewrite Hex. reflexivity.
    - (* CacheHit *)
      exists st. split; [|exact HI]. unfold cstep. simpl.
      rewrite (running_found st sg ne HI Hne Hns). simpl. rewrite Hnr, Pos.eqb_refl. reflexivity.
  Qed.

  Lemma run_accepted sg evs sg' : run tbl sg evs sg' ->
    forall st, K1 sg -> K2 sg -> SInv st sg -> exists st', crun st evs = Some st' /\ SInv st' sg' /\ K1 sg' /\ K2 sg'.
  Proof.
    induction 1 as [sg | sg e sg1 evs sg2 Ht _ IH]; intros st H1 H2 HI.
    - exists st. auto.
    - destruct (trans_accepted st sg e sg1 H1 HI Ht) as (st1 & E1 & HI1).
      destruct (K_trans sg e sg1 Ht H1 H2) as [H1' H2'].
      destruct (IH st1 H1' H2' HI1) as (st2 & E2 & R). exists st2. split; [simpl; rewrite E1; exact E2 | exact R].
  Qed.

  Lemma run_snoc sg evs sg' : run tbl sg evs sg' ->
    evs = [] /\ sg = sg' \/ exists evs' e sg1, evs = evs' ++ [e] /\ run tbl sg evs' sg1 /\ trans tbl sg1 e sg'.
  Proof.
    induction 1 as [sg | sg e sg1 evs sg2 Ht Hr IH]; [left; auto|]. right.
    destruct IH as [[-> ->]|(evs' & e' & sg3 & -> & Hr' & Ht')].
    - exists [], e, sg. split; [reflexivity|]. split; [constructor | exact Ht].
    - exists (e :: evs'), e', sg3. split; [reflexivity|]. split; [econstructor; eauto | exact Ht'].
  Qed.

  Lemma SInv_init : SInv cinit (fun _ => Todo).
  Proof.
    split; simpl.
    - intros o. split; [intros [] | intros (e & _ & _ & H); discriminate].
    - constructor.
    - intros s. split; [intros [] | intros (e & _ & _ & H); congruence].
  Qed.

  Definition root_failed : bool := match en_kind root with SRun f => f | _ => false end.

  (* C12_any_schedule *)
  Theorem sched_accepted evs : schedule tbl evs -> wf_b root_failed evs = true.
  Proof.
    intros (sg & Hrun & Hdone).
    assert (K10 : K1 (fun _ => Todo)) by (intros k p _ _ _; reflexivity).
    assert (K20 : K2 (fun _ => Todo)) by (intros k p _ _ H; discriminate).
    destruct (wt_root _ _ Hwf) as (Hrp & Hrr & Hrd).
    pose proof (wt_root_in _ _ Hwf) as Hrin.
    (* the first event starts the root run *)
    inversion Hrun as [sg0 E0 E1 E2 | sg0 e0 sg1 evs' sg2 Ht0 Hrest E0 E1 E2].
    { specialize (Hdone root Hrin). rewrite <- E2 in Hdone. discriminate. }
    subst sg0 sg2 evs.
    assert (He0 : e0 = start_ev root).
    { inversion Ht0 as [? e He Hs Hp | ? e He Hs | ? ne q s Hne _ _ Hns | ? ne Hne _ Hns]; subst; try discriminate.
      destruct (en_parent e) as [p|] eqn:Ep; [destruct Hp as (pe & _ & _ & Hpr & _); discriminate|].
      rewrite (wt_root_only _ _ Hwf e He Ep). reflexivity. }
    assert (Hfull : run tbl (fun _ => Todo) (e0 :: evs') sg) by exact Hrun.
    destruct (run_accepted _ _ _ Hfull cinit K10 K20 SInv_init) as (stf & Ecr & HIf & _ & _).
    (* the last event ends it *)
    assert (Hlast : last (e0 :: evs') e0 = end_ev root).
    { destruct (run_snoc _ _ _ Hfull) as [[Hnil _]|(evs2 & el & sgl & Eev & Hr' & Htl)]; [discriminate|].
      rewrite Eev. rewrite last_last.
      destruct (run_accepted _ _ _ Hr' cinit K10 K20 SInv_init) as (_ & _ & _ & _ & K2l).
      inversion Htl as [? e He Hs Hp | ? e He Hs Hk | ? ne q s Hne _ _ Hns | ? ne Hne _ Hns]; subst.
      - specialize (Hdone e He). rewrite upd_same in Hdone. discriminate.
      - destruct (Nat.eq_dec (en_id e) (en_id root)) as [E|Hne]; [rewrite (same_id e root He Hrin E); reflexivity|].
        exfalso. pose proof (Hdone root Hrin) as Hrd'. rewrite upd_other in Hrd' by (intros E; apply Hne; symmetry; exact E).
        pose proof (all_by_depth Done sgl K2l Hrd' e He) as Hd. congruence.
      - specialize (Hdone ne Hne). congruence.
      - specialize (Hdone ne Hne). congruence. }
    (* nothing is left open *)
    assert (Hopen : c_open stf = []).
    { destruct (c_open stf) as [|o l] eqn:E; [reflexivity|]. exfalso.
      assert (Hin : In o (c_open stf)) by (rewrite E; left; reflexivity).
      apply (si_open _ _ HIf) in Hin as (e & He & _ & Hr). rewrite (Hdone e He) in Hr. discriminate. }
    unfold wf_b. subst e0. unfold start_ev at 1 2. rewrite Hrr, Hrp. cbn [e_kind e_parent].
    rewrite Ecr, Hopen, Hlast. unfold end_ev, root_failed. unfold en_is_run in Hrr.
    destruct (en_kind root) as [f|nm err]; [|discriminate]. simpl. rewrite Nat.eqb_refl. simpl. apply eqb_reflx.
  Qed.
End Proofs.

(* ---------------------------------------------------------------- non-vacuity: an interleaved schedule *)
(* root run 0 { node a(1), gate g(2) with a RouteDecision, GraphNode w(3) { failed inner run 4 { node b(5) raising } } } *)
Definition ex_r0 := mk_entry 0 None (SRun false) 0.
Definition ex_a := mk_entry 1 (Some 0) (SNode 11 false) 1.
Definition ex_g := mk_entry 2 (Some 0) (SNode 13 false) 1.
Definition ex_w := mk_entry 3 (Some 0) (SNode 20 false) 1.
Definition ex_ir := mk_entry 4 (Some 3) (SRun true) 2.
Definition ex_b := mk_entry 5 (Some 4) (SNode 12 true) 3.
Definition ex_tbl : list entry := [ex_r0; ex_a; ex_g; ex_w; ex_ir; ex_b].

Lemma ex_tbl_wf : wf_tbl ex_tbl ex_r0.
Proof.
  split.
  - simpl. repeat constructor; simpl; intuition discriminate.
  - simpl. auto.
  - repeat split.
  - intros e He Hp. simpl in He. intuition (subst; try discriminate; reflexivity).
  - intros e p He Hp. simpl in He.
    destruct He as [<-|[<-|[<-|[<-|[<-|[<-|[]]]]]]]; simpl in Hp; try discriminate; injection Hp as <-.
    + exists ex_r0. simpl. intuition.
    + exists ex_r0. simpl. intuition.
    + exists ex_r0. simpl. intuition.
    + exists ex_w. simpl. intuition.
    + exists ex_ir. simpl. intuition.
Qed.

(* a, w and g start before anything ends; the inner run starts while a and g are still running; g's RouteDecision arrives
   between the starts of the inner run and of its node; a ends while the inner run is open *)
Definition ex_evs : list event :=
  [start_ev ex_r0; start_ev ex_a; start_ev ex_w; start_ev ex_g; start_ev ex_ir;
   mk_event KRoute 9 (Some 0) 13%positive; start_ev ex_b; end_ev ex_a; end_ev ex_b; end_ev ex_ir; end_ev ex_g;
   end_ev ex_w; end_ev ex_r0].

Ltac ex_in := simpl; tauto.
Ltac ex_start x px :=
  eapply run_cons; [apply (t_start ex_tbl _ x); [ex_in | reflexivity | simpl; exists px; repeat split; ex_in || reflexivity || discriminate] |].
Ltac ex_end x :=
  eapply run_cons; [apply (t_end ex_tbl _ x); [ex_in | reflexivity |
    let k := fresh "k" in let Hk := fresh "Hk" in let Hp := fresh "Hp" in
    intros k Hk Hp; simpl in Hk; repeat (destruct Hk as [<-|Hk]; [try discriminate Hp; try reflexivity|]); try contradiction] |].

Example ex_schedule : schedule ex_tbl ex_evs.
Proof.
  eexists. split.
  - unfold ex_evs.
    eapply run_cons; [apply (t_start ex_tbl _ ex_r0); [ex_in | reflexivity | exact I] |].
    ex_start ex_a ex_r0. ex_start ex_w ex_r0. ex_start ex_g ex_r0. ex_start ex_ir ex_w.
    eapply run_cons; [apply (t_route ex_tbl _ ex_g 0 9); [ex_in | reflexivity | reflexivity | reflexivity |
                      exists ex_r0; repeat split; ex_in || reflexivity] |].
    ex_start ex_b ex_ir.
    ex_end ex_a. ex_end ex_b. ex_end ex_ir. ex_end ex_g. ex_end ex_w. ex_end ex_r0.
    apply run_nil.
  - intros e He. simpl in He. destruct He as [<-|[<-|[<-|[<-|[<-|[<-|[]]]]]]]; reflexivity.
Qed.

Example ex_schedule_accepted : wf_b false ex_evs = true.
Proof. exact (sched_accepted ex_tbl ex_r0 ex_tbl_wf ex_evs ex_schedule). Qed.
