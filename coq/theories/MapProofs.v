(* MapProofs.v — generate_map_inputs, map_top and collect_as_lists (C10). *)
From HG Require Import Base Rename Engine Exec Nested.
From stdpp Require Import gmap.

(* ---------- zip ---------- *)
Lemma transpose_length n cols : length (transpose n cols) = n.
Proof. revert cols. induction n as [|n IH]; intros cols; simpl; [reflexivity|]. rewrite IH. reflexivity. Qed.

Lemma transpose_nth n : forall cols i, i < n ->
  nth_error (transpose n cols) i = Some (map (fun c => nth i c VNone) cols).
Proof.
  induction n as [|n IH]; intros cols i Hi; [lia|]. simpl. destruct i as [|i]; simpl.
  - f_equal. apply map_ext. intros c. destruct c; reflexivity.
  - rewrite IH by lia. f_equal. rewrite map_map. apply map_ext. intros c. destruct c; simpl; [destruct i; reflexivity | reflexivity].
Qed.

(* ---------- product: row-major enumeration, first listed parameter slowest ---------- *)
Fixpoint prod_len (cols : list (list val)) : nat :=
  match cols with [] => 1 | c :: rest => length c * prod_len rest end.

Lemma cartesian_length cols : length (cartesian cols) = prod_len cols.
Proof.
  induction cols as [|c rest IH]; simpl; [reflexivity|].
  induction c as [|x c IHc]; simpl; [reflexivity|].
  rewrite app_length, map_length, IH, IHc. lia.
Qed.

(* row number i*|rest| + j of the product is (i-th of the first column) :: (row j of the rest) *)
Lemma cartesian_row c rest i j x row :
  nth_error c i = Some x -> nth_error (cartesian rest) j = Some row ->
  nth_error (cartesian (c :: rest)) (i * prod_len rest + j) = Some (x :: row).
Proof.
  revert i. induction c as [|y c IH]; intros i Hx Hrow; [destruct i; discriminate|].
  simpl. assert (Hl : length (map (fun r => y :: r) (cartesian rest)) = prod_len rest).
  { rewrite map_length. apply cartesian_length. }
  assert (Hj : j < prod_len rest).
  { rewrite <- cartesian_length. apply nth_error_Some. congruence. }
  destruct i as [|i]; simpl in *.
  - injection Hx as <-. rewrite nth_error_app1 by lia. rewrite nth_error_map, Hrow. reflexivity.
  - rewrite nth_error_app2 by lia. rewrite Hl.
    replace (prod_len rest + i * prod_len rest + j - prod_len rest) with (i * prod_len rest + j) by lia.
    apply IH; assumption.
Qed.

Lemma cartesian_empty_col cols : In [] cols -> cartesian cols = [].
Proof.
  induction cols as [|c rest IH]; simpl; intros H; [contradiction|].
  destruct H as [->|H]; [reflexivity|]. rewrite (IH H).
  induction c; simpl; auto.
Qed.

(* ---------- generate_map_inputs ---------- *)
Definition columns (values : dict val) (over : list name) : option (list (list val)) :=
  all_some (map (fun k => match dget values k with Some v => as_list v | None => None end) over).
Definition broadcast_of (values : dict val) (over : list name) : dict val :=
  List.filter (fun kv => negb (pos_in (fst kv) over)) values.

Lemma gmi_zip values over cols c0 rest :
  over <> [] -> columns values over = Some cols -> cols = c0 :: rest ->
  generate_map_inputs values over MZip =
    if forallb (fun c => Nat.eqb (length c) (length c0)) cols
    then inr (map (fun row => broadcast_of values over ++ combine over row) (transpose (length c0) cols))
    else inl EValueError.
Proof.
  intros Hne Hc ->. unfold generate_map_inputs. unfold columns in Hc. rewrite Hc.
  destruct over; [congruence|]. reflexivity.
Qed.

Lemma gmi_product values over cols :
  over <> [] -> columns values over = Some cols ->
  generate_map_inputs values over MProduct =
    inr (map (fun row => broadcast_of values over ++ combine over row) (cartesian cols)).
Proof.
  intros Hne Hc. unfold generate_map_inputs. unfold columns in Hc. rewrite Hc.
  destruct over; [congruence|]. reflexivity.
Qed.

(* zip: one combination per position, unequal lengths rejected *)
Theorem zip_positionwise values over cols c0 rest items i :
  over <> [] -> columns values over = Some cols -> cols = c0 :: rest ->
  generate_map_inputs values over MZip = inr items ->
  length items = length c0 /\
  (i < length c0 -> nth_error items i =
     Some (broadcast_of values over ++ combine over (map (fun c => nth i c VNone) cols))).
Proof.
  intros Hne Hc Hcs H. rewrite (gmi_zip values over cols c0 rest Hne Hc Hcs) in H.
  destruct (forallb _ cols); [|discriminate]. injection H as <-.
  split; [rewrite map_length; apply transpose_length|].
  intros Hi. rewrite nth_error_map, (transpose_nth _ _ _ Hi). reflexivity.
Qed.

Theorem zip_unequal_rejected values over cols c0 rest :
  over <> [] -> columns values over = Some cols -> cols = c0 :: rest ->
  forallb (fun c => Nat.eqb (length c) (length c0)) cols = false ->
  generate_map_inputs values over MZip = inl EValueError.
Proof. intros Hne Hc Hcs Hf. rewrite (gmi_zip values over cols c0 rest Hne Hc Hcs), Hf. reflexivity. Qed.

(* product: |c1|*...*|ck| combinations, none if any list is empty *)
Theorem product_count values over cols items :
  over <> [] -> columns values over = Some cols ->
  generate_map_inputs values over MProduct = inr items -> length items = prod_len cols.
Proof.
  intros Hne Hc H. rewrite (gmi_product values over cols Hne Hc) in H. injection H as <-.
  rewrite map_length. apply cartesian_length.
Qed.

Theorem product_empty values over cols :
  over <> [] -> columns values over = Some cols -> In [] cols ->
  generate_map_inputs values over MProduct = inr [].
Proof.
  intros Hne Hc Hin. rewrite (gmi_product values over cols Hne Hc), (cartesian_empty_col _ Hin). reflexivity.
Qed.

(* ---------- map_top: result i is the single run on combination i ---------- *)
Theorem map_each d r ng pv over mode items i it :
  generate_map_inputs pv over mode = inr items -> nth_error items i = Some it ->
  exists rs, map_top d r ng pv over mode = inr rs /\ length rs = length items /\
             nth_error rs i = Some (run_ng d r default_max_iterations ng it None).
Proof.
  intros Hg Hi. unfold map_top. rewrite Hg. eexists. split; [reflexivity|]. split; [apply map_length|].
  rewrite nth_error_map, Hi. reflexivity.
Qed.

(* ---------- collect_as_lists ---------- *)
Theorem collect_continue hout cur_out rs :
  exists outs, collect_as_lists hout cur_out true rs = inr outs /\
    map fst outs = cur_out /\
    forall o l, In (o, l) outs -> exists vs, l = VList vs /\ length vs = length rs /\
      forall i r, nth_error rs i = Some r ->
        nth_error vs i = Some (match r with
                               | IOk values => match dget (gn_map_outputs hout cur_out values) o with
                                               | Some v => v | None => VNone end
                               | _ => VNone end).
Proof.
  unfold collect_as_lists. eexists. split; [reflexivity|]. split.
  - rewrite map_map. simpl. apply map_id.
  - intros o l Hin. apply in_map_iff in Hin as (o' & [= <- <-] & _).
    eexists. split; [reflexivity|]. split; [apply map_length|].
    intros i r Hr. rewrite nth_error_map, Hr. reflexivity.
Qed.

Theorem collect_raise_first hout cur_out rs e :
  first_item_error rs = Some e -> collect_as_lists hout cur_out false rs = inl e.
Proof. intros H. unfold collect_as_lists. rewrite H. reflexivity. Qed.
