(* Events.v — well-formedness of an event stream as a span tree: an executable checker (one pass,
   open-span bookkeeping) and the properties every accepted stream has.  Events are as delivered to
   an EventProcessor (events/types.py), with span ids renamed to first-occurrence indices by the
   harness.  Plain stdlib. *)
From HG Require Import Base.

Inductive ekind :=
| KRunStart | KRunEnd (failed : bool) | KNodeStart | KNodeEnd | KNodeError | KCacheHit | KRoute | KOther.

Record event := mk_event { e_kind : ekind; e_span : nat; e_parent : option nat; e_node : positive }.

(* an open span: id, parent, is it a run span, node name *)
Record ospan := mk_ospan { o_id : nat; o_parent : option nat; o_run : bool; o_node : positive }.

Record cstate := mk_cstate { c_open : list ospan; c_seen : list nat }.

Definition nat_in (x : nat) (l : list nat) : bool := existsb (Nat.eqb x) l.
Definition find_open (st : cstate) (s : nat) : option ospan := find (fun o => Nat.eqb (o_id o) s) (c_open st).
Definition has_open_child (st : cstate) (s : nat) : bool :=
  existsb (fun o => match o_parent o with Some p => Nat.eqb p s | None => false end) (c_open st).
Definition remove_open (st : cstate) (s : nat) : cstate :=
  mk_cstate (filter (fun o => negb (Nat.eqb (o_id o) s)) (c_open st)) (c_seen st).
Definition push_open (st : cstate) (o : ospan) : cstate := mk_cstate (o :: c_open st) (o_id o :: c_seen st).

Definition opt_nat_eqb (a b : option nat) : bool :=
  match a, b with Some x, Some y => Nat.eqb x y | None, None => true | _, _ => false end.

(* one event; None = the stream is rejected here *)
Definition cstep (st : cstate) (e : event) : option cstate :=
  match e_kind e with
  | KRunStart =>
      if nat_in (e_span e) (c_seen st) then None
      else match e_parent e with
           | None => match c_seen st with [] => Some (push_open st (mk_ospan (e_span e) None true 1%positive)) | _ => None end
           | Some p => match find_open st p with
                       | Some _ => Some (push_open st (mk_ospan (e_span e) (Some p) true 1%positive))
                       | None => None
                       end
           end
  | KNodeStart =>
      if nat_in (e_span e) (c_seen st) then None
      else match e_parent e with
           | Some p => match find_open st p with
                       | Some o => if o_run o then Some (push_open st (mk_ospan (e_span e) (Some p) false (e_node e))) else None
                       | None => None
                       end
           | None => None
           end
  | KNodeEnd | KNodeError =>
      match find_open st (e_span e) with
      | Some o => if negb (o_run o) && opt_nat_eqb (o_parent o) (e_parent e) && negb (has_open_child st (e_span e))
                  then Some (remove_open st (e_span e)) else None
      | None => None
      end
  | KRunEnd _ =>
      match find_open st (e_span e) with
      | Some o => if o_run o && negb (has_open_child st (e_span e)) then Some (remove_open st (e_span e)) else None
      | None => None
      end
  | KCacheHit =>
      match find_open st (e_span e) with
      | Some o => if negb (o_run o) && Pos.eqb (o_node o) (e_node e) then Some st else None
      | None => None
      end
  | KRoute =>
      match e_parent e with
      | Some p => match find_open st p with
                  | Some o => if o_run o && existsb (fun c => negb (o_run c) && opt_nat_eqb (o_parent c) (Some p) &&
                                                          Pos.eqb (o_node c) (e_node e)) (c_open st)
                              then Some st else None
                  | None => None
                  end
      | None => None
      end
  | KOther => Some st
  end.

Fixpoint crun (st : cstate) (evs : list event) : option cstate :=
  match evs with
  | [] => Some st
  | e :: rest => match cstep st e with Some st' => crun st' rest | None => None end
  end.

Definition cinit : cstate := mk_cstate [] [].

(* the whole stream of a terminated top-level call whose caller observed `failed` *)
Definition wf_b (failed : bool) (evs : list event) : bool :=
  match evs with
  | [] => false
  | e0 :: _ =>
      match e_kind e0, e_parent e0 with
      | KRunStart, None =>
          match crun cinit evs with
          | Some st =>
              match c_open st with
              | [] => match last evs e0 with
                      | mk_event (KRunEnd f) s _ _ => Nat.eqb s (e_span e0) && Bool.eqb f failed
                      | _ => false
                      end
              | _ => false
              end
          | None => false
          end
      | _, _ => false
      end
  end.

(* a rejected call emits nothing *)
Definition silent (evs : list event) : bool := match evs with [] => true | _ => false end.
