(* InlineRuns.v — C05 at the level of runs of the engine model: a COMPLETED run of a graph containing a nested graph (the
   GraphNode executor of Nested.v: exec_ng) returns the same values as a COMPLETED run of the flat graph in which the
   wrapper is replaced by the inner graph's nodes - for either runner, any budget and any node order of either graph.
   Proof: the nested run ends in a solution of the nested dataflow system (C01), the wrapper's function is "the solution of
   the inner system" (C01 again, on the inner run), a nested solution is a flat solution (Inline.inline_nested_to_flat), and
   the flat system has exactly one solution (C01_unique). *)
From HG Require Import Base Rename RenameProofs Engine Exec EngineProofs C01Proofs Inline Nested NestedProofs.
From stdpp Require Import gmap.

(* every output of an acyclic graph whose nodes' inputs are all outputs or present is present in a solution *)
Lemma sol_all_present exec g pv V :
  Sol exec g pv V ->
  (exists rank : name -> nat, forall n m p, In n (g_nodes g) -> In m (g_nodes g) ->
      In p (n_inputs n) -> In p (n_outputs m) -> rank (n_name m) < rank (n_name n)) ->
  (forall n s ins outs dec, In n (g_nodes g) -> map fst ins = n_inputs n -> exec n s ins = OOk outs dec ->
     map fst outs = n_outputs n) ->
  (forall n p, In n (g_nodes g) -> In p (n_inputs n) -> In p (all_outputs g) \/ exists v, V !! p = Some v) ->
  forall n o, In n (g_nodes g) -> In o (n_outputs n) ->
  exists v outs ins, V !! o = Some v /\ exec n empty_state ins = OOk outs None /\ In (o, v) outs.
Proof.
  intros Hsol [rank Hr] Houts Hins.
  assert (G : forall k m, rank (n_name m) < k -> In m (g_nodes g) ->
              forall o, In o (n_outputs m) -> exists v outs ins, V !! o = Some v /\ exec m empty_state ins = OOk outs None /\ In (o, v) outs).
  { induction k as [|k IH]; intros m Hk Hm o Ho; [lia|].
    assert (Hp : forall p, In p (n_inputs m) -> exists v, V !! p = Some v).
    { intros p Hp. destruct (Hins m p Hm Hp) as [Hio|Hv]; [|exact Hv].
      unfold all_outputs in Hio. apply in_flat_map in Hio as (m' & Hm' & Hpo).
      destruct (IH m') with (o := p) as (v & _ & _ & Hv & _); [|exact Hm'|exact Hpo|eauto].
      specialize (Hr m m' p Hm Hm' Hp Hpo). lia. }
    destruct (sol_nodes _ _ _ _ Hsol m Hm (present_avail g V m Hp)) as (ins' & outs' & Hc' & He & Hov).
    pose proof (Houts m _ _ _ _ Hm (collect_keys _ _ _ _ _ _ Hc') He) as Hfst.
    rewrite <- Hfst in Ho. apply in_map_iff in Ho as [[o' v] [E Hin]]. simpl in E. subst o'.
    exists v, outs', ins'. split; [exact (Hov o v Hin)|]. split; [exact He | exact Hin]. }
  intros n o Hn Ho. exact (G (S (rank (n_name n))) n (Nat.lt_succ_diag_r _) Hn o Ho).
Qed.

Lemma dedup_nodup l : forall seen, List.NoDup (dedup l seen) /\ forall x, In x (dedup l seen) -> ~ In x seen.
Proof.
  induction l as [|a l IH]; intros seen; simpl.
  - split; [constructor | intros x []].
  - destruct (pos_in a seen) eqn:E.
    + apply IH.
    + destruct (IH (a :: seen)) as [Hnd Hns]. split.
      * constructor; [|exact Hnd]. intros Hin. apply (Hns a Hin). left. reflexivity.
      * intros x [<-|Hx]; [apply pos_in_nIn; exact E|]. intros Hs. apply (Hns x Hx). right. exact Hs.
Qed.

Lemma dedup_complete l : forall seen x, In x l -> ~ In x seen -> In x (dedup l seen).
Proof.
  induction l as [|a l IH]; intros seen x Hx Hns; [contradiction|]. simpl.
  destruct (Pos.eq_dec a x) as [->|Hne].
  - rewrite (proj2 (pos_in_nIn x seen) Hns). left. reflexivity.
  - destruct Hx as [Hx|Hx]; [contradiction|]. destruct (pos_in a seen).
    + apply IH; assumption.
    + right. apply IH; [exact Hx|]. intros [E|Hs]; [apply Hne; exact E | apply Hns; exact Hs].
Qed.

(* a run in which no node pauses is never PAUSED *)
Lemma superstep_nopause exec r g snap pv rd pz s2 calls :
  (forall n s ins p, In n rd -> exec n s ins <> OPause p) ->
  superstep exec r g snap pv rd <> (SPause pz s2, calls).
Proof.
  intros Hnp. destruct r; unfold superstep.
  - assert (G : forall rd' acc log0, (forall n, In n rd' -> In n rd) ->
                fst (superstep_sync exec g snap pv rd' acc log0) <> SPause pz s2).
    { induction rd' as [|a rd' IH]; intros acc log0 Hin; simpl; [discriminate|].
      destruct (collect_inputs g snap pv a (n_inputs a)) as [ins|]; [|discriminate].
      destruct (exec a snap ins) as [outs dec|e|p] eqn:Ea; simpl; try discriminate.
      - apply IH. intros n Hn. apply Hin. right. exact Hn.
      - exfalso. exact (Hnp a snap ins p (Hin a (or_introl eq_refl)) Ea). }
    intros H. apply (G rd snap [] (fun n Hn => Hn)). rewrite H. reflexivity.
  - unfold superstep_async. intros H.
    assert (Hsub' : forall n, In n (isolate rd) -> In n rd).
    { intros n. unfold isolate. destruct (List.filter is_interrupt rd) as [|i l] eqn:Ef; [auto|].
      intros [<-|[]]. assert (Hi : In i (List.filter is_interrupt rd)) by (rewrite Ef; left; reflexivity).
      apply filter_In in Hi as [Hi _]. exact Hi. }
    assert (G : forall l, (forall n, In n l -> In n rd) -> first_failure exec g snap pv l <> Some (inr pz)).
    { induction l as [|a l IH]; intros Hin; simpl; [discriminate|].
      unfold run_one. destruct (collect_inputs g snap pv a (n_inputs a)) as [ins|]; simpl; [|discriminate].
      destruct (exec a snap ins) as [outs dec|e|p] eqn:Ea; try discriminate.
      - apply IH. intros n Hn. apply Hin. right. exact Hn.
      - exfalso. exact (Hnp a snap ins p (Hin a (or_introl eq_refl)) Ea). }
    specialize (G (isolate rd) Hsub').
    destruct (first_failure exec g snap pv (isolate rd)) as [[e|p]|]; try discriminate.
    injection H as -> _ _. apply G. reflexivity.
Qed.

Lemma run_nopause exec r fuel g pv :
  (forall n s ins p, In n (g_nodes g) -> exec n s ins <> OPause p) ->
  forall pz s, fst (execute exec r fuel g pv) <> RPaused pz s.
Proof.
  intros Hnp pz s H. unfold execute in H.
  pose proof (run_loop_spec exec r fuel g pv (init_state pv) []) as Hspec. rewrite H in Hspec.
  destruct Hspec as (k & sk & s2 & calls & _ & _ & _ & Hstep & _).
  revert Hstep. apply superstep_nopause. intros n s0 ins p Hn. apply Hnp.
  exact (proj1 (ready_list_r0 g sk n Hn)).
Qed.

Section Runs.
  Variables (d : nat) (r : runner).
  Variables (ft : dict fexp) (gt : dict gate_cfg) (subs : list (name * nsub)).            (* the outer graph's tables *)
  Variables (gi : graph) (ieps : option (list name)) (ift : dict fexp) (igt : dict gate_cfg) (isubs : list (name * nsub)).
  Variable w : node.

  Definition inner_ng : ngraph := NG gi None ieps ift igt isubs.
  Definition exec_o := exec_ng (S d) r ft gt subs.
  Definition exec_i := exec_ng d r ift igt isubs.

  (* the wrapper: a GraphNode around the inner graph, no renames, not mapped, exposing all the inner outputs *)
  Hypothesis Hkind : n_kind w = KGraph.
  Hypothesis Hsub : dget subs (n_name w) = Some (NSub inner_ng [] [] (n_outputs w) None).
  Hypothesis Hsig : emit_only d inner_ng = [].
  Hypothesis Hw_outs : forall o, In o (n_outputs w) <-> In o (all_outputs gi).
  Hypothesis Hw_ins : forall n p, In n (g_nodes gi) -> In p (n_inputs n) -> In p (all_outputs gi) \/ In p (n_inputs w).
  Hypothesis Hw_nd : List.NoDup (n_inputs w).
  (* the inner graph is an acyclic gate-free graph whose functions return no ordering sentinels *)
  Hypothesis Hwf_i : forall ins, map fst ins = n_inputs w -> WF exec_i gi ins.
  Hypothesis Hnosent : forall n s ins outs dec o, In n (g_nodes gi) -> exec_i n s ins = OOk outs dec -> ~ In (o, VSentinel) outs.

  Lemma rget_nil k : rget [] k = k.
  Proof. reflexivity. Qed.

  Lemma map_id_pairs {A} (f : name -> name) (l : list (name * A)) :
    (forall k, f k = k) -> map (fun kv => (f (fst kv), snd kv)) l = l.
  Proof. intros H. induction l as [|[k v] l IH]; simpl; [reflexivity|]. rewrite H, IH. reflexivity. Qed.

  Lemma identity_inputs (ins : dict val) : List.NoDup (map fst ins) -> map_inputs_to_params [] ins = ins.
  Proof.
    intros Hnd. unfold map_inputs_to_params. rewrite map_id_pairs by reflexivity. apply dupdate_nil_nodup. exact Hnd.
  Qed.

  Lemma identity_forward (cur : list name) k : rget (dupdate [] (map (fun o => (rget (reverse_map []) o, o)) cur)) k = k.
  Proof.
    assert (G : forall (l : list name) (dd : dict name), (forall a b, dget dd a = Some b -> b = a) ->
                forall a b, dget (dupdate dd (map (fun o => (rget (reverse_map []) o, o)) l)) a = Some b -> b = a).
    { induction l as [|x l IH]; intros dd Hd a b; [apply Hd|].
      unfold dupdate. cbn [map fold_left fst snd]. apply IH. intros a' b'. rewrite dget_dset.
      change (rget (reverse_map []) x) with x.
      destruct (Pos.eqb x a') eqn:Ex; [apply Pos.eqb_eq in Ex; intros [= <-]; exact Ex | apply Hd]. }
    unfold rget at 1. destruct (dget _ k) as [o|] eqn:E; [|reflexivity].
    apply (G cur []) in E; [exact E | intros a b H; discriminate].
  Qed.

  Lemma identity_outputs (cur : list name) (outs : dict val) : List.NoDup (map fst outs) -> gn_map_outputs [] cur outs = outs.
  Proof.
    intros Hnd. unfold gn_map_outputs. rewrite map_id_pairs by (apply identity_forward). apply dupdate_nil_nodup. exact Hnd.
  Qed.

  Lemma collect_all_keys_nodup g s : List.NoDup (map fst (collect_all g s)).
  Proof.
    unfold collect_all, graph_outputs. destruct (dedup_nodup (flat_map n_outputs (g_nodes g)) []) as [Hnd _].
    induction Hnd as [|x l Hx Hnd IH]; simpl; [constructor|].
    rewrite map_app. assert (Hsub' : forall y, In y (map fst (flat_map (fun k => match vals s !! k with
                       | Some v => if not_sentinel v then [(k, v)] else [] | None => [] end) l)) -> In y l).
    { intros y Hy. apply in_map_iff in Hy as [[k v] [<- Hin]]. apply in_flat_map in Hin as (k' & Hk' & Hin).
      destruct (vals s !! k') as [v'|]; [|contradiction]. destruct (not_sentinel v'); [|contradiction].
      destruct Hin as [[= <- <-]|[]]. exact Hk'. }
    destruct (vals s !! x) as [v|]; [destruct (not_sentinel v)|]; simpl; try exact IH.
    constructor; [|exact IH]. intros Hin. apply Hx. apply Hsub'. exact Hin.
  Qed.

  Lemma collect_all_in g s o v :
    In (o, v) (collect_all g s) <-> In o (graph_outputs g) /\ vals s !! o = Some v /\ not_sentinel v = true.
  Proof.
    unfold collect_all. rewrite in_flat_map. split.
    - intros (k & Hk & Hin). destruct (vals s !! k) as [v'|] eqn:E; [|contradiction].
      destruct (not_sentinel v') eqn:En; [|contradiction]. destruct Hin as [[= <- <-]|[]]. auto.
    - intros (Ho & Hv & Hn). exists o. split; [exact Ho|]. rewrite Hv, Hn. left. reflexivity.
  Qed.

  (* the GraphNode executor, with the identity boundary unfolded *)
  Lemma exec_o_unfold st ins : map fst ins = n_inputs w ->
    exec_o w st ins =
    match fst (execute exec_i r default_max_iterations gi ins) with
    | RDone s => OOk (collect_all gi s) None
    | RFailed e _ => ORaise e
    | RPaused p _ => OPause (mk_pause (n_name w :: p_node p) (p_out p) (p_value p))
    end.
  Proof.
    intros Hk. unfold exec_o.
    rewrite (exec_ng_graph d r ft gt subs w st ins gi None ieps ift igt isubs [] [] (n_outputs w) Hkind Hsub).
    assert (Hnd : List.NoDup (map fst ins)) by (rewrite Hk; exact Hw_nd).
    rewrite (identity_inputs ins Hnd). fold exec_i.
    destruct (fst (execute exec_i r default_max_iterations gi ins)) as [s|e p|p s]; try reflexivity.
    fold inner_ng. rewrite Hsig, with_signals_none. cbn [filter_outputs].
    rewrite (identity_outputs (n_outputs w) (collect_all gi s) (collect_all_keys_nodup gi s)). reflexivity.
  Qed.

  (* the GraphNode executor returns the exposed values of a solution of the inner system *)
  Lemma wrapper_spec ins outs : map fst ins = n_inputs w -> exec_o w empty_state ins = OOk outs None ->
    exists Vi, Sol exec_i gi ins Vi /\ Reads w Vi outs.
  Proof.
    intros Hk He. rewrite (exec_o_unfold empty_state ins Hk) in He.
    assert (Hnd : List.NoDup (map fst ins)) by (rewrite Hk; exact Hw_nd).
    destruct (execute exec_i r default_max_iterations gi ins) as [res log] eqn:Ex. simpl in He.
    destruct res as [s|e p|p s]; try discriminate. injection He as <-.
    pose proof (Hwf_i ins Hk) as Hwf.
    assert (Hsol : Sol exec_i gi ins (vals s)).
    { apply (run_reaches_solution exec_i gi ins Hwf) with (r := r) (fuel := default_max_iterations) (log := log).
      - unfold dkeys. exact Hnd.
      - exact Ex. }
    exists (vals s). split; [exact Hsol|]. split.
    - intros o v Hin. apply collect_all_in in Hin as (_ & Hv & _). exact Hv.
    - intros o Ho. apply Hw_outs in Ho. unfold all_outputs in Ho. pose proof Ho as Ho'.
      apply in_flat_map in Ho as (m & Hm & Hom).
      destruct (sol_all_present exec_i gi ins (vals s) Hsol (wf_rank _ _ _ Hwf)
                  (fun n s0 i o0 dc Hn Hkk Hx => proj1 (wf_outs _ _ _ Hwf n s0 i o0 dc Hn Hkk Hx))) with (n := m) (o := o)
        as (v & outs' & ins' & Hv & Hexec & Hin); [|exact Hm|exact Hom|].
      + intros n p Hn Hp. destruct (Hw_ins n p Hn Hp) as [Hio|Hiw]; [left; exact Hio|]. right.
        assert (Hd : exists v, dget ins p = Some v).
        { destruct (dget ins p) as [v|] eqn:E; [eauto|]. apply dget_None_notin in E. exfalso. apply E.
          unfold dkeys. rewrite Hk. exact Hiw. }
        destruct Hd as [v Hd]. exists v. exact (sol_provided _ _ _ _ Hsol p v Hd).
      + exists v. apply collect_all_in. split; [|split; [exact Hv|]].
        * unfold graph_outputs. apply dedup_complete; [exact Ho' | intros []].
        * unfold not_sentinel. destruct (val_eqb v VSentinel) eqn:Es; [|reflexivity].
          apply val_eqb_eq in Es. subst v. exfalso. exact (Hnosent m _ _ _ _ o Hm Hexec Hin).
  Qed.

  (* the wrapper never pauses when no inner node does *)
  Lemma wrapper_nopause s ins p :
    (forall n s0 i q, In n (g_nodes gi) -> exec_i n s0 i <> OPause q) -> exec_o w s ins <> OPause p.
  Proof.
    intros Hnp He. unfold exec_o in He.
    rewrite (exec_ng_graph d r ft gt subs w s ins gi None ieps ift igt isubs [] [] (n_outputs w) Hkind Hsub) in He.
    fold exec_i in He.
    destruct (fst (execute exec_i r default_max_iterations gi (map_inputs_to_params [] ins))) as [st|e pp|pp st] eqn:Ex;
      try discriminate.
    exact (run_nopause exec_i r default_max_iterations gi _ Hnp pp st Ex).
  Qed.

  Lemma collect_all_full g s :
    (forall o, In o (graph_outputs g) -> exists v, vals s !! o = Some v /\ not_sentinel v = true) ->
    map fst (collect_all g s) = graph_outputs g.
  Proof.
    unfold collect_all. induction (graph_outputs g) as [|o l IH]; intros H; simpl; [reflexivity|].
    destruct (H o (or_introl eq_refl)) as (v & Hv & Hn). rewrite Hv, Hn. simpl. f_equal.
    apply IH. intros o' Ho'. apply H. right. exact Ho'.
  Qed.

  (* ... and it returns exactly its declared outputs, whatever the outer state *)
  Lemma wrapper_outs s ins outs dec : n_outputs w = graph_outputs gi -> map fst ins = n_inputs w ->
    exec_o w s ins = OOk outs dec -> map fst outs = n_outputs w /\ dec = None.
  Proof.
    intros Hgo Hk He.
    assert (He0 : exec_o w empty_state ins = OOk outs dec).
    { rewrite <- He. apply exec_ng_state_independent. exact Hkind. }
    assert (Hd : dec = None).
    { rewrite (exec_o_unfold empty_state ins Hk) in He0.
      destruct (fst (execute exec_i r default_max_iterations gi ins)); [injection He0 as _ <-; reflexivity | discriminate | discriminate]. }
    subst dec. split; [|reflexivity].
    destruct (wrapper_spec ins outs Hk He0) as (Vi & _ & _ & HR2).
    rewrite (exec_o_unfold empty_state ins Hk) in He0.
    destruct (fst (execute exec_i r default_max_iterations gi ins)) as [st|e p|p st]; try discriminate.
    injection He0 as <-. rewrite Hgo. apply collect_all_full. intros o Ho. rewrite <- Hgo in Ho.
    destruct (HR2 o Ho) as [v Hv]. apply collect_all_in in Hv as (_ & E & N). eauto.
  Qed.

  (* ---- the nested run and the flat run ---- *)
  Variables (go : graph) (pv : dict val).
  Hypothesis Hw_in : In w (g_nodes go).
  Hypothesis Hdisj : forall n, In n (g_nodes go) -> inner gi n = false.

  Definition flat_graph : graph := gf gi go w.
  Definition flat_exec : node -> state -> dict val -> outcome := exec_f exec_i exec_o gi.

  (* leaves of the flat graph are executed as in their own graphs *)
  Lemma flat_exec_leaf n st ins : n_kind n = KFunc ->
    flat_exec n st ins = if inner gi n then exec_basic ift igt n st ins else exec_basic ft gt n st ins.
  Proof.
    intros Hk. unfold flat_exec, exec_f, exec_i, exec_o. rewrite !exec_ng_leaf by exact Hk. reflexivity.
  Qed.

  Theorem inline_runs r1 r2 f1 f2 sn sf l1 l2 :
    WF exec_o go pv -> WF flat_exec flat_graph pv -> List.NoDup (dkeys pv) ->
    execute exec_o r1 f1 go pv = (RDone sn, l1) ->
    execute flat_exec r2 f2 flat_graph pv = (RDone sf, l2) ->
    (forall p, In p (n_inputs w) -> exists v, vals sn !! p = Some v) ->
    vals sn = vals sf.
  Proof.
    intros Hwo Hwf Hnd Hn Hf Hp.
    pose proof (run_reaches_solution exec_o go pv Hwo Hnd r1 f1 sn l1 Hn) as Hsn.
    pose proof (run_reaches_solution flat_exec flat_graph pv Hwf Hnd r2 f2 sf l2 Hf) as Hsf.
    apply (nested_equals_flat exec_i exec_o gi go w pv Hw_in (wf_names _ _ _ Hwo) Hdisj Hw_outs Hw_ins (vals sn) (vals sf) Hwf);
      [exact wrapper_spec | exact Hsn | exact Hp | exact Hsf].
  Qed.
End Runs.
