(* Samples.v — small concrete programs used for the non-vacuity Examples beside the theorems. *)
From HG Require Import Base Engine Exec GraphDef.
From stdpp Require Import gmap.
Local Open Scope positive_scope.

(* names: 1 x, 2 y, 3 z ; nodes: 10 A, 11 B, 12 C, 13 gate, 14 D ; signals 20 *)
Definition fnode (nm : positive) (ins outs : list positive) (fn : positive) : node :=
  mk_node nm ins outs (length outs) [] [] [] KFunc fn.

(* diamond DAG: A(x)->a ; B(a)->b ; C(a)->c ; D(b,c)->d *)
Definition dag_nodes : list node :=
  [fnode 14 [32; 33] [34] 4; fnode 11 [31] [32] 2; fnode 10 [1] [31] 1; fnode 12 [31] [33] 3].
Definition dag : graph := mk_graph dag_nodes [] None.
Definition dag_ft : dict fexp := [(1, FSym 10); (2, FSym 11); (3, FSym 12); (4, FSym 14)]%positive.

(* gated: gate(c) -> B | C ; B(x)->b ; C(x)->c2 *)
Definition gate_node : node :=
  mk_node 13 [2] [] 0%nat [] [] [] (KGate (mk_gate [TNode 11; TNode 12; TEnd] false)) 5.
Definition gated_nodes : list node := [fnode 11 [1] [32] 2; gate_node; fnode 12 [1] [33] 3].
Definition gated : graph := mk_graph gated_nodes [] None.
Definition gated_ft : dict fexp :=
  [(2, FSym 11); (3, FSym 12); (5, GTable [(0, ROne 11); (1, ROne 12)]%Z REnd)]%positive.
Definition gated_gt : dict gate_cfg := [(13%positive, mk_gcfg TEnd TEnd None false false)].

(* loop: body(x)->x emits done ; gate(x) waits for done: x<3 -> body | END *)
Definition body_node : node := mk_node 10 [1] [1; 20] 1%nat [] [] [] KFunc 1.
Definition loop_gate : node :=
  mk_node 13 [1] [] 0%nat [20] [] [] (KGate (mk_gate [TNode 10; TEnd] true)) 2.
Definition loop : graph := mk_graph [body_node; loop_gate] [] None.
Definition loop_ft : dict fexp := [(1, FAdd 1); (2, GLt 3)]%positive.
Definition loop_gt : dict gate_cfg := [(13%positive, mk_gcfg (TNode 10) TEnd None false true)].
