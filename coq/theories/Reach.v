(* Reach.v — reachability in a finite directed graph given as an edge list: the executable procedure
   (breadth-first growth of a duplicate-free list, |nodes| rounds) and the proof that it decides the
   reflexive-transitive closure.  This is what networkx's has_path / descendants compute for
   graph/_conflict.py.  Plain stdlib. *)
From HG Require Import Base.
From Coq Require Import Lia.

Definition edges := list (name * name).

Definition succs (es : edges) (x : name) : list name :=
  map snd (filter (fun e => Pos.eqb (fst e) x) es).

Definition fresh (es : edges) (S : list name) : list name :=
  nodup Pos.eq_dec (filter (fun y => negb (pos_in y S)) (flat_map (succs es) S)).

Definition grow (es : edges) (S : list name) : list name := S ++ fresh es S.

Fixpoint iter_n {A} (k : nat) (f : A -> A) (x : A) : A :=
  match k with O => x | S k' => iter_n k' f (f x) end.

Definition reach_list (es : edges) (k : nat) (srcs : list name) : list name := iter_n k (grow es) srcs.
Definition reachb (es : edges) (k : nat) (a b : name) : bool := pos_in b (reach_list es k [a]).

Inductive rt (es : edges) : name -> name -> Prop :=
| rt_refl a : rt es a a
| rt_step a b c : rt es a b -> In (b, c) es -> rt es a c.

Lemma rt_trans es a b c : rt es a b -> rt es b c -> rt es a c.
Proof. intros H1 H2. induction H2 as [|b c d _ IH He]; [exact H1|]. eapply rt_step; [apply IH; exact H1|exact He]. Qed.

Lemma rt_mono es es' a b : (forall e, In e es -> In e es') -> rt es a b -> rt es' a b.
Proof. intros Hs H. induction H as [|a b c _ IH He]; [constructor|]. eapply rt_step; [exact IH|apply Hs, He]. Qed.

Lemma succs_In es x y : In y (succs es x) <-> In (x, y) es.
Proof.
  unfold succs. rewrite in_map_iff. split.
  - intros [[a b] [Hb Hin]]. apply filter_In in Hin. destruct Hin as [Hin Heq]. simpl in *.
    apply Pos.eqb_eq in Heq. subst. exact Hin.
  - intros Hin. exists (x, y). split; [reflexivity|]. apply filter_In. split; [exact Hin|]. simpl. apply Pos.eqb_refl.
Qed.

Lemma fresh_In es S y : In y (fresh es S) <-> ~ In y S /\ exists s, In s S /\ In (s, y) es.
Proof.
  unfold fresh. rewrite nodup_In, filter_In, in_flat_map. split.
  - intros [[s [Hs Hy]] Hn]. split.
    + apply pos_in_nIn. destruct (pos_in y S); [discriminate|reflexivity].
    + exists s. split; [exact Hs|]. apply succs_In. exact Hy.
  - intros [Hn [s [Hs Hy]]]. split.
    + exists s. split; [exact Hs|]. apply succs_In. exact Hy.
    + apply pos_in_nIn in Hn. rewrite Hn. reflexivity.
Qed.

Lemma grow_In es S y : In y (grow es S) <-> In y S \/ (~ In y S /\ exists s, In s S /\ In (s, y) es).
Proof. unfold grow. rewrite in_app_iff, fresh_In. reflexivity. Qed.

Lemma grow_NoDup es S : NoDup S -> NoDup (grow es S).
Proof.
  intros H. unfold grow. apply NoDup_app_intro; [exact H|apply NoDup_nodup|].
  intros x Hx Hf. apply fresh_In in Hf. destruct Hf as [Hn _]. exact (Hn Hx).
Qed.

Definition within (es : edges) (U : list name) : Prop := forall a b, In (a, b) es -> In a U /\ In b U.

Lemma grow_incl es S U : within es U -> incl S U -> incl (grow es S) U.
Proof.
  intros Hw Hi y Hy. apply grow_In in Hy. destruct Hy as [Hy|[_ [s [_ He]]]]; [apply Hi, Hy|]. apply (Hw _ _ He).
Qed.

Definition closed (es : edges) (S : list name) : Prop := forall s y, In s S -> In (s, y) es -> In y S.

Lemma fresh_nil_closed es S : fresh es S = [] -> closed es S.
Proof.
  intros Hf s y Hs He. destruct (in_dec Pos.eq_dec y S) as [Hy|Hy]; [exact Hy|].
  assert (Hin : In y (fresh es S)) by (apply fresh_In; split; [exact Hy|exists s; split; assumption]).
  rewrite Hf in Hin. destruct Hin.
Qed.

Lemma iter_fix {A} (f : A -> A) x k : f x = x -> iter_n k f x = x.
Proof. intros H. induction k as [|k IH]; [reflexivity|]. simpl. rewrite H. exact IH. Qed.

Lemma iter_sound es k : forall S x, In x (iter_n k (grow es) S) -> exists s, In s S /\ rt es s x.
Proof.
  induction k as [|k IH]; intros S x Hx; simpl in Hx.
  - exists x. split; [exact Hx|constructor].
  - apply IH in Hx. destruct Hx as [s [Hs Hr]]. apply grow_In in Hs. destruct Hs as [Hs|[_ [s0 [Hs0 He]]]].
    + exists s. split; assumption.
    + exists s0. split; [exact Hs0|]. eapply rt_trans; [|exact Hr]. eapply rt_step; [constructor|exact He].
Qed.

Lemma iter_incl_start es k : forall S, incl S (iter_n k (grow es) S).
Proof.
  induction k as [|k IH]; intros S x Hx; simpl; [exact Hx|]. apply IH. apply grow_In. left. exact Hx.
Qed.

Lemma iter_progress es U k : within es U -> forall S, NoDup S -> incl S U ->
  let R := iter_n k (grow es) S in
  NoDup R /\ incl R U /\ (closed es R \/ length S + k <= length R).
Proof.
  intros Hw. induction k as [|k IH]; intros S Hnd Hi; simpl.
  - split; [exact Hnd|]. split; [exact Hi|]. right. lia.
  - destruct (fresh es S) as [|y l] eqn:Hf.
    + assert (Hg : grow es S = S) by (unfold grow; rewrite Hf; apply app_nil_r).
      rewrite Hg. rewrite iter_fix by exact Hg. split; [exact Hnd|]. split; [exact Hi|].
      left. apply fresh_nil_closed. exact Hf.
    + destruct (IH (grow es S) (grow_NoDup es S Hnd) (grow_incl es S U Hw Hi)) as [H1 [H2 H3]].
      split; [exact H1|]. split; [exact H2|]. destruct H3 as [H3|H3]; [left; exact H3|]. right.
      unfold grow in H3 at 1. rewrite app_length, Hf in H3. simpl in H3. lia.
Qed.

Lemma closed_rt es S a b : closed es S -> In a S -> rt es a b -> In b S.
Proof. intros Hc Ha H. induction H as [|a b c _ IH He]; [exact Ha|]. eapply Hc; [apply IH, Ha|exact He]. Qed.

Theorem reachb_spec es U k a b :
  within es U -> In a U -> length U <= k ->
  (reachb es k a b = true <-> rt es a b).
Proof.
  intros Hw Ha Hk. unfold reachb, reach_list. rewrite pos_in_In. split.
  - intros H. apply iter_sound in H. destruct H as [s [[Hs|[]] Hr]]. subst. exact Hr.
  - intros Hr.
    assert (Hnd : NoDup [a]) by (constructor; [intros []|constructor]).
    assert (Hi : incl [a] U) by (intros x [Hx|[]]; subst; exact Ha).
    destruct (iter_progress es U k Hw [a] Hnd Hi) as [H1 [H2 H3]].
    destruct H3 as [H3|H3].
    + eapply closed_rt; [exact H3| |exact Hr]. apply iter_incl_start. left. reflexivity.
    + exfalso. pose proof (NoDup_incl_length H1 H2) as Hl. simpl in H3. lia.
Qed.

(* the set form used for nx.descendants(G, t) | {t} *)
Theorem reach_list_spec es U k a x :
  within es U -> In a U -> length U <= k -> (In x (reach_list es k [a]) <-> rt es a x).
Proof. intros Hw Ha Hk. rewrite <- pos_in_In. apply (reachb_spec es U k a x Hw Ha Hk). Qed.
