(* EventsTreeSched.v — the span table of a span tree (ids as in lin: first-use order of the synchronous stream), and the proof
   that the table of every well-shaped tree is well formed: so EVERY schedule (EventsSched.v) of the spans of every run of the
   nested engine model is accepted by the checker - not only the depth-first stream of a synchronous runner. *)
From HG Require Import Base Events EventsProofs EventsTree EventsTreeProofs EventsSched EventsSchedProofs.

Fixpoint table (id : nat) (parent : option nat) (depth : nat) (t : stree) : list entry :=
  match t with
  | ST l kids =>
      let fix go (i : nat) (p : option nat) (d : nat) (ks : list stree) : list entry :=
        match ks with [] => [] | k :: ks' => table i p d k ++ go (i + size k) p d ks' end in
      match l with
      | LRun failed _ => mk_entry id parent (SRun failed) depth :: go (S id) (Some id) (S depth) kids
      | LNode nm err route => mk_entry id parent (SNode nm err) depth :: go (if route then S (S id) else S id) (Some id) (S depth) kids
      | LStep => go id parent depth kids
      end
  end.

Fixpoint tables (i : nat) (p : option nat) (d : nat) (ks : list stree) : list entry :=
  match ks with [] => [] | k :: ks' => table i p d k ++ tables (i + size k) p d ks' end.

Lemma table_unfold id parent depth l kids :
  table id parent depth (ST l kids) =
  match l with
  | LRun failed _ => mk_entry id parent (SRun failed) depth :: tables (S id) (Some id) (S depth) kids
  | LNode nm err route => mk_entry id parent (SNode nm err) depth :: tables (if route then S (S id) else S id) (Some id) (S depth) kids
  | LStep => tables id parent depth kids
  end.
Proof.
  assert (E : forall i p d, (fix go (i : nat) (p : option nat) (d : nat) (ks : list stree) : list entry :=
                 match ks with [] => [] | k :: ks' => table i p d k ++ go (i + size k) p d ks' end) i p d kids = tables i p d kids).
  { induction kids as [|k ks IH]; intros i p d; simpl; [reflexivity | rewrite IH; reflexivity]. }
  destruct l; simpl; rewrite E; reflexivity.
Qed.

(* what every entry of the table of a subtree placed under span q (of depth d - 1, a run span iff under_run) looks like *)
Definition Local (under_run : bool) (q : nat) (d : nat) (tb : list entry) (e : entry) : Prop :=
  (en_parent e = Some q /\ en_depth e = d /\ (en_is_run e = false -> under_run = true)) \/
  (exists pe, In pe tb /\ en_parent e = Some (en_id pe) /\ en_depth e = S (en_depth pe) /\ (en_is_run e = false -> en_is_run pe = true)).

Definition TableOK (t : stree) : Prop :=
  forall u id q d, shape_ok u t = true ->
  let tb := table id (Some q) d t in
  (forall e, In e tb -> id <= en_id e < id + size t) /\
  NoDup (map en_id tb) /\
  (forall e, In e tb -> Local u q d tb e).

Lemma Local_mono u q d tb tb' e : (forall x, In x tb -> In x tb') -> Local u q d tb e -> Local u q d tb' e.
Proof. intros Hs [H|(pe & Hpe & R)]; [left; exact H | right; exists pe; split; [apply Hs; exact Hpe | exact R]]. Qed.

Lemma tables_ok kids : Forall TableOK kids ->
  forall u id q d, forallb (shape_ok u) kids = true ->
  let tb := tables id (Some q) d kids in
  (forall e, In e tb -> id <= en_id e < id + sizes kids) /\
  NoDup (map en_id tb) /\
  (forall e, In e tb -> Local u q d tb e).
Proof.
  induction 1 as [|k ks Hk _ IH]; intros u id q d Hs; simpl.
  - split; [intros e []|]. split; [constructor | intros e []].
  - simpl in Hs. apply andb_true_iff in Hs as [Hs1 Hs2].
    destruct (Hk u id q d Hs1) as (R1 & N1 & L1). destruct (IH u (id + size k) q d Hs2) as (R2 & N2 & L2).
    split; [|split].
    + intros e Hin. apply in_app_or in Hin as [Hin|Hin]; [specialize (R1 e Hin); lia | specialize (R2 e Hin); lia].
    + rewrite map_app. apply NoDup_app_intro; [exact N1 | exact N2|].
      intros x H1 H2. apply in_map_iff in H1 as (e1 & <- & H1). apply in_map_iff in H2 as (e2 & E & H2).
      specialize (R1 e1 H1). specialize (R2 e2 H2). lia.
    + intros e Hin. apply in_app_or in Hin as [Hin|Hin].
      * apply (Local_mono u q d (table id (Some q) d k)); [intros x Hx; apply in_or_app; left; exact Hx | apply L1; exact Hin].
      * apply (Local_mono u q d (tables (id + size k) (Some q) d ks)); [intros x Hx; apply in_or_app; right; exact Hx | apply L2; exact Hin].
Qed.

(* a span with its subtrees below it *)
Lemma span_ok me id q d u under kids n0 :
  en_id me = id -> en_parent me = Some q -> en_depth me = d -> (en_is_run me = false -> u = true) ->
  id < n0 ->
  (let tb := tables n0 (Some id) (S d) kids in
   (forall e, In e tb -> n0 <= en_id e < n0 + sizes kids) /\ NoDup (map en_id tb) /\
   (forall e, In e tb -> Local under id (S d) tb e)) ->
  under = en_is_run me ->
  let tb := me :: tables n0 (Some id) (S d) kids in
  (forall e, In e tb -> id <= en_id e < n0 + sizes kids) /\
  NoDup (map en_id tb) /\
  (forall e, In e tb -> Local u q d tb e).
Proof.
  intros Hid Hp Hd Hk Hlt (R & N & L) Hu. split; [|split].
  - intros e [<-|Hin]; [lia | specialize (R e Hin); lia].
  - simpl. constructor; [|exact N]. intros Hin. apply in_map_iff in Hin as (e & E & Hin). specialize (R e Hin). lia.
  - intros e [<-|Hin].
    + left. auto.
    + right. destruct (L e Hin) as [(Hpe & Hde & Hke)|(pe & Hpe & R')].
      * exists me. split; [left; reflexivity|]. rewrite Hid, Hd. split; [exact Hpe|]. split; [exact Hde|].
        intros Hr. rewrite <- Hu. exact (Hke Hr).
      * exists pe. split; [right; exact Hpe | exact R'].
Qed.

Lemma table_ok t : TableOK t.
Proof.
  induction t as [l kids IHk] using stree_ind2. intros u id q d Hs. rewrite table_unfold, size_unfold.
  destruct l as [failed is_map | nm err route |]; cbn [shape_ok] in Hs.
  - pose proof (tables_ok kids IHk true (S id) id (S d) Hs) as Hk.
    destruct (span_ok (mk_entry id (Some q) (SRun failed) d) id q d u true kids (S id) eq_refl eq_refl eq_refl
                (fun H => ltac:(discriminate H)) ltac:(lia) Hk eq_refl) as (R & N & L).
    split; [intros e He; specialize (R e He); lia | split; [exact N | exact L]].
  - apply andb_true_iff in Hs as [Hu Hs]. subst u.
    set (n0 := if route then S (S id) else S id).
    pose proof (tables_ok kids IHk false n0 id (S d) Hs) as Hk.
    destruct (span_ok (mk_entry id (Some q) (SNode nm err) d) id q d true false kids n0 eq_refl eq_refl eq_refl
                (fun _ => eq_refl) ltac:(unfold n0; destruct route; lia) Hk eq_refl) as (R & N & L).
    split; [intros e He; specialize (R e He); unfold n0 in R; destruct route; lia | split; [exact N | exact L]].
  - exact (tables_ok kids IHk u id q d Hs).
Qed.

(* the table of a whole run *)
Definition run_table (t : stree) : list entry :=
  match t with
  | ST (LRun failed _) kids => mk_entry 0 None (SRun failed) 0 :: tables 1 (Some 0) 1 kids
  | _ => []
  end.
Definition run_root (t : stree) : entry := mk_entry 0 None (SRun (run_failed t)) 0.

Theorem run_table_wf failed is_map kids : forallb (shape_ok true) kids = true ->
  wf_tbl (run_table (ST (LRun failed is_map) kids)) (run_root (ST (LRun failed is_map) kids)).
Proof.
  intros Hs. cbn [run_table run_root run_failed st_label].
  assert (HF : Forall TableOK kids) by (apply Forall_forall; intros k _; apply table_ok).
  destruct (tables_ok kids HF true 1 0 1 Hs) as (R & N & L).
  set (root := mk_entry 0 None (SRun failed) 0).
  split.
  - simpl. constructor; [|exact N]. intros Hin. apply in_map_iff in Hin as (e & E & Hin). specialize (R e Hin). lia.
  - left. reflexivity.
  - repeat split.
  - intros e [<-|Hin] Hp; [reflexivity|]. exfalso.
    destruct (L e Hin) as [(Hpe & _)|(pe & _ & Hpe & _)]; congruence.
  - intros e p [<-|Hin] Hp; [discriminate|].
    destruct (L e Hin) as [(Hpe & Hde & Hke)|(pe & Hpe & Hpp & Hdd & Hkk)].
    + exists root. split; [left; reflexivity|]. rewrite Hp in Hpe. injection Hpe as ->. simpl. split; [reflexivity|].
      split; [exact Hde | intros _; reflexivity].
    + exists pe. split; [right; exact Hpe|]. rewrite Hp in Hpp. injection Hpp as ->. auto.
Qed.

(* C12_model_any_schedule: every schedule of the spans of every run of the nested engine model is accepted *)
From HG Require Import Engine Exec Nested.

Theorem model_any_schedule d r fuel ng pv evs :
  schedule (run_table (tree_ng d r fuel ng pv)) evs ->
  wf_b (run_failed (tree_ng d r fuel ng pv)) evs = true.
Proof.
  pose proof (tree_ng_shape d r fuel ng pv true) as Hs.
  destruct (tree_ng_is_run d r fuel ng pv) as (f & kids & E). rewrite E in *. cbn [shape_ok] in Hs.
  intros Hsch. exact (sched_accepted _ _ (run_table_wf f false kids Hs) evs Hsch).
Qed.
