(* Engine.v — executable model of the superstep engine.
   Restates, function by function:
     runners/_shared/types.py    GraphState.update_value / get_version / copy, NodeExecution
     runners/_shared/helpers.py  get_value_source, collect_inputs_for_node, get_ready_nodes,
                                 _get_activated_nodes, _clear_stale_gate_decisions,
                                 _is_node_activated_by_decision, _is_node_ready, _wait_for_satisfied,
                                 _defer_wait_for_nodes, _has_input, _needs_execution, _is_stale,
                                 initialize_state, filter_outputs
     runners/sync/superstep.py   run_superstep_sync
     runners/async_/superstep.py run_superstep_async
     runners/sync/runner.py      SyncRunner._execute_graph_impl   (async_/runner.py: same loop)
     graph/core.py               Graph.controlled_by, self_producers, outputs
   The engine is parametric in `exec`, the per-node executor (function call, gate
   decision, nested run, interrupt): every theorem holds for all executors. *)
From HG Require Import Base.
From stdpp Require Import gmap.

Inductive target := TEnd | TNode (t : name).
Inductive decision := DEnd | DOne (t : name) | DMany (ts : list name).

Record gate_info := mk_gate { gt_targets : list target; gt_default_open : bool }.
Inductive nkind := KFunc | KGate (gi : gate_info) | KInterrupt | KGraph.

Record node := mk_node {
  n_name : name;
  n_inputs : list name;
  n_outputs : list name;      (* data outputs followed by emit outputs *)
  n_ndata : nat;              (* how many of n_outputs carry data *)
  n_wait : list name;         (* wait_for *)
  n_hasdef : list name;       (* has_default_for(p) *)
  n_defval : dict val;        (* value used by get_value_source steps 3b/4 *)
  n_kind : nkind;
  n_fn : positive }.          (* identity of the wrapped callable; opaque to the engine *)

Record exec_rec := mk_rec { r_in : dict nat; r_wait : dict nat }.

Record state := mk_state {
  vals : gmap name val;
  vers : gmap name nat;
  execs : gmap name exec_rec;
  decs : gmap name decision }.

Record graph := mk_graph {
  g_nodes : list node;
  g_bound : dict val;                (* graph.inputs.bound *)
  g_active : option (list name) }.   (* compute_active_node_set *)

Definition err := positive.
Record pause := mk_pause { p_node : list name; p_out : name; p_value : val }.

Inductive outcome :=
| OOk (outs : dict val) (dec : option (option decision))
| ORaise (e : err)
| OPause (p : pause).

(* ---------------- graph-derived maps ---------------- *)

Definition is_gate (n : node) : bool := match n_kind n with KGate _ => true | _ => false end.
Definition is_interrupt_node (n : node) : bool := match n_kind n with KInterrupt => true | _ => false end.
(* is_interrupt: "may pause, runs alone in its superstep" (run_superstep_async) - an InterruptNode, or a nested-graph node whose
   inner graph holds an interrupt at any depth (repository fix for finding F-s).  For a KGraph node the otherwise unused n_fn
   carries that flag (2); Nested.graphnode_of computes it from the inner graph. *)
Definition is_interrupt (n : node) : bool :=
  match n_kind n with KInterrupt => true | KGraph => Pos.eqb (n_fn n) 2 | _ => false end.
Definition gate_targets (n : node) : list name :=
  match n_kind n with
  | KGate gi => flat_map (fun t => match t with TNode x => [x] | TEnd => [] end) (gt_targets gi)
  | _ => []
  end.
Definition gate_default_open (n : node) : bool :=
  match n_kind n with KGate gi => gt_default_open gi | _ => true end.

Definition node_names (g : graph) : list name := map n_name (g_nodes g).
Definition find_node (g : graph) (x : name) : option node :=
  List.find (fun n => Pos.eqb (n_name n) x) (g_nodes g).

(* Graph._compute_controlled_by *)
Definition controlled_by (g : graph) (t : name) : list name :=
  if pos_in t (node_names g)
  then map n_name (List.filter (fun n => is_gate n && pos_in t (gate_targets n)) (g_nodes g))
  else [].

(* Graph.outputs: unique output names in node order *)
Fixpoint dedup (l : list name) (seen : list name) : list name :=
  match l with
  | [] => []
  | x :: l' => if pos_in x seen then dedup l' seen else x :: dedup l' (x :: seen)
  end.
Definition graph_outputs (g : graph) : list name := dedup (flat_map n_outputs (g_nodes g)) [].

(* ---------------- GraphState ---------------- *)

Definition empty_state : state := mk_state ∅ ∅ ∅ ∅.
Definition ver (st : state) (x : name) : nat := default 0 (vers st !! x).

(* GraphState.update_value (emit sentinels always advance the version) *)
Definition update_value (st : state) (x : name) (v : val) : state :=
  let bump := mk_state (<[x := v]> (vals st)) (<[x := S (ver st x)]> (vers st)) (execs st) (decs st) in
  match vals st !! x with
  | None => bump
  | Some old =>
      if val_eqb v VSentinel then bump
      else if val_eqb old v then mk_state (<[x := v]> (vals st)) (vers st) (execs st) (decs st)
      else bump
  end.

Definition apply_outputs (st : state) (outs : dict val) : state :=
  fold_left (fun s kv => update_value s (fst kv) (snd kv)) outs st.

Definition set_exec (st : state) (x : name) (r : exec_rec) : state :=
  mk_state (vals st) (vers st) (<[x := r]> (execs st)) (decs st).
Definition set_dec (st : state) (x : name) (d : option decision) : state :=
  mk_state (vals st) (vers st) (execs st)
           (match d with Some d' => <[x := d']> (decs st) | None => delete x (decs st) end).

(* initialize_state *)
Definition init_state (pv : dict val) : state := apply_outputs empty_state pv.

(* ---------------- readiness ---------------- *)

Definition gated (g : graph) (n : node) : bool :=
  match controlled_by g (n_name n) with [] => false | _ => true end.

(* _is_stale, with the self-producer exemption for ungated nodes *)
Definition is_stale (g : graph) (st : state) (n : node) (r : exec_rec) : bool :=
  existsb (fun p =>
    if negb (gated g n) && pos_in p (n_outputs n) then false
    else negb (Nat.eqb (ver st p) (default 0 (dget (r_in r) p)))) (n_inputs n).

Definition needs_execution (g : graph) (st : state) (n : node) : bool :=
  match execs st !! n_name n with
  | None => true
  | Some r => is_stale g st n r
  end.

(* _clear_stale_gate_decisions (END is terminal and kept) *)
Definition clear_stale (g : graph) (st : state) : state :=
  fold_left (fun s n =>
    if is_gate n then
      match decs s !! n_name n with
      | Some DEnd => s
      | Some _ => if needs_execution g s n then set_dec s (n_name n) None else s
      | None => s
      end
    else s) (g_nodes g) st.

Definition activated_by (d : decision) (t : name) : bool :=
  match d with
  | DEnd => false
  | DOne x => Pos.eqb x t
  | DMany xs => pos_in t xs
  end.

(* one controlling gate's vote in _get_activated_nodes *)
Definition gate_opens (g : graph) (st : state) (G t : name) : bool :=
  match decs st !! G with
  | Some d => activated_by d t
  | None =>
      match execs st !! G with
      | Some _ => false                       (* executed before, decision cleared *)
      | None => match find_node g G with
                | Some gn => gate_default_open gn
                | None => false
                end
      end
  end.

Definition activated (g : graph) (st : state) (t : name) : bool :=
  match controlled_by g t with
  | [] => true
  | gs => existsb (fun G => gate_opens g st G t) gs
  end.

Definition has_input (g : graph) (st : state) (n : node) (p : name) : bool :=
  match vals st !! p with
  | Some _ => true
  | None => dmem (g_bound g) p || pos_in p (n_hasdef n)
  end.

Definition wait_ok (st : state) (n : node) : bool :=
  forallb (fun s =>
    match vals st !! s with
    | None => false
    | Some _ =>
        match execs st !! n_name n with
        | None => true
        | Some r => Nat.ltb (default 0 (dget (r_wait r) s)) (ver st s)
        end
    end) (n_wait n).

Definition node_ready (g : graph) (st : state) (n : node) : bool :=
  activated g st (n_name n) &&
  forallb (has_input g st n) (n_inputs n) &&
  wait_ok st n &&
  needs_execution g st n.

Definition is_active (g : graph) (n : node) : bool :=
  match g_active g with None => true | Some a => pos_in (n_name n) a end.

(* targets of ready gates are held back one step (a gate is not blocked by itself) *)
Definition blocked_targets (rd : list node) : list (name * name) :=
  flat_map (fun n => if is_gate n then map (fun t => (n_name n, t)) (gate_targets n) else []) rd.
Definition is_blocked (rd : list node) (n : node) : bool :=
  existsb (fun gt => Pos.eqb (snd gt) (n_name n) && negb (Pos.eqb (fst gt) (snd gt))) (blocked_targets rd).

(* _defer_wait_for_nodes *)
Definition deferred (rd : list node) (n : node) : bool :=
  existsb (fun s =>
    existsb (fun o => negb (Pos.eqb (n_name o) (n_name n)) && pos_in s (n_outputs o)) rd) (n_wait n).

(* get_ready_nodes: returns the state with stale decisions cleared, and the ready list *)
Definition ready (g : graph) (st : state) : state * list node :=
  let st' := clear_stale g st in
  let r0 := List.filter (fun n => is_active g n && node_ready g st' n) (g_nodes g) in
  let r1 := List.filter (fun n => negb (is_blocked r0 n)) r0 in
  let r2 := List.filter (fun n => negb (deferred r1 n)) r1 in
  (st', r2).

(* ---------------- value resolution ---------------- *)

Definition EKeyError : err := 1%positive.
Definition EInfiniteLoop : err := 2%positive.

(* get_value_source: EDGE > PROVIDED > BOUND > node default *)
Definition resolve (g : graph) (st : state) (pv : dict val) (n : node) (p : name) : option val :=
  match vals st !! p with
  | Some v => Some v
  | None =>
      match dget pv p with
      | Some v => Some v
      | None =>
          match dget (g_bound g) p with
          | Some v => Some v
          | None => dget (n_defval n) p
          end
      end
  end.

Fixpoint collect_inputs (g : graph) (st : state) (pv : dict val) (n : node) (ps : list name)
  : option (dict val) :=
  match ps with
  | [] => Some []
  | p :: ps' =>
      match resolve g st pv n p, collect_inputs g st pv n ps' with
      | Some v, Some rest => Some ((p, v) :: rest)
      | _, _ => None
      end
  end.

Definition record_of (snap : state) (n : node) : exec_rec :=
  mk_rec (map (fun p => (p, ver snap p)) (n_inputs n)) (map (fun s => (s, ver snap s)) (n_wait n)).

(* ---------------- supersteps ---------------- *)

Definition call := (name * dict val)%type.

Inductive sres :=
| SOk (st : state)
| SErr (e : err) (partial : state)
| SPause (p : pause) (st : state).

Section Engine.
  Variable exec : node -> state -> dict val -> outcome.

  (* the effect of one successfully executed node on the state under construction *)
  Definition commit (snap acc : state) (n : node) (outs : dict val) (dec : option (option decision)) : state :=
    let acc1 := match dec with Some d => set_dec acc (n_name n) d | None => acc end in
    set_exec (apply_outputs acc1 outs) (n_name n) (record_of snap n).

  (* run_superstep_sync: sequential, stops at the first failure *)
  Fixpoint superstep_sync (g : graph) (snap : state) (pv : dict val) (rd : list node) (acc : state)
           (log : list call) : sres * list call :=
    match rd with
    | [] => (SOk acc, log)
    | n :: rd' =>
        match collect_inputs g snap pv n (n_inputs n) with
        | None => (SErr EKeyError snap, log)     (* escapes run_superstep_sync: wrapped with the pre-step state *)
        | Some ins =>
            match exec n snap ins with
            | OOk outs dec => superstep_sync g snap pv rd' (commit snap acc n outs dec) (log ++ [(n_name n, ins)])
            | ORaise e => (SErr e acc, log ++ [(n_name n, ins)])
            | OPause p => (SPause p acc, log ++ [(n_name n, ins)])
            end
        end
    end.

  (* run_superstep_async.  Phase 1: every ready node executes against the snapshot (in any
     completion order pi); a gate writes its decision as it completes.  Phase 2 (after gather):
     successes are applied in READY order, the first failure in READY order is reported. *)
  Definition isolate (rd : list node) : list node :=
    match List.filter is_interrupt rd with i :: _ => [i] | [] => rd end.

  Definition run_one (g : graph) (snap : state) (pv : dict val) (n : node) : option (dict val) * outcome :=
    match collect_inputs g snap pv n (n_inputs n) with
    | None => (None, ORaise EKeyError)
    | Some ins => (Some ins, exec n snap ins)
    end.

  Definition write_decisions (g : graph) (snap : state) (pv : dict val) (pi : list node) (acc : state) : state :=
    fold_left (fun a n => match snd (run_one g snap pv n) with
                          | OOk _ (Some d) => set_dec a (n_name n) d
                          | _ => a end) pi acc.

  Definition apply_success (g : graph) (snap : state) (pv : dict val) (acc : state) (n : node) : state :=
    match snd (run_one g snap pv n) with
    | OOk outs _ => set_exec (apply_outputs acc outs) (n_name n) (record_of snap n)
    | _ => acc
    end.

  Definition first_failure (g : graph) (snap : state) (pv : dict val) (rd : list node) : option (err + pause) :=
    List.fold_right (fun n rest => match snd (run_one g snap pv n) with
                              | ORaise e => Some (inl e)
                              | OPause p => Some (inr p)
                              | OOk _ _ => rest end) None rd.

  Definition async_calls (g : graph) (snap : state) (pv : dict val) (rd : list node) : list call :=
    flat_map (fun n => match fst (run_one g snap pv n) with Some ins => [(n_name n, ins)] | None => [] end) rd.

  Definition superstep_async (g : graph) (snap : state) (pv : dict val) (rd pi : list node) : sres * list call :=
    let rd' := isolate rd in
    let pi' := List.filter (fun n => pos_in (n_name n) (map n_name rd')) pi in
    let acc0 := write_decisions g snap pv pi' snap in
    let acc := fold_left (apply_success g snap pv) rd' acc0 in
    (match first_failure g snap pv rd' with
     | None => SOk acc
     | Some (inl e) => SErr e acc
     | Some (inr p) => SPause p acc
     end, async_calls g snap pv rd').

  (* ---------------- the run loop ---------------- *)

  Inductive rres :=
  | RDone (st : state)
  | RFailed (e : err) (partial : state)
  | RPaused (p : pause) (st : state).

  Inductive runner := Sync | Async.

  Definition superstep (r : runner) (g : graph) (snap : state) (pv : dict val) (rd : list node) :=
    match r with
    | Sync => superstep_sync g snap pv rd snap []
    | Async => superstep_async g snap pv rd rd
    end.

  (* for _ in range(max_iterations): ... else: re-check *)
  Fixpoint run_loop (r : runner) (fuel : nat) (g : graph) (pv : dict val) (st : state) (log : list (list call))
    : rres * list (list call) :=
    let '(st', rd) := ready g st in
    match fuel with
    | 0 => match rd with
           | [] => (RDone st', log)
           | _ => (RFailed EInfiniteLoop st', log)
           end
    | S k =>
        match rd with
        | [] => (RDone st', log)
        | _ =>
            match superstep r g st' pv rd with
            | (SOk st'', calls) => run_loop r k g pv st'' (log ++ [calls])
            | (SErr e p, calls) => (RFailed e p, log ++ [calls])
            | (SPause p _, calls) => (RPaused p st', log ++ [calls])   (* the runner attaches the PRE-step state *)
            end
        end
    end.

  Definition execute (r : runner) (fuel : nat) (g : graph) (pv : dict val) :=
    run_loop r fuel g pv (init_state pv) [].
End Engine.

(* ---------------- filter_outputs ---------------- *)

Definition not_sentinel (v : val) : bool := negb (val_eqb v VSentinel).

(* select = "**" : all graph outputs present in state and not sentinels *)
Definition collect_all (g : graph) (st : state) : dict val :=
  flat_map (fun k => match vals st !! k with
                     | Some v => if not_sentinel v then [(k, v)] else []
                     | None => [] end) (graph_outputs g).

(* select = explicit names: present non-sentinel values; `missing` = names not in state at all *)
Definition collect_selected (st : state) (names : list name) : dict val * list name :=
  (flat_map (fun k => match vals st !! k with
                      | Some v => if not_sentinel v then [(k, v)] else []
                      | None => [] end) names,
   List.filter (fun k => match vals st !! k with None => true | Some _ => false end) names).

(* _handle_missing_outputs: what on_missing does with a selected name that is not in the state at all *)
Inductive missing_policy := MIgnore | MWarn | MError.
Inductive select_outcome :=
| SelOk (values : dict val)                          (* returned quietly *)
| SelWarn (values : dict val) (missing : list name)  (* returned, with a warning naming the missing outputs *)
| SelError (missing : list name).                    (* ValueError("Requested outputs not found") *)

Definition select_outputs (pol : missing_policy) (st : state) (names : list name) : select_outcome :=
  let (values, missing) := collect_selected st names in
  match missing, pol with
  | [], _ => SelOk (dupdate [] values)
  | _, MIgnore => SelOk (dupdate [] values)
  | _, MWarn => SelWarn (dupdate [] values) missing
  | _, MError => SelError missing
  end.

Definition filter_outputs (g : graph) (st : state) (sel : option (list name)) : dict val :=
  match sel with
  | None => collect_all g st
  | Some names => dupdate [] (fst (collect_selected st names))
  end.
