(* InputSpecProofs.v — facts about the reported input specification and validation (C08). *)
From HG Require Import Base Engine GraphDef InputSpec EngineProofs.
From stdpp Require Import gmap.

Lemma fold_groups_ok (f : list name -> vres) (l : list (list name)) :
  (forall grp, In grp l -> f grp = VOk) ->
  fold_left (fun acc grp => match acc with VOk => f grp | bad => bad end) l VOk = VOk.
Proof.
  induction l as [|a l IH]; intros H; simpl; [reflexivity|].
  rewrite (H a (or_introl eq_refl)). apply IH. intros grp Hin. apply H. right; exact Hin.
Qed.

Section Spec.
  Variables (wd : bool) (nodes : list node) (bound nested : dict val) (eps sel : option (list name)).
  Let s := input_spec_w wd nodes bound nested eps sel.

  Lemma required_not_optional p : In p (is_required s) -> ~ In p (is_optional s).
  Proof.
    unfold s, input_spec_w. simpl. intros Hr Ho.
    apply filter_In in Hr as [_ Hr]. apply filter_In in Ho as [_ Ho].
    rewrite Ho in Hr. discriminate.
  Qed.

  Lemma free_not_entry p :
    In p (is_required s) \/ In p (is_optional s) -> ~ In p (flat_map snd (is_entry s)).
  Proof.
    unfold s, input_spec_w. simpl. intros [H|H] He; apply filter_In in H as [H _];
      apply filter_In in H as [_ H]; apply andb_true_iff in H as [H _];
      apply negb_true_iff, pos_in_nIn in H; contradiction.
  Qed.

  Lemma required_not_bound p : In p (is_required s) -> dmem bound p = false.
  Proof.
    unfold s, input_spec_w. simpl. intros Hr. apply filter_In in Hr as [_ Hr].
    apply negb_true_iff, orb_false_iff in Hr. tauto.
  Qed.

  Lemma required_no_default p : In p (is_required s) ->
    forall n, In n (act_nodes nodes (active_scope wd nodes eps sel)) -> In p (n_inputs n) -> ~ In p (n_hasdef n).
  Proof.
    unfold s, input_spec_w. simpl. intros Hr n Hn Hp Hd. apply filter_In in Hr as [_ Hr].
    apply negb_true_iff, orb_false_iff in Hr as [_ Hr].
    assert (any_default (act_nodes nodes (active_scope wd nodes eps sel)) p = true); [|congruence].
    unfold any_default. apply existsb_exists. exists n. split; [exact Hn|].
    apply andb_true_iff. split; apply pos_in_In; assumption.
  Qed.

  (* necessity: a required name that is neither bound nor supplied makes validation fail *)
  Lemma subset_spec a b : subset a b = true <-> forall x, In x a -> In x b.
  Proof. unfold subset. rewrite forallb_forall. split; intros H x Hx; [apply pos_in_In | apply pos_in_In]; auto. Qed.

  Theorem missing_required_rejected pv r :
    In r (is_required s) -> ~ In r (dkeys (is_bound s) ++ dkeys pv) ->
    validate_w wd nodes bound nested eps sel pv <> VOk.
  Proof.
    intros Hr Hn. unfold validate_w. fold s.
    destruct (fold_left _ (scc_groups nodes (is_entry s)) VOk); try discriminate.
    destruct (subset (is_required s) (dkeys (is_bound s) ++ dkeys pv)) eqn:E; [|discriminate].
    exfalso. apply Hn. apply (proj1 (subset_spec _ _) E). exact Hr.
  Qed.

  (* sufficiency (acceptance): every cycle seeded unambiguously and every required name present *)
  Theorem complete_inputs_accepted pv :
    (forall grp, In grp (scc_groups nodes (is_entry s)) ->
        check_group (is_entry s) grp (dkeys (is_bound s) ++ dkeys pv) = VOk) ->
    (forall r, In r (is_required s) -> In r (dkeys (is_bound s) ++ dkeys pv)) ->
    validate_w wd nodes bound nested eps sel pv = VOk.
  Proof.
    intros Hg Hr. unfold validate_w. fold s.
    pose proof (fold_groups_ok (fun grp => check_group (is_entry s) grp (dkeys (is_bound s) ++ dkeys pv))
                  (scc_groups nodes (is_entry s)) Hg) as Hf. cbv beta in Hf.
    rewrite Hf. rewrite (proj2 (subset_spec _ _) Hr). reflexivity.
  Qed.

  (* an acyclic spec (no entry points) is accepted as soon as the required names are present *)
  Corollary acyclic_accepted pv :
    is_entry s = [] -> (forall r, In r (is_required s) -> In r (dkeys (is_bound s) ++ dkeys pv)) ->
    validate_w wd nodes bound nested eps sel pv = VOk.
  Proof.
    intros He Hr. apply complete_inputs_accepted; [|exact Hr].
    intros grp Hin. rewrite He in Hin. simpl in Hin. contradiction.
  Qed.
End Spec.

(* binding a name removes it from `required` *)
Theorem bind_removes_required wd nodes bound nested eps sel p v :
  ~ In p (is_required (input_spec_w wd nodes (dset bound p v) nested eps sel)).
Proof.
  intros H. apply required_not_bound in H. unfold dmem in H. rewrite dget_dset_eq in H. discriminate.
Qed.

(* unbinding restores the dictionary the spec is computed from *)
Fixpoint dremove {V} (d : dict V) (k : name) : dict V :=
  match d with
  | [] => []
  | (k', v) :: d' => if Pos.eqb k' k then dremove d' k else (k', v) :: dremove d' k
  end.

Lemma dremove_notin {V} (d : dict V) k : ~ In k (dkeys d) -> dremove d k = d.
Proof.
  induction d as [|[k' v] d IH]; simpl; intros H; [reflexivity|].
  destruct (Pos.eqb k' k) eqn:E; [apply Pos.eqb_eq in E; subst; exfalso; apply H; left; reflexivity|].
  f_equal. apply IH. intros Hin. apply H. right; exact Hin.
Qed.

Theorem unbind_restores {V} (d : dict V) k v : ~ In k (dkeys d) -> dremove (dset d k v) k = d.
Proof.
  induction d as [|[k' v'] d IH]; simpl; intros H.
  - rewrite Pos.eqb_refl. reflexivity.
  - destruct (Pos.eqb k' k) eqn:E; [apply Pos.eqb_eq in E; subst; exfalso; apply H; left; reflexivity|].
    simpl. rewrite E. f_equal. apply IH. intros Hin. apply H. right; exact Hin.
Qed.

(* a node the scheduler starts has every input resolvable: the KeyError branch of
   get_value_source is unreachable (every graph, every state) *)
Theorem ready_resolvable g st pv n :
  (forall p, In p (n_hasdef n) -> dmem (n_defval n) p = true) ->
  In n (ready_list g st) ->
  exists ins, collect_inputs g (ready_state g st) pv n (n_inputs n) = Some ins.
Proof.
  intros Hd Hin. apply ready_list_r0 in Hin as (_ & _ & Hr).
  unfold node_ready in Hr. apply andb_true_iff in Hr as [Hr _]. apply andb_true_iff in Hr as [Hr _].
  apply andb_true_iff in Hr as [_ Hr]. revert Hr. generalize (n_inputs n) as ps.
  induction ps as [|p ps IH]; simpl; intros Hr; [eauto|].
  apply andb_true_iff in Hr as [Hp Hr]. destruct (IH Hr) as [rest Hrest]. rewrite Hrest.
  assert (Hv : exists v, resolve g (ready_state g st) pv n p = Some v).
  { unfold has_input in Hp. unfold resolve.
    destruct (vals (ready_state g st) !! p) as [v|]; [eauto|].
    destruct (dget pv p) as [v|]; [eauto|].
    apply orb_true_iff in Hp as [Hp|Hp].
    - unfold dmem in Hp. destruct (dget (g_bound g) p) as [v|]; [eauto | discriminate].
    - destruct (dget (g_bound g) p) as [v|]; [eauto|].
      apply pos_in_In, Hd in Hp. unfold dmem in Hp. destruct (dget (n_defval n) p) as [v|]; [eauto | discriminate]. }
  destruct Hv as [v Hv]. rewrite Hv. eauto.
Qed.
