(* DiskStore.v — what reaches an unpickler when DiskCache reads a key, at the level of the STORE's records.
   Restates cache.py DiskCache.get together with diskcache.Disk.fetch (the store underneath):
     * a record is kept in a MODE: raw bytes, text, or "pickle" (any other Python object); Disk.fetch returns raw bytes and
       text as they are and UNPICKLES a pickle-mode record while reading it;
     * DiskCache.get reads the payload record and the signature record, insists on bytes / str, compares the HMAC and only
       then calls pickle.loads on the payload;
     * since repository fix 47fd265 DiskCache opens the store with a Disk whose fetch hands a pickle-mode record back as an
       untrusted marker (raw_only = true) - DiskCache itself only ever writes bytes and str.
   `loads` lists every byte string handed to an unpickler during one get, by the store or by DiskCache.  Plain stdlib. *)
From HG Require Import Base.

Section Store.
  Variable bytes tag : Type.
  Variable teqb : tag -> tag -> bool.
  Variable deser : bytes -> option val.
  Variable mac : name -> bytes -> tag.

  Inductive record :=
  | RRaw (b : bytes)        (* MODE_RAW / MODE_BINARY: bytes *)
  | RText (t : tag)         (* MODE_TEXT: a str (signatures are hex text) *)
  | RTextOther              (* a str that is not a signature DiskCache could have written (e.g. non-ASCII) *)
  | RPickle (b : bytes).    (* MODE_PICKLE: some other object, stored as its pickle b *)

  Inductive view := VBytes (b : bytes) | VText (t : tag) | VTextOther | VObject | VUntrusted.

  (* Disk.fetch: the view of a record and what the STORE unpickled to produce it *)
  Definition fetch (raw_only : bool) (r : record) : view * list bytes :=
    match r with
    | RRaw b => (VBytes b, [])
    | RText t => (VText t, [])
    | RTextOther => (VTextOther, [])
    | RPickle b => if raw_only then (VUntrusted, []) else (VObject, [b])
    end.

  Inductive sres := SMiss | SHit (v : val).

  (* DiskCache.get on one key: payload record, signature record *)
  Definition store_get (raw_only : bool) (k : name) (payload sig : option record) : sres * list bytes :=
    match payload with
    | None => (SMiss, [])
    | Some pr =>
        let (pv, l1) := fetch raw_only pr in
        match pv with
        | VBytes b =>
            match sig with
            | None => (SMiss, l1)
            | Some sr =>
                let (sv, l2) := fetch raw_only sr in
                match sv with
                | VText t =>
                    if teqb t (mac k b)
                    then match deser b with Some v => (SHit v, l1 ++ l2 ++ [b]) | None => (SMiss, l1 ++ l2 ++ [b]) end
                    else (SMiss, l1 ++ l2)
                | _ => (SMiss, l1 ++ l2)          (* not a str, or a str hmac.compare_digest cannot compare: mismatch *)
                end
            end
        | _ => (SMiss, l1)                        (* "not raw bytes": evicted, a miss *)
        end
    end.

  (* ---- with the raw-only store nothing is unpickled before the HMAC check passed ---- *)
  Theorem raw_only_loads_authenticated k payload sig b :
    In b (snd (store_get true k payload sig)) ->
    payload = Some (RRaw b) /\ exists t, sig = Some (RText t) /\ teqb t (mac k b) = true.
  Proof.
    unfold store_get. destruct payload as [[pb|pt| |pb]|]; cbn; try (intros []).
    destruct sig as [[sb|st| |sb]|]; cbn; try (intros []).
    destruct (teqb st (mac k pb)) eqn:E; [|intros []].
    destruct (deser pb); cbn; intros [<-|[]]; (split; [reflexivity | exists st; split; [reflexivity | exact E]]).
  Qed.

  Theorem raw_only_hit_authenticated k payload sig v :
    fst (store_get true k payload sig) = SHit v ->
    exists b t, payload = Some (RRaw b) /\ sig = Some (RText t) /\ teqb t (mac k b) = true /\ deser b = Some v.
  Proof.
    unfold store_get. destruct payload as [[pb|pt| |pb]|]; cbn; try discriminate.
    destruct sig as [[sb|st| |sb]|]; cbn; try discriminate.
    destruct (teqb st (mac k pb)) eqn:E; [|discriminate].
    destruct (deser pb) eqn:D; cbn; [|discriminate]. intros [= <-]. exists pb, st. auto.
  Qed.

  (* a record in pickle mode, a text that is no signature, a missing record: always a miss, never an exception *)
  Theorem raw_only_foreign_records_miss k payload sig :
    (match payload with Some (RRaw _) => False | _ => True end \/
     match sig with Some (RText _) => False | _ => True end) ->
    fst (store_get true k payload sig) = SMiss.
  Proof.
    unfold store_get. intros [H|H].
    - destruct payload as [[pb|pt| |pb]|]; cbn; try reflexivity. destruct H.
    - destruct payload as [[pb|pt| |pb]|]; cbn; try reflexivity.
      destruct sig as [[sb|st| |sb]|]; cbn; try reflexivity. destruct H.
  Qed.

  (* ---- the store as diskcache ships it (raw_only = false): refuted ---- *)
  Theorem legacy_store_unpickles_unauthenticated k b sig :
    In b (snd (store_get false k (Some (RPickle b)) sig)).
  Proof. cbn. left. reflexivity. Qed.

  Theorem legacy_store_unpickles_signature k pb b :
    In b (snd (store_get false k (Some (RRaw pb)) (Some (RPickle b)))).
  Proof. cbn. left. reflexivity. Qed.
End Store.
