(* ValidateProofs.v — the constructor's validation pipeline (Validate.valid) accepts exactly the well-formed graphs.
   WF is the declarative reading: unique names, explicit edges naming real nodes and values, every pair of producers
   of one name exclusive or ordered (paths are the inductive closure Reach.rt), legal names, consistent defaults, gate
   targets, waits, and in strict mode annotated and compatible types on every (producer, consumer) pair. *)
From HG Require Import Base Typing Reach Validate.
From Coq Require Import Lia Bool.

(* ---------------- generic list facts ---------------- *)

Lemma all_pairs_spec (f : name -> name -> bool) (P : name -> name -> Prop) l :
  NoDup l -> (forall a b, In a l -> In b l -> (f a b = true <-> P a b)) -> (forall a b, P a b -> P b a) ->
  (all_pairs f l = true <-> forall a b, In a l -> In b l -> a <> b -> P a b).
Proof.
  intros Hnd Hf Hsym. induction l as [|x l IH]; simpl.
  - split; [intros _ a b []|reflexivity].
  - inversion Hnd as [|? ? Hx Hl]; subst.
    assert (Hf' : forall a b, In a l -> In b l -> (f a b = true <-> P a b)) by (intros; apply Hf; right; assumption).
    rewrite andb_true_iff, forallb_forall, (IH Hl Hf'). split.
    + intros [H1 H2] a b [->|Ha] [->|Hb] Hne.
      * congruence.
      * apply Hf; [left; reflexivity|right; exact Hb|]. apply H1, Hb.
      * apply Hsym. apply Hf; [left; reflexivity|right; exact Ha|]. apply H1, Ha.
      * apply H2; assumption.
    + intros H. split.
      * intros b Hb. apply Hf; [left; reflexivity|right; exact Hb|].
        apply H; [left; reflexivity|right; exact Hb|]. intros ->. exact (Hx Hb).
      * intros a b Ha Hb Hne. apply H; [right; exact Ha|right; exact Hb|exact Hne].
Qed.

Lemma NoDup_all_same_length1 (l : list name) t :
  NoDup l -> In t l -> (forall x, In x l -> x = t) -> length l = 1.
Proof.
  intros Hnd Hin Hall. destruct l as [|a [|b l']]; [destruct Hin|reflexivity|]. exfalso.
  assert (a = t) by (apply Hall; left; reflexivity).
  assert (b = t) by (apply Hall; right; left; reflexivity). subst.
  inversion Hnd as [|? ? Hx _]. apply Hx. left. reflexivity.
Qed.

Lemma length1_inv {A} (l : list A) : length l = 1 -> exists x, l = [x].
Proof. destruct l as [|x [|y l']]; simpl; intros H; try discriminate. exists x. reflexivity. Qed.

Lemma NoDup_map_filter {A} (f : A -> name) (p : A -> bool) l : NoDup (map f l) -> NoDup (map f (filter p l)).
Proof.
  induction l as [|x l IH]; simpl; intros H; [constructor|]. inversion H as [|? ? Hx Hl]; subst.
  destruct (p x); simpl; [|apply IH, Hl]. constructor; [|apply IH, Hl].
  intros Hin. apply Hx. apply in_map_iff in Hin. destruct Hin as [y [Hy Hin]]. apply filter_In in Hin.
  apply in_map_iff. exists y. split; [exact Hy|apply Hin].
Qed.

Lemma nodup_b_true l : nodup_b l = true <-> NoDup l.
Proof. apply nodup_b_NoDup. Qed.

(* ---------------- nodes, producers, edges ---------------- *)

Section Nodes.
  Variable nodes : list vnode.
  Hypothesis Hnd : NoDup (names nodes).

  Lemma find_v_In n : In n nodes -> find_v nodes (v_name n) = Some n.
  Proof.
    unfold find_v, names in *. induction nodes as [|m l IH]; intros H; [destruct H|]. simpl.
    inversion Hnd as [|? ? Hm Hl]; subst. destruct H as [->|H].
    - rewrite Pos.eqb_refl. reflexivity.
    - destruct (Pos.eqb (v_name m) (v_name n)) eqn:E.
      + apply Pos.eqb_eq in E. exfalso. apply Hm. rewrite E. apply in_map. exact H.
      + apply IH; assumption.
  Qed.

  Lemma find_v_Some x n : find_v nodes x = Some n -> In n nodes /\ v_name n = x.
  Proof.
    unfold find_v. intros H. apply find_some in H. destruct H as [H1 H2]. apply Pos.eqb_eq in H2. split; assumption.
  Qed.

  Lemma in_names x : In x (names nodes) <-> exists n, In n nodes /\ v_name n = x.
  Proof. unfold names. rewrite in_map_iff. split; intros [n [H1 H2]]; exists n; split; assumption. Qed.

  Lemma producers_In o x : In x (producers nodes o) <-> exists n, In n nodes /\ v_name n = x /\ In o (v_outputs n).
  Proof.
    unfold producers. rewrite in_map_iff. split.
    - intros [n [H1 H2]]. apply filter_In in H2. destruct H2 as [H2 H3]. apply pos_in_In in H3. exists n. auto.
    - intros [n [H1 [H2 H3]]]. exists n. split; [exact H2|]. apply filter_In. split; [exact H1|]. apply pos_in_In. exact H3.
  Qed.

  Lemma producers_names o x : In x (producers nodes o) -> In x (names nodes).
  Proof. intros H. apply producers_In in H. destruct H as [n [H1 [H2 _]]]. apply in_names. exists n. auto. Qed.

  Lemma producers_NoDup o : NoDup (producers nodes o).
  Proof. unfold producers. apply NoDup_map_filter. exact Hnd. Qed.

  Lemma all_outputs_In o : In o (all_outputs nodes) <-> exists n, In n nodes /\ In o (v_outputs n).
  Proof. unfold all_outputs. apply in_flat_map. Qed.

  Lemma hd_producers_names o s l : producers nodes o = s :: l -> In s (names nodes).
  Proof. intros H. apply (producers_names o). rewrite H. left. reflexivity. Qed.

  Lemma data_pairs_auto_within : within (data_pairs_auto nodes) (names nodes).
  Proof.
    intros a b H. unfold data_pairs_auto in H. apply in_flat_map in H. destruct H as [n [Hn H]].
    apply in_flat_map in H. destruct H as [p [Hp H]]. destruct (producers nodes p) as [|s l] eqn:E; [destruct H|].
    destruct H as [H|[]]. inversion H; subst. split; [eapply hd_producers_names; exact E|apply in_names; exists n; auto].
  Qed.

  Lemma control_pairs_within : within (control_pairs nodes) (names nodes).
  Proof.
    intros a b H. unfold control_pairs in H. apply in_flat_map in H. destruct H as [n [Hn H]].
    destruct (is_gate n); [|destruct H]. apply in_map_iff in H. destruct H as [t [Ht H]]. inversion Ht; subst.
    apply filter_In in H. destruct H as [_ H]. apply pos_in_In in H. split; [apply in_names; exists n; auto|exact H].
  Qed.

  Lemma ordering_pairs_first_within : within (ordering_pairs_first nodes) (names nodes).
  Proof.
    intros a b H. unfold ordering_pairs_first in H. apply in_flat_map in H. destruct H as [n [Hn H]].
    apply in_flat_map in H. destruct H as [w [Hw H]]. destruct (producers nodes w) as [|s l] eqn:E; [destruct H|].
    destruct (Pos.eqb s (v_name n)); [destruct H|]. destruct H as [H|[]]. inversion H; subst.
    split; [eapply hd_producers_names; exact E|apply in_names; exists n; auto].
  Qed.

  Lemma ordering_pairs_all_within : within (ordering_pairs_all nodes) (names nodes).
  Proof.
    intros a b H. unfold ordering_pairs_all in H. apply in_flat_map in H. destruct H as [n [Hn H]].
    apply in_flat_map in H. destruct H as [w [Hw H]]. apply in_map_iff in H. destruct H as [p [Hp H]]. inversion Hp; subst.
    apply filter_In in H. destruct H as [H _]. split; [eapply producers_names; exact H|apply in_names; exists n; auto].
  Qed.

  Lemma data_pairs_kept_within C : within (data_pairs_kept nodes C) (names nodes).
  Proof.
    intros a b H. unfold data_pairs_kept in H. apply in_flat_map in H. destruct H as [n [Hn H]].
    apply in_flat_map in H. destruct H as [p [Hp H]]. destruct (pos_in p C); [destruct H|].
    apply in_map_iff in H. destruct H as [s [Hs H]]. inversion Hs; subst.
    split; [eapply producers_names; exact H|apply in_names; exists n; auto].
  Qed.

  Lemma within_app es1 es2 U : within es1 U -> within es2 U -> within (es1 ++ es2) U.
  Proof. intros H1 H2 a b H. apply in_app_or in H. destruct H; [apply H1|apply H2]; assumption. Qed.

  Lemma kept_pairs_within C : within (kept_pairs nodes C) (names nodes).
  Proof.
    unfold kept_pairs. apply within_app; [apply control_pairs_within|].
    apply within_app; [apply ordering_pairs_all_within|apply data_pairs_kept_within].
  Qed.

  Definition EspecOK (e : espec) : Prop :=
    match e with
    | ESpec s d vals =>
        In s (names nodes) /\ In d (names nodes) /\
        forall vs, vals = Some vs -> forall v, In v vs -> In v (outs_of nodes s) /\ In v (ins_of nodes d)
    end.

  Lemma espec_ok_spec e : espec_ok nodes e = true <-> EspecOK e.
  Proof.
    destruct e as [s d vals]. simpl. rewrite !andb_true_iff, !pos_in_In. split.
    - intros [[H1 H2] H3]. split; [exact H1|]. split; [exact H2|]. intros vs -> v Hv.
      rewrite forallb_forall in H3. specialize (H3 v Hv). apply andb_true_iff in H3. rewrite !pos_in_In in H3. exact H3.
    - intros [H1 [H2 H3]]. split; [split; assumption|]. destruct vals as [vs|]; [|reflexivity].
      apply forallb_forall. intros v Hv. apply andb_true_iff. rewrite !pos_in_In. apply (H3 vs eq_refl v Hv).
  Qed.

  Definition EdgesOK (es : option (list espec)) : Prop :=
    forall l, es = Some l -> forall e, In e l -> EspecOK e.

  Lemma edges_ok_spec es : edges_ok nodes es = true <-> EdgesOK es.
  Proof.
    unfold edges_ok, EdgesOK. destruct es as [l|].
    - rewrite forallb_forall. split.
      + intros H l' E e He. inversion E; subst. apply espec_ok_spec, H, He.
      + intros H e He. apply espec_ok_spec. apply (H l eq_refl e He).
    - split; [intros _ l E; discriminate|reflexivity].
  Qed.

  Lemma explicit_pairs_within l : (forall e, In e l -> EspecOK e) -> within (explicit_pairs l) (names nodes).
  Proof.
    intros H a b Hin. unfold explicit_pairs in Hin. apply in_map_iff in Hin. destruct Hin as [[s d vals] [E He]].
    inversion E; subst. destruct (H _ He) as [H1 [H2 _]]. split; assumption.
  Qed.

  Lemma g_pairs_within es : EdgesOK es -> within (g_pairs nodes es) (names nodes).
  Proof.
    intros H. unfold g_pairs. apply within_app.
    - destruct es as [l|]; [apply explicit_pairs_within; apply (H l eq_refl)|apply data_pairs_auto_within].
    - apply within_app; [apply control_pairs_within|apply ordering_pairs_first_within].
  Qed.

  Lemma fuel_names : length (names nodes) <= fuel nodes.
  Proof. unfold fuel, names. rewrite map_length. lia. Qed.

  (* ---------------- exclusive branches ---------------- *)

  Definition ExclusiveTo (G : edges) (ts : list name) (t x : name) : Prop :=
    rt G t x /\ forall t', In t' ts -> rt G t' x -> t' = t.

  Lemma exclusive_to_spec G ts t x :
    within G (names nodes) -> NoDup ts -> In t ts -> (forall t', In t' ts -> In t' (names nodes)) ->
    (exclusive_to nodes G ts t x = true <-> ExclusiveTo G ts t x).
  Proof.
    intros Hw Hts Ht Hin. unfold exclusive_to, ExclusiveTo.
    assert (R : forall a b, In a (names nodes) -> (reachb G (fuel nodes) a b = true <-> rt G a b)).
    { intros a b Ha. apply (reachb_spec G (names nodes)); [exact Hw|exact Ha|apply fuel_names]. }
    rewrite andb_true_iff, (R t x (Hin t Ht)), Nat.eqb_eq. split.
    - intros [H1 H2]. split; [exact H1|]. intros t' Ht' Hr. apply length1_inv in H2. destruct H2 as [y Hy].
      assert (In t (filter (fun t' => reachb G (fuel nodes) t' x) ts)) as I1 by (apply filter_In; split; [exact Ht|apply R; auto]).
      assert (In t' (filter (fun t' => reachb G (fuel nodes) t' x) ts)) as I2 by (apply filter_In; split; [exact Ht'|apply R; auto]).
      rewrite Hy in I1, I2. destruct I1 as [<-|[]]. destruct I2 as [<-|[]]. reflexivity.
    - intros [H1 H2]. split; [exact H1|]. apply (NoDup_all_same_length1 _ t).
      + apply NoDup_filter. exact Hts.
      + apply filter_In. split; [exact Ht|apply R; auto].
      + intros y Hy. apply filter_In in Hy. destruct Hy as [Hy1 Hy2]. apply H2; [exact Hy1|apply R; auto].
  Qed.

  Definition Mutex (G : edges) (a b : name) : Prop :=
    exists n, In n nodes /\ exclusive_gate n = true /\ 2 <= length (live_targets nodes n) /\
      exists t1 t2, In t1 (live_targets nodes n) /\ In t2 (live_targets nodes n) /\ t1 <> t2 /\
        ExclusiveTo G (live_targets nodes n) t1 a /\ ExclusiveTo G (live_targets nodes n) t2 b.

  Hypothesis Htg : forall n, In n nodes -> NoDup (v_targets n).

  Lemma live_targets_facts n : In n nodes ->
    NoDup (live_targets nodes n) /\ forall t, In t (live_targets nodes n) -> In t (names nodes).
  Proof.
    intros Hn. unfold live_targets. split; [apply NoDup_filter, Htg, Hn|].
    intros t Ht. apply filter_In in Ht. apply pos_in_In. apply Ht.
  Qed.

  Lemma pair_mutex_spec G a b : within G (names nodes) -> (pair_mutex nodes G a b = true <-> Mutex G a b).
  Proof.
    intros Hw. unfold pair_mutex, Mutex. rewrite existsb_exists. split.
    - intros [n [Hn H]]. destruct (live_targets_facts n Hn) as [F1 F2].
      apply andb_true_iff in H. destruct H as [H H3]. apply andb_true_iff in H. destruct H as [H1 H2].
      apply Nat.leb_le in H2. apply existsb_exists in H3. destruct H3 as [t1 [Ht1 H3]].
      apply existsb_exists in H3. destruct H3 as [t2 [Ht2 H3]].
      apply andb_true_iff in H3. destruct H3 as [H3 H5]. apply andb_true_iff in H3. destruct H3 as [H3 H4].
      exists n. split; [exact Hn|]. split; [exact H1|]. split; [exact H2|]. exists t1, t2.
      split; [exact Ht1|]. split; [exact Ht2|]. split.
      + intros ->. rewrite Pos.eqb_refl in H3. discriminate.
      + split; [apply (exclusive_to_spec G _ t1 a Hw F1 Ht1 F2), H4|apply (exclusive_to_spec G _ t2 b Hw F1 Ht2 F2), H5].
    - intros [n [Hn [H1 [H2 [t1 [t2 [Ht1 [Ht2 [Hne [H4 H5]]]]]]]]]]. destruct (live_targets_facts n Hn) as [F1 F2].
      exists n. split; [exact Hn|]. rewrite H1. apply andb_true_iff. split; [apply andb_true_iff; split; [reflexivity|apply Nat.leb_le, H2]|].
      apply existsb_exists. exists t1. split; [exact Ht1|]. apply existsb_exists. exists t2. split; [exact Ht2|].
      rewrite !andb_true_iff. split; [split|].
      + apply negb_true_iff. apply Pos.eqb_neq. exact Hne.
      + apply (exclusive_to_spec G _ t1 a Hw F1 Ht1 F2), H4.
      + apply (exclusive_to_spec G _ t2 b Hw F1 Ht2 F2), H5.
  Qed.

  Lemma Mutex_sym G a b : Mutex G a b -> Mutex G b a.
  Proof.
    intros [n [Hn [H1 [H2 [t1 [t2 [Ht1 [Ht2 [Hne [H4 H5]]]]]]]]]]. exists n. split; [exact Hn|]. split; [exact H1|].
    split; [exact H2|]. exists t2, t1. repeat split; try assumption; try apply H4; try apply H5. intros E. apply Hne. symmetry. exact E.
  Qed.

  (* ---------------- mutex-or-ordered ---------------- *)

  Definition Ordered (es : option (list espec)) (o a b : name) : Prop :=
    match es with
    | Some _ => rt (g_pairs nodes es) a b \/ rt (g_pairs nodes es) b a
    | None => rt (kept_pairs nodes (contested_with nodes o)) a b \/ rt (kept_pairs nodes (contested_with nodes o)) b a
    end.

  Definition PairOK (es : option (list espec)) (o a b : name) : Prop := Mutex (g_pairs nodes es) a b \/ Ordered es o a b.

  Lemma pair_ok_spec es o a b : EdgesOK es -> In a (names nodes) -> In b (names nodes) ->
    (pair_ok nodes es o a b = true <-> PairOK es o a b).
  Proof.
    intros He Ha Hb. unfold pair_ok, PairOK, Ordered. pose proof (g_pairs_within es He) as Hw.
    rewrite orb_true_iff, (pair_mutex_spec _ a b Hw).
    assert (R : forall G x y, within G (names nodes) -> In x (names nodes) -> (reachb G (fuel nodes) x y = true <-> rt G x y)).
    { intros G x y HG Hx. apply (reachb_spec G (names nodes)); [exact HG|exact Hx|apply fuel_names]. }
    destruct es as [l|].
    - rewrite orb_true_iff, (R _ a b Hw Ha), (R _ b a Hw Hb). reflexivity.
    - cbv zeta. rewrite orb_true_iff, (R _ a b (kept_pairs_within _) Ha), (R _ b a (kept_pairs_within _) Hb). reflexivity.
  Qed.

  Lemma PairOK_sym es o a b : PairOK es o a b -> PairOK es o b a.
  Proof.
    unfold PairOK, Ordered. intros [H|H]; [left; apply Mutex_sym, H|right].
    destruct es; destruct H; [right|left|right|left]; assumption.
  Qed.

  Definition ConflictsOK (es : option (list espec)) : Prop :=
    forall o a b, In a (producers nodes o) -> In b (producers nodes o) -> a <> b -> PairOK es o a b.

  Lemma two_distinct_length (l : list name) a b : In a l -> In b l -> a <> b -> 2 <= length l.
  Proof.
    destruct l as [|x [|y l']]; simpl; intros Ha Hb Hne; [destruct Ha| |lia].
    destruct Ha as [->|[]]. destruct Hb as [->|[]]. congruence.
  Qed.

  Lemma conflicts_ok_spec es : EdgesOK es -> (conflicts_ok nodes es = true <-> ConflictsOK es).
  Proof.
    intros He. unfold conflicts_ok, ConflictsOK. rewrite forallb_forall.
    assert (S : forall o, all_pairs (pair_ok nodes es o) (producers nodes o) = true <->
                          forall a b, In a (producers nodes o) -> In b (producers nodes o) -> a <> b -> PairOK es o a b).
    { intros o. apply all_pairs_spec; [apply producers_NoDup| |intros a b; apply PairOK_sym].
      intros a b Ha Hb. apply pair_ok_spec; [exact He|eapply producers_names; exact Ha|eapply producers_names; exact Hb]. }
    split.
    - intros H o a b Ha Hb Hne.
      assert (Ho : In o (all_outputs nodes)).
      { apply all_outputs_In. apply producers_In in Ha. destruct Ha as [n [H1 [_ H3]]]. exists n. auto. }
      specialize (H o Ho). apply orb_true_iff in H. destruct H as [H|H].
      + exfalso. apply negb_true_iff in H. unfold contested in H. apply Nat.leb_gt in H.
        pose proof (two_distinct_length _ a b Ha Hb Hne). lia.
      + apply (S o); assumption.
    - intros H o _. apply orb_true_iff. right. apply S. intros a b. apply H.
  Qed.
End Nodes.

(* ---------------- per-node checks, defaults, types ---------------- *)

Lemma filter_all_true {A} (f : A -> bool) l : forallb f l = true -> filter f l = l.
Proof.
  induction l as [|z l IH]; simpl; intros H; [reflexivity|]. apply andb_true_iff in H. destruct H as [A1 B1].
  rewrite A1. f_equal. apply IH, B1.
Qed.

Lemma defaults_consistent_spec (infos : list (option val)) :
  defaults_consistent infos = true <-> forall x y, In x infos -> In y infos -> x = y.
Proof.
  destruct infos as [|x0 [|x1 rest]].
  - simpl. split; [intros _ x y []|reflexivity].
  - simpl. split; [|reflexivity]. intros _ x y [<-|[]] [<-|[]]. reflexivity.
  - set (l := x0 :: x1 :: rest). change (defaults_consistent l) with
      (forallb is_none l ||
       (forallb (fun o => negb (is_none o)) l &&
        match filter (fun o => negb (is_none o)) l with
        | Some v0 :: r => forallb (fun o => match o with Some v => val_eqb v0 v | None => true end) r
        | _ => true end)).
    split.
    + intros H x y Hx Hy. apply orb_true_iff in H. destruct H as [H|H].
      * rewrite forallb_forall in H. pose proof (H x Hx) as A. pose proof (H y Hy) as B.
        destruct x; [discriminate|]. destruct y; [discriminate|]. reflexivity.
      * apply andb_true_iff in H. destruct H as [H1 H2].
        assert (F : filter (fun o => negb (is_none o)) l = l) by (apply filter_all_true, H1).
        rewrite F in H2. unfold l in H2. rewrite forallb_forall in H1.
        destruct x0 as [v0|]; [|specialize (H1 None (or_introl eq_refl)); discriminate].
        rewrite forallb_forall in H2.
        assert (E : forall z, In z l -> z = Some v0).
        { intros z [<-|Hz]; [reflexivity|]. specialize (H2 z Hz). specialize (H1 z (or_intror Hz)).
          destruct z as [v|]; [|discriminate]. apply val_eqb_eq in H2. subst. reflexivity. }
        rewrite (E x Hx), (E y Hy). reflexivity.
    + intros H. destruct x0 as [v0|].
      * apply orb_true_iff. right.
        assert (E : forall z, In z l -> z = Some v0) by (intros z Hz; apply H; [exact Hz|left; reflexivity]).
        assert (A : forallb (fun o => negb (is_none o)) l = true).
        { apply forallb_forall. intros z Hz. rewrite (E z Hz). reflexivity. }
        rewrite A. simpl.
        assert (F : filter (fun o => negb (is_none o)) (x1 :: rest) = x1 :: rest).
        { apply filter_all_true. apply forallb_forall. intros z Hz. rewrite (E z (or_intror Hz)). reflexivity. }
        simpl in F. rewrite F. apply forallb_forall. intros z Hz. rewrite (E z (or_intror Hz)). apply val_eqb_refl.
      * apply orb_true_iff. left. apply forallb_forall. intros z Hz.
        rewrite (H z None Hz (or_introl eq_refl)). reflexivity.
Qed.

Section Main.
  Variable ident_ok gname_ok : name -> bool.
  Variable end_name : name.
  Variable sub : positive -> positive -> bool.
  Variable any_id : positive.

  Definition NodeOK (nodes : list vnode) (n : vnode) : Prop :=
    v_name n <> end_name /\
    (is_graphnode n = false -> ident_ok (v_name n) = true) /\
    (forall o, In o (v_outputs n) -> ident_ok o = true) /\
    (is_graphnode n = true -> forall s, last_producer nodes (v_name n) = Some s -> s = v_name n) /\
    (is_gate n = true -> (forall t, In t (v_targets n) -> In t (names nodes)) /\ ~ In (v_name n) (v_targets n)) /\
    (multi_gate n = true -> NoDup (flat_map (outs_of nodes) (v_targets n))) /\
    mapped_with_interrupts n = false /\
    (is_graphnode n = true -> v_cache n = false) /\
    (forall w, In w (v_wait n) -> exists m, In m nodes /\ In w (v_outputs m)) /\
    (is_graphnode n = true -> gname_ok (v_name n) = true) /\
    NoDup (v_outputs n) /\
    (forall w, In w (v_wait n) -> exists m, In m nodes /\ v_name m <> v_name n /\ In w (v_outputs m)).

  Lemma node_checks_spec nodes n : node_checks ident_ok gname_ok end_name nodes n = true <-> NodeOK nodes n.
  Proof.
    unfold node_checks, NodeOK. rewrite !andb_true_iff.
    assert (E1 : negb (Pos.eqb (v_name n) end_name) = true <-> v_name n <> end_name)
      by (rewrite negb_true_iff; apply Pos.eqb_neq).
    assert (E2 : (is_graphnode n || ident_ok (v_name n)) = true <-> (is_graphnode n = false -> ident_ok (v_name n) = true))
      by (destruct (is_graphnode n); simpl; split; auto; discriminate).
    assert (E3 : forallb ident_ok (v_outputs n) = true <-> forall o, In o (v_outputs n) -> ident_ok o = true) by apply forallb_forall.
    assert (E4 : (negb (is_graphnode n) || match last_producer nodes (v_name n) with Some s => Pos.eqb s (v_name n) | None => true end) = true
                 <-> (is_graphnode n = true -> forall s, last_producer nodes (v_name n) = Some s -> s = v_name n)).
    { destruct (is_graphnode n); simpl; [|split; [discriminate|reflexivity]].
      destruct (last_producer nodes (v_name n)) as [s|].
      - rewrite Pos.eqb_eq. split; [intros -> _ s' E; inversion E; reflexivity|intros H; apply H; reflexivity].
      - split; [intros _ _ s E; discriminate|reflexivity]. }
    assert (E5 : (negb (is_gate n) || (forallb (fun t => pos_in t (names nodes)) (v_targets n) && negb (pos_in (v_name n) (v_targets n)))) = true
                 <-> (is_gate n = true -> (forall t, In t (v_targets n) -> In t (names nodes)) /\ ~ In (v_name n) (v_targets n))).
    { destruct (is_gate n); simpl; [|split; [discriminate|reflexivity]].
      rewrite andb_true_iff, forallb_forall, negb_true_iff, pos_in_nIn. split.
      - intros [A B] _. split; [intros t Ht; apply pos_in_In, A, Ht|exact B].
      - intros H. destruct (H eq_refl) as [A B]. split; [intros t Ht; apply pos_in_In, A, Ht|exact B]. }
    assert (E6 : (negb (multi_gate n) || nodup_b (flat_map (outs_of nodes) (v_targets n))) = true
                 <-> (multi_gate n = true -> NoDup (flat_map (outs_of nodes) (v_targets n)))).
    { destruct (multi_gate n); simpl; [|split; [discriminate|reflexivity]]. rewrite nodup_b_NoDup. split; auto. }
    assert (E7 : negb (mapped_with_interrupts n) = true <-> mapped_with_interrupts n = false) by apply negb_true_iff.
    assert (E8 : negb (is_graphnode n && v_cache n) = true <-> (is_graphnode n = true -> v_cache n = false)).
    { destruct (is_graphnode n); simpl; [|split; [discriminate|reflexivity]]. rewrite negb_true_iff. split; auto. }
    assert (E9 : forallb (fun w => pos_in w (all_outputs nodes)) (v_wait n) = true
                 <-> forall w, In w (v_wait n) -> exists m, In m nodes /\ In w (v_outputs m)).
    { rewrite forallb_forall. split; intros H w Hw.
      - apply all_outputs_In, pos_in_In, H, Hw.
      - apply pos_in_In, all_outputs_In, H, Hw. }
    assert (E10 : (negb (is_graphnode n) || gname_ok (v_name n)) = true <-> (is_graphnode n = true -> gname_ok (v_name n) = true)).
    { destruct (is_graphnode n); simpl; [|split; [discriminate|reflexivity]]. split; auto. }
    assert (E11 : nodup_b (v_outputs n) = true <-> NoDup (v_outputs n)) by apply nodup_b_NoDup.
    assert (E12 : forallb (fun w => existsb (fun m => negb (Pos.eqb (v_name m) (v_name n)) && pos_in w (v_outputs m)) nodes) (v_wait n) = true
                  <-> forall w, In w (v_wait n) -> exists m, In m nodes /\ v_name m <> v_name n /\ In w (v_outputs m)).
    { rewrite forallb_forall. split; intros H w Hw.
      - specialize (H w Hw). apply existsb_exists in H. destruct H as (m & Hm & Hb). apply andb_true_iff in Hb. destruct Hb as [Hne Hin].
        exists m. split; [exact Hm|]. split; [apply Pos.eqb_neq, negb_true_iff, Hne | apply pos_in_In, Hin].
      - destruct (H w Hw) as (m & Hm & Hne & Hin). apply existsb_exists. exists m. split; [exact Hm|].
        apply andb_true_iff. split; [apply negb_true_iff, Pos.eqb_neq, Hne | apply pos_in_In, Hin]. }
    rewrite E1, E2, E3, E4, E5, E6, E7, E8, E9, E10, E11, E12. tauto.
  Qed.

  Definition DefaultsOK (nodes : list vnode) : Prop :=
    forall p n1 n2, In n1 nodes -> In n2 nodes -> In p (v_inputs n1) -> In p (v_inputs n2) ->
                    dget (v_defaults n1) p = dget (v_defaults n2) p.

  Lemma default_infos_In nodes p x :
    In x (default_infos nodes p) <-> exists n, In n nodes /\ In p (v_inputs n) /\ x = dget (v_defaults n) p.
  Proof.
    unfold default_infos. rewrite in_map_iff. split.
    - intros [n [E H]]. apply filter_In in H. destruct H as [H1 H2]. apply pos_in_In in H2. exists n. auto.
    - intros [n [H1 [H2 E]]]. exists n. split; [auto|]. apply filter_In. split; [exact H1|apply pos_in_In, H2].
  Qed.

  Lemma defaults_spec nodes :
    forallb (fun p => defaults_consistent (default_infos nodes p)) (params_of nodes) = true <-> DefaultsOK nodes.
  Proof.
    rewrite forallb_forall. unfold DefaultsOK. split.
    - intros H p n1 n2 H1 H2 P1 P2.
      assert (Hp : In p (params_of nodes)) by (apply in_flat_map; exists n1; auto).
      specialize (H p Hp). rewrite defaults_consistent_spec in H.
      apply H; apply default_infos_In; [exists n1|exists n2]; auto.
    - intros H p _. apply defaults_consistent_spec. intros x y Hx Hy.
      apply default_infos_In in Hx. apply default_infos_In in Hy.
      destruct Hx as [n1 [A1 [B1 ->]]]. destruct Hy as [n2 [A2 [B2 ->]]]. apply H; assumption.
  Qed.

  (* every type the producer offers for v and every type the consumer demands for it: annotated and compatible *)
  Definition TypeOK (nodes : list vnode) (s d v : name) : Prop :=
    exists ns nd, find_v nodes s = Some ns /\ find_v nodes d = Some nd /\
      forall a b, In a (tys (v_out_ty ns) v) -> In b (tys (v_in_ty nd) v) ->
        exists x y, a = Some x /\ b = Some y /\ compat sub any_id x y = true.

  Lemma ty_pair_ok_spec a b :
    ty_pair_ok sub any_id a b = true <-> exists x y, a = Some x /\ b = Some y /\ compat sub any_id x y = true.
  Proof.
    unfold ty_pair_ok. split.
    - destruct a as [x|], b as [y|]; try discriminate. intros H. exists x, y. auto.
    - intros (x & y & -> & -> & H). exact H.
  Qed.

  Lemma type_ok_spec nodes s d v : type_ok sub any_id nodes s d v = true <-> TypeOK nodes s d v.
  Proof.
    unfold type_ok, TypeOK. split.
    - destruct (find_v nodes s) as [ns|]; [|discriminate]. destruct (find_v nodes d) as [nd|]; [|discriminate].
      intros H. exists ns, nd. split; [reflexivity|]. split; [reflexivity|]. intros a b Ha Hb.
      rewrite forallb_forall in H. specialize (H a Ha). rewrite forallb_forall in H. apply ty_pair_ok_spec, H, Hb.
    - intros [ns [nd [-> [-> H]]]]. apply forallb_forall. intros a Ha. apply forallb_forall. intros b Hb.
      apply ty_pair_ok_spec. apply H; assumption.
  Qed.

  Definition edge_dst (e : espec) : name := match e with ESpec _ d _ => d end.

  Definition TypesOK (nodes : list vnode) (es : option (list espec)) : Prop :=
    match es with
    | None => forall n p s, In n nodes -> In p (v_inputs n) -> In s (producers nodes p) -> TypeOK nodes s (v_name n) p
    | Some l => forall e v s, In e l -> In v (espec_values nodes e) -> In s (producers nodes v) -> TypeOK nodes s (edge_dst e) v
    end.

  Lemma types_ok_spec nodes es : types_ok sub any_id nodes es = true <-> TypesOK nodes es.
  Proof.
    unfold types_ok, TypesOK. destruct es as [l|]; rewrite forallb_forall.
    - split.
      + intros H e v s He Hv Hs. specialize (H e He). destruct e as [s0 d vals]. rewrite forallb_forall in H.
        specialize (H v Hv). rewrite forallb_forall in H. apply type_ok_spec, H, Hs.
      + intros H e He. destruct e as [s0 d vals]. apply forallb_forall. intros v Hv. apply forallb_forall. intros s Hs.
        apply type_ok_spec. apply (H (ESpec s0 d vals) v s He Hv Hs).
    - split.
      + intros H n p s Hn Hp Hs. specialize (H n Hn). rewrite forallb_forall in H. specialize (H p Hp).
        rewrite forallb_forall in H. apply type_ok_spec, H, Hs.
      + intros H n Hn. apply forallb_forall. intros p Hp. apply forallb_forall. intros s Hs. apply type_ok_spec. apply H; assumption.
  Qed.

  (* ---------------- the declarative well-formedness and the main theorem ---------------- *)

  Record WF (g : vgraph) : Prop := mk_WF {
    wf_names : NoDup (names (vg_nodes g));
    wf_edges : EdgesOK (vg_nodes g) (vg_edges g);
    wf_conflicts : ConflictsOK (vg_nodes g) (vg_edges g);
    wf_gname : forall x, vg_name g = Some x -> gname_ok x = true;
    wf_nodes : forall n, In n (vg_nodes g) -> NodeOK (vg_nodes g) n;
    wf_defaults : DefaultsOK (vg_nodes g);
    wf_types : vg_strict g = true -> TypesOK (vg_nodes g) (vg_edges g) }.

  (* guaranteed by RouteNode (targets deduplicated) and IfElseNode (when_true <> when_false) *)
  Definition targets_distinct (g : vgraph) : Prop := forall n, In n (vg_nodes g) -> NoDup (v_targets n).

  Theorem valid_spec g : targets_distinct g ->
    (valid ident_ok gname_ok end_name sub any_id g = true <-> WF g).
  Proof.
    intros Htg. unfold valid. cbv zeta. rewrite !andb_true_iff. split.
    - intros [[[[[[H1 H2] H3] H4] H5] H6] H7].
      apply nodup_b_NoDup in H1. apply edges_ok_spec in H2. apply (conflicts_ok_spec _ H1 Htg _ H2) in H3.
      constructor; try assumption.
      + intros x E. rewrite E in H4. exact H4.
      + intros n Hn. rewrite forallb_forall in H5. apply node_checks_spec, H5, Hn.
      + apply defaults_spec, H6.
      + intros S. rewrite S in H7. simpl in H7. apply types_ok_spec, H7.
    - intros [W1 W2 W3 W4 W5 W6 W7]. repeat split.
      + apply nodup_b_NoDup, W1.
      + apply edges_ok_spec, W2.
      + apply (conflicts_ok_spec _ W1 Htg _ W2), W3.
      + destruct (vg_name g) as [x|]; [apply W4; reflexivity|reflexivity].
      + apply forallb_forall. intros n Hn. apply node_checks_spec, W5, Hn.
      + apply defaults_spec, W6.
      + destruct (vg_strict g); [|reflexivity]. simpl. apply types_ok_spec, W7. reflexivity.
  Qed.

  (* ---------------- one flaw, anywhere, is enough ---------------- *)

  Notation valid' := (valid ident_ok gname_ok end_name sub any_id).

  Lemma not_WF_rejected g : targets_distinct g -> ~ WF g -> valid' g = false.
  Proof. intros Htg H. destruct (valid' g) eqn:E; [|reflexivity]. exfalso. apply H. apply valid_spec; assumption. Qed.

  Theorem reject_unknown_gate_target g n t : targets_distinct g ->
    In n (vg_nodes g) -> is_gate n = true -> In t (v_targets n) -> ~ In t (names (vg_nodes g)) -> valid' g = false.
  Proof.
    intros Htg Hn Hg Ht Hno. apply not_WF_rejected; [exact Htg|]. intros W.
    destruct (wf_nodes g W n Hn) as [_ [_ [_ [_ [H _]]]]]. destruct (H Hg) as [A _]. exact (Hno (A t Ht)).
  Qed.

  Theorem reject_duplicate_node_name g : targets_distinct g -> ~ NoDup (names (vg_nodes g)) -> valid' g = false.
  Proof. intros Htg H. apply not_WF_rejected; [exact Htg|]. intros W. exact (H (wf_names g W)). Qed.

  Theorem reject_illegal_node_name g n : targets_distinct g ->
    In n (vg_nodes g) -> (v_name n = end_name \/ (is_graphnode n = false /\ ident_ok (v_name n) = false)) -> valid' g = false.
  Proof.
    intros Htg Hn H. apply not_WF_rejected; [exact Htg|]. intros W. destruct (wf_nodes g W n Hn) as [A [B _]].
    destruct H as [H|[H1 H2]]; [exact (A H)|]. rewrite (B H1) in H2. discriminate.
  Qed.

  Theorem reject_illegal_output_name g n o : targets_distinct g ->
    In n (vg_nodes g) -> In o (v_outputs n) -> ident_ok o = false -> valid' g = false.
  Proof.
    intros Htg Hn Ho H. apply not_WF_rejected; [exact Htg|]. intros W. destruct (wf_nodes g W n Hn) as [_ [_ [A _]]].
    rewrite (A o Ho) in H. discriminate.
  Qed.

  Theorem reject_illegal_graph_name g x : targets_distinct g -> vg_name g = Some x -> gname_ok x = false -> valid' g = false.
  Proof.
    intros Htg E H. apply not_WF_rejected; [exact Htg|]. intros W. rewrite (wf_gname g W x E) in H. discriminate.
  Qed.

  Theorem reject_inconsistent_defaults g p n1 n2 : targets_distinct g ->
    In n1 (vg_nodes g) -> In n2 (vg_nodes g) -> In p (v_inputs n1) -> In p (v_inputs n2) ->
    dget (v_defaults n1) p <> dget (v_defaults n2) p -> valid' g = false.
  Proof.
    intros Htg H1 H2 P1 P2 Hne. apply not_WF_rejected; [exact Htg|]. intros W. apply Hne. apply (wf_defaults g W); assumption.
  Qed.

  Theorem reject_wait_for_unknown g n w : targets_distinct g ->
    In n (vg_nodes g) -> In w (v_wait n) -> (forall m, In m (vg_nodes g) -> ~ In w (v_outputs m)) -> valid' g = false.
  Proof.
    intros Htg Hn Hw Hno. apply not_WF_rejected; [exact Htg|]. intros W.
    destruct (wf_nodes g W n Hn) as [_ [_ [_ [_ [_ [_ [_ [_ [A _]]]]]]]]]. destruct (A w Hw) as [m [Hm Ho]]. exact (Hno m Hm Ho).
  Qed.

  (* a nested-graph node renamed to something that is no path component ('' / 'a.b' / 'a/b') *)
  Theorem reject_illegal_graphnode_name g n : targets_distinct g ->
    In n (vg_nodes g) -> is_graphnode n = true -> gname_ok (v_name n) = false -> valid' g = false.
  Proof.
    intros Htg Hn Hg H. apply not_WF_rejected; [exact Htg|]. intros W.
    destruct (wf_nodes g W n Hn) as [_ [_ [_ [_ [_ [_ [_ [_ [_ [A _]]]]]]]]]]. rewrite (A Hg) in H. discriminate.
  Qed.

  (* one node listing an output name twice *)
  Theorem reject_repeated_output_in_node g n : targets_distinct g ->
    In n (vg_nodes g) -> ~ NoDup (v_outputs n) -> valid' g = false.
  Proof.
    intros Htg Hn H. apply not_WF_rejected; [exact Htg|]. intros W.
    destruct (wf_nodes g W n Hn) as [_ [_ [_ [_ [_ [_ [_ [_ [_ [_ [A _]]]]]]]]]]]. exact (H A).
  Qed.

  (* a wait on a name that only the waiter itself produces *)
  Theorem reject_wait_for_own_output g n w : targets_distinct g ->
    In n (vg_nodes g) -> In w (v_wait n) ->
    (forall m, In m (vg_nodes g) -> In w (v_outputs m) -> v_name m = v_name n) -> valid' g = false.
  Proof.
    intros Htg Hn Hw Hown. apply not_WF_rejected; [exact Htg|]. intros W.
    destruct (wf_nodes g W n Hn) as [_ [_ [_ [_ [_ [_ [_ [_ [_ [_ [_ A]]]]]]]]]]]. destruct (A w Hw) as (m & Hm & Hne & Ho).
    exact (Hne (Hown m Hm Ho)).
  Qed.

  Theorem reject_bad_explicit_edge g l s d vals : targets_distinct g ->
    vg_edges g = Some l -> In (ESpec s d vals) l ->
    (~ In s (names (vg_nodes g)) \/ ~ In d (names (vg_nodes g)) \/
     exists vs v, vals = Some vs /\ In v vs /\ (~ In v (outs_of (vg_nodes g) s) \/ ~ In v (ins_of (vg_nodes g) d))) ->
    valid' g = false.
  Proof.
    intros Htg E He H. apply not_WF_rejected; [exact Htg|]. intros W.
    destruct (wf_edges g W l E _ He) as [A [B C]]. destruct H as [H|[H|[vs [v [Ev [Hv H]]]]]]; [exact (H A)|exact (H B)|].
    destruct (C vs Ev v Hv) as [C1 C2]. destruct H as [H|H]; [exact (H C1)|exact (H C2)].
  Qed.

  Theorem reject_unordered_producers g o a b : targets_distinct g ->
    In a (producers (vg_nodes g) o) -> In b (producers (vg_nodes g) o) -> a <> b ->
    ~ Mutex (vg_nodes g) (g_pairs (vg_nodes g) (vg_edges g)) a b -> ~ Ordered (vg_nodes g) (vg_edges g) o a b ->
    valid' g = false.
  Proof.
    intros Htg Ha Hb Hne Hm Ho. apply not_WF_rejected; [exact Htg|]. intros W.
    destruct (wf_conflicts g W o a b Ha Hb Hne) as [H|H]; [exact (Hm H)|exact (Ho H)].
  Qed.

  (* strict mode, inferred edges: ANY producer of a consumed name with a missing or incompatible annotation *)
  Theorem reject_type_flaw g n p s : targets_distinct g -> vg_strict g = true -> vg_edges g = None ->
    In n (vg_nodes g) -> In p (v_inputs n) -> In s (producers (vg_nodes g) p) -> ~ TypeOK (vg_nodes g) s (v_name n) p ->
    valid' g = false.
  Proof.
    intros Htg Hs He Hn Hp Hpr Hno. apply not_WF_rejected; [exact Htg|]. intros W. pose proof (wf_types g W Hs) as T.
    rewrite He in T. exact (Hno (T n p s Hn Hp Hpr)).
  Qed.

  Theorem reject_type_flaw_explicit g l e v s : targets_distinct g -> vg_strict g = true -> vg_edges g = Some l ->
    In e l -> In v (espec_values (vg_nodes g) e) -> In s (producers (vg_nodes g) v) -> ~ TypeOK (vg_nodes g) s (edge_dst e) v ->
    valid' g = false.
  Proof.
    intros Htg Hs He Hin Hv Hpr Hno. apply not_WF_rejected; [exact Htg|]. intros W. pose proof (wf_types g W Hs) as T.
    rewrite He in T. exact (Hno (T e v s Hin Hv Hpr)).
  Qed.

  (* nesting: a flawed graph anywhere in the tree means the outermost graph cannot be built *)
  Fixpoint tree_graphs (t : vtree) : list vgraph :=
    match t with VT g subs => g :: flat_map tree_graphs subs end.

  Section TreeInd.
    Variable P : vtree -> Prop.
    Hypothesis H : forall g subs, Forall P subs -> P (VT g subs).
    Fixpoint vtree_ind2 (t : vtree) : P t :=
      match t with
      | VT g subs => H g subs ((fix all (l : list vtree) : Forall P l :=
                                  match l with [] => Forall_nil P | s :: l' => Forall_cons s (vtree_ind2 s) (all l') end) subs)
      end.
  End TreeInd.

  Notation valid_tree' := (valid_tree ident_ok gname_ok end_name sub any_id).

  Theorem valid_tree_spec t : valid_tree' t = true <-> forall g, In g (tree_graphs t) -> valid' g = true.
  Proof.
    induction t as [g0 subs IH] using vtree_ind2. simpl. rewrite andb_true_iff, forallb_forall. split.
    - intros [H1 H2] g [<-|Hg]; [exact H2|]. apply in_flat_map in Hg. destruct Hg as [s [Hs Hg]].
      rewrite Forall_forall in IH. apply (IH s Hs); [apply H1, Hs|exact Hg].
    - intros H. split; [|apply H; left; reflexivity]. intros s Hs. rewrite Forall_forall in IH. apply (IH s Hs).
      intros g Hg. apply H. right. apply in_flat_map. exists s. auto.
  Qed.

  Theorem reject_anywhere_in_tree t g : In g (tree_graphs t) -> valid' g = false -> valid_tree' t = false.
  Proof.
    intros Hg Hv. destruct (valid_tree' t) eqn:E; [|reflexivity]. rewrite valid_tree_spec in E. rewrite (E g Hg) in Hv. discriminate.
  Qed.
End Main.
