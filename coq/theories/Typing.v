(* Typing.v — type expressions and the compatibility judgement of _typing.py:is_type_compatible.
   Restates, rule by rule and in the order the code tries them:
     is_type_compatible        incoming TypeVar -> True; then _check_identical_or_any; then
     _is_typevar_compatible    (required TypeVar: free / constraints / bound);
     _handle_union_types       both unions / incoming union / required union;
     _handle_generic_types     Annotated stripped on either side; origins by issubclass; an unparameterised side
                               accepts; equal arity and pointwise otherwise.
   Classes and generic origins share one identifier space and one subclass table `sub` (Python's issubclass on
   the chosen classes; typing.Any is a class since 3.11 and sits in the table under `any_id`).
   The judgement is one non-recursive step `compat_step` applied to itself under fuel; TypingProofs.v shows the
   fuel is irrelevant (compat = compat_step compat).  Plain stdlib. *)
From HG Require Import Base.

Inductive ty :=
| TCls (c : positive) (args : list ty)       (* int, MyClass, list, list[int], dict[str, int], Sequence[T] *)
| TAny
| TUnion (ts : list ty)                      (* Union[...] / A | B, two or more distinct members *)
| TAnnot (t : ty) (meta : positive)          (* Annotated[t, meta] *)
| TVar (id : positive) (constraints : list ty) (bound : option ty)
| TNoAnn                                     (* the NoAnnotation marker *)
| TUnres (s : positive).                     (* Unresolvable(...) *)

Fixpoint ty_size (t : ty) : nat :=
  match t with
  | TCls _ args => S (list_sum (map ty_size args))
  | TUnion ts => S (list_sum (map ty_size ts))
  | TAnnot t _ => S (ty_size t)
  | TVar _ cs b => S (list_sum (map ty_size cs) + match b with Some t => ty_size t | None => 0 end)
  | _ => 1
  end.

(* Python's == on these objects: structural; unions compare as sets; TypeVars by identity *)
Fixpoint ty_eqb (a b : ty) : bool :=
  match a, b with
  | TCls c xs, TCls d ys =>
      Pos.eqb c d &&
      (fix go (xs ys : list ty) : bool :=
         match xs, ys with
         | [], [] => true
         | x :: xs', y :: ys' => ty_eqb x y && go xs' ys'
         | _, _ => false
         end) xs ys
  | TAny, TAny => true
  | TUnion xs, TUnion ys =>
      forallb (fun x => existsb (ty_eqb x) ys) xs && forallb (fun y => existsb (fun x => ty_eqb x y) xs) ys
  | TAnnot x m, TAnnot y k => ty_eqb x y && Pos.eqb m k
  | TVar i _ _, TVar j _ _ => Pos.eqb i j
  | TNoAnn, TNoAnn => true
  | TUnres s, TUnres t => Pos.eqb s t
  | _, _ => false
  end.

Definition is_any (t : ty) : bool := match t with TAny => true | _ => false end.
Definition is_noann (t : ty) : bool := match t with TNoAnn => true | _ => false end.
Definition is_unres (t : ty) : bool := match t with TUnres _ => true | _ => false end.
Definition is_tvar (t : ty) : bool := match t with TVar _ _ _ => true | _ => false end.
Definition is_nil {A} (l : list A) : bool := match l with [] => true | _ => false end.

Section Compat.
  Variable sub : positive -> positive -> bool.     (* issubclass(origin_i, origin_r) *)
  Variable any_id : positive.

  Definition cls_of (t : ty) : option (positive * list ty) :=
    match t with TCls c a => Some (c, a) | TAny => Some (any_id, []) | _ => None end.

  (* _handle_generic_types once Annotated has been stripped *)
  Definition generic_step (rec : ty -> ty -> bool) (i r : ty) : bool :=
    match cls_of i, cls_of r with
    | Some (ci, ai), Some (cr, ar) =>
        if sub ci cr then
          if is_nil ai || is_nil ar then true
          else if Nat.eqb (length ai) (length ar)
               then forallb (fun p => rec (fst p) (snd p)) (combine ai ar)
               else false
        else false
    | _, _ => false
    end.

  Definition structural_step (rec : ty -> ty -> bool) (i r : ty) : bool :=
    match i, r with
    | TUnion xs, TUnion ys => forallb (fun x => existsb (rec x) ys) xs
    | TUnion xs, _ => forallb (fun x => rec x r) xs
    | _, TUnion ys => existsb (rec i) ys
    | TAnnot pi _, TAnnot pr _ => rec pi pr
    | TAnnot pi _, _ => rec pi r
    | _, TAnnot pr _ => rec i pr
    | _, _ => generic_step rec i r
    end.

  Definition typevar_step (rec : ty -> ty -> bool) (i : ty) (cs : list ty) (b : option ty) : bool :=
    match cs, b with
    | [], None => true
    | _, _ =>
        if negb (is_nil cs) && existsb (rec i) cs then true
        else match b with Some t => rec i t | None => false end
    end.

  Definition compat_step (rec : ty -> ty -> bool) (i r : ty) : bool :=
    if is_tvar i then true
    else if is_unres i || is_unres r then true
    else if ty_eqb i r || is_any r || is_noann i || is_noann r then true
    else match r with
         | TVar _ cs b => typevar_step rec i cs b
         | _ => structural_step rec i r
         end.

  Fixpoint compat_f (n : nat) (i r : ty) : bool :=
    match n with
    | O => false
    | S n' => compat_step (compat_f n') i r
    end.

  Definition compat (i r : ty) : bool := compat_f (S (ty_size i + ty_size r)) i r.
End Compat.
