(* EngineProofs.v — invariants of the superstep engine (for every executor). *)
From HG Require Import Base Engine.
From stdpp Require Import gmap.
Set Default Proof Using "Type".

(* ------------------------------------------------------------------ *)
(* 1. Versions: monotone, and a value only changes together with its version *)

Definition le_st (a b : state) : Prop :=
  forall x, ver a x <= ver b x /\ (ver a x = ver b x -> vals a !! x = vals b !! x).

Lemma le_st_refl a : le_st a a.
Proof. intros x. split; [lia | reflexivity]. Qed.

Lemma le_st_trans a b c : le_st a b -> le_st b c -> le_st a c.
Proof.
  intros H1 H2 x. destruct (H1 x) as [L1 E1], (H2 x) as [L2 E2]. split; [lia|].
  intros E. rewrite E1 by lia. apply E2. lia.
Qed.

(* I1: a name has a value exactly when its version is positive *)
Definition dom_inv (st : state) : Prop :=
  forall x, vals st !! x = None <-> ver st x = 0.

Lemma dom_inv_empty : dom_inv empty_state.
Proof. intros x. unfold ver, empty_state; simpl. rewrite !lookup_empty. simpl. tauto. Qed.

Lemma ver_update_same st x v : ver st x <= ver (update_value st x v) x.
Proof.
  unfold update_value, ver. destruct (vals st !! x); [destruct (val_eqb v VSentinel); [|destruct (val_eqb _ v)]|];
    simpl; rewrite ?lookup_insert; simpl; unfold ver; lia.
Qed.

Lemma ver_update_ne st x y v : x <> y -> ver (update_value st x v) y = ver st y.
Proof.
  intros Hne. unfold update_value, ver.
  destruct (vals st !! x); [destruct (val_eqb v VSentinel); [|destruct (val_eqb _ v)]|];
    simpl; rewrite ?lookup_insert_ne by done; reflexivity.
Qed.

Lemma vals_update_ne st x y v : x <> y -> vals (update_value st x v) !! y = vals st !! y.
Proof.
  intros Hne. unfold update_value.
  destruct (vals st !! x); [destruct (val_eqb v VSentinel); [|destruct (val_eqb _ v)]|];
    simpl; rewrite lookup_insert_ne by done; reflexivity.
Qed.

Lemma vals_update_same st x v : vals (update_value st x v) !! x = Some v.
Proof.
  unfold update_value.
  destruct (vals st !! x); [destruct (val_eqb v VSentinel); [|destruct (val_eqb _ v)]|];
    simpl; rewrite lookup_insert; reflexivity.
Qed.

Lemma execs_update st x v : execs (update_value st x v) = execs st.
Proof. unfold update_value.
  destruct (vals st !! x); [destruct (val_eqb v VSentinel); [|destruct (val_eqb _ v)]|]; reflexivity. Qed.
Lemma decs_update st x v : decs (update_value st x v) = decs st.
Proof. unfold update_value.
  destruct (vals st !! x); [destruct (val_eqb v VSentinel); [|destruct (val_eqb _ v)]|]; reflexivity. Qed.

Lemma le_st_update st x v : le_st st (update_value st x v).
Proof.
  intros y. destruct (decide (x = y)) as [<-|Hne].
  - split; [apply ver_update_same|]. intros E. rewrite vals_update_same.
    revert E. unfold update_value, ver.
    destruct (vals st !! x) as [old|] eqn:Ev.
    + destruct (val_eqb v VSentinel); [simpl; rewrite lookup_insert; simpl; unfold ver; lia|].
      destruct (val_eqb old v) eqn:Eq.
      * intros _. apply val_eqb_eq in Eq. congruence.
      * simpl; rewrite lookup_insert; simpl; unfold ver; lia.
    + simpl; rewrite lookup_insert; simpl; unfold ver; lia.
  - rewrite ver_update_ne, vals_update_ne by done. split; [lia | reflexivity].
Qed.

Lemma dom_inv_update st x v : dom_inv st -> dom_inv (update_value st x v).
Proof.
  intros H y. destruct (decide (x = y)) as [<-|Hne].
  - rewrite vals_update_same. split; [discriminate|]. intros E. exfalso.
    revert E. unfold update_value, ver.
    destruct (vals st !! x) as [old|] eqn:Ev.
    + assert (Hp : ver st x <> 0) by (intros E0; apply H in E0; congruence).
      destruct (val_eqb v VSentinel); [simpl; rewrite lookup_insert; simpl; lia|].
      destruct (val_eqb old v); simpl; [fold (ver st x); lia | rewrite lookup_insert; simpl; lia].
    + simpl; rewrite lookup_insert; simpl; lia.
  - rewrite ver_update_ne, vals_update_ne by done. apply H.
Qed.

Lemma le_st_apply_outputs outs : forall st, le_st st (apply_outputs st outs).
Proof.
  induction outs as [|[k v] outs IH]; intros st; [apply le_st_refl|].
  unfold apply_outputs in *. simpl. eapply le_st_trans; [apply le_st_update | apply IH].
Qed.

Lemma dom_inv_apply_outputs outs : forall st, dom_inv st -> dom_inv (apply_outputs st outs).
Proof.
  induction outs as [|[k v] outs IH]; intros st H; [exact H|].
  unfold apply_outputs in *. simpl. apply IH. apply dom_inv_update; exact H.
Qed.

Lemma execs_apply_outputs outs : forall st, execs (apply_outputs st outs) = execs st.
Proof.
  induction outs as [|[k v] outs IH]; intros st; [reflexivity|].
  unfold apply_outputs in *. simpl. rewrite IH. apply execs_update.
Qed.
Lemma decs_apply_outputs outs : forall st, decs (apply_outputs st outs) = decs st.
Proof.
  induction outs as [|[k v] outs IH]; intros st; [reflexivity|].
  unfold apply_outputs in *. simpl. rewrite IH. apply decs_update.
Qed.

(* names not written keep value and version *)
Lemma apply_outputs_other outs : forall st y,
  y ∉ dkeys outs -> vals (apply_outputs st outs) !! y = vals st !! y /\ ver (apply_outputs st outs) y = ver st y.
Proof.
  induction outs as [|[k v] outs IH]; intros st y Hn; [split; reflexivity|].
  unfold apply_outputs in *. simpl in *. apply not_elem_of_cons in Hn as [Hne Hn].
  destruct (IH (update_value st k v) y Hn) as [E1 E2].
  rewrite E1, E2, vals_update_ne, ver_update_ne by done. split; reflexivity.
Qed.

(* the binding of a written name is its value afterwards *)
Lemma apply_outputs_written outs : forall st y v,
  NoDup (dkeys outs) -> (y, v) ∈ outs -> vals (apply_outputs st outs) !! y = Some v.
Proof.
  induction outs as [|[k w] outs IH]; intros st y v Hnd Hin; [inversion Hin|].
  unfold apply_outputs in *. simpl in *. apply NoDup_cons in Hnd as [Hk Hnd'].
  apply elem_of_cons in Hin as [[= -> ->]|Hin].
  - destruct (apply_outputs_other outs (update_value st k w) k Hk) as [E _].
    unfold apply_outputs in E. rewrite E. apply vals_update_same.
  - apply IH; assumption.
Qed.

Definition same_data (a b : state) : Prop := vals a = vals b /\ vers a = vers b.

Lemma le_st_same_data a b : same_data a b -> le_st a b.
Proof. intros [E1 E2] x. unfold ver. rewrite E1, E2. split; [lia | reflexivity]. Qed.

Lemma set_exec_same st x r : same_data st (set_exec st x r).
Proof. split; reflexivity. Qed.
Lemma set_dec_same st x d : same_data st (set_dec st x d).
Proof. split; reflexivity. Qed.

Lemma dom_inv_same a b : same_data a b -> dom_inv a -> dom_inv b.
Proof. intros [E1 E2] H x. unfold ver. rewrite <- E1, <- E2. apply H. Qed.

(* clear_stale touches routing decisions only *)
Lemma clear_stale_same g st : same_data st (clear_stale g st) /\ execs (clear_stale g st) = execs st.
Proof.
  unfold clear_stale. generalize (g_nodes g) as l. intros l. revert st.
  induction l as [|n l IH]; intros st; simpl; [repeat split|].
  set (s1 := if is_gate n then _ else _).
  assert (H1 : same_data st s1 /\ execs s1 = execs st).
  { subst s1. destruct (is_gate n); [|repeat split].
    destruct (decs st !! n_name n) as [[]|]; try (repeat split; fail);
      destruct (needs_execution g st n); repeat split. }
  destruct (IH s1) as [[E1 E2] E3]. destruct H1 as [[F1 F2] F3].
  repeat split; congruence.
Qed.

Lemma ready_same g st : same_data st (fst (ready g st)) /\ execs (fst (ready g st)) = execs st.
Proof. unfold ready. simpl. apply clear_stale_same. Qed.

Section Steps.
  Variable exec : node -> state -> dict val -> outcome.

  Lemma le_st_commit snap acc n outs dec : le_st acc (commit snap acc n outs dec).
  Proof.
    unfold commit. eapply le_st_trans; [|apply le_st_same_data, set_exec_same].
    eapply le_st_trans; [|apply le_st_apply_outputs].
    destruct dec; [apply le_st_same_data, set_dec_same | apply le_st_refl].
  Qed.

  Lemma dom_inv_commit snap acc n outs dec : dom_inv acc -> dom_inv (commit snap acc n outs dec).
  Proof.
    intros H. unfold commit. eapply dom_inv_same; [apply set_exec_same|].
    apply dom_inv_apply_outputs. destruct dec; [eapply dom_inv_same; [apply set_dec_same|exact H] | exact H].
  Qed.

  Definition sres_state (r : sres) : state :=
    match r with SOk s => s | SErr _ s => s | SPause _ s => s end.

  Lemma superstep_sync_le g snap pv rd : forall acc log,
    le_st snap acc -> le_st snap (sres_state (fst (superstep_sync exec g snap pv rd acc log))).
  Proof.
    induction rd as [|n rd IH]; intros acc log H; simpl; [exact H|].
    destruct (collect_inputs g snap pv n (n_inputs n)); simpl; [|apply le_st_refl].
    destruct (exec n snap d); simpl; try exact H.
    apply IH. eapply le_st_trans; [exact H | apply le_st_commit].
  Qed.

  Lemma superstep_sync_dom g snap pv rd : forall acc log,
    dom_inv snap -> dom_inv acc -> dom_inv (sres_state (fst (superstep_sync exec g snap pv rd acc log))).
  Proof.
    induction rd as [|n rd IH]; intros acc log Hs H; simpl; [exact H|].
    destruct (collect_inputs g snap pv n (n_inputs n)); simpl; [|exact Hs].
    destruct (exec n snap d); simpl; try exact H.
    apply IH; [exact Hs | apply dom_inv_commit; exact H].
  Qed.

  Lemma write_decisions_same g snap pv pi : forall acc,
    same_data acc (write_decisions exec g snap pv pi acc) /\
    execs (write_decisions exec g snap pv pi acc) = execs acc.
  Proof.
    unfold write_decisions. induction pi as [|n pi IH]; intros acc; simpl; [repeat split|].
    set (a1 := match snd (run_one exec g snap pv n) with OOk _ (Some d) => _ | _ => acc end).
    assert (H1 : same_data acc a1 /\ execs a1 = execs acc).
    { subst a1. destruct (snd (run_one exec g snap pv n)) as [o [d|]| |]; repeat split. }
    destruct (IH a1) as [[E1 E2] E3]. destruct H1 as [[F1 F2] F3]. repeat split; congruence.
  Qed.

  Lemma apply_success_le g snap pv acc n : le_st acc (apply_success exec g snap pv acc n).
  Proof.
    unfold apply_success. destruct (snd (run_one exec g snap pv n)); try apply le_st_refl.
    eapply le_st_trans; [apply le_st_apply_outputs | apply le_st_same_data, set_exec_same].
  Qed.
  Lemma apply_success_dom g snap pv acc n : dom_inv acc -> dom_inv (apply_success exec g snap pv acc n).
  Proof.
    intros H. unfold apply_success. destruct (snd (run_one exec g snap pv n)); try exact H.
    eapply dom_inv_same; [apply set_exec_same|]. apply dom_inv_apply_outputs; exact H.
  Qed.

  Lemma fold_apply_success_le g snap pv rd : forall acc, le_st acc (fold_left (apply_success exec g snap pv) rd acc).
  Proof.
    induction rd as [|n rd IH]; intros acc; simpl; [apply le_st_refl|].
    eapply le_st_trans; [apply apply_success_le | apply IH].
  Qed.
  Lemma fold_apply_success_dom g snap pv rd : forall acc,
    dom_inv acc -> dom_inv (fold_left (apply_success exec g snap pv) rd acc).
  Proof.
    induction rd as [|n rd IH]; intros acc H; simpl; [exact H|].
    apply IH. apply apply_success_dom; exact H.
  Qed.

  Lemma superstep_async_le g snap pv rd pi :
    le_st snap (sres_state (fst (superstep_async exec g snap pv rd pi))).
  Proof.
    unfold superstep_async. simpl.
    set (acc0 := write_decisions _ _ _ _ _ _).
    assert (H0 : le_st snap acc0) by (apply le_st_same_data, write_decisions_same).
    assert (H1 := fold_apply_success_le g snap pv (isolate rd) acc0).
    destruct (first_failure exec g snap pv (isolate rd)) as [[e|p]|]; simpl; eapply le_st_trans; eauto.
  Qed.

  Lemma superstep_async_dom g snap pv rd pi :
    dom_inv snap -> dom_inv (sres_state (fst (superstep_async exec g snap pv rd pi))).
  Proof.
    intros Hs. unfold superstep_async. simpl.
    set (acc0 := write_decisions _ _ _ _ _ _).
    assert (H0 : dom_inv acc0) by (eapply dom_inv_same; [apply write_decisions_same | exact Hs]).
    assert (H1 := fold_apply_success_dom g snap pv (isolate rd) acc0 H0).
    destruct (first_failure exec g snap pv (isolate rd)) as [[e|p]|]; simpl; exact H1.
  Qed.

  Lemma superstep_le r g snap pv rd : le_st snap (sres_state (fst (superstep exec r g snap pv rd))).
  Proof. destruct r; [apply superstep_sync_le, le_st_refl | apply superstep_async_le]. Qed.
  Lemma superstep_dom r g snap pv rd : dom_inv snap -> dom_inv (sres_state (fst (superstep exec r g snap pv rd))).
  Proof. intros H. destruct r; [apply superstep_sync_dom; exact H | apply superstep_async_dom; exact H]. Qed.
End Steps.

Lemma init_state_dom pv : dom_inv (init_state pv).
Proof. apply dom_inv_apply_outputs, dom_inv_empty. Qed.

(* ------------------------------------------------------------------ *)
(* 2. What membership in the ready list means (C03, C16, C17) *)

Lemma needs_execution_same g a b n :
  same_data a b -> execs a = execs b -> needs_execution g a n = needs_execution g b n.
Proof.
  intros [E1 E2] E3. unfold needs_execution. rewrite E3.
  destruct (execs b !! n_name n); [|reflexivity].
  unfold is_stale, ver. rewrite E2. reflexivity.
Qed.

Definition gate_needs (g : graph) (st : state) (x : name) : bool :=
  existsb (fun n => is_gate n && Pos.eqb (n_name n) x && needs_execution g st n) (g_nodes g).

Definition cleared (g : graph) (st : state) (x : name) : option decision :=
  match decs st !! x with
  | Some DEnd => Some DEnd
  | Some d => if gate_needs g st x then None else Some d
  | None => None
  end.

Definition clear_one (g : graph) (s : state) (n : node) : state :=
  if is_gate n then
    match decs s !! n_name n with
    | Some DEnd => s
    | Some _ => if needs_execution g s n then set_dec s (n_name n) None else s
    | None => s
    end
  else s.

Lemma clear_one_same g s n : same_data s (clear_one g s n) /\ execs s = execs (clear_one g s n).
Proof.
  unfold clear_one. destruct (is_gate n); [|repeat split].
  destruct (decs s !! n_name n) as [[]|]; try (repeat split; fail);
    destruct (needs_execution g s n); repeat split.
Qed.

Lemma clear_one_decs g s n x :
  decs (clear_one g s n) !! x =
  match decs s !! x with
  | Some DEnd => Some DEnd
  | Some d => if is_gate n && Pos.eqb (n_name n) x && needs_execution g s n then None else Some d
  | None => None
  end.
Proof.
  unfold clear_one. destruct (is_gate n) eqn:Eg; simpl.
  2:{ destruct (decs s !! x) as [[]|]; reflexivity. }
  destruct (Pos.eqb (n_name n) x) eqn:Ex; simpl.
  - apply Pos.eqb_eq in Ex. subst x.
    destruct (decs s !! n_name n) as [d|] eqn:Ed; [|cbn; exact Ed].
    destruct d; [cbn; exact Ed| |];
      (destruct (needs_execution g s n); cbn; [apply lookup_delete | exact Ed]).
  - assert (Hne : n_name n <> x) by (intros <-; rewrite Pos.eqb_refl in Ex; discriminate).
    assert (Hx : decs (match decs s !! n_name n with
                       | Some DEnd => s
                       | Some _ => if needs_execution g s n then set_dec s (n_name n) None else s
                       | None => s end) !! x = decs s !! x).
    { destruct (decs s !! n_name n) as [[]|]; try reflexivity;
        destruct (needs_execution g s n); simpl; try reflexivity; apply lookup_delete_ne; exact Hne. }
    rewrite Hx. destruct (decs s !! x) as [[]|]; reflexivity.
Qed.

Lemma clear_stale_decs_gen g st0 l : forall st,
  same_data st0 st -> execs st0 = execs st ->
  forall x,
  decs (fold_left (clear_one g) l st) !! x =
  match decs st !! x with
  | Some DEnd => Some DEnd
  | Some d => if existsb (fun n => is_gate n && Pos.eqb (n_name n) x && needs_execution g st0 n) l then None else Some d
  | None => None
  end.
Proof.
  induction l as [|n l IH]; intros st Hs He x; simpl.
  - destruct (decs st !! x) as [[]|]; reflexivity.
  - destruct (clear_one_same g st n) as [Hs1 He1].
    assert (Hs' : same_data st0 (clear_one g st n)).
    { destruct Hs as [A B], Hs1 as [C D]. split; congruence. }
    rewrite (IH (clear_one g st n) Hs' ltac:(congruence) x), clear_one_decs.
    rewrite <- (needs_execution_same g st0 st n Hs He).
    destruct (decs st !! x) as [[]|]; try reflexivity;
      destruct (is_gate n && Pos.eqb (n_name n) x && needs_execution g st0 n); reflexivity.
Qed.

Lemma clear_stale_decs g st x : decs (clear_stale g st) !! x = cleared g st x.
Proof.
  unfold clear_stale, cleared, gate_needs.
  change (decs (fold_left (clear_one g) (g_nodes g) st) !! x = match decs st !! x with
    | Some DEnd => Some DEnd
    | Some d => if existsb (fun n => is_gate n && Pos.eqb (n_name n) x && needs_execution g st n) (g_nodes g) then None else Some d
    | None => None end).
  apply (clear_stale_decs_gen g st (g_nodes g) st); [split|]; reflexivity.
Qed.

Definition ready_list (g : graph) (st : state) : list node := snd (ready g st).
Definition ready_state (g : graph) (st : state) : state := fst (ready g st).

Lemma ready_list_r0 g st n :
  In n (ready_list g st) ->
  In n (g_nodes g) /\ is_active g n = true /\ node_ready g (ready_state g st) n = true.
Proof.
  unfold ready_list, ready_state, ready. simpl. intros H.
  apply filter_In in H as [H _]. apply filter_In in H as [H _]. apply filter_In in H as [H1 H2].
  apply andb_true_iff in H2 as [H2 H3]. auto.
Qed.

(* C16: with entry points configured only active nodes are ever scheduled *)
Lemma ready_active g st n a :
  g_active g = Some a -> In n (ready_list g st) -> In (n_name n) a.
Proof.
  intros Ha H. apply ready_list_r0 in H as (_ & H & _). unfold is_active in H. rewrite Ha in H.
  apply pos_in_In; exact H.
Qed.

(* C03: a gated node in the ready list is selected by a controlling gate's standing decision,
   or let through by a default-open gate that has not executed yet in this run *)
Lemma ready_activation g st n :
  In n (ready_list g st) -> controlled_by g (n_name n) <> [] ->
  exists G, In G (controlled_by g (n_name n)) /\
    let st' := ready_state g st in
    ((exists d, decs st' !! G = Some d /\ activated_by d (n_name n) = true) \/
     (decs st' !! G = None /\ execs st' !! G = None /\
      exists gn, find_node g G = Some gn /\ gate_default_open gn = true)).
Proof.
  intros H Hc. apply ready_list_r0 in H as (_ & _ & H).
  unfold node_ready in H. repeat (apply andb_true_iff in H as [H _]).
  unfold activated in H. destruct (controlled_by g (n_name n)) as [|G0 gs] eqn:Ec; [congruence|].
  apply existsb_exists in H as (G & HG & Hopen). exists G. split; [exact HG|]. simpl.
  unfold gate_opens in Hopen.
  destruct (decs (ready_state g st) !! G) as [d|]; [left; eauto|].
  right. split; [reflexivity|].
  destruct (execs (ready_state g st) !! G); [discriminate|]. split; [reflexivity|].
  destruct (find_node g G) as [gn|]; [eauto | discriminate].
Qed.

(* C03: the standing decision that activates a target was computed from the gate's current inputs *)
Lemma ready_decision_fresh g st G d gn :
  decs (ready_state g st) !! G = Some d -> d <> DEnd ->
  In gn (g_nodes g) -> is_gate gn = true -> n_name gn = G ->
  needs_execution g (ready_state g st) gn = false.
Proof.
  unfold ready_state, ready. simpl. rewrite clear_stale_decs. unfold cleared.
  intros Hd Hne Hin Hg Hn.
  destruct (clear_stale_same g st) as [Hsd Hex].
  rewrite <- (needs_execution_same g st (clear_stale g st) gn Hsd (eq_sym Hex)).
  destruct (decs st !! G) as [d0|]; [|discriminate].
  assert (Hx : gate_needs g st G = false).
  { destruct d0; try congruence; destruct (gate_needs g st G); congruence. }
  unfold gate_needs in Hx. destruct (needs_execution g st gn) eqn:En; [|reflexivity].
  exfalso. assert (Ht : existsb (fun n => is_gate n && Pos.eqb (n_name n) G && needs_execution g st n) (g_nodes g) = true).
  { apply existsb_exists. exists gn. split; [exact Hin|]. rewrite Hg, Hn, Pos.eqb_refl, En. reflexivity. }
  congruence.
Qed.

(* C03: END is terminal: while it stands, the gate activates nothing *)
Lemma end_is_terminal g st G :
  decs st !! G = Some DEnd ->
  decs (ready_state g st) !! G = Some DEnd /\ forall t, gate_opens g (ready_state g st) G t = false.
Proof.
  intros H. assert (E : decs (ready_state g st) !! G = Some DEnd).
  { unfold ready_state, ready. simpl. rewrite clear_stale_decs. unfold cleared. rewrite H. reflexivity. }
  split; [exact E|]. intros t. unfold gate_opens. rewrite E. reflexivity.
Qed.

(* C03: when a gate and its targets become runnable together the gate decides first *)
Lemma gate_first g st G T :
  In G (ready_list g st) -> is_gate G = true -> In (n_name T) (gate_targets G) ->
  n_name T <> n_name G -> ~ In T (ready_list g st).
Proof.
  unfold ready_list, ready. simpl. intros HG Hg Ht Hne HT.
  apply filter_In in HG as [HG _]. apply filter_In in HG as [HG0 _].
  apply filter_In in HT as [HT _]. apply filter_In in HT as [_ HT].
  apply negb_true_iff in HT.
  assert (Hb : is_blocked (List.filter (fun n => is_active g n && node_ready g (clear_stale g st) n) (g_nodes g)) T = true).
  { unfold is_blocked. apply existsb_exists. exists (n_name G, n_name T). split.
    - unfold blocked_targets. apply in_flat_map. exists G. split; [exact HG0|]. rewrite Hg.
      apply in_map_iff. exists (n_name T). auto.
    - simpl. rewrite Pos.eqb_refl. simpl. apply negb_true_iff.
      destruct (Pos.eqb (n_name G) (n_name T)) eqn:E; [|reflexivity].
      apply Pos.eqb_eq in E. congruence. }
  congruence.
Qed.

(* C17: a waiter in the ready list: the name exists; no other producer of it is in the same
   step; and, if the waiter ran before, the name was produced again since *)
Lemma waiter_after g st W s :
  In W (ready_list g st) -> In s (n_wait W) -> vals (ready_state g st) !! s <> None.
Proof.
  intros H Hs. apply ready_list_r0 in H as (_ & _ & H).
  unfold node_ready in H. apply andb_true_iff in H as [H _]. apply andb_true_iff in H as [_ H].
  unfold wait_ok in H. rewrite forallb_forall in H. specialize (H s Hs).
  destruct (vals (ready_state g st) !! s); [discriminate | discriminate].
Qed.

Lemma waiter_not_with_producer g st W P s :
  In W (ready_list g st) -> In P (ready_list g st) -> In s (n_wait W) ->
  n_name P <> n_name W -> ~ In s (n_outputs P).
Proof.
  unfold ready_list, ready. simpl. intros HW HP Hs Hne Ho.
  apply filter_In in HW as [_ HW]. apply negb_true_iff in HW.
  apply filter_In in HP as [HP _].
  assert (Hd : deferred (List.filter (fun n => negb (is_blocked
     (List.filter (fun n0 => is_active g n0 && node_ready g (clear_stale g st) n0) (g_nodes g)) n))
     (List.filter (fun n0 => is_active g n0 && node_ready g (clear_stale g st) n0) (g_nodes g))) W = true).
  { unfold deferred. apply existsb_exists. exists s. split; [exact Hs|].
    apply existsb_exists. exists P. split; [exact HP|].
    apply andb_true_iff. split.
    - apply negb_true_iff. destruct (Pos.eqb (n_name P) (n_name W)) eqn:E; [|reflexivity].
      apply Pos.eqb_eq in E. congruence.
    - apply pos_in_In; exact Ho. }
  congruence.
Qed.

Lemma waiter_once g st W s r :
  In W (ready_list g st) -> In s (n_wait W) ->
  execs (ready_state g st) !! n_name W = Some r ->
  default 0 (dget (r_wait r) s) < ver (ready_state g st) s.
Proof.
  intros H Hs Hr. apply ready_list_r0 in H as (_ & _ & H).
  unfold node_ready in H. apply andb_true_iff in H as [H _]. apply andb_true_iff in H as [_ H].
  unfold wait_ok in H. rewrite forallb_forall in H. specialize (H s Hs).
  destruct (vals (ready_state g st) !! s); [|discriminate]. rewrite Hr in H.
  apply Nat.ltb_lt in H. exact H.
Qed.

(* liveness side of C17/C03: the ready list is exactly the filter — a node meeting every
   condition and neither blocked nor deferred IS scheduled *)
Lemma ready_complete g st n :
  In n (g_nodes g) -> is_active g n = true -> node_ready g (ready_state g st) n = true ->
  let r0 := List.filter (fun m => is_active g m && node_ready g (ready_state g st) m) (g_nodes g) in
  let r1 := List.filter (fun m => negb (is_blocked r0 m)) r0 in
  is_blocked r0 n = false -> deferred r1 n = false -> In n (ready_list g st).
Proof.
  intros Hin Ha Hr r0 r1 Hb Hd. unfold ready_list, ready. simpl.
  apply filter_In. split; [|apply negb_true_iff; exact Hd].
  apply filter_In. split; [|apply negb_true_iff; exact Hb].
  apply filter_In. split; [exact Hin|]. rewrite Ha. exact Hr.
Qed.

(* ------------------------------------------------------------------ *)
(* 3. The run loop: at most `fuel` supersteps; what each final status means (C04) *)

Section Loop.
  Variable exec : node -> state -> dict val -> outcome.
  Local Opaque ready.

  (* k successful supersteps lead from a to b *)
  Inductive steps (r : runner) (g : graph) (pv : dict val) : nat -> state -> state -> Prop :=
  | steps_0 a : steps r g pv 0 a a
  | steps_S k a b c calls :
      ready_list g a <> [] ->
      superstep exec r g (ready_state g a) pv (ready_list g a) = (SOk b, calls) ->
      steps r g pv k b c -> steps r g pv (S k) a c.

  Lemma run_loop_log_length r fuel g pv : forall st log,
    length (snd (run_loop exec r fuel g pv st log)) <= length log + fuel.
  Proof.
    induction fuel as [|k IH]; intros st log; simpl.
    - destruct (ready g st) as [st' rd]. destruct rd; simpl; lia.
    - destruct (ready g st) as [st' rd]. destruct rd as [|n rd]; simpl; [lia|].
      destruct (superstep exec r g st' pv (n :: rd)) as [[s|e p|p s] calls]; simpl;
        try (rewrite app_length; simpl; lia).
      etransitivity; [apply IH|]. rewrite app_length. simpl. lia.
  Qed.

  Lemma run_loop_spec r fuel g pv : forall st log,
    match fst (run_loop exec r fuel g pv st log) with
    | RDone st' => exists k sk, k <= fuel /\ steps r g pv k st sk /\ ready_list g sk = [] /\ st' = ready_state g sk
    | RFailed e p =>
        (exists k sk calls, k < fuel /\ steps r g pv k st sk /\ ready_list g sk <> [] /\
           superstep exec r g (ready_state g sk) pv (ready_list g sk) = (SErr e p, calls)) \/
        (e = EInfiniteLoop /\ exists sk, steps r g pv fuel st sk /\ ready_list g sk <> [] /\ p = ready_state g sk)
    | RPaused pz s =>
        exists k sk s2 calls, k < fuel /\ steps r g pv k st sk /\ ready_list g sk <> [] /\
           superstep exec r g (ready_state g sk) pv (ready_list g sk) = (SPause pz s2, calls) /\ s = ready_state g sk
    end.
  Proof.
    induction fuel as [|k IH]; intros st log; simpl.
    - unfold ready_list, ready_state. destruct (ready g st) as [st' rd] eqn:Er.
      destruct rd as [|n rd]; simpl.
      + exists 0, st. rewrite Er. repeat split; [lia | constructor].
      + right. split; [reflexivity|]. exists st. rewrite Er. repeat split; [constructor | discriminate].
    - destruct (ready g st) as [st' rd] eqn:Er.
      destruct rd as [|n rd]; simpl.
      + exists 0, st. unfold ready_list, ready_state. rewrite Er. repeat split; [lia | constructor].
      + destruct (superstep exec r g st' pv (n :: rd)) as [[s|e p|pz s] calls] eqn:Es; simpl.
        * specialize (IH s (log ++ [calls])).
          assert (Hstep : forall j c, steps r g pv j s c -> steps r g pv (S j) st c).
          { intros j c Hj. econstructor; [| |exact Hj]; unfold ready_list, ready_state; rewrite Er; simpl;
              [discriminate | exact Es]. }
          destruct (fst (run_loop exec r k g pv s (log ++ [calls]))) as [s'|e p|pz s'].
          -- destruct IH as (j & sk & Hj & Hst & Hr & ->). exists (S j), sk. repeat split; auto; lia.
          -- destruct IH as [(j & sk & c & Hj & Hst & Hr & Hs)|(-> & sk & Hst & Hr & ->)].
             ++ left. exists (S j), sk, c. repeat split; auto; lia.
             ++ right. split; [reflexivity|]. exists sk. repeat split; auto.
          -- destruct IH as (j & sk & s2 & c & Hj & Hst & Hr & Hs & ->). exists (S j), sk, s2, c. repeat split; auto; lia.
        * left. exists 0, st, calls. unfold ready_list, ready_state. rewrite Er. simpl.
          repeat split; [lia | constructor | discriminate | exact Es].
        * exists 0, st, s, calls. unfold ready_list, ready_state. rewrite Er. simpl.
          repeat split; [lia | constructor | discriminate | exact Es].
  Qed.

  (* monotonicity along a run *)
  Lemma steps_le r g pv k a b : steps r g pv k a b -> le_st a b.
  Proof.
    induction 1 as [a|k a b c calls Hne Hs _ IH]; [apply le_st_refl|].
    eapply le_st_trans; [|exact IH].
    eapply le_st_trans; [apply le_st_same_data, ready_same|].
    pose proof (superstep_le exec r g (ready_state g a) pv (ready_list g a)) as H.
    rewrite Hs in H. exact H.
  Qed.

  Lemma steps_dom r g pv k a b : steps r g pv k a b -> dom_inv a -> dom_inv b.
  Proof.
    induction 1 as [a|k a b c calls Hne Hs _ IH]; intros Ha; [exact Ha|]. apply IH.
    pose proof (superstep_dom exec r g (ready_state g a) pv (ready_list g a)) as H.
    rewrite Hs in H. apply H. eapply dom_inv_same; [apply ready_same | exact Ha].
  Qed.
End Loop.

(* ------------------------------------------------------------------ *)
(* 4. filter_outputs: what a result may contain (C16) *)

Lemma dedup_subset l : forall seen x, In x (dedup l seen) -> In x l.
Proof.
  induction l as [|y l IH]; intros seen x H; simpl in *; [contradiction|].
  destruct (pos_in y seen); [right; eauto|]. destruct H as [->|H]; [left; reflexivity | right; eauto].
Qed.

Lemma collect_all_spec g st k v :
  In (k, v) (collect_all g st) ->
  In k (graph_outputs g) /\ vals st !! k = Some v /\ v <> VSentinel.
Proof.
  unfold collect_all. intros H. apply in_flat_map in H as (k' & Hk & H).
  destruct (vals st !! k') as [v'|] eqn:E; [|contradiction].
  destruct (not_sentinel v') eqn:Ns; [|contradiction].
  destruct H as [[= -> ->]|[]]. repeat split; auto.
  intros ->. unfold not_sentinel in Ns. rewrite val_eqb_refl in Ns. discriminate.
Qed.

Lemma graph_outputs_declared g k : In k (graph_outputs g) -> exists n, In n (g_nodes g) /\ In k (n_outputs n).
Proof.
  unfold graph_outputs. intros H. apply dedup_subset in H. apply in_flat_map in H. exact H.
Qed.

Lemma collect_selected_spec st names k v :
  In (k, v) (fst (collect_selected st names)) ->
  In k names /\ vals st !! k = Some v /\ v <> VSentinel.
Proof.
  unfold collect_selected. simpl. intros H. apply in_flat_map in H as (k' & Hk & H).
  destruct (vals st !! k') as [v'|] eqn:E; [|contradiction].
  destruct (not_sentinel v') eqn:Ns; [|contradiction].
  destruct H as [[= -> ->]|[]]. repeat split; auto.
  intros ->. unfold not_sentinel in Ns. rewrite val_eqb_refl in Ns. discriminate.
Qed.

(* the names reported missing are exactly the selected names that are not in the state at all
   (a name holding only an ordering sentinel is present: it is dropped silently, never reported) *)
Lemma collect_selected_missing st names k :
  In k (snd (collect_selected st names)) <-> In k names /\ vals st !! k = None.
Proof.
  unfold collect_selected. simpl. rewrite filter_In. split.
  - intros [Hk H]. split; [exact Hk|]. destruct (vals st !! k); [discriminate | reflexivity].
  - intros [Hk H]. split; [exact Hk|]. rewrite H. reflexivity.
Qed.

Lemma select_outputs_spec pol st names :
  let missing := snd (collect_selected st names) in
  let values := dupdate [] (fst (collect_selected st names)) in
  match select_outputs pol st names with
  | SelOk v => v = values /\ (missing = [] \/ pol = MIgnore)
  | SelWarn v m => v = values /\ m = missing /\ missing <> [] /\ pol = MWarn
  | SelError m => m = missing /\ missing <> [] /\ pol = MError
  end.
Proof.
  unfold select_outputs. destruct (collect_selected st names) as [values missing]. simpl.
  destruct missing as [|k l]; [split; auto|].
  destruct pol; repeat split; auto; discriminate.
Qed.

(* ------------------------------------------------------------------ *)
(* 5. Schedules and runners (C02) *)

Lemma state_eq a b :
  vals a = vals b -> vers a = vers b -> execs a = execs b -> decs a = decs b -> a = b.
Proof. destruct a, b; simpl; intros; subst; reflexivity. Qed.

Lemma update_value_data a b x v :
  same_data a b -> same_data (update_value a x v) (update_value b x v).
Proof.
  intros [E1 E2]. unfold update_value, ver. rewrite <- E1, <- E2.
  destruct (vals a !! x); [destruct (val_eqb v VSentinel); [|destruct (val_eqb _ v)]|];
    split; simpl; congruence.
Qed.

Lemma apply_outputs_data outs : forall a b,
  same_data a b -> same_data (apply_outputs a outs) (apply_outputs b outs).
Proof.
  induction outs as [|[k v] outs IH]; intros a b H; [exact H|].
  unfold apply_outputs in *. simpl. apply IH. apply update_value_data; exact H.
Qed.

Section Schedules.
  Variable exec : node -> state -> dict val -> outcome.

  Definition wd (g : graph) (snap : state) (pv : dict val) (n : node) : option (option decision) :=
    match snd (run_one exec g snap pv n) with OOk _ (Some d) => Some d | _ => None end.

  Definition apply_wd (d : option (option decision)) (cur : option decision) : option decision :=
    match d with Some d' => d' | None => cur end.

  Lemma write_decisions_lookup g snap pv pi : forall acc x,
    List.NoDup (map n_name pi) ->
    decs (write_decisions exec g snap pv pi acc) !! x =
    match List.find (fun n => Pos.eqb (n_name n) x) pi with
    | Some n => apply_wd (wd g snap pv n) (decs acc !! x)
    | None => decs acc !! x
    end.
  Proof.
    unfold write_decisions.
    induction pi as [|n pi IH]; intros acc x Hnd; simpl; [reflexivity|].
    inversion Hnd as [|? ? Hn Hnd']; subst.
    rewrite IH by exact Hnd'.
    destruct (Pos.eqb (n_name n) x) eqn:Ex.
    - apply Pos.eqb_eq in Ex. subst x.
      assert (Hf : List.find (fun m => Pos.eqb (n_name m) (n_name n)) pi = None).
      { destruct (List.find _ pi) as [m|] eqn:Ef; [|reflexivity].
        apply find_some in Ef as [Hin E]. apply Pos.eqb_eq in E. exfalso. apply Hn.
        rewrite <- E. apply in_map; exact Hin. }
      rewrite Hf. unfold wd, apply_wd.
      destruct (snd (run_one exec g snap pv n)) as [o [d|]| |]; simpl; try reflexivity.
      destruct d; simpl; [apply lookup_insert | apply lookup_delete].
    - assert (Hne : n_name n <> x) by (intros <-; rewrite Pos.eqb_refl in Ex; discriminate).
      assert (Hd : decs (match snd (run_one exec g snap pv n) with
                         | OOk _ (Some d) => set_dec acc (n_name n) d | _ => acc end) !! x = decs acc !! x).
      { destruct (snd (run_one exec g snap pv n)) as [o [d|]| |]; simpl; try reflexivity.
        destruct d; simpl; [apply lookup_insert_ne | apply lookup_delete_ne]; exact Hne. }
      rewrite Hd. reflexivity.
  Qed.

  Lemma find_name_perm (l1 l2 : list node) x :
    Permutation l1 l2 -> List.NoDup (map n_name l1) ->
    List.find (fun n => Pos.eqb (n_name n) x) l1 = List.find (fun n => Pos.eqb (n_name n) x) l2.
  Proof.
    intros Hp Hnd.
    assert (Hnd2 : List.NoDup (map n_name l2)).
    { eapply Permutation_NoDup; [apply Permutation_map; exact Hp | exact Hnd]. }
    assert (Huniq : forall l a b, List.NoDup (map n_name l) -> In a l -> In b l -> n_name a = n_name b -> a = b).
    { clear. induction l as [|c l IH]; simpl; intros a b Hnd Ha Hb E; [contradiction|].
      inversion Hnd as [|? ? Hn Hd]; subst.
      destruct Ha as [->|Ha], Hb as [->|Hb]; auto.
      - exfalso; apply Hn. rewrite E. apply in_map; exact Hb.
      - exfalso; apply Hn. rewrite <- E. apply in_map; exact Ha. }
    destruct (List.find _ l1) as [a|] eqn:E1; destruct (List.find _ l2) as [b|] eqn:E2; try reflexivity.
    - apply find_some in E1 as [Ha Ea]. apply find_some in E2 as [Hb Eb].
      apply Pos.eqb_eq in Ea, Eb. f_equal. apply (Huniq l2); auto; [|congruence].
      eapply Permutation_in; eauto.
    - apply find_some in E1 as [Ha Ea]. exfalso.
      pose proof (find_none _ _ E2 a (Permutation_in _ Hp Ha)) as Hx. simpl in Hx. congruence.
    - apply find_some in E2 as [Hb Eb]. exfalso.
      pose proof (find_none _ _ E1 b (Permutation_in _ (Permutation_sym Hp) Hb)) as Hx. simpl in Hx. congruence.
  Qed.

  Lemma write_decisions_perm g snap pv pi1 pi2 acc :
    Permutation pi1 pi2 -> List.NoDup (map n_name pi1) ->
    write_decisions exec g snap pv pi1 acc = write_decisions exec g snap pv pi2 acc.
  Proof.
    intros Hp Hnd.
    assert (Hnd2 : List.NoDup (map n_name pi2)).
    { eapply Permutation_NoDup; [apply Permutation_map; exact Hp | exact Hnd]. }
    destruct (write_decisions_same exec g snap pv pi1 acc) as [[A1 A2] A3].
    destruct (write_decisions_same exec g snap pv pi2 acc) as [[B1 B2] B3].
    apply state_eq; try congruence.
    apply map_eq. intros x. rewrite !write_decisions_lookup by assumption.
    rewrite (find_name_perm pi1 pi2 x Hp Hnd). reflexivity.
  Qed.

  (* C02: the result of an asynchronous superstep does not depend on the completion order *)
  Theorem superstep_async_schedule g snap pv rd pi1 pi2 :
    Permutation pi1 pi2 -> List.NoDup (map n_name pi1) ->
    superstep_async exec g snap pv rd pi1 = superstep_async exec g snap pv rd pi2.
  Proof.
    intros Hp Hnd. unfold superstep_async.
    set (f := fun n : node => pos_in (n_name n) (map n_name (isolate rd))).
    assert (Hpf : Permutation (List.filter f pi1) (List.filter f pi2)).
    { clear -Hp. induction Hp as [|a l1 l2 _ IH|a b l|l1 l2 l3 _ IH1 _ IH2]; simpl.
      - constructor.
      - destruct (f a); [constructor|]; exact IH.
      - destruct (f a), (f b); try reflexivity. apply perm_swap.
      - etransitivity; eauto. }
    assert (Hndf : List.NoDup (map n_name (List.filter f pi1))).
    { clear -Hnd. induction pi1 as [|a l IH]; simpl; [constructor|].
      inversion Hnd as [|? ? Hn Hd]; subst. destruct (f a); simpl; [|auto].
      constructor; [|auto]. intros Hin. apply Hn. apply in_map_iff in Hin as (m & E & Hm).
      apply filter_In in Hm as [Hm _]. rewrite <- E. apply in_map; exact Hm. }
    rewrite (write_decisions_perm g snap pv _ _ snap Hpf Hndf). reflexivity.
  Qed.

  (* field independence *)
  Lemma apply_success_fields g snap pv a n :
    decs (apply_success exec g snap pv a n) = decs a.
  Proof.
    unfold apply_success. destruct (snd (run_one exec g snap pv n)); try reflexivity.
    simpl. apply decs_apply_outputs.
  Qed.

  Lemma write_decisions_decs_congr g snap pv pi : forall a b,
    decs a = decs b -> decs (write_decisions exec g snap pv pi a) = decs (write_decisions exec g snap pv pi b).
  Proof.
    unfold write_decisions. induction pi as [|n pi IH]; intros a b E; simpl; [exact E|].
    apply IH. destruct (snd (run_one exec g snap pv n)) as [o [d|]| |]; simpl; try exact E.
    destruct d; simpl; rewrite E; reflexivity.
  Qed.

  Lemma apply_success_data_congr g snap pv n a b :
    same_data a b -> execs a = execs b ->
    same_data (apply_success exec g snap pv a n) (apply_success exec g snap pv b n) /\
    execs (apply_success exec g snap pv a n) = execs (apply_success exec g snap pv b n).
  Proof.
    intros Hs He. unfold apply_success. destruct (snd (run_one exec g snap pv n)); try (split; assumption).
    split.
    - destruct (apply_outputs_data outs a b Hs) as [A B]. split; simpl; assumption.
    - simpl. rewrite !execs_apply_outputs, He. reflexivity.
  Qed.

  Lemma write_apply_commute g snap pv pi n a :
    write_decisions exec g snap pv pi (apply_success exec g snap pv a n)
    = apply_success exec g snap pv (write_decisions exec g snap pv pi a) n.
  Proof.
    destruct (write_decisions_same exec g snap pv pi (apply_success exec g snap pv a n)) as [[A1 A2] A3].
    destruct (write_decisions_same exec g snap pv pi a) as [[B1 B2] B3].
    destruct (apply_success_data_congr g snap pv n a (write_decisions exec g snap pv pi a)) as [[C1 C2] C3];
      [split; assumption | congruence |].
    apply state_eq; try congruence.
    rewrite apply_success_fields. apply write_decisions_decs_congr. apply apply_success_fields.
  Qed.

  Definition step_ok (g : graph) (snap : state) (pv : dict val) (n : node) : Prop :=
    exists ins outs dec, run_one exec g snap pv n = (Some ins, OOk outs dec).

  Lemma commit_as_apply g snap pv acc n ins outs dec :
    run_one exec g snap pv n = (Some ins, OOk outs dec) ->
    commit snap acc n outs dec =
    apply_success exec g snap pv (match dec with Some d => set_dec acc (n_name n) d | None => acc end) n.
  Proof. intros H. unfold commit, apply_success. rewrite H. reflexivity. Qed.

  Lemma superstep_sync_ok g snap pv rd : forall acc log,
    Forall (step_ok g snap pv) rd ->
    superstep_sync exec g snap pv rd acc log =
    (SOk (fold_left (apply_success exec g snap pv) rd (write_decisions exec g snap pv rd acc)),
     log ++ async_calls exec g snap pv rd).
  Proof.
    induction rd as [|n rd IH]; intros acc log Hok; simpl.
    - unfold async_calls. simpl. rewrite app_nil_r. reflexivity.
    - inversion Hok as [|? ? (ins & outs & dec & Hn) Hok']; subst.
      pose proof Hn as Hn'. unfold run_one in Hn'.
      destruct (collect_inputs g snap pv n (n_inputs n)) as [ins'|] eqn:Ec; [|discriminate].
      injection Hn' as -> Hx. rewrite Hx.
      rewrite (IH _ _ Hok').
      rewrite (commit_as_apply g snap pv acc n ins outs dec Hn).
      rewrite write_apply_commute. f_equal.
      + f_equal. f_equal. unfold write_decisions at 2. simpl. rewrite Hn. simpl.
        destruct dec; reflexivity.
      + unfold async_calls. simpl. rewrite Hn. simpl. rewrite <- app_assoc. reflexivity.
  Qed.

  (* C02: on a step in which no node fails, the two runners compute the same state and
     make the same calls (interrupt-free: the synchronous runner does not accept interrupts) *)
  Theorem superstep_runners_agree g snap pv rd :
    List.filter is_interrupt rd = [] -> Forall (step_ok g snap pv) rd ->
    superstep exec Sync g snap pv rd = superstep exec Async g snap pv rd.
  Proof.
    intros Hni Hok. unfold superstep, superstep_async, isolate. rewrite Hni.
    rewrite (superstep_sync_ok g snap pv rd snap [] Hok). simpl.
    assert (Hf : first_failure exec g snap pv rd = None).
    { clear -Hok. induction Hok as [|n rd (ins & outs & dec & Hn) _ IH]; simpl; [reflexivity|].
      rewrite Hn. simpl. exact IH. }
    rewrite Hf.
    assert (Hpi : List.filter (fun n => pos_in (n_name n) (map n_name rd)) rd = rd).
    { clear. assert (G : forall l, incl l rd -> List.filter (fun n => pos_in (n_name n) (map n_name rd)) l = l).
      { induction l as [|a l IH]; intros Hi; simpl; [reflexivity|].
        assert (Ha : pos_in (n_name a) (map n_name rd) = true).
        { apply pos_in_In. apply in_map. apply Hi. left; reflexivity. }
        rewrite Ha. f_equal. apply IH. intros y Hy. apply Hi. right; exact Hy. }
      apply G. apply incl_refl. }
    rewrite Hpi. reflexivity.
  Qed.

  (* C02: a failing step reports the same error under both runners: the first failing node in
     ready order *)
  Definition sres_err (r : sres) : option (err + pause) :=
    match r with SOk _ => None | SErr e _ => Some (inl e) | SPause p _ => Some (inr p) end.

  Lemma superstep_sync_err g snap pv rd : forall acc log,
    sres_err (fst (superstep_sync exec g snap pv rd acc log)) = first_failure exec g snap pv rd.
  Proof.
    induction rd as [|n rd IH]; intros acc log; simpl; [reflexivity|].
    unfold run_one. destruct (collect_inputs g snap pv n (n_inputs n)) as [ins|]; simpl; [|reflexivity].
    destruct (exec n snap ins); simpl; [apply IH | reflexivity | reflexivity].
  Qed.

  Theorem superstep_same_error g snap pv rd :
    List.filter is_interrupt rd = [] ->
    sres_err (fst (superstep exec Sync g snap pv rd)) = sres_err (fst (superstep exec Async g snap pv rd)).
  Proof.
    intros Hni. unfold superstep. rewrite superstep_sync_err.
    unfold superstep_async, isolate. rewrite Hni. simpl.
    destruct (first_failure exec g snap pv rd) as [[e|p]|]; reflexivity.
  Qed.
End Schedules.

(* ------------------------------------------------------------------ *)
(* 6. Emitted signals are always fresh (C17 liveness) *)

Lemma ver_update_sentinel st x : ver (update_value st x VSentinel) x = S (ver st x).
Proof.
  unfold update_value. destruct (vals st !! x); simpl; unfold ver at 1; simpl; rewrite lookup_insert; reflexivity.
Qed.

Lemma ver_apply_outputs_mono outs : forall st x, ver st x <= ver (apply_outputs st outs) x.
Proof. intros st x. apply (le_st_apply_outputs outs st x). Qed.

Lemma emit_bumps outs : forall st s,
  In (s, VSentinel) outs -> ver st s < ver (apply_outputs st outs) s.
Proof.
  induction outs as [|[k v] outs IH]; intros st s Hin; [contradiction|].
  unfold apply_outputs in *. simpl.
  destruct Hin as [[= -> ->]|Hin].
  - eapply Nat.lt_le_trans; [|apply (ver_apply_outputs_mono outs)].
    rewrite ver_update_sentinel. lia.
  - eapply Nat.le_lt_trans; [|apply IH; exact Hin]. apply (le_st_update st k v s).
Qed.

(* ------------------------------------------------------------------ *)
(* 7. Failures: which error surfaces, and what the partial state contains (C11) *)

Section Failures.
  Variable exec : node -> state -> dict val -> outcome.

  (* the error reported by a superstep is the one raised by a ready node's executor (or the
     KeyError of an unresolvable input, which C08 shows unreachable) — never a wrapper *)
  Lemma first_failure_origin g snap pv rd e :
    first_failure exec g snap pv rd = Some (inl e) ->
    exists pre n post, rd = pre ++ n :: post /\ snd (run_one exec g snap pv n) = ORaise e /\
      Forall (step_ok exec g snap pv) pre.
  Proof.
    induction rd as [|a rd IH]; simpl; intros H; [discriminate|].
    destruct (run_one exec g snap pv a) as [oi oc] eqn:Er. simpl in H. destruct oc as [outs dec|e'|p].
    - destruct (IH H) as (pre & n & post & -> & Hn & Hpre).
      exists (a :: pre), n, post. split; [reflexivity|]. split; [exact Hn|].
      constructor; [|exact Hpre].
      assert (exists ins, oi = Some ins) as [ins ->].
      { unfold run_one in Er. destruct (collect_inputs g snap pv a (n_inputs a)); [|discriminate]. injection Er as <- _. eauto. }
      exists ins, outs, dec. exact Er.
    - injection H as <-. exists [], a, rd. split; [reflexivity|]. rewrite Er. split; [reflexivity | constructor].
    - discriminate.
  Qed.

  Theorem superstep_error_origin r g snap pv rd e p calls :
    List.filter is_interrupt rd = [] ->
    superstep exec r g snap pv rd = (SErr e p, calls) ->
    exists pre n post, rd = pre ++ n :: post /\ snd (run_one exec g snap pv n) = ORaise e /\
      Forall (step_ok exec g snap pv) pre.
  Proof.
    intros Hni H. apply first_failure_origin.
    destruct r.
    - simpl in H. rewrite <- (superstep_sync_err exec g snap pv rd snap []). rewrite H. reflexivity.
    - simpl in H. unfold superstep_async, isolate in H. rewrite Hni in H.
      destruct (first_failure exec g snap pv rd) as [[e'|p']|]; inversion H; subst; reflexivity.
  Qed.

  (* the partial state of a failing SYNC step: exactly the nodes listed before the failing one
     have been applied (in parallel, against the snapshot) *)
  Lemma superstep_sync_partial g snap pv : forall rd acc log e p calls,
    superstep_sync exec g snap pv rd acc log = (SErr e p, calls) ->
    (exists pre n post, rd = pre ++ n :: post /\ Forall (step_ok exec g snap pv) pre /\
       ((exists ins, run_one exec g snap pv n = (Some ins, ORaise e) /\
          p = fold_left (apply_success exec g snap pv) pre (write_decisions exec g snap pv pre acc)) \/
        (run_one exec g snap pv n = (None, ORaise EKeyError) /\ e = EKeyError /\ p = snap))).
  Proof.
    induction rd as [|a rd IH]; intros acc log e p calls H; simpl in H; [discriminate|].
    destruct (collect_inputs g snap pv a (n_inputs a)) as [ins|] eqn:Ec.
    - destruct (exec a snap ins) as [outs dec|e'|pz] eqn:Ee.
      + apply IH in H as (pre & n & post & -> & Hpre & Hcase).
        assert (Hok : step_ok exec g snap pv a).
        { exists ins, outs, dec. unfold run_one. rewrite Ec, Ee. reflexivity. }
        exists (a :: pre), n, post. split; [reflexivity|]. split; [constructor; assumption|].
        destruct Hcase as [(ins' & Hn & ->)|Hk]; [|right; exact Hk].
        left. exists ins'. split; [exact Hn|]. simpl.
        assert (Hr : run_one exec g snap pv a = (Some ins, OOk outs dec)) by (unfold run_one; rewrite Ec, Ee; reflexivity).
        rewrite (commit_as_apply exec g snap pv acc a ins outs dec Hr).
        rewrite write_apply_commute. f_equal.
        unfold write_decisions at 2. simpl. rewrite Hr. simpl. destruct dec; reflexivity.
      + injection H as <- <- _. exists [], a, rd. split; [reflexivity|]. split; [constructor|].
        left. exists ins. split; [unfold run_one; rewrite Ec, Ee; reflexivity | reflexivity].
      + discriminate.
    - injection H as <- <- _. exists [], a, rd. split; [reflexivity|]. split; [constructor|].
      right. split; [unfold run_one; rewrite Ec; reflexivity | split; reflexivity].
  Qed.

  (* values computed in earlier steps are never lost in a partial state *)
  Theorem partial_keeps_earlier r g snap pv rd e p calls x v :
    dom_inv snap -> superstep exec r g snap pv rd = (SErr e p, calls) ->
    vals snap !! x = Some v -> vals p !! x <> None.
  Proof.
    intros Hd H Hx.
    pose proof (superstep_le exec r g snap pv rd) as Hle. rewrite H in Hle. simpl in Hle.
    pose proof (superstep_dom exec r g snap pv rd Hd) as Hdp. rewrite H in Hdp. simpl in Hdp.
    intros Hn. apply Hdp in Hn. assert (ver snap x <> 0) by (intros E; apply Hd in E; congruence).
    destruct (Hle x) as [L _]. lia.
  Qed.
End Failures.
