(* C01Once.v — acyclic, gate-free dataflow without signature defaults on upstream-fed parameters: every node is
   scheduled in AT MOST ONE superstep of a run (with C01_runs_iff_satisfiable: a node whose inputs can be satisfied runs
   exactly once, the others never).  A node's function is invoked exactly when the node is in the ready list of an
   executed superstep (superstep_sync / async_calls), so this is the statement about invocations. *)
From HG Require Import Base Engine EngineProofs C01Proofs C01Term.
From stdpp Require Import gmap.

Section C01Once.
  Variable exec : node -> state -> dict val -> outcome.
  Variable g : graph.
  Variable pv : dict val.
  Hypothesis Hwf : WF exec g pv.
  Hypothesis Hpvnd : List.NoDup (dkeys pv).
  (* no parameter that an upstream node feeds has a fallback (signature default or binding) *)
  Hypothesis Hnofb : forall n p, In n (g_nodes g) -> In p (n_inputs n) -> In p (all_outputs g) ->
      pos_in p (n_hasdef n) = false /\ dmem (g_bound g) p = false.

  Local Notation InvS := (Inv exec g pv).
  Local Notation StepS := (Step exec g pv).

  (* every executed node is up to date, and was given real upstream values *)
  Definition Q (st : state) : Prop :=
    forall n r, In n (g_nodes g) -> execs st !! n_name n = Some r ->
      is_stale g st n r = false /\
      forall p, In p (n_inputs n) -> In p (all_outputs g) ->
        exists m, In m (g_nodes g) /\ In p (n_outputs m) /\ execs st !! n_name m <> None.

  Lemma Q_done st n r : Q st -> In n (g_nodes g) -> execs st !! n_name n = Some r -> settled g st n.
  Proof. intros HQ Hn Hr. left. exists r. split; [exact Hr | apply (HQ n r Hn Hr)]. Qed.

  Lemma in_all_outputs m p : In m (g_nodes g) -> In p (n_outputs m) -> In p (all_outputs g).
  Proof. intros Hm Hp. unfold all_outputs. apply in_flat_map. eauto. Qed.

  Lemma in_ready_dec a n : In n (g_nodes g) -> In n (ready_list g a) \/ ~ In n (ready_list g a).
  Proof.
    intros Hn. destruct (pos_in (n_name n) (map n_name (ready_list g a))) eqn:E.
    - left. apply pos_in_In in E. apply in_map_iff in E as [m [En Hm]].
      assert (m = n) by (apply (node_by_name exec g pv Hwf); [apply (ready_list_nodes g a m Hm) | exact Hn | exact En]).
      subst. exact Hm.
    - right. apply pos_in_nIn in E. intro Hin. apply E. apply in_map. exact Hin.
  Qed.

  Lemma execs_mono a b n : StepS a b -> In n (g_nodes g) -> execs a !! n_name n <> None -> execs b !! n_name n <> None.
  Proof.
    intros HS Hn Ha. destruct (in_ready_dec a n Hn) as [Hin|Hout].
    - rewrite (step_execs_in exec g pv Hwf a b n HS Hin). discriminate.
    - rewrite (step_execs_out exec g pv Hwf a b n HS Hout Hn). exact Ha.
  Qed.

  (* a produced name whose producer does not execute in this step keeps its version *)
  Lemma produced_fixed a b p m : StepS a b -> Q a -> In m (g_nodes g) -> In p (n_outputs m) -> execs a !! n_name m <> None ->
    ver b p = ver a p.
  Proof.
    intros HS HQ Hm Hp He. apply (step_unwritten exec g pv Hwf a b p HS). intros m' Hm' Hout.
    assert (Hm'g : In m' (g_nodes g)) by (apply (ready_list_nodes g a m' Hm')).
    assert (m' = m) by (apply (output_owner exec g pv Hwf m' m p); assumption). subst m'.
    destruct (execs a !! n_name m) as [r|] eqn:Er; [|congruence].
    apply (settled_not_in_ready g a m (Q_done a m r HQ Hm Er) Hm').
  Qed.

  Lemma external_fixed a b p : StepS a b -> ~ In p (all_outputs g) -> ver b p = ver a p.
  Proof.
    intros HS Hp. apply (step_unwritten exec g pv Hwf a b p HS). intros m Hm Hout. apply Hp.
    apply (in_all_outputs m p); [apply (ready_list_nodes g a m Hm) | exact Hout].
  Qed.

  Lemma in_outputs_dec p : In p (all_outputs g) \/ ~ In p (all_outputs g).
  Proof. destruct (pos_in p (all_outputs g)) eqn:E; [left; apply pos_in_In; exact E | right; apply pos_in_nIn; exact E]. Qed.

  Lemma Q_step a b : InvS a -> StepS a b -> Q a -> Q b.
  Proof.
    intros HI HS HQ n r Hn Hr.
    destruct (ready_same g a) as [[Ev Evs] Ee]. fold (ready_state g a) in Ev, Evs, Ee.
    destruct (in_ready_dec a n Hn) as [Hin|Hout].
    - (* n executes in this step: it was given real upstream values, produced by nodes that do not execute now *)
      rewrite (step_execs_in exec g pv Hwf a b n HS Hin) in Hr. injection Hr as <-.
      assert (Hprod : forall p, In p (n_inputs n) -> In p (all_outputs g) ->
                exists m, In m (g_nodes g) /\ In p (n_outputs m) /\ execs a !! n_name m <> None).
      { intros p Hp Hout.
        destruct (ready_list_r0 g a n Hin) as (_ & _ & Hr).
        unfold node_ready in Hr. apply andb_true_iff in Hr as [Hr _]. apply andb_true_iff in Hr as [Hr _].
        apply andb_true_iff in Hr as [_ Hav]. rewrite forallb_forall in Hav. specialize (Hav p Hp).
        destruct (Hnofb n p Hn Hp Hout) as [Hd Hb]. unfold has_input in Hav. rewrite Hd, Hb in Hav.
        destruct (vals (ready_state g a) !! p) as [v|] eqn:Evp; [|discriminate].
        rewrite <- Ev in Evp. destruct (inv_prov _ _ _ _ HI p v Evp) as [Hpv|(m & Hm & Hpm & Hex)].
        - exfalso. apply (wf_pv _ _ _ Hwf p); [unfold dmem; rewrite Hpv; reflexivity | exact Hout].
        - exists m. auto. }
      split.
      + unfold is_stale. apply (proj2 (existsb_false_iff' _ _)). intros p Hp.
        destruct (negb (gated g n) && pos_in p (n_outputs n)); [reflexivity|].
        rewrite (record_in _ n p Hp). simpl. apply negb_false_iff. apply Nat.eqb_eq.
        replace (ver (ready_state g a) p) with (ver a p) by (unfold ver; rewrite Evs; reflexivity).
        destruct (in_outputs_dec p) as [Hout|Hout].
        * destruct (Hprod p Hp Hout) as (m & Hm & Hpm & Hex). apply (produced_fixed a b p m HS HQ Hm Hpm Hex).
        * apply (external_fixed a b p HS Hout).
      + intros p Hp Hout. destruct (Hprod p Hp Hout) as (m & Hm & Hpm & Hex).
        exists m. repeat split; auto. apply (execs_mono a b m HS Hm Hex).
    - (* n does not execute: its record stays, and so do the versions of its inputs *)
      rewrite (step_execs_out exec g pv Hwf a b n HS Hout Hn) in Hr.
      destruct (HQ n r Hn Hr) as [Hs Hprod]. split.
      + rewrite (is_stale_fixed g a b n r Hn); [exact Hs|]. intros p Hp.
        destruct (in_outputs_dec p) as [Ho|Ho].
        * destruct (Hprod p Hp Ho) as (m & Hm & Hpm & Hex). apply (produced_fixed a b p m HS HQ Hm Hpm Hex).
        * apply (external_fixed a b p HS Ho).
      + intros p Hp Ho. destruct (Hprod p Hp Ho) as (m & Hm & Hpm & Hex).
        exists m. repeat split; auto. apply (execs_mono a b m HS Hm Hex).
  Qed.

  Lemma Q_init : Q (init_state pv).
  Proof.
    intros n r _ Hr. unfold init_state in Hr. rewrite execs_apply_outputs in Hr. simpl in Hr.
    rewrite lookup_empty in Hr. discriminate.
  Qed.

  Lemma Q_steps r k a c : steps exec r g pv k a c -> InvS a -> Q a ->
    Q c /\ forall n, In n (g_nodes g) -> execs a !! n_name n <> None -> execs c !! n_name n <> None.
  Proof.
    induction 1 as [a|k a b c calls Hne Hs Hrest IH]; intros HI HQ; [split; auto|].
    assert (HS : StepS a b) by (apply (steps_step exec g pv Hwf r a b calls Hs)).
    assert (HIb : InvS b).
    { apply (Inv_steps exec g pv Hwf r 1 a b); [|exact HI]. econstructor; [exact Hne | exact Hs | constructor]. }
    destruct (IH HIb (Q_step a b HI HS HQ)) as [HQc Hmono]. split; [exact HQc|].
    intros n Hn Ha. apply Hmono; [exact Hn|]. apply (execs_mono a b n HS Hn Ha).
  Qed.

  (* C01_at_most_once: a node scheduled in one superstep of a run is never scheduled again later in that run *)
  Theorem scheduled_once r k1 k2 a b c calls n :
    steps exec r g pv k1 (init_state pv) a ->
    In n (ready_list g a) ->
    superstep exec r g (ready_state g a) pv (ready_list g a) = (SOk b, calls) ->
    steps exec r g pv k2 b c ->
    ~ In n (ready_list g c).
  Proof.
    intros H1 Hin Hs H2.
    assert (Hn : In n (g_nodes g)) by (apply (ready_list_nodes g a n Hin)).
    assert (HIa : InvS a) by (apply (Inv_steps exec g pv Hwf r k1 _ _ H1); apply (Inv_init exec g pv Hpvnd)).
    destruct (Q_steps r k1 _ _ H1 (Inv_init exec g pv Hpvnd) Q_init) as [HQa _].
    assert (HS : StepS a b) by (apply (steps_step exec g pv Hwf r a b calls Hs)).
    assert (HIb : InvS b).
    { apply (Inv_steps exec g pv Hwf r 1 a b); [|exact HIa]. econstructor; [|exact Hs | constructor].
      intro E. rewrite E in Hin. contradiction. }
    destruct (Q_steps r k2 _ _ H2 HIb (Q_step a b HIa HS HQa)) as [HQc Hmono].
    assert (Hex : execs c !! n_name n <> None).
    { apply Hmono; [exact Hn|]. rewrite (step_execs_in exec g pv Hwf a b n HS Hin). discriminate. }
    destruct (execs c !! n_name n) as [rc|] eqn:Erc; [|congruence].
    apply (settled_not_in_ready g c n (Q_done c n rc HQc Hn Erc)).
  Qed.
End C01Once.
