(* Cache.v — executable models of the cache layer.
   Restates:
     cache.py  InMemoryCache.get / set (OrderedDict LRU), DiskCache.get / set (two writes: payload then
               signature; verify before unpickling; evict on every anomaly), compute_cache_key
     runners/_shared/caching.py  check_cache (key on definition hash + output names + ORIGINAL parameter names),
               store_in_cache / restore_routing_decision
   Hashing is idealised: cache keys and HMAC tags are free constructors (Section variables with injectivity
   hypotheses in CacheProofs.v), never axioms.  Plain stdlib. *)
From HG Require Import Base.

(* ---------------- InMemoryCache (LRU) ---------------- *)
Section LRU.
  Context {K V : Type}.
  Variable keqb : K -> K -> bool.

  Definition lru := list (K * V).        (* least recently used first, as OrderedDict iterates *)

  Fixpoint lfind (c : lru) (k : K) : option V :=
    match c with [] => None | (k', v) :: c' => if keqb k' k then Some v else lfind c' k end.
  Definition lremove (c : lru) (k : K) : lru := filter (fun kv => negb (keqb (fst kv) k)) c.

  (* get: (hit?, value) and the cache with the key moved to the end *)
  Definition lru_get (c : lru) (k : K) : option V * lru :=
    match lfind c k with
    | None => (None, c)
    | Some v => (Some v, lremove c k ++ [(k, v)])
    end.

  (* set: move/insert at the end, then drop the oldest entry if over capacity *)
  Definition lru_set (max_size : option nat) (c : lru) (k : K) (v : V) : lru :=
    let c1 := lremove c k ++ [(k, v)] in
    match max_size with
    | Some m => if Nat.ltb m (length c1) then tl c1 else c1
    | None => c1
    end.

  Inductive lop := LGet (k : K) | LSet (k : K) (v : V).

  Definition lru_step (max_size : option nat) (c : lru) (o : lop) : lru :=
    match o with LGet k => snd (lru_get c k) | LSet k v => lru_set max_size c k v end.

  (* the abstract map: value of the latest set of a key; the history is kept newest first *)
  Fixpoint last_set (h : list lop) (k : K) : option V :=
    match h with
    | [] => None
    | LSet k' v :: h' => if keqb k' k then Some v else last_set h' k
    | LGet _ :: h' => last_set h' k
    end.
End LRU.

(* ---------------- DiskCache ---------------- *)
Section Disk.
  Variable bytes tag : Type.
  Variable beqb : bytes -> bytes -> bool.
  Variable teqb : tag -> tag -> bool.
  Variable ser : val -> bytes.                       (* pickle.dumps *)
  Variable deser : bytes -> option val.              (* pickle.loads; None = it raised *)
  Variable mac : name -> bytes -> tag.               (* HMAC-SHA256 over key || payload with the directory key *)

  Inductive payload := PBytes (b : bytes) | PNonBytes.
  Inductive sigv := TStr (t : tag) | TNonStr.

  Record disk := mk_disk { d_payload : dict payload; d_sig : dict sigv; d_loads : list bytes }.

  Fixpoint ddel {X} (d : dict X) (k : name) : dict X :=
    match d with [] => [] | (k', v) :: d' => if Pos.eqb k' k then ddel d' k else (k', v) :: ddel d' k end.

  Definition disk_set (d : disk) (k : name) (v : val) : disk :=
    mk_disk (dset (d_payload d) k (PBytes (ser v))) (dset (d_sig d) k (TStr (mac k (ser v)))) (d_loads d).

  (* the process dies between the two writes *)
  Definition disk_set_crashed (d : disk) (k : name) (v : val) : disk :=
    mk_disk (dset (d_payload d) k (PBytes (ser v))) (d_sig d) (d_loads d).

  Inductive dres := Miss | Hit (v : val).

  Definition disk_get (d : disk) (k : name) : dres * disk :=
    match dget (d_payload d) k with
    | None => (Miss, d)
    | Some PNonBytes => (Miss, mk_disk (ddel (d_payload d) k) (d_sig d) (d_loads d))
    | Some (PBytes b) =>
        match dget (d_sig d) k with
        | None => (Miss, mk_disk (ddel (d_payload d) k) (d_sig d) (d_loads d))
        | Some TNonStr => (Miss, mk_disk (ddel (d_payload d) k) (ddel (d_sig d) k) (d_loads d))
        | Some (TStr t) =>
            if teqb t (mac k b) then
              match deser b with
              | Some v => (Hit v, mk_disk (d_payload d) (d_sig d) (b :: d_loads d))
              | None => (Miss, mk_disk (ddel (d_payload d) k) (ddel (d_sig d) k) (b :: d_loads d))
              end
            else (Miss, mk_disk (ddel (d_payload d) k) (ddel (d_sig d) k) (d_loads d))
        end
    end.

  (* corruption classes and faults *)
  Inductive dop :=
  | DSet (k : name) (v : val)
  | DSetCrashed (k : name) (v : val)
  | DGet (k : name)
  | DAlterPayload (k : name) (b : bytes)      (* bit flip / truncation: other bytes *)
  | DPayloadType (k : name)                   (* payload no longer bytes *)
  | DAlterSig (k : name) (t : tag)            (* signature overwritten with another string *)
  | DSigType (k : name)                       (* signature no longer a string *)
  | DDropSig (k : name)                       (* missing signature *)
  | DDropPayload (k : name).                  (* missing payload *)

  Definition disk_step (d : disk) (o : dop) : disk :=
    match o with
    | DSet k v => disk_set d k v
    | DSetCrashed k v => disk_set_crashed d k v
    | DGet k => snd (disk_get d k)
    | DAlterPayload k b => match dget (d_payload d) k with
                           | Some _ => mk_disk (dset (d_payload d) k (PBytes b)) (d_sig d) (d_loads d) | None => d end
    | DPayloadType k => match dget (d_payload d) k with
                        | Some _ => mk_disk (dset (d_payload d) k PNonBytes) (d_sig d) (d_loads d) | None => d end
    | DAlterSig k t => match dget (d_sig d) k with
                       | Some _ => mk_disk (d_payload d) (dset (d_sig d) k (TStr t)) (d_loads d) | None => d end
    | DSigType k => match dget (d_sig d) k with
                    | Some _ => mk_disk (d_payload d) (dset (d_sig d) k TNonStr) (d_loads d) | None => d end
    | DDropSig k => mk_disk (d_payload d) (ddel (d_sig d) k) (d_loads d)
    | DDropPayload k => mk_disk (ddel (d_payload d) k) (d_sig d) (d_loads d)
    end.

  Definition disk_empty : disk := mk_disk [] [] [].
End Disk.

(* a concrete instance for running the model: bytes = serialised value tagged with a damage counter,
   tag = (key, bytes) pair *)
Definition cbytes := (val * nat)%type.
Definition ctag := (name * val * nat)%type.
Definition cbeqb (a b : cbytes) : bool := val_eqb (fst a) (fst b) && Nat.eqb (snd a) (snd b).
Definition cteqb (a b : ctag) : bool :=
  Pos.eqb (fst (fst a)) (fst (fst b)) && val_eqb (snd (fst a)) (snd (fst b)) && Nat.eqb (snd a) (snd b).
Definition cser (v : val) : cbytes := (v, 0).
Definition cdeser (b : cbytes) : option val := match snd b with 0 => Some (fst b) | _ => None end.
Definition cmac (k : name) (b : cbytes) : ctag := (k, fst b, snd b).

(* ---------------- the cache key of a node call (caching.check_cache + compute_cache_key) ---------------- *)
From HG Require Import Rename Engine.

(* idealised hash: the key IS its pre-image (definition hash, output names, arguments by ORIGINAL parameter) *)
Definition ckey_t := (positive * list name * dict val)%type.

Definition cache_key (cacheable : bool) (hin : history) (n : node) (ins : dict val) : option ckey_t :=
  if cacheable then Some (n_fn n, n_outputs n, map_inputs_to_params hin ins) else None.

Definition ckey_eqb (a b : ckey_t) : bool :=
  Pos.eqb (fst (fst a)) (fst (fst b)) &&
  (fix eqn (x y : list name) := match x, y with
     | [], [] => true | p :: x', q :: y' => Pos.eqb p q && eqn x' y' | _, _ => false end) (snd (fst a)) (snd (fst b)) &&
  Nat.eqb (length (snd a)) (length (snd b)) &&
  forallb (fun kv => match dget (snd b) (fst kv) with Some v => val_eqb (snd kv) v | None => false end) (snd a).

(* what the pinned commit did: definition hash + arguments under their CURRENT (renamed) names *)
Definition cache_key_legacy (cacheable : bool) (n : node) (ins : dict val) : option (positive * dict val) :=
  if cacheable then Some (n_fn n, ins) else None.
