(* GateRun.v — C03 at the level of whole runs, for the routed fan  gate(c) -> B | C | END ; B(x) -> b ; C(x) -> c2  (Samples.gated:
   gate closed by default) with ARBITRARY branch functions and ANY routing function choosing one target or END: under either
   runner and any budget of at least 2 supersteps the run completes; the gate runs once, FIRST; exactly the selected branch runs,
   once; the other branch never runs and its output is absent; with END neither runs. *)
From HG Require Import Base Engine Exec EngineProofs Samples LoopCount.
From stdpp Require Import gmap.

Local Open Scope positive_scope.

Definition nodeBr (t : positive) : node := if Pos.eqb t 11 then fnode 11 [1] [32] 2 else fnode 12 [1] [33] 3.

Section GateRun.
  Variable fB fC : Z -> val.
  Variable D : Z -> decision.
  Variable exec : node -> state -> dict val -> outcome.
  Hypothesis HG : forall st c, exec gate_node st [(2, VInt c)] = OOk [] (Some (Some (D c))).
  Hypothesis HB : forall st x, exec (fnode 11 [1] [32] 2) st [(1, VInt x)] = OOk [(32, fB x)] None.
  Hypothesis HC : forall st x, exec (fnode 12 [1] [33] 3) st [(1, VInt x)] = OOk [(33, fC x)] None.

  Definition stale_on (st : state) (p : name) (e : option exec_rec) : bool :=
    match e with Some r => negb (Nat.eqb (ver st p) (default 0%nat (dget (r_in r) p))) | None => true end.
  Definition has (st : state) (p : name) : bool := match vals st !! p with Some _ => true | None => false end.

  Definition opens (st : state) (t : name) : bool :=
    match decs st !! 13 with Some d => activated_by d t | None => false end.

  Definition rdyT (st : state) (t : name) : bool := opens st t && has st 1 && stale_on st 1 (execs st !! t).
  Definition rdyG (st : state) : bool := has st 2 && stale_on st 2 (execs st !! 13).

  Lemma node_ready_T st t : t = 11 \/ t = 12 -> node_ready gated st (nodeBr t) = rdyT st t.
  Proof.
    intros Ht. unfold node_ready, rdyT, opens, stale_on, has.
    assert (Hf : find_node gated 13 = Some gate_node) by reflexivity.
    destruct Ht as [-> | ->]; unfold nodeBr; cbn [Pos.eqb].
    - assert (Hc : controlled_by gated 11 = [13]) by reflexivity.
      assert (Hg : Engine.gated gated (fnode 11 [1] [32] 2) = true) by reflexivity.
      unfold activated. cbn [n_name fnode]. rewrite Hc. cbn [existsb]. unfold gate_opens. rewrite Hf.
      cbn [n_inputs fnode forallb]. unfold has_input at 1. cbn [g_bound gated dmem dget n_hasdef fnode pos_in existsb].
      unfold wait_ok. cbn [n_wait fnode forallb]. unfold needs_execution. cbn [n_name fnode].
      unfold is_stale. cbn [n_inputs fnode existsb]. rewrite Hg. cbn [negb andb].
      change (gate_default_open gate_node) with false.
      destruct (decs st !! 13) as [d|]; destruct (execs st !! 13); destruct (vals st !! 1); destruct (execs st !! 11);
        rewrite ?orb_false_r, ?andb_true_r; reflexivity.
    - assert (Hc : controlled_by gated 12 = [13]) by reflexivity.
      assert (Hg : Engine.gated gated (fnode 12 [1] [33] 3) = true) by reflexivity.
      unfold activated. cbn [n_name fnode]. rewrite Hc. cbn [existsb]. unfold gate_opens. rewrite Hf.
      cbn [n_inputs fnode forallb]. unfold has_input at 1. cbn [g_bound gated dmem dget n_hasdef fnode pos_in existsb].
      unfold wait_ok. cbn [n_wait fnode forallb]. unfold needs_execution. cbn [n_name fnode].
      unfold is_stale. cbn [n_inputs fnode existsb]. rewrite Hg. cbn [negb andb].
      change (gate_default_open gate_node) with false.
      destruct (decs st !! 13) as [d|]; destruct (execs st !! 13); destruct (vals st !! 1); destruct (execs st !! 12);
        rewrite ?orb_false_r, ?andb_true_r; reflexivity.
  Qed.

  Lemma node_ready_G st : node_ready gated st gate_node = rdyG st.
  Proof.
    unfold node_ready, rdyG, stale_on, has.
    assert (Hc : controlled_by gated 13 = []) by reflexivity.
    assert (Hg : Engine.gated gated gate_node = false) by reflexivity.
    unfold activated. cbn [n_name gate_node]. rewrite Hc.
    cbn [n_inputs gate_node forallb]. unfold has_input at 1. cbn [g_bound gated dmem dget n_hasdef gate_node pos_in existsb].
    unfold wait_ok. cbn [n_wait gate_node forallb]. unfold needs_execution. cbn [n_name gate_node].
    unfold is_stale. cbn [n_inputs gate_node existsb]. rewrite Hg. cbn [negb andb n_outputs gate_node pos_in existsb].
    destruct (vals st !! 2); destruct (execs st !! 13); rewrite ?orb_false_r, ?andb_true_r; reflexivity.
  Qed.

  Lemma needs_gate st : needs_execution gated st gate_node = stale_on st 2 (execs st !! 13).
  Proof.
    unfold needs_execution, stale_on. cbn [n_name gate_node]. destruct (execs st !! 13) as [r|]; [|reflexivity].
    unfold is_stale. cbn [n_inputs gate_node existsb].
    assert (Hg : Engine.gated gated gate_node = false) by reflexivity. rewrite Hg.
    cbn [negb andb n_outputs gate_node pos_in existsb]. rewrite orb_false_r. reflexivity.
  Qed.

  Lemma clear_stale_gated st :
    clear_stale gated st =
    match decs st !! 13 with
    | Some DEnd => st
    | Some _ => if stale_on st 2 (execs st !! 13) then set_dec st 13 None else st
    | None => st
    end.
  Proof.
    unfold clear_stale. change (g_nodes gated) with [fnode 11 [1] [32] 2; gate_node; fnode 12 [1] [33] 3]. cbn [fold_left].
    change (is_gate (fnode 11 [1] [32] 2)) with false. change (is_gate (fnode 12 [1] [33] 3)) with false.
    change (is_gate gate_node) with true. cbn iota. cbn [n_name gate_node]. rewrite needs_gate.
    destruct (decs st !! 13) as [[| |]|]; try reflexivity; destruct (stale_on st 2 (execs st !! 13)); reflexivity.
  Qed.

  Lemma ready_gated st :
    ready gated st =
    (clear_stale gated st,
     if rdyG (clear_stale gated st) then [gate_node]
     else ((if rdyT (clear_stale gated st) 11 then [fnode 11 [1] [32] 2] else []) ++
           (if rdyT (clear_stale gated st) 12 then [fnode 12 [1] [33] 3] else []))%list).
  Proof.
    unfold ready. set (st' := clear_stale gated st). f_equal.
    change (g_nodes gated) with [nodeBr 11; gate_node; nodeBr 12]. cbn [List.filter].
    change (is_active gated (nodeBr 11)) with true. change (is_active gated gate_node) with true.
    change (is_active gated (nodeBr 12)) with true. cbn [andb].
    rewrite (node_ready_T st' 11 (or_introl eq_refl)), (node_ready_T st' 12 (or_intror eq_refl)), node_ready_G.
    destruct (rdyT st' 11), (rdyG st'), (rdyT st' 12); reflexivity.
  Qed.

  Lemma superstep_one r snap pv n ins outs dec :
    is_interrupt n = false ->
    collect_inputs gated snap pv n (n_inputs n) = Some ins -> exec n snap ins = OOk outs dec ->
    superstep exec r gated snap pv [n] = (SOk (commit snap snap n outs dec), [(n_name n, ins)]).
  Proof.
    intros Hi Hc He. destruct r; unfold superstep.
    - cbn [superstep_sync]. rewrite Hc, He. reflexivity.
    - unfold superstep_async, isolate. cbn [List.filter]. rewrite Hi.
      cbn [map List.filter]. assert (Hp : pos_in (n_name n) [n_name n] = true) by (apply pos_in_In; left; reflexivity).
      rewrite Hp. unfold write_decisions, first_failure, async_calls. cbn [fold_left fold_right flat_map].
      unfold apply_success, run_one. rewrite Hc, He. cbn [snd fst app]. unfold commit.
      destruct dec as [d|]; reflexivity.
  Qed.

  Variable r : runner.

  Definition pv0 (x c : Z) : dict val := [(1, VInt x); (2, VInt c)].
  Definition s_init (x c : Z) : state := init_state (pv0 x c).
  Definition s_gate (x c : Z) : state := commit (s_init x c) (s_init x c) gate_node [] (Some (Some (D c))).

  Lemma init_obs x c :
    vals (s_init x c) !! 1 = Some (VInt x) /\ vals (s_init x c) !! 2 = Some (VInt c) /\
    vals (s_init x c) !! 32 = None /\ vals (s_init x c) !! 33 = None /\
    execs (s_init x c) = ∅ /\ decs (s_init x c) = ∅.
  Proof.
    unfold s_init, pv0, init_state. cbn [apply_outputs fold_left fst snd].
    split; [rewrite vals_update_ne by discriminate; apply vals_update_same|].
    split; [apply vals_update_same|].
    split; [rewrite !vals_update_ne by discriminate; apply lookup_empty|].
    split; [rewrite !vals_update_ne by discriminate; apply lookup_empty|].
    split; [rewrite !execs_update; reflexivity | rewrite !decs_update; reflexivity].
  Qed.

  (* superstep 1: the gate alone, first *)
  Lemma gated_gate_first x c log fuel :
    run_loop exec r (S fuel) gated (pv0 x c) (s_init x c) log =
    run_loop exec r fuel gated (pv0 x c) (s_gate x c) (log ++ [[(13, [(2, VInt c)])]])%list.
  Proof.
    destruct (init_obs x c) as (V1 & V2 & V32 & V33 & E & Dc).
    assert (Hc : clear_stale gated (s_init x c) = s_init x c) by (rewrite clear_stale_gated, Dc, lookup_empty; reflexivity).
    assert (RG : rdyG (s_init x c) = true) by (unfold rdyG, has, stale_on; rewrite V2, E, lookup_empty; reflexivity).
    cbn [run_loop]. rewrite ready_gated, Hc, RG.
    rewrite (superstep_one r (s_init x c) (pv0 x c) gate_node [(2, VInt c)] [] (Some (Some (D c))) eq_refl).
    - reflexivity.
    - cbn [n_inputs gate_node collect_inputs]. unfold resolve. rewrite V2. reflexivity.
    - apply HG.
  Qed.

  Lemma gate_obs x c :
    let s := s_gate x c in
    vals s !! 1 = Some (VInt x) /\ vals s !! 32 = None /\ vals s !! 33 = None /\
    decs s !! 13 = Some (D c) /\ execs s !! 11 = None /\ execs s !! 12 = None /\
    clear_stale gated s = s /\ rdyG s = false.
  Proof.
    intros s. destruct (init_obs x c) as (V1 & V2 & V32 & V33 & E & Dc).
    assert (Hv : vals s = vals (s_init x c)) by reflexivity.
    assert (Hd : decs s !! 13 = Some (D c)) by (unfold s, s_gate, commit; cbn [apply_outputs fold_left]; simpl; apply lookup_insert).
    assert (He13 : execs s !! 13 = Some (record_of (s_init x c) gate_node)) by (unfold s, s_gate, commit; cbn [apply_outputs fold_left]; simpl; apply lookup_insert).
    assert (He11 : execs s !! 11 = None).
    { unfold s, s_gate, commit. cbn [apply_outputs fold_left]. simpl. rewrite lookup_insert_ne by discriminate. rewrite E. apply lookup_empty. }
    assert (He12 : execs s !! 12 = None).
    { unfold s, s_gate, commit. cbn [apply_outputs fold_left]. simpl. rewrite lookup_insert_ne by discriminate. rewrite E. apply lookup_empty. }
    assert (Sg : stale_on s 2 (execs s !! 13) = false).
    { rewrite He13. unfold stale_on. cbn [record_of r_in n_inputs gate_node map dget Pos.eqb].
      change (ver s 2) with (ver (s_init x c) 2). change (default 0%nat (Some (ver (s_init x c) 2))) with (ver (s_init x c) 2).
      rewrite Nat.eqb_refl. reflexivity. }
    rewrite Hv, V1, V32, V33.
    split; [reflexivity|]. split; [reflexivity|]. split; [reflexivity|]. split; [exact Hd|]. split; [exact He11|]. split; [exact He12|].
    split; [rewrite clear_stale_gated, Hd, Sg; destruct (D c); reflexivity | unfold rdyG; rewrite Sg; apply andb_false_r].
  Qed.

  (* C03_run_routes *)
  Theorem gated_run_routes x c fuel :
    match D c with
    | DEnd =>
        exists s, execute exec r (S fuel) gated (pv0 x c) = (RDone s, [[(13, [(2, VInt c)])]]) /\
                  vals s !! 32 = None /\ vals s !! 33 = None
    | DOne t =>
        if Pos.eqb t 11 then
          exists s, execute exec r (S (S fuel)) gated (pv0 x c) = (RDone s, [[(13, [(2, VInt c)])]; [(11, [(1, VInt x)])]]) /\
                    vals s !! 32 = Some (fB x) /\ vals s !! 33 = None
        else if Pos.eqb t 12 then
          exists s, execute exec r (S (S fuel)) gated (pv0 x c) = (RDone s, [[(13, [(2, VInt c)])]; [(12, [(1, VInt x)])]]) /\
                    vals s !! 33 = Some (fC x) /\ vals s !! 32 = None
        else True
    | DMany _ => True
    end.
  Proof.
    destruct (gate_obs x c) as (V1 & V32 & V33 & Hd & E11 & E12 & Hcs & RG).
    set (s1 := s_gate x c) in *.
    assert (Hopen : forall t, opens s1 t = activated_by (D c) t) by (intros t; unfold opens; rewrite Hd; reflexivity).
    assert (RT : forall t, (t = 11 \/ t = 12) -> rdyT s1 t = activated_by (D c) t).
    { intros t [-> | ->]; unfold rdyT, has, stale_on; rewrite Hopen, V1, ?E11, ?E12; rewrite !andb_true_r; reflexivity. }
    destruct (D c) as [|t|ts] eqn:ED; [| |exact I].
    - (* END: nothing after the gate *)
      exists s1. split; [|auto]. unfold execute. fold (s_init x c). rewrite (gated_gate_first x c [] fuel). fold s1.
      assert (R11 : rdyT s1 11 = false) by (rewrite RT by auto; reflexivity).
      assert (R12 : rdyT s1 12 = false) by (rewrite RT by auto; reflexivity).
      destruct fuel; cbn [run_loop]; rewrite ready_gated, Hcs, RG, R11, R12; reflexivity.
    - destruct (Pos.eqb t 11) eqn:E1; [apply Pos.eqb_eq in E1; subst t | destruct (Pos.eqb t 12) eqn:E2; [apply Pos.eqb_eq in E2; subst t | exact I]].
      + (* branch B *)
        assert (R11 : rdyT s1 11 = true) by (rewrite RT by auto; reflexivity).
        assert (R12 : rdyT s1 12 = false) by (rewrite RT by auto; reflexivity).
        set (s2 := commit s1 s1 (fnode 11 [1] [32] 2) [(32, fB x)] None).
        exists s2. unfold execute. fold (s_init x c). rewrite (gated_gate_first x c [] (S fuel)). fold s1.
        cbn [run_loop]. rewrite ready_gated, Hcs, RG, R11, R12. cbn [app].
        rewrite (superstep_one r s1 (pv0 x c) (fnode 11 [1] [32] 2) [(1, VInt x)] [(32, fB x)] None eq_refl).
        2:{ cbn [n_inputs fnode collect_inputs]. unfold resolve. rewrite V1. reflexivity. }
        2:{ apply HB. }
        fold s2.
        (* the state after B *)
        assert (W32 : vals s2 !! 32 = Some (fB x)) by (unfold s2, commit; cbn [apply_outputs fold_left fst snd]; apply vals_update_same).
        assert (W33 : vals s2 !! 33 = None) by (unfold s2, commit; cbn [apply_outputs fold_left fst snd]; simpl; rewrite vals_update_ne by discriminate; exact V33).
        assert (Wd : decs s2 = decs s1) by (unfold s2, commit; cbn [apply_outputs fold_left fst snd]; simpl; apply decs_update).
        assert (We13 : execs s2 !! 13 = execs s1 !! 13).
        { unfold s2, commit. cbn [apply_outputs fold_left fst snd]. simpl. rewrite lookup_insert_ne by discriminate. rewrite execs_update. reflexivity. }
        assert (Wv2 : ver s2 2 = ver s1 2) by (unfold s2, commit; cbn [apply_outputs fold_left fst snd]; unfold ver; simpl; apply ver_update_ne; discriminate).
        assert (Wv1 : ver s2 1 = ver s1 1) by (unfold s2, commit; cbn [apply_outputs fold_left fst snd]; unfold ver; simpl; apply ver_update_ne; discriminate).
        assert (We11 : execs s2 !! 11 = Some (record_of s1 (fnode 11 [1] [32] 2))) by (unfold s2, commit; cbn [apply_outputs fold_left fst snd]; simpl; apply lookup_insert).
        assert (Sg2 : stale_on s2 2 (execs s2 !! 13) = stale_on s1 2 (execs s1 !! 13)) by (rewrite We13; unfold stale_on; rewrite Wv2; reflexivity).
        assert (Sg1 : stale_on s1 2 (execs s1 !! 13) = false).
        { unfold rdyG in RG. unfold has in RG. destruct (init_obs x c) as (_ & V2 & _). 
          assert (V2' : vals s1 !! 2 = Some (VInt c)) by exact V2. rewrite V2' in RG. exact RG. }
        assert (Hcs2 : clear_stale gated s2 = s2).
        { rewrite clear_stale_gated, Wd, Hd, Sg2, Sg1. reflexivity. }
        assert (RG2 : rdyG s2 = false) by (unfold rdyG; rewrite Sg2, Sg1; apply andb_false_r).
        assert (R11' : rdyT s2 11 = false).
        { unfold rdyT. rewrite We11. unfold stale_on. cbn [record_of r_in n_inputs fnode map dget Pos.eqb]. rewrite Wv1.
          change (default 0%nat (Some (ver s1 1))) with (ver s1 1). rewrite Nat.eqb_refl. apply andb_false_r. }
        assert (R12' : rdyT s2 12 = false) by (unfold rdyT, opens; rewrite Wd, Hd; reflexivity).
        split; [|auto].
        destruct fuel; cbn [run_loop]; rewrite ready_gated, Hcs2, RG2, R11', R12'; reflexivity.
      + (* branch C *)
        assert (R11 : rdyT s1 11 = false) by (rewrite RT by auto; reflexivity).
        assert (R12 : rdyT s1 12 = true) by (rewrite RT by auto; reflexivity).
        set (s2 := commit s1 s1 (fnode 12 [1] [33] 3) [(33, fC x)] None).
        exists s2. unfold execute. fold (s_init x c). rewrite (gated_gate_first x c [] (S fuel)). fold s1.
        cbn [run_loop]. rewrite ready_gated, Hcs, RG, R11, R12. cbn [app].
        rewrite (superstep_one r s1 (pv0 x c) (fnode 12 [1] [33] 3) [(1, VInt x)] [(33, fC x)] None eq_refl).
        2:{ cbn [n_inputs fnode collect_inputs]. unfold resolve. rewrite V1. reflexivity. }
        2:{ apply HC. }
        fold s2.
        assert (W33 : vals s2 !! 33 = Some (fC x)) by (unfold s2, commit; cbn [apply_outputs fold_left fst snd]; apply vals_update_same).
        assert (W32 : vals s2 !! 32 = None) by (unfold s2, commit; cbn [apply_outputs fold_left fst snd]; simpl; rewrite vals_update_ne by discriminate; exact V32).
        assert (Wd : decs s2 = decs s1) by (unfold s2, commit; cbn [apply_outputs fold_left fst snd]; simpl; apply decs_update).
        assert (We13 : execs s2 !! 13 = execs s1 !! 13).
        { unfold s2, commit. cbn [apply_outputs fold_left fst snd]. simpl. rewrite lookup_insert_ne by discriminate. rewrite execs_update. reflexivity. }
        assert (Wv2 : ver s2 2 = ver s1 2) by (unfold s2, commit; cbn [apply_outputs fold_left fst snd]; unfold ver; simpl; apply ver_update_ne; discriminate).
        assert (Wv1 : ver s2 1 = ver s1 1) by (unfold s2, commit; cbn [apply_outputs fold_left fst snd]; unfold ver; simpl; apply ver_update_ne; discriminate).
        assert (We12 : execs s2 !! 12 = Some (record_of s1 (fnode 12 [1] [33] 3))) by (unfold s2, commit; cbn [apply_outputs fold_left fst snd]; simpl; apply lookup_insert).
        assert (Sg2 : stale_on s2 2 (execs s2 !! 13) = stale_on s1 2 (execs s1 !! 13)) by (rewrite We13; unfold stale_on; rewrite Wv2; reflexivity).
        assert (Sg1 : stale_on s1 2 (execs s1 !! 13) = false).
        { unfold rdyG in RG. unfold has in RG. destruct (init_obs x c) as (_ & V2 & _).
          assert (V2' : vals s1 !! 2 = Some (VInt c)) by exact V2. rewrite V2' in RG. exact RG. }
        assert (Hcs2 : clear_stale gated s2 = s2).
        { rewrite clear_stale_gated, Wd, Hd, Sg2, Sg1. reflexivity. }
        assert (RG2 : rdyG s2 = false) by (unfold rdyG; rewrite Sg2, Sg1; apply andb_false_r).
        assert (R12' : rdyT s2 12 = false).
        { unfold rdyT. rewrite We12. unfold stale_on. cbn [record_of r_in n_inputs fnode map dget Pos.eqb]. rewrite Wv1.
          change (default 0%nat (Some (ver s1 1))) with (ver s1 1). rewrite Nat.eqb_refl. apply andb_false_r. }
        assert (R11' : rdyT s2 11 = false) by (unfold rdyT, opens; rewrite Wd, Hd; reflexivity).
        split; [|auto].
        destruct fuel; cbn [run_loop]; rewrite ready_gated, Hcs2, RG2, R11', R12'; reflexivity.
  Qed.
End GateRun.

(* the executor and tables the correspondence harness runs (Samples.gated_ft / gated_gt: route table 0 -> B, 1 -> C, else END) *)
Definition gated_decision (c : Z) : decision :=
  match c with 0%Z => DOne 11 | 1%Z => DOne 12 | _ => DEnd end.

Lemma gated_exec_gate st c : exec_basic gated_ft gated_gt gate_node st [(2%positive, VInt c)] = OOk [] (Some (Some (gated_decision c))).
Proof. destruct c as [|[p|p|]|p]; reflexivity. Qed.

Theorem gated_model_routes (r : runner) (x c : Z) (fuel : nat) :
  match gated_decision c with
  | DEnd =>
      exists s, execute (exec_basic gated_ft gated_gt) r (S fuel) gated (pv0 x c) = (RDone s, [[(13%positive, [(2%positive, VInt c)])]]) /\
                vals s !! 32%positive = None /\ vals s !! 33%positive = None
  | DOne t =>
      if Pos.eqb t 11 then
        exists s, execute (exec_basic gated_ft gated_gt) r (S (S fuel)) gated (pv0 x c) =
                    (RDone s, [[(13%positive, [(2%positive, VInt c)])]; [(11%positive, [(1%positive, VInt x)])]]) /\
                  vals s !! 32%positive = Some (VTup [VStr 11; VInt x]) /\ vals s !! 33%positive = None
      else if Pos.eqb t 12 then
        exists s, execute (exec_basic gated_ft gated_gt) r (S (S fuel)) gated (pv0 x c) =
                    (RDone s, [[(13%positive, [(2%positive, VInt c)])]; [(12%positive, [(1%positive, VInt x)])]]) /\
                  vals s !! 33%positive = Some (VTup [VStr 12; VInt x]) /\ vals s !! 32%positive = None
      else True
  | DMany _ => True
  end.
Proof.
  apply (gated_run_routes (fun x => VTup [VStr 11; VInt x]) (fun x => VTup [VStr 12; VInt x]) gated_decision
           (exec_basic gated_ft gated_gt) gated_exec_gate); intros st x0; reflexivity.
Qed.

(* what the harness observes of this model program, to compare with the implementation's run of the same fan:
   status, the nodes called in order, whether b / c2 are among the values *)
Definition gated_obs (r : runner) (fuel : nat) (x c : Z) : nat * list name * bool * bool :=
  let res := execute (exec_basic gated_ft gated_gt) r fuel gated (pv0 x c) in
  let st := match fst res with RDone s => s | RFailed _ s => s | RPaused _ s => s end in
  (match fst res with RDone _ => 0%nat | RFailed _ _ => 1%nat | RPaused _ _ => 2%nat end,
   map fst (concat (snd res)),
   match vals st !! 32%positive with Some _ => true | None => false end,
   match vals st !! 33%positive with Some _ => true | None => false end).

Fixpoint names_eqb (p q : list name) : bool :=
  match p, q with [], [] => true | a1 :: p', a2 :: q' => Pos.eqb a1 a2 && names_eqb p' q' | _, _ => false end.

Definition gated_obs_eqb (a b : nat * list name * bool * bool) : bool :=
  let '(s1, l1, b1, c1) := a in let '(s2, l2, b2, c2) := b in
  Nat.eqb s1 s2 && Bool.eqb b1 b2 && Bool.eqb c1 c2 && names_eqb l1 l2.
