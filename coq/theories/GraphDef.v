(* GraphDef.v — structure derived from a node list the way graph/core.py derives it:
   Graph._build_graph (inferred data edges: first producer wins; control edges gate->target;
   ordering edges producer->waiter), nx.descendants as iterated image, and
   input_spec._active_from_entrypoints. *)
From HG Require Import Base Engine.
From stdpp Require Import gmap.

Definition first_producer (nodes : list node) (p : name) : option name :=
  match List.find (fun m => pos_in p (n_outputs m)) nodes with
  | Some m => Some (n_name m) | None => None end.

Definition data_edges (nodes : list node) : list (name * name) :=
  flat_map (fun n => flat_map (fun p => match first_producer nodes p with
                                        | Some s => [(s, n_name n)] | None => [] end) (n_inputs n)) nodes.

Definition control_edges (nodes : list node) : list (name * name) :=
  flat_map (fun n => map (fun t => (n_name n, t))
                         (List.filter (fun t => pos_in t (map n_name nodes)) (gate_targets n))) nodes.

Definition ordering_edges (nodes : list node) : list (name * name) :=
  flat_map (fun n => flat_map (fun s => match first_producer nodes s with
                                        | Some p => if Pos.eqb p (n_name n) then [] else [(p, n_name n)]
                                        | None => [] end) (n_wait n)) nodes.

Definition all_edges (nodes : list node) : list (name * name) :=
  data_edges nodes ++ control_edges nodes ++ ordering_edges nodes.

Definition succs (es : list (name * name)) (x : name) : list name :=
  map snd (List.filter (fun e => Pos.eqb (fst e) x) es).

(* one round of image expansion *)
Definition expand (es : list (name * name)) (seen : list name) : list name :=
  fold_left (fun acc x => fold_left (fun a y => if pos_in y a then a else a ++ [y]) (succs es x) acc) seen seen.

Fixpoint iterate {A} (k : nat) (f : A -> A) (x : A) : A :=
  match k with O => x | S k' => iterate k' f (f x) end.

(* nodes reachable from the sources in >= 0 steps *)
Definition reach_from (nodes : list node) (srcs : list name) : list name :=
  iterate (length nodes) (expand (all_edges nodes)) srcs.

Definition active_from_entrypoints (nodes : list node) (eps : list name) : list name :=
  List.filter (fun x => pos_in x (map n_name nodes)) (reach_from nodes eps).

Definition reaches (nodes : list node) (a b : name) : bool :=
  pos_in b (iterate (length nodes) (expand (all_edges nodes)) (succs (all_edges nodes) a)).
