(* InlineExample.v — the hypotheses of InlineRuns.inline_runs are satisfiable: the diamond DAG A -> {B, C} -> D with {B, C}
   wrapped into a nested graph (a GraphNode without renames), against the flat diamond. *)
From HG Require Import Base Rename Engine Exec GraphDef EngineProofs C01Proofs Inline Nested NestedProofs InlineRuns Samples.
From stdpp Require Import gmap.
Local Open Scope positive_scope.

Definition ex_gi : graph := mk_graph [fnode 11 [31] [32] 2; fnode 12 [31] [33] 3] [] None.
Definition ex_ift : dict fexp := [(2, FSym 11); (3, FSym 12)].
Definition ex_inner : ngraph := NG ex_gi None None ex_ift [] [].
Definition ex_w : node := graphnode_of 20 ex_inner [] [].
Definition ex_go : graph := mk_graph [fnode 14 [32; 33] [34] 4; ex_w; fnode 10 [1] [31] 1] [] None.
Definition ex_ft : dict fexp := [(1, FSym 10); (4, FSym 14)].
Definition ex_subs : list (name * nsub) := [mk_sub 20 ex_inner [] [] None].
Definition ex_pv : dict val := [(1, VInt 5)].

Definition ex_exec_o := exec_o 1 Sync ex_ft [] ex_subs.
Definition ex_exec_i := exec_i 1 Sync ex_ift [] [].
Definition ex_flat_exec := flat_exec 1 Sync ex_ft [] ex_subs ex_gi ex_ift [] [].
Definition ex_flat := flat_graph ex_gi ex_w ex_go.

Lemma ex_w_eq : ex_w = mk_node 20 [31] [32; 33] 2%nat [] [] [] KGraph 1.
Proof. reflexivity. Qed.

Lemma ex_sub_eq : dget ex_subs (n_name ex_w) = Some (NSub (inner_ng ex_gi None ex_ift [] []) [] [] (n_outputs ex_w) None).
Proof. reflexivity. Qed.

Lemma ex_inner_cases n : In n (g_nodes ex_gi) -> n = fnode 11 [31] [32] 2 \/ n = fnode 12 [31] [33] 3.
Proof. simpl. intuition. Qed.

Lemma ex_basic_nopause ftab n s ins p : exec_basic ftab [] n s ins <> OPause p.
Proof.
  unfold exec_basic. destruct (dget ftab (n_fn n)); [|discriminate].
  destruct (n_kind n); try discriminate.
  destruct (eval_fexp f (n_ndata n) ins); try discriminate. destruct (wrap_outputs n v); discriminate.
Qed.

Lemma ex_wf_inner ins : map fst ins = n_inputs ex_w -> WF ex_exec_i ex_gi ins.
Proof.
  intros Hk. split.
  - intros n H. destruct (ex_inner_cases n H) as [-> | ->]; split; try reflexivity; left; reflexivity.
  - reflexivity.
  - repeat constructor; simpl; intuition congruence.
  - repeat constructor; simpl; intuition congruence.
  - exists (fun _ => 0%nat). intros n m p Hn Hm Hp Ho.
    destruct (ex_inner_cases n Hn) as [-> | ->]; destruct (ex_inner_cases m Hm) as [-> | ->];
      simpl in *; intuition congruence.
  - intros x Hx. unfold dmem in Hx. destruct (dget ins x) as [v|] eqn:E; [|discriminate].
    apply dget_Some_in in E. apply (in_map fst) in E. rewrite Hk in E. simpl in E. destruct E as [<-|[]].
    simpl. intuition congruence.
  - intros n p H. destruct (ex_inner_cases n H) as [-> | ->]; reflexivity.
  - intros n s1 s2 i H. destruct (ex_inner_cases n H) as [-> | ->]; reflexivity.
  - intros n s i outs dec H _ He. destruct (ex_inner_cases n H) as [-> | ->]; vm_compute in He;
      injection He as <- <-; split; reflexivity.
  - intros n s i p H. destruct (ex_inner_cases n H) as [-> | ->]; unfold ex_exec_i, exec_i;
      rewrite exec_ng_leaf by reflexivity; apply ex_basic_nopause.
  - intros n H. destruct (ex_inner_cases n H) as [-> | ->]; reflexivity.
Qed.

Lemma ex_nosent n s ins outs dec o : In n (g_nodes ex_gi) -> ex_exec_i n s ins = OOk outs dec -> ~ In (o, VSentinel) outs.
Proof.
  intros H He. destruct (ex_inner_cases n H) as [-> | ->]; vm_compute in He; injection He as <- <-;
    intros [E|[]]; discriminate.
Qed.

Lemma ex_w_outs o : In o (n_outputs ex_w) <-> In o (all_outputs ex_gi).
Proof. reflexivity. Qed.

Lemma ex_w_ins n p : In n (g_nodes ex_gi) -> In p (n_inputs n) -> In p (all_outputs ex_gi) \/ In p (n_inputs ex_w).
Proof. intros Hn Hp. right. destruct (ex_inner_cases n Hn) as [-> | ->]; exact Hp. Qed.

Lemma ex_w_nd : List.NoDup (n_inputs ex_w).
Proof. repeat constructor; simpl; intuition congruence. Qed.

Lemma ex_outer_cases n : In n (g_nodes ex_go) -> n = fnode 14 [32; 33] [34] 4 \/ n = ex_w \/ n = fnode 10 [1] [31] 1.
Proof. simpl. intuition. Qed.

Lemma ex_disj n : In n (g_nodes ex_go) -> inner ex_gi n = false.
Proof. intros H. destruct (ex_outer_cases n H) as [-> | [-> | ->]]; reflexivity. Qed.

(* the wrapper's function is the solution of the inner system *)
Lemma ex_wrapper_spec ins outs : map fst ins = n_inputs ex_w -> ex_exec_o ex_w empty_state ins = OOk outs None ->
  exists Vi, Sol ex_exec_i ex_gi ins Vi /\ Reads ex_w Vi outs.
Proof.
  apply (wrapper_spec 1 Sync ex_ft [] ex_subs ex_gi None ex_ift [] [] ex_w eq_refl ex_sub_eq eq_refl
           ex_w_outs ex_w_ins ex_w_nd ex_wf_inner ex_nosent).
Qed.

Lemma ex_wrapper_outs s ins outs dec : map fst ins = n_inputs ex_w -> ex_exec_o ex_w s ins = OOk outs dec ->
  map fst outs = n_outputs ex_w /\ dec = None.
Proof.
  apply (wrapper_outs 1 Sync ex_ft [] ex_subs ex_gi None ex_ift [] [] ex_w eq_refl ex_sub_eq eq_refl
           ex_w_outs ex_w_ins ex_w_nd ex_wf_inner ex_nosent s ins outs dec eq_refl).
Qed.

Lemma ex_inner_nopause n s i q : In n (g_nodes ex_gi) -> ex_exec_i n s i <> OPause q.
Proof.
  intros H. destruct (ex_inner_cases n H) as [-> | ->]; unfold ex_exec_i, exec_i;
    rewrite exec_ng_leaf by reflexivity; apply ex_basic_nopause.
Qed.

Lemma ex_wf_outer : WF ex_exec_o ex_go ex_pv.
Proof.
  split.
  - intros n H. destruct (ex_outer_cases n H) as [-> | [-> | ->]]; split; try reflexivity; (left; reflexivity) || (right; reflexivity).
  - reflexivity.
  - repeat constructor; simpl; intuition congruence.
  - repeat constructor; simpl; intuition congruence.
  - exists (fun x : positive => match x with 10 => 0%nat | 20 => 1%nat | _ => 2%nat end).
    intros n m p Hi Hm Hp Ho.
    destruct (ex_outer_cases n Hi) as [-> | [-> | ->]]; destruct (ex_outer_cases m Hm) as [-> | [-> | ->]];
      simpl in *; intuition (try congruence; try lia); subst; simpl in *; intuition (try congruence; try lia).
  - intros x Hx. unfold dmem in Hx. simpl in Hx. destruct (Pos.eqb 1 x) eqn:E; [|discriminate].
    apply Pos.eqb_eq in E. subst. simpl. intuition congruence.
  - intros n p H. destruct (ex_outer_cases n H) as [-> | [-> | ->]]; reflexivity.
  - intros n s1 s2 i H. destruct (ex_outer_cases n H) as [-> | [-> | ->]]; reflexivity.
  - intros n s i outs dec H Hk He. destruct (ex_outer_cases n H) as [-> | [-> | ->]].
    + vm_compute in He. injection He as <- <-. split; reflexivity.
    + exact (ex_wrapper_outs s i outs dec Hk He).
    + vm_compute in He. injection He as <- <-. split; reflexivity.
  - intros n s i p H. destruct (ex_outer_cases n H) as [-> | [-> | ->]].
    + unfold ex_exec_o, exec_o. rewrite exec_ng_leaf by reflexivity. apply ex_basic_nopause.
    + apply (wrapper_nopause 1 Sync ex_ft [] ex_subs ex_gi None ex_ift [] [] ex_w eq_refl ex_sub_eq). exact ex_inner_nopause.
    + unfold ex_exec_o, exec_o. rewrite exec_ng_leaf by reflexivity. apply ex_basic_nopause.
  - intros n H. destruct (ex_outer_cases n H) as [-> | [-> | ->]]; reflexivity.
Qed.

Lemma ex_flat_cases n : In n (g_nodes ex_flat) ->
  n = fnode 14 [32; 33] [34] 4 \/ n = fnode 10 [1] [31] 1 \/ n = fnode 11 [31] [32] 2 \/ n = fnode 12 [31] [33] 3.
Proof. simpl. intuition. Qed.

Lemma ex_wf_flat : WF ex_flat_exec ex_flat ex_pv.
Proof.
  split.
  - intros n H. destruct (ex_flat_cases n H) as [-> | [-> | [-> | ->]]]; split; try reflexivity; left; reflexivity.
  - reflexivity.
  - repeat constructor; simpl; intuition congruence.
  - repeat constructor; simpl; intuition congruence.
  - exists (fun x : positive => match x with 10 => 0%nat | 11 => 1%nat | 12 => 1%nat | _ => 2%nat end).
    intros n m p Hi Hm Hp Ho.
    destruct (ex_flat_cases n Hi) as [-> | [-> | [-> | ->]]]; destruct (ex_flat_cases m Hm) as [-> | [-> | [-> | ->]]];
      simpl in *; intuition (try congruence; try lia); subst; simpl in *; intuition (try congruence; try lia).
  - intros x Hx. unfold dmem in Hx. simpl in Hx. destruct (Pos.eqb 1 x) eqn:E; [|discriminate].
    apply Pos.eqb_eq in E. subst. simpl. intuition congruence.
  - intros n p H. destruct (ex_flat_cases n H) as [-> | [-> | [-> | ->]]]; reflexivity.
  - intros n s1 s2 i H. destruct (ex_flat_cases n H) as [-> | [-> | [-> | ->]]]; reflexivity.
  - intros n s i outs dec H _ He. destruct (ex_flat_cases n H) as [-> | [-> | [-> | ->]]]; vm_compute in He;
      injection He as <- <-; split; reflexivity.
  - intros n s i p H. destruct (ex_flat_cases n H) as [-> | [-> | [-> | ->]]];
      unfold ex_flat_exec; rewrite flat_exec_leaf by reflexivity; simpl; apply ex_basic_nopause.
  - intros n H. destruct (ex_flat_cases n H) as [-> | [-> | [-> | ->]]]; reflexivity.
Qed.

(* the theorem, instantiated: whatever the runners, budgets and logs, completed nested and flat runs agree *)
Theorem ex_inline_runs r1 r2 f1 f2 sn sf l1 l2 :
  execute ex_exec_o r1 f1 ex_go ex_pv = (RDone sn, l1) ->
  execute ex_flat_exec r2 f2 ex_flat ex_pv = (RDone sf, l2) ->
  vals sn = vals sf.
Proof.
  intros Hn Hf.
  apply (inline_runs 1 Sync ex_ft [] ex_subs ex_gi None ex_ift [] [] ex_w eq_refl ex_sub_eq eq_refl
           ex_w_outs ex_w_ins ex_w_nd ex_wf_inner ex_nosent ex_go ex_pv (or_intror (or_introl eq_refl)) ex_disj
           r1 r2 f1 f2 sn sf l1 l2 ex_wf_outer ex_wf_flat); [repeat constructor; simpl; intuition | exact Hn | exact Hf |].
  (* the wrapper's input is present: A ran *)
  intros p [<-|[]].
  assert (Hnd : List.NoDup (dkeys ex_pv)) by (repeat constructor; simpl; intuition).
  pose proof (run_reaches_solution ex_exec_o ex_go ex_pv ex_wf_outer Hnd r1 f1 sn l1 Hn) as Hsol.
  assert (HA : In (fnode 10 [1] [31] 1) (g_nodes ex_go)) by (simpl; auto).
  assert (Hav : avail ex_go (vals sn) (fnode 10 [1] [31] 1)).
  { apply present_avail. intros p [<-|[]]. exists (VInt 5). apply (sol_provided _ _ _ _ Hsol). reflexivity. }
  destruct (sol_nodes _ _ _ _ Hsol _ HA Hav) as (ins & outs & Hc & He & Ho).
  destruct (wf_outs _ _ _ ex_wf_outer _ _ _ _ _ HA (collect_keys _ _ _ _ _ _ Hc) He) as [Hk _].
  destruct outs as [|[o v] outs]; [discriminate|]. simpl in Hk. injection Hk as -> _.
  exists v. apply Ho. left. reflexivity.
Qed.

(* and both runs do complete, under either runner *)
Example ex_runs_complete :
  (exists sn l, execute ex_exec_o Sync 10 ex_go ex_pv = (RDone sn, l)) /\
  (exists sn l, execute ex_exec_o Async 10 ex_go ex_pv = (RDone sn, l)) /\
  (exists sf l, execute ex_flat_exec Sync 10 ex_flat ex_pv = (RDone sf, l)) /\
  (exists sf l, execute ex_flat_exec Async 10 ex_flat ex_pv = (RDone sf, l)).
Proof. repeat split; vm_compute; eauto. Qed.
