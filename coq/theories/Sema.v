(* Sema.v — the concurrency-limit discipline as a transition system (C15).
   Models what runners/async_/runner.py, superstep.py, executors/function_node.py, executors/graph_node.py and
   template_async.map do with the shared semaphore:
     * ONE semaphore of k permits for the whole top-level call (installed once, inherited through the ContextVar);
     * a permit is taken only by a leaf (a function node), around its body, never by a container;
     * a run is a sequence of supersteps separated by barriers (gather), each superstep a set of concurrent jobs;
       a nested graph's run and a map are containers: unbounded map = all items concurrently, bounded map = a pool
       of w workers taking items from a queue.
   Any enabled transition may fire (an adversarial scheduler). Plain stdlib. *)
From HG Require Import Base.

Inductive phase := Wait | Run | Done.

Inductive job :=
| JLeaf
| JPar (js : list job)
| JSteps (ss : list (list job))
| JPool (w : nat) (js : list job).

Inductive jst :=
| TLeaf (p : phase)
| TPar (ts : list jst)
| TSteps (cur : list jst) (todo : list (list job))
| TPool (w : nat) (active : list jst) (queue : list job).

Fixpoint start (j : job) : jst :=
  match j with
  | JLeaf => TLeaf Wait
  | JPar js => TPar (map start js)
  | JSteps ss => match ss with [] => TSteps [] [] | s :: rest => TSteps (map start s) rest end
  | JPool w js => TPool w (firstn w (map start js)) (skipn w js)
  end.

Fixpoint finalb (t : jst) : bool :=
  match t with
  | TLeaf Done => true
  | TLeaf _ => false
  | TPar ts => forallb finalb ts
  | TSteps cur todo => forallb finalb cur && match todo with [] => true | _ => false end
  | TPool _ act q => forallb finalb act && match q with [] => true | _ => false end
  end.

Fixpoint running (t : jst) : nat :=
  match t with
  | TLeaf Run => 1
  | TLeaf _ => 0
  | TPar ts => list_sum (map running ts)
  | TSteps cur _ => list_sum (map running cur)
  | TPool _ act _ => list_sum (map running act)
  end.

(* a configuration: the job tree and the number of free permits *)
Inductive step : jst * nat -> jst * nat -> Prop :=
| s_acquire f : step (TLeaf Wait, S f) (TLeaf Run, f)
| s_release f : step (TLeaf Run, f) (TLeaf Done, S f)
| s_par l1 x l2 x' f f' :
    step (x, f) (x', f') -> step (TPar (l1 ++ x :: l2), f) (TPar (l1 ++ x' :: l2), f')
| s_steps_in l1 x l2 todo x' f f' :
    step (x, f) (x', f') -> step (TSteps (l1 ++ x :: l2) todo, f) (TSteps (l1 ++ x' :: l2) todo, f')
| s_steps_next cur s todo f :
    forallb finalb cur = true -> step (TSteps cur (s :: todo), f) (TSteps (map start s) todo, f)
| s_pool_in w l1 x l2 q x' f f' :
    step (x, f) (x', f') -> step (TPool w (l1 ++ x :: l2) q, f) (TPool w (l1 ++ x' :: l2) q, f')
| s_pool_next w l1 x l2 j q f :
    finalb x = true -> step (TPool w (l1 ++ x :: l2) (j :: q), f) (TPool w (l1 ++ start j :: l2) q, f).

(* well-formed jobs: a pool has at least one worker (num_workers = min(max_concurrency, n) >= 1) *)
Fixpoint wfj (j : job) : bool :=
  match j with
  | JLeaf => true
  | JPar js => forallb wfj js
  | JSteps ss => forallb (forallb wfj) ss
  | JPool w js => Nat.ltb 0 w && forallb wfj js
  end.

(* the measure that every transition decreases *)
Fixpoint mu_j (j : job) : nat :=
  match j with
  | JLeaf => 2
  | JPar js => list_sum (map mu_j js)
  | JSteps ss => list_sum (map (fun s => S (list_sum (map mu_j s))) ss)
  | JPool _ js => list_sum (map (fun j => S (mu_j j)) js)
  end.

Fixpoint mu (t : jst) : nat :=
  match t with
  | TLeaf Wait => 2
  | TLeaf Run => 1
  | TLeaf Done => 0
  | TPar ts => list_sum (map mu ts)
  | TSteps cur todo => list_sum (map mu cur) + list_sum (map (fun s => S (list_sum (map mu_j s))) todo)
  | TPool _ act q => list_sum (map mu act) + list_sum (map (fun j => S (mu_j j)) q)
  end.

