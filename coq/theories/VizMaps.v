(* VizMaps.v — the producer / consumer maps by visibility that the renderer routes edges with (property C20).
   Restates viz/_common.py: is_descendant_of, get_nesting_depth, build_param_to_consumer_map (mode "all"),
   build_output_to_producer_map, over the flat node list of Viz.v, and proves what the maps contain. *)
From HG Require Import Base Viz VizProofs.

(* is_descendant_of(node, ancestor): ancestor is a proper, non-empty prefix of the node's id *)
Definition is_desc (n anc : nid) : bool := memn anc (ancestors n).

(* build_param_to_consumer_map(flat_graph, state, use_deepest): the nodes listing p among their inputs (visible ones only,
   unless use_deepest), minus those that have another listed consumer below them *)
Definition raw_consumers (fl : list fnode) (st : xstate) (deepest : bool) (p : name) : list nid :=
  map f_id (filter (fun f => memp p (f_ins f) && (deepest || vis st (f_id f))) fl).

Definition superseded (cs : list nid) (c : nid) : bool :=
  existsb (fun o => negb (nid_eqb o c) && is_desc o c) cs.

Definition consumers (fl : list fnode) (st : xstate) (deepest : bool) (p : name) : list nid :=
  let cs := raw_consumers fl st deepest p in
  match cs with
  | [] | [_] => cs
  | _ => filter (fun c => negb (superseded cs c)) cs
  end.

(* build_output_to_producer_map: the first listed producer of maximal nesting depth *)
Definition better (cur : option nid) (n : nid) : option nid :=
  match cur with
  | None => Some n
  | Some e => if Nat.ltb (level e) (level n) then Some n else Some e
  end.

Definition producer (fl : list fnode) (st : xstate) (deepest : bool) (o : name) : option nid :=
  fold_left (fun cur f => if memp o (f_outs f) && (deepest || vis st (f_id f)) then better cur (f_id f) else cur) fl None.

(* all parameter / output names of a flat graph, for the comparison with the real maps *)
Definition all_params (fl : list fnode) : list name := flat_map f_ins fl.
Definition all_outs (fl : list fnode) : list name := flat_map f_outs fl.

Fixpoint nids_eqb (a b : list nid) : bool :=
  match a, b with
  | [], [] => true
  | x :: a', y :: b' => nid_eqb x y && nids_eqb a' b'
  | _, _ => false
  end.

Definition consumer_map_ok (fl : list fnode) (st : xstate) (deepest : bool) (real : list (name * list nid)) : bool :=
  forallb (fun p => match find (fun kv => Pos.eqb (fst kv) p) real with
                    | Some kv => nids_eqb (consumers fl st deepest p) (snd kv)
                    | None => match consumers fl st deepest p with [] => true | _ => false end
                    end) (all_params fl) &&
  forallb (fun kv => memp (fst kv) (all_params fl)) real.

Definition producer_map_ok (fl : list fnode) (st : xstate) (deepest : bool) (real : list (name * nid)) : bool :=
  forallb (fun o => match find (fun kv => Pos.eqb (fst kv) o) real, producer fl st deepest o with
                    | Some kv, Some n => nid_eqb n (snd kv)
                    | None, None => true
                    | _, _ => false
                    end) (all_outs fl) &&
  forallb (fun kv => memp (fst kv) (all_outs fl)) real.

(* ------------------------------------------------------------------ what the maps contain *)

Lemma is_desc_spec n anc : is_desc n anc = true <-> anc <> [] /\ exists r, r <> [] /\ n = anc ++ r.
Proof. unfold is_desc. rewrite memn_in. apply ancestors_spec. Qed.

Lemma raw_consumers_spec fl st deepest p c :
  In c (raw_consumers fl st deepest p) <->
  exists f, In f fl /\ f_id f = c /\ In p (f_ins f) /\ (deepest = true \/ vis st c = true).
Proof.
  unfold raw_consumers. rewrite in_map_iff. split.
  - intros [f [Hid Hin]]. apply filter_In in Hin as [Hin Hb]. apply andb_true_iff in Hb as [Hp Hv].
    apply memp_in in Hp. apply orb_true_iff in Hv. exists f. subst c. auto.
  - intros [f [Hin [Hid [Hp Hv]]]]. exists f. split; [exact Hid|]. apply filter_In. split; [exact Hin|].
    apply andb_true_iff. split; [apply memp_in; exact Hp | apply orb_true_iff; subst c; exact Hv].
Qed.

Lemma is_desc_irrefl n : is_desc n n = false.
Proof.
  destruct (is_desc n n) eqn:Ed; [|reflexivity]. apply is_desc_spec in Ed as [_ [r [Hr Hc]]]. exfalso. apply Hr.
  apply (f_equal (@length _)) in Hc. rewrite app_length in Hc. destruct r; [reflexivity | simpl in Hc; lia].
Qed.

(* every listed consumer really consumes the parameter (and is visible unless the deepest map is asked for) ... *)
Theorem consumers_sound fl st deepest p c :
  In c (consumers fl st deepest p) ->
  exists f, In f fl /\ f_id f = c /\ In p (f_ins f) /\ (deepest = true \/ vis st c = true).
Proof.
  unfold consumers. intros H. apply raw_consumers_spec.
  destruct (raw_consumers fl st deepest p) as [|a [|b l]] eqn:E; try exact H.
  apply filter_In in H as [H _]. exact H.
Qed.

(* ... no listed consumer encloses another listed consumer (a container is dropped in favour of what is inside it) ... *)
Theorem consumers_deepest fl st deepest p c d :
  In c (consumers fl st deepest p) -> In d (consumers fl st deepest p) -> is_desc d c = false.
Proof.
  unfold consumers. destruct (raw_consumers fl st deepest p) as [|a [|b l]] eqn:E.
  - intros [].
  - intros [Hc|[]] [Hd|[]]. subst c d. apply is_desc_irrefl.
  - intros Hc Hd. apply filter_In in Hc as [Hc Hsc]. apply filter_In in Hd as [Hd _].
    apply negb_true_iff in Hsc. unfold superseded in Hsc.
    destruct (is_desc d c) eqn:Ed; [|reflexivity]. exfalso.
    assert (Hex : existsb (fun o => negb (nid_eqb o c) && is_desc o c) (a :: b :: l) = true).
    { apply existsb_exists. exists d. split; [exact Hd|]. rewrite Ed, andb_true_r. apply negb_true_iff.
      apply nid_eqb_neq. intros ->. rewrite is_desc_irrefl in Ed. discriminate. }
    congruence.
Qed.

(* ... and nothing else is dropped: a consumer that encloses no other consumer is listed *)
Theorem consumers_complete fl st deepest p c :
  In c (raw_consumers fl st deepest p) ->
  (forall d, In d (raw_consumers fl st deepest p) -> d <> c -> is_desc d c = false) ->
  In c (consumers fl st deepest p).
Proof.
  unfold consumers. intros Hc Hno. destruct (raw_consumers fl st deepest p) as [|a [|b l]] eqn:E; try exact Hc.
  apply filter_In. split; [exact Hc|]. apply negb_true_iff. unfold superseded.
  apply not_true_is_false. intros Hex. apply existsb_exists in Hex as [d [Hd Hb]].
  apply andb_true_iff in Hb as [Hne Hdesc]. apply negb_true_iff, nid_eqb_neq in Hne.
  rewrite (Hno d Hd Hne) in Hdesc. discriminate.
Qed.

(* the producer map: a producer (visible unless deepest) of the name, of maximal nesting depth *)
Section Producer.
  Variables (st : xstate) (deepest : bool) (o : name).

  Definition okp (f : fnode) : bool := memp o (f_outs f) && (deepest || vis st (f_id f)).
  Definition pstep (cur : option nid) (f : fnode) : option nid := if okp f then better cur (f_id f) else cur.

  Lemma producer_unfold fl : producer fl st deepest o = fold_left pstep fl None.
  Proof. reflexivity. Qed.

  Lemma better_some cur n : exists m, better cur n = Some m /\ (m = n \/ cur = Some m) /\ level n <= level m /\
                                      (forall e, cur = Some e -> level e <= level m).
  Proof.
    unfold better. destruct cur as [e|].
    - destruct (Nat.ltb (level e) (level n)) eqn:El.
      + apply Nat.ltb_lt in El. exists n. repeat split; auto. intros e' [= ->]. lia.
      + apply Nat.ltb_ge in El. exists e. repeat split; auto. intros e' [= ->]. lia.
    - exists n. repeat split; auto. intros e' H. discriminate.
  Qed.

  Lemma fold_pstep fl : forall cur,
    match fold_left pstep fl cur with
    | None => cur = None /\ forall f, In f fl -> okp f = false
    | Some n =>
        (cur = Some n \/ exists f, In f fl /\ f_id f = n /\ okp f = true) /\
        (forall e, cur = Some e -> level e <= level n) /\
        (forall f, In f fl -> okp f = true -> level (f_id f) <= level n)
    end.
  Proof.
    induction fl as [|f fl IH]; intros cur; simpl.
    - destruct cur as [e|].
      + split; [left; reflexivity|]. split; [intros e' [= ->]; lia | intros f []].
      + split; [reflexivity | intros f []].
    - specialize (IH (pstep cur f)). destruct (fold_left pstep fl (pstep cur f)) as [n|].
      + destruct IH as [Hsrc [Hcur Hall]]. unfold pstep in Hsrc, Hcur. destruct (okp f) eqn:Eb.
        * destruct (better_some cur (f_id f)) as [m [Hm [Hmn [Hle Hce]]]]. rewrite Hm in Hsrc, Hcur.
          specialize (Hcur m eq_refl). split; [|split].
          -- destruct Hsrc as [Hs|[f' [Hin [Hid Hb]]]].
             ++ injection Hs as <-. destruct Hmn as [->|Hc]; [right; exists f; split; [left; reflexivity | auto] | left; exact Hc].
             ++ right. exists f'. split; [right; exact Hin | auto].
          -- intros e He. specialize (Hce e He). lia.
          -- intros f' [<-|Hin] Hb; [lia | apply Hall; assumption].
        * split; [|split].
          -- destruct Hsrc as [Hs|[f' [Hin [Hid Hb]]]]; [left; exact Hs | right; exists f'; split; [right; exact Hin | auto]].
          -- exact Hcur.
          -- intros f' [<-|Hin] Hb; [congruence | apply Hall; assumption].
      + destruct IH as [Hc Hall]. unfold pstep in Hc. destruct (okp f) eqn:Eb.
        * destruct (better_some cur (f_id f)) as [m [Hm _]]. congruence.
        * split; [exact Hc|]. intros f' [<-|Hin]; [exact Eb | apply Hall; exact Hin].
  Qed.

  Theorem producer_spec fl :
    match producer fl st deepest o with
    | None => forall f, In f fl -> In o (f_outs f) -> deepest = false /\ vis st (f_id f) = false
    | Some n =>
        (exists f, In f fl /\ f_id f = n /\ In o (f_outs f) /\ (deepest = true \/ vis st n = true)) /\
        (forall f, In f fl -> In o (f_outs f) -> (deepest = true \/ vis st (f_id f) = true) -> level (f_id f) <= level n)
    end.
  Proof.
    rewrite producer_unfold. pose proof (fold_pstep fl None) as H.
    destruct (fold_left pstep fl None) as [n|].
    - destruct H as [[Hc|[f [Hin [Hid Hb]]]] [_ Hall]]; [discriminate|]. split.
      + unfold okp in Hb. apply andb_true_iff in Hb as [Hp Hv]. apply memp_in in Hp. apply orb_true_iff in Hv.
        exists f. subst n. auto.
      + intros f' Hin' Ho Hv. apply Hall; [exact Hin'|]. unfold okp. apply andb_true_iff.
        split; [apply memp_in; exact Ho | apply orb_true_iff; exact Hv].
    - destruct H as [_ Hall]. intros f Hin Ho. specialize (Hall f Hin). unfold okp in Hall.
      apply andb_false_iff in Hall as [Hp|Hv].
      + exfalso. apply memp_in in Ho. congruence.
      + apply orb_false_iff in Hv. exact Hv.
  Qed.
End Producer.
