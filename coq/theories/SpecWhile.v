(* SpecWhile.v — the SPEC side of C04: plain sequential loops. *)
From HG Require Import Base.

(* while P x: x := f x    (fuel only bounds the Coq recursion; None = fuel exhausted) *)
Fixpoint while_sem (fuel : nat) (P : Z -> bool) (f : Z -> Z) (x : Z) (iters : nat) : option (Z * nat) :=
  match fuel with
  | O => None
  | S k => if P x then while_sem k P f (f x) (S iters) else Some (x, iters)
  end.

(* do x := f x while P x *)
Definition do_while_sem (fuel : nat) (P : Z -> bool) (f : Z -> Z) (x : Z) : option (Z * nat) :=
  while_sem fuel P f (f x) 1.

(* the loop families of harness/gen.py: the body adds m, the gate continues while x < bound *)
Definition family_loop (dowhile : bool) (m bound x0 : Z) : option (Z * nat) :=
  let P := fun x => Z.ltb x bound in
  let f := fun x => (x + m)%Z in
  let fuel := S (S (Z.to_nat (bound - x0 + m))) in
  if dowhile then do_while_sem fuel P f x0 else while_sem fuel P f x0 0.
