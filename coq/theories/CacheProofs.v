(* CacheProofs.v — the cache layer is safe (C09). *)
From HG Require Import Base Engine Cache.

(* ====================== InMemoryCache ====================== *)
Section LRUProofs.
  Context {K V : Type}.
  Variable keqb : K -> K -> bool.
  Hypothesis keqb_eq : forall a b, keqb a b = true <-> a = b.

  Lemma keqb_refl a : keqb a a = true. Proof. apply keqb_eq; reflexivity. Qed.
  Lemma keqb_neq a b : keqb a b = false <-> a <> b.
  Proof.
    destruct (keqb a b) eqn:E.
    - apply keqb_eq in E. split; [discriminate | congruence].
    - split; [|reflexivity]. intros _ H. apply keqb_eq in H. congruence.
  Qed.

  Notation lfind := (lfind keqb).
  Notation lremove := (lremove keqb).

  Lemma lfind_remove_same (c : @lru K V) k : lfind (lremove c k) k = None.
  Proof.
    induction c as [|[k' v] c IH]; simpl; [reflexivity|].
    destruct (keqb k' k) eqn:E; simpl; [exact IH | rewrite E; exact IH].
  Qed.

  Lemma lfind_remove_other (c : @lru K V) k k0 : k0 <> k -> lfind (lremove c k) k0 = lfind c k0.
  Proof.
    intros Hne. induction c as [|[k' v] c IH]; simpl; [reflexivity|].
    destruct (keqb k' k) eqn:E; simpl.
    - apply keqb_eq in E. subst k'. destruct (keqb k k0) eqn:E2; [apply keqb_eq in E2; congruence | exact IH].
    - destruct (keqb k' k0); [reflexivity | exact IH].
  Qed.

  Lemma lfind_app (a b : @lru K V) k : lfind (a ++ b) k = match lfind a k with Some v => Some v | None => lfind b k end.
  Proof. induction a as [|[k' v] a IH]; simpl; [reflexivity|]. destruct (keqb k' k); [reflexivity | exact IH]. Qed.

  Definition keys (c : @lru K V) : list K := map fst c.

  Lemma lremove_keys_notin (c : @lru K V) k : ~ In k (keys (lremove c k)).
  Proof.
    induction c as [|[k' v] c IH]; simpl; [tauto|]. destruct (keqb k' k) eqn:E; simpl; [exact IH|].
    intros [H|H]; [subst; rewrite keqb_refl in E; discriminate | contradiction].
  Qed.

  Lemma lremove_keys_incl (c : @lru K V) k x : In x (keys (lremove c k)) -> In x (keys c).
  Proof. unfold keys, lremove. intros H. apply in_map_iff in H as ([a b] & <- & H). apply filter_In in H as [H _].
    apply in_map_iff. exists (a, b). auto. Qed.

  Lemma lremove_nodup (c : @lru K V) k : NoDup (keys c) -> NoDup (keys (lremove c k)).
  Proof.
    induction c as [|[k' v] c IH]; simpl; intros H; [constructor|]. inversion H as [|? ? Hn Hd]; subst.
    destruct (keqb k' k); simpl; [auto|]. constructor; [|auto]. intros Hin. apply Hn. eapply lremove_keys_incl; eauto.
  Qed.

  Lemma lremove_length_lt (c : @lru K V) k v : lfind c k = Some v -> S (length (lremove c k)) <= length c.
  Proof.
    induction c as [|[k' v'] c IH]; simpl; [discriminate|]. destruct (keqb k' k) eqn:E; simpl.
    - intros _. pose proof (filter_length_le (fun kv : K * V => negb (keqb (fst kv) k)) c). unfold Cache.lremove. lia.
    - intros H. apply IH in H. lia.
  Qed.

  Lemma lremove_length_le (c : @lru K V) k : length (lremove c k) <= length c.
  Proof. apply filter_length_le. Qed.

  Lemma moved_nodup (c : @lru K V) k v : NoDup (keys c) -> NoDup (keys (lremove c k ++ [(k, v)])).
  Proof.
    intros H. unfold keys. rewrite map_app. apply NoDup_app_intro.
    - apply lremove_nodup; exact H.
    - simpl. constructor; [intros [] | constructor].
    - intros x Hx [<-|[]]. eapply lremove_keys_notin; eauto.
  Qed.

  Lemma lfind_tl (c : @lru K V) k v : NoDup (keys c) -> lfind (tl c) k = Some v -> lfind c k = Some v.
  Proof.
    destruct c as [|[k' v'] c]; simpl; [discriminate|]. intros Hnd H. inversion Hnd as [|? ? Hn _]; subst.
    destruct (keqb k' k) eqn:E; [|exact H]. apply keqb_eq in E. subst k'. exfalso. apply Hn.
    clear -H keqb_eq. induction c as [|[k2 v2] c IH]; simpl in *; [discriminate|].
    destruct (keqb k2 k) eqn:E; [apply keqb_eq in E; left; exact E | right; auto].
  Qed.

  Record LInv (max_size : option nat) (c : @lru K V) (h : list (@lop K V)) : Prop := {
    li_nodup : NoDup (keys c);
    li_size : forall m, max_size = Some m -> length c <= m;
    li_sound : forall k v, lfind c k = Some v -> last_set keqb h k = Some v }.

  Lemma LInv_step max_size c h o : LInv max_size c h -> LInv max_size (lru_step keqb max_size c o) (o :: h).
  Proof.
    intros [Hnd Hsz Hs]. destruct o as [k|k v]; simpl.
    - (* get *)
      unfold lru_get. destruct (lfind c k) as [v|] eqn:Ef; simpl; [|split; auto].
      split.
      + apply moved_nodup; exact Hnd.
      + intros m Hm. rewrite app_length. simpl. pose proof (lremove_length_lt c k v Ef). specialize (Hsz m Hm). lia.
      + intros k0 v0. rewrite lfind_app.
        destruct (keqb k k0) eqn:E.
        * apply keqb_eq in E. subst k0. rewrite lfind_remove_same. simpl. rewrite keqb_refl. intros [= <-]. apply Hs; exact Ef.
        * assert (k0 <> k) by (intros ->; rewrite keqb_refl in E; discriminate).
          rewrite lfind_remove_other by assumption. simpl. rewrite E.
          destruct (lfind c k0) eqn:E0; [intros [= <-]; apply Hs; exact E0 | discriminate].
    - (* set *)
      unfold lru_set.
      set (c1 := lremove c k ++ [(k, v)]).
      assert (Hnd1 : NoDup (keys c1)) by (apply moved_nodup; exact Hnd).
      assert (Hs1 : forall k0 v0, lfind c1 k0 = Some v0 -> (if keqb k k0 then Some v else last_set keqb h k0) = Some v0).
      { intros k0 v0. unfold c1. rewrite lfind_app. destruct (keqb k k0) eqn:E.
        - apply keqb_eq in E. subst k0. rewrite lfind_remove_same. simpl. rewrite keqb_refl. auto.
        - assert (k0 <> k) by (intros ->; rewrite keqb_refl in E; discriminate).
          rewrite lfind_remove_other by assumption. simpl. rewrite E.
          destruct (lfind c k0) eqn:E0; [intros [= <-]; apply Hs; exact E0 | discriminate]. }
      assert (Hl1 : length c1 <= S (length c)).
      { unfold c1. rewrite app_length. simpl. pose proof (lremove_length_le c k). lia. }
      destruct max_size as [m|].
      + destruct (Nat.ltb m (length c1)) eqn:El.
        * split.
          -- destruct c1 as [|x c1']; simpl; [constructor|]. simpl in Hnd1. inversion Hnd1; assumption.
          -- intros m' [= <-]. specialize (Hsz m eq_refl). destruct c1; simpl in *; lia.
          -- intros k0 v0 H. apply Hs1. apply lfind_tl; assumption.
        * split; [exact Hnd1 | | exact Hs1]. intros m' [= <-]. apply Nat.ltb_ge in El. exact El.
      + split; [exact Hnd1 | discriminate | exact Hs1].
  Qed.

  (* every reachable cache: no duplicate key, never more than max_size entries, and a hit returns the value
     of the latest set of that key (refinement of a partial map with arbitrary eviction) *)
  Theorem lru_reachable max_size ops :
    let c := fold_left (lru_step keqb max_size) ops [] in
    NoDup (keys c) /\ (forall m, max_size = Some m -> length c <= m) /\
    forall k v, fst (lru_get keqb c k) = Some v -> last_set keqb (rev ops) k = Some v.
  Proof.
    assert (G : forall ops c h, LInv max_size c h -> LInv max_size (fold_left (lru_step keqb max_size) ops c) (rev ops ++ h)).
    { induction ops0 as [|o ops0 IH]; intros c h HI; simpl; [exact HI|].
      rewrite <- app_assoc. simpl. apply IH. apply LInv_step. exact HI. }
    simpl. pose proof (G ops [] []) as H. rewrite app_nil_r in H.
    assert (H0 : LInv max_size (@nil (K * V)) []) by (split; [constructor | intros; simpl; lia | intros k v; discriminate]).
    destruct (H H0) as [A B C]. split; [exact A|]. split; [exact B|].
    intros k v Hg. unfold lru_get in Hg. destruct (lfind _ k) as [v'|] eqn:E; simpl in Hg; [|discriminate].
    injection Hg as <-. apply C. exact E.
  Qed.
End LRUProofs.

(* ====================== DiskCache ====================== *)
Section DiskProofs.
  Variable bytes tag : Type.
  Variable teqb : tag -> tag -> bool.
  Variable ser : val -> bytes.
  Variable deser : bytes -> option val.
  Variable mac : name -> bytes -> tag.
  Hypothesis teqb_eq : forall a b, teqb a b = true <-> a = b.
  Hypothesis deser_ser : forall v, deser (ser v) = Some v.
  Hypothesis mac_inj : forall k b k' b', mac k b = mac k' b' -> k = k' /\ b = b'.

  Notation disk := (disk bytes tag).
  Notation dop := (dop bytes tag).
  Notation disk_get := (disk_get bytes tag teqb deser mac).
  Notation disk_step := (disk_step bytes tag teqb ser deser mac).

  Lemma dget_ddel {X} (d : dict X) k k' : dget (ddel d k) k' = if Pos.eqb k k' then None else dget d k'.
  Proof.
    induction d as [|[k0 v0] d IH]; simpl; [destruct (Pos.eqb k k'); reflexivity|].
    destruct (Pos.eqb k0 k) eqn:E; simpl.
    - apply Pos.eqb_eq in E. subst k0. rewrite IH. destruct (Pos.eqb k k'); reflexivity.
    - rewrite IH. destruct (Pos.eqb k0 k') eqn:E2; [|reflexivity].
      apply Pos.eqb_eq in E2. subst k0. rewrite Pos.eqb_sym in E. rewrite E. reflexivity.
  Qed.

  (* the adversary cannot forge: a signature written by a fault is never a valid MAC of anything *)
  Definition op_ok (o : dop) : Prop :=
    match o with DAlterSig _ _ _ t => forall k b, t <> mac k b | _ => True end.

  (* every stored signature was written by a complete set of that key, or authenticates nothing *)
  Definition DInv (d : disk) (h : list dop) : Prop :=
    (forall k t, dget (d_sig _ _ d) k = Some (TStr _ t) ->
       (exists v, t = mac k (ser v) /\ In (DSet _ _ k v) h) \/ (forall k' b, t <> mac k' b)) /\
    (forall b, In b (d_loads _ _ d) -> exists k v, b = ser v /\ In (DSet _ _ k v) h).

  Lemma DInv_mono d h o : DInv d h -> DInv d (o :: h).
  Proof.
    intros [H1 H2]. split.
    - intros k t Hk. destruct (H1 k t Hk) as [(v & E & Hin)|Hn]; [left; exists v; split; [exact E | right; exact Hin] | right; exact Hn].
    - intros b Hb. destruct (H2 b Hb) as (k & v & E & Hin). exists k, v. split; [exact E | right; exact Hin].
  Qed.

  Lemma get_preserves d h k : DInv d h -> DInv (snd (disk_get d k)) h.
  Proof.
    intros [H1 H2]. unfold Cache.disk_get.
    destruct (dget (d_payload _ _ d) k) as [[b|]|] eqn:Ep; simpl; try (split; assumption).
    destruct (dget (d_sig _ _ d) k) as [[t|]|] eqn:Es; simpl.
    - destruct (teqb t (mac k b)) eqn:Et.
      + apply teqb_eq in Et. subst t.
        assert (Hb : exists k0 v, b = ser v /\ In (DSet _ _ k0 v) h).
        { destruct (H1 k _ Es) as [(v & E & Hin)|Hn]; [|exfalso; eapply Hn; reflexivity].
          apply mac_inj in E as [_ ->]. eauto. }
        destruct (deser b); simpl; split; simpl; auto.
        * intros b0 [<-|Hin]; auto.
        * intros k0 t0. rewrite dget_ddel. destruct (Pos.eqb k k0); [discriminate | apply H1].
        * intros b0 [<-|Hin]; auto.
      + split; simpl; [|exact H2]. intros k0 t0. rewrite dget_ddel. destruct (Pos.eqb k k0); [discriminate | apply H1].
    - split; simpl; [|exact H2]. intros k0 t0. rewrite dget_ddel. destruct (Pos.eqb k k0); [discriminate | apply H1].
    - split; simpl; assumption.
  Qed.

  Lemma DInv_step d h o : op_ok o -> DInv d h -> DInv (disk_step d o) (o :: h).
  Proof.
    intros Hok HI. destruct o as [k v|k v|k|k b|k|k t|k|k|k]; simpl.
    - (* complete set *)
      destruct HI as [H1 H2]. split; simpl.
      + intros k0 t0. rewrite dget_dset. destruct (Pos.eqb k k0) eqn:E.
        * apply Pos.eqb_eq in E. subst k0. intros [= <-]. left. exists v. split; [reflexivity | left; reflexivity].
        * intros Hk. destruct (H1 k0 t0 Hk) as [(v0 & E0 & Hin)|Hn]; [left; exists v0; split; [exact E0 | right; exact Hin] | right; exact Hn].
      + intros b Hb. destruct (H2 b Hb) as (k0 & v0 & E & Hin). exists k0, v0. split; [exact E | right; exact Hin].
    - apply DInv_mono. destruct HI as [H1 H2]. split; simpl; assumption.
    - apply DInv_mono. apply get_preserves. exact HI.
    - apply DInv_mono. destruct HI as [H1 H2]. destruct (dget (d_payload _ _ d) k); split; simpl; assumption.
    - apply DInv_mono. destruct HI as [H1 H2]. destruct (dget (d_payload _ _ d) k); split; simpl; assumption.
    - apply DInv_mono. destruct HI as [H1 H2]. destruct (dget (d_sig _ _ d) k) eqn:Es; [|split; assumption].
      split; simpl; [|exact H2]. intros k0 t0. rewrite dget_dset. destruct (Pos.eqb k k0).
      + intros [= <-]. right. exact Hok.
      + apply H1.
    - apply DInv_mono. destruct HI as [H1 H2]. destruct (dget (d_sig _ _ d) k) eqn:Es; [|split; assumption].
      split; simpl; [|exact H2]. intros k0 t0. rewrite dget_dset. destruct (Pos.eqb k k0); [discriminate | apply H1].
    - apply DInv_mono. destruct HI as [H1 H2]. split; simpl; [|exact H2].
      intros k0 t0. rewrite dget_ddel. destruct (Pos.eqb k k0); [discriminate | apply H1].
    - apply DInv_mono. destruct HI as [H1 H2]. split; simpl; assumption.
  Qed.

  Theorem disk_reachable ops :
    Forall op_ok ops -> DInv (fold_left disk_step ops (disk_empty bytes tag)) (rev ops).
  Proof.
    assert (G : forall ops d h, Forall op_ok ops -> DInv d h -> DInv (fold_left disk_step ops d) (rev ops ++ h)).
    { induction ops0 as [|o ops0 IH]; intros d h Hok HI; simpl; [exact HI|].
      inversion Hok as [|? ? Ho Hok']; subst. rewrite <- app_assoc. simpl. apply IH; [exact Hok'|].
      apply DInv_step; assumption. }
    intros Hok. pose proof (G ops (disk_empty bytes tag) [] Hok) as H. rewrite app_nil_r in H. apply H.
    split; simpl; [intros k t; discriminate | intros b []].
  Qed.

  (* whatever was set, half set, altered, truncated, retyped or dropped: a hit returns a value stored by a
     complete set of that very key, and only authenticated bytes are ever deserialised *)
  Theorem disk_get_safe ops k v :
    Forall op_ok ops ->
    let d := fold_left disk_step ops (disk_empty bytes tag) in
    fst (disk_get d k) = Hit v -> In (DSet _ _ k v) (rev ops).
  Proof.
    intros Hok d Hg. pose proof (disk_reachable ops Hok) as [H1 _]. fold d in H1.
    unfold Cache.disk_get in Hg.
    destruct (dget (d_payload _ _ d) k) as [[b|]|]; simpl in Hg; try discriminate.
    destruct (dget (d_sig _ _ d) k) as [[t|]|] eqn:Es; simpl in Hg; try discriminate.
    destruct (teqb t (mac k b)) eqn:Et; [|discriminate]. apply teqb_eq in Et. subst t.
    destruct (H1 k _ Es) as [(v' & E & Hin)|Hn]; [|exfalso; eapply Hn; reflexivity].
    apply mac_inj in E as [_ ->]. rewrite deser_ser in Hg. simpl in Hg. injection Hg as <-. exact Hin.
  Qed.

  Theorem disk_loads_authentic ops b :
    Forall op_ok ops ->
    In b (d_loads _ _ (fold_left disk_step ops (disk_empty bytes tag))) ->
    exists k v, b = ser v /\ In (DSet _ _ k v) (rev ops).
  Proof. intros Hok Hb. destruct (disk_reachable ops Hok) as [_ H2]. apply H2. exact Hb. Qed.
End DiskProofs.

(* ====================== caching is transparent at every call ====================== *)
Section CachedExec.
  Variable ckeyT : Type.
  Variable ckeqb : ckeyT -> ckeyT -> bool.
  Variable exec : node -> state -> dict val -> outcome.
  Variable ckey : node -> dict val -> option ckeyT.     (* None: node not cacheable, or inputs not picklable *)

  Definition centry := (dict val * option (option decision))%type.
  Definition ccache := list (ckeyT * centry).

  Definition exec_cached (c : ccache) (n : node) (st : state) (ins : dict val) : outcome * ccache :=
    match ckey n ins with
    | None => (exec n st ins, c)
    | Some k =>
        match lfind ckeqb c k with
        | Some (outs, dec) => (OOk outs dec, c)               (* hit: the function is not invoked *)
        | None => match exec n st ins with
                  | OOk outs dec => (OOk outs dec, (k, (outs, dec)) :: c)
                  | other => (other, c)
                  end
        end
    end.

  (* an entry is only ever what the executor returns for every call that maps to its key *)
  Definition cvalid (c : ccache) : Prop :=
    forall k outs dec, lfind ckeqb c k = Some (outs, dec) ->
      forall n st ins, ckey n ins = Some k -> exec n st ins = OOk outs dec.

  Hypothesis ckeqb_eq : forall a b, ckeqb a b = true <-> a = b.
  (* key soundness + determinism: equal keys mean the same definition, the same arguments to the same original
     parameters and the same output names, hence the same outcome whatever the run state *)
  Hypothesis ckey_sound : forall n st ins n' st' ins' k,
    ckey n ins = Some k -> ckey n' ins' = Some k -> exec n st ins = exec n' st' ins'.

  Theorem cached_call_transparent c n st ins :
    cvalid c ->
    fst (exec_cached c n st ins) = exec n st ins /\ cvalid (snd (exec_cached c n st ins)).
  Proof.
    intros Hv. unfold exec_cached. destruct (ckey n ins) as [k|] eqn:Ek; [|split; [reflexivity | exact Hv]].
    destruct (lfind ckeqb c k) as [[outs dec]|] eqn:Ef; simpl.
    - split; [symmetry; eapply Hv; eauto | exact Hv].
    - destruct (exec n st ins) as [outs dec|e|p] eqn:Ee; simpl; try (split; [reflexivity | exact Hv]).
      split; [reflexivity|]. intros k0 outs0 dec0 H n0 st0 ins0 Hk0. simpl in H.
      destruct (ckeqb k k0) eqn:E.
      + apply ckeqb_eq in E. subst k0. injection H as <- <-. rewrite <- Ee. eapply ckey_sound; eauto.
      + eapply Hv; eauto.
  Qed.

  (* eviction (any sub-cache) keeps validity *)
  Theorem cvalid_evict c c' :
    (forall k e, lfind ckeqb c' k = Some e -> lfind ckeqb c k = Some e) -> cvalid c -> cvalid c'.
  Proof. intros Hsub Hv k outs dec H. apply Hv. apply Hsub. exact H. Qed.

  (* once stored and while retained, the same call is a hit: no invocation *)
  Theorem cached_no_recompute c n st ins k outs dec :
    ckey n ins = Some k -> lfind ckeqb c k = Some (outs, dec) ->
    exec_cached c n st ins = (OOk outs dec, c).
  Proof. intros Hk Hf. unfold exec_cached, ccache, centry in *. rewrite Hk. rewrite Hf. reflexivity. Qed.
End CachedExec.
