(* CacheInterrupt.v — a cacheable interrupt: the cache is bypassed when the caller supplied the response.
   Restates runners/async_/superstep.py: _is_resuming_interrupt and the guard around check_cache / store_in_cache in
   run_superstep_async.execute_one (repository fix 16c8ea9).
   An interrupt's outcome depends on the run STATE (the resume path returns the supplied response), so the hypothesis of
   CacheProofs.cached_call_transparent - equal keys, equal outcomes whatever the state - is false for it; with the bypass
   the weaker hypothesis (key-determined outcomes for calls that are NOT resuming) suffices.  *)
From HG Require Import Base Rename Engine Exec Nested Cache CacheProofs.
From stdpp Require Import gmap.

Definition data_outs (n : node) : list name := firstn (n_ndata n) (n_outputs n).

Definition resuming (n : node) (st : state) : bool :=
  is_interrupt_node n &&
  match execs st !! n_name n with None => true | Some _ => false end &&
  negb (match data_outs n with [] => true | _ => false end) &&
  forallb (fun o => match vals st !! o with Some _ => true | None => false end) (data_outs n).

Section Bypass.
  Variable ckeyT : Type.
  Variable ckeqb : ckeyT -> ckeyT -> bool.
  Variable exec : node -> state -> dict val -> outcome.
  Variable ckey : node -> dict val -> option ckeyT.

  Notation exec_cached := (exec_cached ckeyT ckeqb exec ckey).
  Notation ccache := (ccache ckeyT).

  Definition exec_cached_b (c : ccache) (n : node) (st : state) (ins : dict val) : outcome * ccache :=
    if resuming n st then (exec n st ins, c) else exec_cached c n st ins.

  (* an entry is what the executor returns for every NON-resuming call that maps to its key *)
  Definition cvalid_b (c : ccache) : Prop :=
    forall k outs dec, lfind ckeqb c k = Some (outs, dec) ->
      forall n st ins, resuming n st = false -> ckey n ins = Some k -> exec n st ins = OOk outs dec.

  Hypothesis ckeqb_eq : forall a b, ckeqb a b = true <-> a = b.
  Hypothesis ckey_sound_b : forall n st ins n' st' ins' k,
    resuming n st = false -> resuming n' st' = false ->
    ckey n ins = Some k -> ckey n' ins' = Some k -> exec n st ins = exec n' st' ins'.

  Theorem cached_call_transparent_b c n st ins :
    cvalid_b c ->
    fst (exec_cached_b c n st ins) = exec n st ins /\ cvalid_b (snd (exec_cached_b c n st ins)).
  Proof.
    intros Hv. unfold exec_cached_b. destruct (resuming n st) eqn:Er; [split; [reflexivity | exact Hv]|].
    unfold CacheProofs.exec_cached. destruct (ckey n ins) as [k|] eqn:Ek; [|split; [reflexivity | exact Hv]].
    destruct (lfind ckeqb c k) as [[outs dec]|] eqn:Ef; simpl.
    - split; [symmetry; eapply Hv; eauto | exact Hv].
    - destruct (exec n st ins) as [outs dec|e|p] eqn:Ee; simpl; try (split; [reflexivity | exact Hv]).
      split; [reflexivity|]. intros k0 outs0 dec0 H n0 st0 ins0 Hr0 Hk0. simpl in H.
      destruct (ckeqb k k0) eqn:E.
      + apply ckeqb_eq in E. subst k0. injection H as <- <-. rewrite <- Ee. eapply ckey_sound_b; eauto.
      + eapply Hv; eauto.
  Qed.

  (* a supplied response is neither looked up nor stored *)
  Theorem resuming_leaves_cache c n st ins :
    resuming n st = true -> exec_cached_b c n st ins = (exec n st ins, c).
  Proof. intros H. unfold exec_cached_b. rewrite H. reflexivity. Qed.

  (* whole histories: any sequence of calls through the cache returns what the executor returns *)
  Fixpoint run_calls (c : ccache) (calls : list (node * state * dict val)) : list outcome * ccache :=
    match calls with
    | [] => ([], c)
    | (n, st, ins) :: rest =>
        let (o, c') := exec_cached_b c n st ins in
        let (os, c'') := run_calls c' rest in (o :: os, c'')
    end.

  Theorem history_transparent calls : forall c,
    cvalid_b c ->
    fst (run_calls c calls) = map (fun x => match x with (n, st, ins) => exec n st ins end) calls /\
    cvalid_b (snd (run_calls c calls)).
  Proof.
    induction calls as [|[[n st] ins] rest IH]; intros c Hv; [split; [reflexivity | exact Hv]|].
    cbn [run_calls map]. destruct (cached_call_transparent_b c n st ins Hv) as [H1 H2].
    destruct (exec_cached_b c n st ins) as [o c'] eqn:E. cbn [fst snd] in H1, H2.
    destruct (IH c' H2) as [H3 H4]. destruct (run_calls c' rest) as [os c'']. cbn [fst snd] in *.
    split; [rewrite H1, H3; reflexivity | exact H4].
  Qed.

  Lemma cvalid_b_empty : cvalid_b [].
  Proof. intros k outs dec H. discriminate. Qed.
End Bypass.

(* ---- the pre-fix behaviour is refuted on the model's own interrupt executor; the repaired one passes ---- *)
Local Open Scope positive_scope.
Definition ask : node := mk_node 15 [31] [32] 1 [] [] [] KInterrupt 7.          (* I(a) -> d, handler fn 7 *)
Definition ft0 : dict fexp := [(7, FConst VNone)].                              (* the handler pauses *)
Definition st_with (d : val) : state := mk_state {[ 32 := d; 31 := VInt 2 ]} ∅ ∅ ∅.
Definition st_none : state := mk_state {[ 31 := VInt 2 ]} ∅ ∅ ∅.
Definition key1 (n : node) (ins : dict val) : option positive := Some 1.      (* equal inputs, one definition: one key *)
Definition ins0 : dict val := [(31, VInt 2)].

Example legacy_cached_interrupt_refuted :
  let exec := exec_interrupt ft0 in
  let c1 := snd (CacheProofs.exec_cached positive Pos.eqb exec key1 [] ask (st_with (VStr 1)) ins0) in   (* answered "yes" *)
  fst (CacheProofs.exec_cached positive Pos.eqb exec key1 c1 ask (st_with (VStr 2)) ins0)               (* answered "no" *)
    = OOk [(32, VStr 1)] None /\                                                                        (* ... got "yes" *)
  exec ask (st_with (VStr 2)) ins0 = OOk [(32, VStr 2)] None /\
  (exists p, exec ask st_none ins0 = OPause p) /\                                                       (* unanswered: pauses *)
  fst (CacheProofs.exec_cached positive Pos.eqb exec key1 c1 ask st_none ins0) = OOk [(32, VStr 1)] None. (* ... completed *)
Proof. vm_compute. repeat split; try reflexivity. eexists; reflexivity. Qed.

Example repaired_cached_interrupt :
  let exec := exec_interrupt ft0 in
  let c1 := snd (exec_cached_b positive Pos.eqb exec key1 [] ask (st_with (VStr 1)) ins0) in
  c1 = [] /\
  fst (exec_cached_b positive Pos.eqb exec key1 c1 ask (st_with (VStr 2)) ins0) = OOk [(32, VStr 2)] None /\
  (exists p, fst (exec_cached_b positive Pos.eqb exec key1 c1 ask st_none ins0) = OPause p).
Proof. vm_compute. repeat split; try reflexivity. eexists; reflexivity. Qed.

(* ---- histories of runs of the chain A(x) -> a ; I(a) -> d (cacheable or not), as the harness drives them ---- *)
From HG Require Import CheckLib.
Definition hist_call (a : Z) (resp : option val) : node * state * dict val :=
  (ask,
   mk_state (match resp with Some d => {[ 32 := d; 31 := VInt a ]} | None => {[ 31 := VInt a ]} end) ∅ ∅ ∅,
   [(31, VInt a)]).
Definition key_a (cached : bool) (n : node) (ins : dict val) : option positive :=
  if cached then match dget ins 31 with Some (VInt z) => Some (Z.to_pos (z + 1)) | _ => None end else None.
Definition out_code (o : outcome) : nat * option val :=
  match o with OOk outs _ => (0%nat, dget outs 32) | ORaise _ => (1%nat, None) | OPause _ => (2%nat, None) end.
Definition hist_obs (cached : bool) (handler : val) (calls : list (Z * option val)) : list (nat * option val) :=
  map out_code (fst (run_calls positive Pos.eqb (exec_interrupt [(7, FConst handler)]) (key_a cached) []
                       (map (fun c => hist_call (fst c) (snd c)) calls))).
Definition hist_obs_eqb (a b : list (nat * option val)) : bool :=
  list_eqb (fun x y => Nat.eqb (fst x) (fst y) && opt_eqb val_eqb (snd x) (snd y)) a b.

Example hist_obs_example :
  hist_obs true VNone [(2%Z, Some (VStr 1)); (2%Z, Some (VStr 2)); (2%Z, None)]
  = [(0%nat, Some (VStr 1)); (0%nat, Some (VStr 2)); (2%nat, None)].
Proof. vm_compute. reflexivity. Qed.
