(* Viz.v — structure that a drawing of a graph has to show (property C20).

   Restates, as total Gallina functions,
     graph/core.py   Graph.to_flat_graph / _flatten_nodes / _flatten_edges / _build_hierarchical_id
     viz/_common.py  is_node_visible, build_expansion_state / is_node_expanded,
                     enumerate_valid_expansion_states, expansion_state_to_key (as a set of states)
   and defines the *specification* side of C20: the dependencies of a nested graph at the
   finest granularity (deps), their visible representatives in an expansion state, and the
   checker [viz_problems] that decides whether a drawing (interactive nodesByState/edgesByState
   entry, or a parsed Mermaid diagram) is self-consistent and faithful.

   The renderer itself (viz/renderer/*.py, viz/mermaid.py) is NOT modelled: every drawing it
   produces is validated by the checker, whose meaning is the declarative predicate [Faithful]
   (VizProofs.v: viz_problems ... = [] <-> Faithful ...).  Plain stdlib. *)
From HG Require Import Base.

(* ------------------------------------------------------------------ ids *)

(* A hierarchical id "a/b/c" is the path [a; b; c] of node names from the root.
   ('/' and '.' are rejected in graph names and node names are identifiers, see
   VizProofs.join_inj for why the string form is injective.) *)
Definition nid := list positive.

Fixpoint nid_eqb (a b : nid) : bool :=
  match a, b with
  | [], [] => true
  | x :: a', y :: b' => Pos.eqb x y && nid_eqb a' b'
  | _, _ => false
  end.

Fixpoint is_prefix (a b : nid) : bool :=      (* a is a (not necessarily proper) prefix of b *)
  match a, b with
  | [], _ => true
  | x :: a', y :: b' => Pos.eqb x y && is_prefix a' b'
  | _ :: _, [] => false
  end.

(* the enclosing containers of a node, outermost first: the non-empty proper prefixes of its id *)
Fixpoint ancestors_from (pre : nid) (rest : nid) : list nid :=
  match rest with
  | [] => []
  | [_] => []
  | x :: rest' => (pre ++ [x]) :: ancestors_from (pre ++ [x]) rest'
  end.
Definition ancestors (n : nid) : list nid := ancestors_from [] n.

Definition parent_of (n : nid) : option nid :=
  match n with
  | [] | [_] => None
  | _ => Some (removelast n)
  end.

Definition level (n : nid) : nat := pred (length n).     (* get_nesting_depth *)

Fixpoint memn (x : nid) (l : list nid) : bool :=
  match l with [] => false | y :: l' => nid_eqb x y || memn x l' end.

Fixpoint memp (x : positive) (l : list positive) : bool :=
  match l with [] => false | y :: l' => Pos.eqb x y || memp x l' end.

(* ------------------------------------------------------------------ nested graphs *)

Inductive ekind := KData | KControl | KOrdering.

Definition ekind_eqb (a b : ekind) : bool :=
  match a, b with
  | KData, KData | KControl, KControl | KOrdering, KOrdering => true
  | _, _ => false
  end.

(* an edge of one nesting level: (source name, target name, kind, value names) — Graph.nx_graph *)
Definition tedge := (name * name * ekind * list name)%type.

(* One node of a (nested) graph as the public API shows it:
     nm    node.name                      isg   node.nested_graph is not None
     ins   node.inputs                    outs  node.outputs
     inm   GraphNode: current input name  -> name inside the nested graph (with_inputs renames)
     outm  GraphNode: current output name -> name inside the nested graph (with_outputs renames)
     hend  a gate that lists END among its targets
     ch    the nested graph's nodes       es    the nested graph's edges *)
Inductive tnode :=
  TN (nm : name) (isg : bool) (ins outs : list name) (inm outm : list (name * name))
     (hend : bool) (ch : list tnode) (es : list tedge).

Definition t_name (t : tnode) := match t with TN nm _ _ _ _ _ _ _ _ => nm end.
Definition t_isg (t : tnode) := match t with TN _ g _ _ _ _ _ _ _ => g end.
Definition t_ins (t : tnode) := match t with TN _ _ i _ _ _ _ _ _ => i end.
Definition t_outs (t : tnode) := match t with TN _ _ _ o _ _ _ _ _ => o end.
Definition t_inm (t : tnode) := match t with TN _ _ _ _ m _ _ _ _ => m end.
Definition t_outm (t : tnode) := match t with TN _ _ _ _ _ m _ _ _ => m end.
Definition t_end (t : tnode) := match t with TN _ _ _ _ _ _ e _ _ => e end.
Definition t_ch (t : tnode) := match t with TN _ _ _ _ _ _ _ c _ => c end.
Definition t_es (t : tnode) := match t with TN _ _ _ _ _ _ _ _ e => e end.

Fixpoint find_t (n : name) (ts : list tnode) : option tnode :=
  match ts with
  | [] => None
  | t :: ts' => if Pos.eqb n (t_name t) then Some t else find_t n ts'
  end.

Fixpoint map_name (m : list (name * name)) (v : name) : name :=
  match m with
  | [] => v
  | (a, b) :: m' => if Pos.eqb a v then b else map_name m' v
  end.

(* ------------------------------------------------------------------ flattening *)

(* Graph.to_flat_graph: one record per node of every nesting level *)
Record fnode := { f_id : nid; f_parent : option nid; f_isg : bool;
                  f_ins : list name; f_outs : list name; f_end : bool }.

Definition mk_fnode (pre : nid) (t : tnode) : fnode :=
  {| f_id := pre ++ [t_name t];
     f_parent := match pre with [] => None | _ => Some pre end;
     f_isg := t_isg t; f_ins := t_ins t; f_outs := t_outs t; f_end := t_end t |}.

(* _flatten_nodes: the node, then (recursively) the nodes of its nested graph — pre-order *)
Fixpoint flatten (pre : nid) (t : tnode) : list fnode :=
  match t with
  | TN nm _ _ _ _ _ _ ch _ => mk_fnode pre t :: flat_map (flatten (pre ++ [nm])) ch
  end.
Definition flatten_all (ts : list tnode) : list fnode := flat_map (flatten []) ts.

(* _flatten_edges / _add_nested_edges: the edges of a level with both ends translated to hierarchical ids *)
Definition fedge := (nid * nid * ekind * list name)%type.
Definition lift_edge (pre : nid) (e : tedge) : fedge :=
  match e with (u, v, k, vs) => (pre ++ [u], pre ++ [v], k, vs) end.
Fixpoint nested_edges (pre : nid) (t : tnode) : list fedge :=
  match t with
  | TN nm _ _ _ _ _ _ ch es => map (lift_edge (pre ++ [nm])) es ++ flat_map (nested_edges (pre ++ [nm])) ch
  end.
Definition flat_edges (ts : list tnode) (es : list tedge) : list fedge :=
  map (lift_edge []) es ++ flat_map (nested_edges []) ts.

(* path lookup in the nested structure *)
Fixpoint lookup (ts : list tnode) (p : nid) : option tnode :=
  match p with
  | [] => None
  | n :: p' =>
      match find_t n ts with
      | None => None
      | Some t => match p' with [] => Some t | _ => lookup (t_ch t) p' end
      end
  end.

(* ------------------------------------------------------------------ expansion states *)

(* an expansion state assigns expanded / collapsed to the GRAPH nodes; absent = collapsed *)
Definition xstate := list (nid * bool).

Fixpoint st_get (st : xstate) (n : nid) : bool :=      (* expansion_state.get(n, False) *)
  match st with
  | [] => false
  | (m, b) :: st' => if nid_eqb m n then b else st_get st' n
  end.

(* is_node_visible (hide=False): every enclosing container is expanded *)
Definition vis (st : xstate) (n : nid) : bool := forallb (st_get st) (ancestors n).

(* build_expansion_state / is_node_expanded: at depth d a container is expanded iff d > its nesting level *)
Definition state_of_depth (d : nat) (expandable : list nid) : xstate :=
  map (fun n => (n, Nat.ltb (level n) d)) expandable.

(* all assignments over the expandable nodes, in itertools.product([False, True], ...) order *)
Fixpoint all_states (l : list nid) : list xstate :=
  match l with
  | [] => [[]]
  | n :: l' => map (cons (n, false)) (all_states l') ++ map (cons (n, true)) (all_states l')
  end.

(* the validity walk of enumerate_valid_expansion_states: an expanded node needs every
   expandable ancestor expanded (node_to_parent chain) *)
Definition valid_state (st : xstate) : bool :=
  forallb (fun nb => negb (snd nb) || forallb (st_get st) (ancestors (fst nb))) st.

Definition enum_states (expandable : list nid) : list xstate :=
  filter valid_state (all_states expandable).

(* ------------------------------------------------------------------ dependencies *)

(* A chain lists, outermost first, the nodes through which one value reaches (or leaves) a leaf:
   the node named by an edge, then — while that node is a nested graph — the inner node that
   really consumes (produces) the value, with the name the value has at each level. *)
Definition chain := list (nid * name).

Definition or_self (me : nid * name) (sub : list chain) : list chain :=
  match sub with
  | [] => [[me]]
  | _ => map (cons me) sub
  end.

Fixpoint cons_chains (pre : nid) (v : name) (t : tnode) {struct t} : list chain :=
  match t with
  | TN nm isg _ _ inm _ _ ch _ =>
      let me := pre ++ [nm] in
      if isg then
        let v' := map_name inm v in
        or_self (me, v) (flat_map (fun c => if memp v' (t_ins c) then cons_chains me v' c else []) ch)
      else [[(me, v)]]
  end.

Fixpoint prod_chains (pre : nid) (v : name) (t : tnode) {struct t} : list chain :=
  match t with
  | TN nm isg _ _ _ outm _ ch _ =>
      let me := pre ++ [nm] in
      if isg then
        let v' := map_name outm v in
        or_self (me, v) (flat_map (fun c => if memp v' (t_outs c) then prod_chains me v' c else []) ch)
      else [[(me, v)]]
  end.

Record dep := { dp_kind : ekind; dp_val : name; dp_pc : chain; dp_cc : chain }.

Definition pairs {A B} (l1 : list A) (l2 : list B) : list (A * B) :=
  flat_map (fun a => map (fun b => (a, b)) l2) l1.

Definition edge_deps (me : nid) (ch : list tnode) (e : tedge) : list dep :=
  match e with
  | (u, v, k, vals) =>
      match find_t u ch, find_t v ch with
      | Some tu, Some tv =>
          match k with
          | KData =>
              flat_map (fun val =>
                          map (fun pc => {| dp_kind := KData; dp_val := val; dp_pc := fst pc; dp_cc := snd pc |})
                              (pairs (prod_chains me val tu) (cons_chains me val tv))) vals
          | _ => [{| dp_kind := k; dp_val := hd xH vals; dp_pc := [(me ++ [u], xH)]; dp_cc := [(me ++ [v], xH)] |}]
          end
      | _, _ => []
      end
  end.

Fixpoint deps_in (pre : nid) (t : tnode) : list dep :=
  match t with
  | TN nm _ _ _ _ _ _ ch es =>
      flat_map (edge_deps (pre ++ [nm]) ch) es ++ flat_map (deps_in (pre ++ [nm])) ch
  end.

(* every producer -> consumer dependency of the nested graph (ts = root nodes, es = root edges) *)
Definition all_deps (ts : list tnode) (es : list tedge) : list dep :=
  flat_map (edge_deps [] ts) es ++ flat_map (deps_in []) ts.

(* the consumers of a graph input *)
Definition input_chains (ts : list tnode) (p : name) : list chain :=
  flat_map (fun t => if memp p (t_ins t) then cons_chains [] p t else []) ts.

Definition ids (c : chain) : list nid := map fst c.
Definition vis_chain (st : xstate) (c : chain) : chain := filter (fun x => vis st (fst x)) c.
Definition last_id (c : chain) : nid := last (ids c) [].

Fixpoint memc (x : nid * name) (c : chain) : bool :=
  match c with [] => false | y :: c' => (nid_eqb (fst x) (fst y) && Pos.eqb (snd x) (snd y)) || memc x c' end.

(* ------------------------------------------------------------------ drawings *)

Inductive dkind :=
| DReal (n : nid)                    (* a node of the graph (function, gate, container) *)
| DData (src : nid) (out : name)     (* the DATA node of one output of a node *)
| DInput (ps : list name)            (* INPUT / INPUT_GROUP node for these graph inputs *)
| DEnd.                              (* the END node *)

Record dnode := { d_key : positive; d_kind : dkind; d_hidden : bool }.

Inductive etype := TInput | TData | TControl | TOrdering | TEnd | TOutput | TSolid.
(* TSolid: a Mermaid solid arrow, which may stand for a data, a control or an output edge *)

Record dedge := { e_src : positive; e_tgt : positive; e_ty : etype }.

Record drawing := { dnodes : list dnode; dedges : list dedge }.

Record vmode := { separate : bool;        (* outputs drawn as separate DATA nodes *)
                  inputs_complete : bool   (* every consumer of a graph input must get an input edge *) }.

Fixpoint find_key (k : positive) (l : list dnode) : option dnode :=
  match l with
  | [] => None
  | d :: l' => if Pos.eqb k (d_key d) then Some d else find_key k l'
  end.

Definition shown_real (dn : list dnode) (k : positive) : option nid :=
  match find_key k dn with
  | Some d => if d_hidden d then None else match d_kind d with DReal n => Some n | _ => None end
  | None => None
  end.

Definition shown_data (dn : list dnode) (k : positive) : option (nid * name) :=
  match find_key k dn with
  | Some d => if d_hidden d then None else match d_kind d with DData s o => Some (s, o) | _ => None end
  | None => None
  end.

Definition is_input (dn : list dnode) (k : positive) : option (list name) :=
  match find_key k dn with
  | Some d => match d_kind d with DInput ps => Some ps | _ => None end
  | None => None
  end.

Definition is_end (dn : list dnode) (k : positive) : bool :=
  match find_key k dn with
  | Some d => match d_kind d with DEnd => negb (d_hidden d) | _ => false end
  | None => false
  end.

Definition ty_data (t : etype) := match t with TData | TSolid => true | _ => false end.
Definition ty_control (t : etype) := match t with TControl | TSolid => true | _ => false end.
Definition ty_ordering (t : etype) := match t with TOrdering => true | _ => false end.
Definition ty_output (t : etype) := match t with TOutput | TSolid => true | _ => false end.
Definition ty_of (k : ekind) : etype -> bool :=
  match k with KData => ty_data | KControl => ty_control | KOrdering => ty_ordering end.

(* target test of a control / ordering dependency: the node itself or, when the node is an
   expanded container, a node drawn inside it *)
Definition at_or_inside (t0 t : nid) : bool := is_prefix t0 t.

(* --- one dependency is drawn (between visible representatives) *)

Definition drawn_merged (D : drawing) (ps cs : chain) : bool :=
  existsb (fun e => ty_data (e_ty e) &&
                    match shown_real (dnodes D) (e_src e), shown_real (dnodes D) (e_tgt e) with
                    | Some s, Some t => memn s (ids ps) && memn t (ids cs)
                    | _, _ => false
                    end) (dedges D).

Definition drawn_separate (D : drawing) (ps cs : chain) : bool :=
  existsb (fun e => ty_data (e_ty e) &&
                    match shown_data (dnodes D) (e_src e), shown_real (dnodes D) (e_tgt e) with
                    | Some so, Some t =>
                        memc so ps && memn t (ids cs) &&
                        existsb (fun e' => ty_output (e_ty e') && Pos.eqb (e_tgt e') (e_src e) &&
                                           match shown_real (dnodes D) (e_src e') with
                                           | Some s => nid_eqb s (fst so)
                                           | None => false
                                           end) (dedges D)
                    | _, _ => false
                    end) (dedges D).

Definition drawn_direct (D : drawing) (k : ekind) (s0 t0 : nid) : bool :=
  existsb (fun e => ty_of k (e_ty e) &&
                    match shown_real (dnodes D) (e_src e), shown_real (dnodes D) (e_tgt e) with
                    | Some s, Some t => nid_eqb s s0 && at_or_inside t0 t
                    | _, _ => false
                    end) (dedges D).

(* does the state show the two ends of the dependency as different things? *)
Definition dep_shown (st : xstate) (d : dep) : bool :=
  match dp_pc d, dp_cc d with
  | (s0, _) :: _, (t0, _) :: _ =>
      vis st s0 && vis st t0 &&
      negb (nid_eqb (last_id (vis_chain st (dp_pc d))) (last_id (vis_chain st (dp_cc d))))
  | _, _ => false
  end.

Definition dep_drawn (m : vmode) (st : xstate) (D : drawing) (d : dep) : bool :=
  match dp_kind d with
  | KData =>
      if separate m then drawn_separate D (vis_chain st (dp_pc d)) (vis_chain st (dp_cc d))
      else drawn_merged D (vis_chain st (dp_pc d)) (vis_chain st (dp_cc d))
  | k => drawn_direct D k (last_id (dp_pc d)) (last_id (dp_cc d))
  end.

(* --- one drawn edge is justified by a dependency *)

Definition just_data (m : vmode) (deps : list dep) (D : drawing) (e : dedge) : bool :=
  if separate m then
    match shown_data (dnodes D) (e_src e), shown_real (dnodes D) (e_tgt e) with
    | Some so, Some t =>
        existsb (fun d => ekind_eqb (dp_kind d) KData && memc so (dp_pc d) && memn t (ids (dp_cc d))) deps
    | _, _ => false
    end
  else
    match shown_real (dnodes D) (e_src e), shown_real (dnodes D) (e_tgt e) with
    | Some s, Some t =>
        existsb (fun d => ekind_eqb (dp_kind d) KData && memn s (ids (dp_pc d)) && memn t (ids (dp_cc d))) deps
    | _, _ => false
    end.

Definition just_direct (k : ekind) (deps : list dep) (D : drawing) (e : dedge) : bool :=
  match shown_real (dnodes D) (e_src e), shown_real (dnodes D) (e_tgt e) with
  | Some s, Some t =>
      existsb (fun d => ekind_eqb (dp_kind d) k && nid_eqb s (last_id (dp_pc d)) && at_or_inside (last_id (dp_cc d)) t) deps
  | _, _ => false
  end.

Fixpoint find_f (n : nid) (fl : list fnode) : option fnode :=
  match fl with
  | [] => None
  | f :: fl' => if nid_eqb n (f_id f) then Some f else find_f n fl'
  end.

Definition just_output (fl : list fnode) (D : drawing) (e : dedge) : bool :=
  match shown_real (dnodes D) (e_src e), shown_data (dnodes D) (e_tgt e) with
  | Some s, Some (s', o) =>
      nid_eqb s s' && match find_f s fl with Some f => memp o (f_outs f) | None => false end
  | _, _ => false
  end.

Definition just_input (ts : list tnode) (ext : list name) (D : drawing) (e : dedge) : bool :=
  match is_input (dnodes D) (e_src e), shown_real (dnodes D) (e_tgt e) with
  | Some ps, Some t =>
      existsb (fun p => memp p ext && existsb (fun c => memn t (ids c)) (input_chains ts p)) ps
  | _, _ => false
  end.

Definition just_end (fl : list fnode) (D : drawing) (e : dedge) : bool :=
  is_end (dnodes D) (e_tgt e) &&
  match shown_real (dnodes D) (e_src e) with
  | Some g => match find_f g fl with Some f => f_end f | None => false end
  | None => false
  end.

Definition justified (m : vmode) (ts : list tnode) (fl : list fnode) (deps : list dep) (ext : list name)
           (D : drawing) (e : dedge) : bool :=
  match e_ty e with
  | TInput => just_input ts ext D e
  | TData => just_data m deps D e
  | TControl => just_direct KControl deps D e
  | TOrdering => just_direct KOrdering deps D e
  | TEnd => just_end fl D e
  | TOutput => just_output fl D e
  | TSolid => just_data m deps D e || just_direct KControl deps D e || just_output fl D e
  end.

(* --- node declarations *)

Definition count_real (dn : list dnode) (n : nid) : nat :=
  length (filter (fun d => match d_kind d with DReal n' => nid_eqb n n' | _ => false end) dn).
Definition shown_count (dn : list dnode) (n : nid) : nat :=
  length (filter (fun d => negb (d_hidden d) && match d_kind d with DReal n' => nid_eqb n n' | _ => false end) dn).

Fixpoint nodup_keys (l : list positive) : bool :=
  match l with [] => true | k :: l' => negb (memp k l') && nodup_keys l' end.

Definition input_drawn (st : xstate) (D : drawing) (p : name) (c : chain) : bool :=
  existsb (fun e => match e_ty e with TInput => true | _ => false end &&
                    match is_input (dnodes D) (e_src e), shown_real (dnodes D) (e_tgt e) with
                    | Some ps, Some t => memp p ps && memn t (ids (vis_chain st c))
                    | _, _ => false
                    end) (dedges D).

Definition end_drawn (D : drawing) (g : nid) : bool :=
  existsb (fun e => match e_ty e with TEnd => true | _ => false end && is_end (dnodes D) (e_tgt e) &&
                    match shown_real (dnodes D) (e_src e) with Some s => nid_eqb s g | None => false end) (dedges D).

(* ------------------------------------------------------------------ the checker *)

(* a problem: (code, node / producer, consumer, value name or source key, target key) *)
Definition problem := (nat * nid * nid * positive * positive)%type.

(* The same nested graph with every with_inputs / with_outputs rename at a container boundary forgotten:
   used only to LABEL a problem (codes 14 / 15 instead of 4 / 5) when it is explained by the renderer matching
   values across container boundaries by name; it has no influence on whether a drawing is accepted. *)
Fixpoint strip_renames (t : tnode) : tnode :=
  match t with
  | TN nm g i o _ _ e ch es => TN nm g i o [] [] e (map strip_renames ch) es
  end.

Fixpoint same_names (c : chain) : bool :=
  match c with
  | (_, a) :: ((_, b) :: _) as c' => Pos.eqb a b && same_names c'
  | _ => true
  end.

Definition guard (b : bool) (p : problem) : list problem := if b then [] else [p].

Definition viz_problems (m : vmode) (ts : list tnode) (es : list tedge) (ext : list name)
           (st : xstate) (D : drawing) : list problem :=
  let fl := flatten_all ts in
  let deps := all_deps ts es in
  (* 1 every declared id is declared once *)
  let deps0 := all_deps (map strip_renames ts) es in
  guard (nodup_keys (map d_key (dnodes D))) (1, [], [], xH, xH) ++
  (* 2 every node of every nesting level appears at most once, and is shown iff it is visible in this state *)
  flat_map (fun f => guard (Nat.leb (count_real (dnodes D) (f_id f)) 1 &&
                            Nat.eqb (shown_count (dnodes D) (f_id f)) (if vis st (f_id f) then 1 else 0))
                           (2, f_id f, [], xH, xH)) fl ++
  (* 3 both ends of every edge are declared nodes of this state *)
  flat_map (fun e => guard (match find_key (e_src e) (dnodes D), find_key (e_tgt e) (dnodes D) with
                            | Some _, Some _ => true | _, _ => false end)
                           (3, [], [], e_src e, e_tgt e)) (dedges D) ++
  (* 4 every dependency whose two ends are shown apart is drawn between visible representatives *)
  flat_map (fun d => guard (negb (dep_shown st d) || dep_drawn m st D d)
                           ((if same_names (dp_pc d) && same_names (dp_cc d) then 4 else 14), last_id (dp_pc d), last_id (dp_cc d), dp_val d, xH)) deps ++
  (* 5 every edge corresponds to a dependency (or to a graph input, an END target, an output) *)
  flat_map (fun e => guard (justified m ts fl deps ext D e)
                           ((if justified m (map strip_renames ts) fl deps0 ext D e then 15 else 5), [], [], e_src e, e_tgt e)) (dedges D) ++
  (* 6 every visible gate that may route to END has its END edge *)
  flat_map (fun f => guard (negb (f_end f && vis st (f_id f)) || end_drawn D (f_id f)) (6, f_id f, [], xH, xH)) fl ++
  (* 7 (interactive view) every consumer of a graph input gets an edge from the input's node *)
  (if inputs_complete m then
     flat_map (fun p => flat_map (fun c => guard (input_drawn st D p c) (7, last_id c, [], p, xH)) (input_chains ts p)) ext
   else []).

Definition faithful_b m ts es ext st D : bool :=
  match viz_problems m ts es ext st D with [] => true | _ => false end.

(* ------------------------------------------------------------------ comparison helpers for the cases files *)

Definition onid_eqb (a b : option nid) : bool :=
  match a, b with Some x, Some y => nid_eqb x y | None, None => true | _, _ => false end.

Fixpoint names_eq (a b : list name) : bool :=
  match a, b with
  | [], [] => true
  | x :: a', y :: b' => Pos.eqb x y && names_eq a' b'
  | _, _ => false
  end.

Definition fnode_eqb (a b : fnode) : bool :=
  nid_eqb (f_id a) (f_id b) && onid_eqb (f_parent a) (f_parent b) && Bool.eqb (f_isg a) (f_isg b) &&
  names_eq (f_ins a) (f_ins b) && names_eq (f_outs a) (f_outs b) && Bool.eqb (f_end a) (f_end b).

Fixpoint fnodes_eqb (a b : list fnode) : bool :=
  match a, b with
  | [], [] => true
  | x :: a', y :: b' => fnode_eqb x y && fnodes_eqb a' b'
  | _, _ => false
  end.

Definition fedge_eqb (a b : fedge) : bool :=
  match a, b with
  | (u, v, k, vs), (u', v', k', vs') => nid_eqb u u' && nid_eqb v v' && ekind_eqb k k' && names_eq vs vs'
  end.
Definition fedges_sub (a b : list fedge) : bool := forallb (fun x => existsb (fedge_eqb x) b) a.
Definition fedges_eqb (a b : list fedge) : bool :=
  fedges_sub a b && fedges_sub b a && Nat.eqb (length a) (length b).

Fixpoint xstate_eqb (a b : xstate) : bool :=
  match a, b with
  | [], [] => true
  | (n, x) :: a', (n', y) :: b' => nid_eqb n n' && Bool.eqb x y && xstate_eqb a' b'
  | _, _ => false
  end.
Definition xstates_sub (a b : list xstate) : bool := forallb (fun x => existsb (xstate_eqb x) b) a.
Definition xstates_eqb (a b : list xstate) : bool :=
  xstates_sub a b && xstates_sub b a && Nat.eqb (length a) (length b).

Definition no_problems (a b : list problem) : bool :=
  match a, b with [], [] => true | _, _ => false end.
