(* VizProofs.v — theorems about Viz.v (property C20). Plain stdlib. *)
From HG Require Import Base Viz.

(* ------------------------------------------------------------------ basic reflection *)

Lemma nid_eqb_eq a b : nid_eqb a b = true <-> a = b.
Proof.
  revert b; induction a as [|x a IH]; intros [|y b]; simpl; split; intro H; try congruence; try discriminate.
  - apply andb_true_iff in H as [H1 H2]. apply Pos.eqb_eq in H1. apply IH in H2. congruence.
  - injection H as -> ->. rewrite Pos.eqb_refl. simpl. apply IH. reflexivity.
Qed.

Lemma nid_eqb_refl a : nid_eqb a a = true.
Proof. apply nid_eqb_eq; reflexivity. Qed.

Lemma nid_eqb_neq a b : nid_eqb a b = false <-> a <> b.
Proof.
  split; intro H.
  - intro E. apply nid_eqb_eq in E. congruence.
  - destruct (nid_eqb a b) eqn:E; [apply nid_eqb_eq in E; contradiction | reflexivity].
Qed.

Lemma memn_in x l : memn x l = true <-> In x l.
Proof.
  induction l as [|y l IH]; simpl; [split; [discriminate | tauto]|].
  rewrite orb_true_iff, IH, nid_eqb_eq. split; intros [H|H]; auto.
Qed.

Lemma memp_in x l : memp x l = true <-> In x l.
Proof.
  induction l as [|y l IH]; simpl; [split; [discriminate | tauto]|].
  rewrite orb_true_iff, IH, Pos.eqb_eq. split; intros [H|H]; auto.
Qed.

Lemma is_prefix_spec a b : is_prefix a b = true <-> exists r, b = a ++ r.
Proof.
  revert b; induction a as [|x a IH]; intros b; simpl.
  - split; [intros _; exists b; reflexivity | reflexivity].
  - destruct b as [|y b]; [split; [discriminate | intros [r Hr]; discriminate]|].
    rewrite andb_true_iff, Pos.eqb_eq, IH. split.
    + intros [-> [r ->]]. exists r. reflexivity.
    + intros [r Hr]. injection Hr as -> ->. split; [reflexivity | exists r; reflexivity].
Qed.

(* ------------------------------------------------------------------ induction on nested graphs *)

Section tnode_ind2.
  Variable P : tnode -> Prop.
  Hypothesis H : forall nm g i o im om e ch es, Forall P ch -> P (TN nm g i o im om e ch es).
  Fixpoint tnode_ind2 (t : tnode) : P t :=
    match t with
    | TN nm g i o im om e ch es =>
        H nm g i o im om e ch es
          ((fix go (l : list tnode) : Forall P l :=
              match l with
              | [] => Forall_nil P
              | c :: l' => Forall_cons c (tnode_ind2 c) (go l')
              end) ch)
    end.
End tnode_ind2.

(* sibling names are unique at every level (Graph's constructor rejects duplicate node names) *)
Fixpoint wf_t (t : tnode) : Prop :=
  match t with
  | TN _ _ _ _ _ _ _ ch _ =>
      NoDup (map t_name ch) /\
      (fix go (l : list tnode) : Prop := match l with [] => True | c :: l' => wf_t c /\ go l' end) ch
  end.

Definition wf_ts (ts : list tnode) : Prop := NoDup (map t_name ts) /\ Forall wf_t ts.

Lemma wf_t_unfold t : wf_t t <-> wf_ts (t_ch t).
Proof.
  destruct t as [nm g i o im om e ch es]; simpl. unfold wf_ts.
  assert (Hgo : forall l, (fix go (l : list tnode) : Prop := match l with [] => True | c :: l' => wf_t c /\ go l' end) l <-> Forall wf_t l).
  { induction l as [|c l IH]; [split; [constructor | trivial]|].
    split.
    - intros [Hc Hl]. constructor; [exact Hc | apply IH; exact Hl].
    - intro HF. inversion HF; subst. split; [assumption | apply IH; assumption]. }
  rewrite Hgo. tauto.
Qed.

(* ------------------------------------------------------------------ flattening *)

Fixpoint size_t (t : tnode) : nat :=
  match t with
  | TN _ _ _ _ _ _ _ ch _ => S (list_sum (map size_t ch))
  end.
Definition size_ts (ts : list tnode) : nat := list_sum (map size_t ts).

Lemma flatten_unfold pre t :
  flatten pre t = mk_fnode pre t :: flat_map (flatten (pre ++ [t_name t])) (t_ch t).
Proof. destruct t; reflexivity. Qed.

Lemma size_unfold t : size_t t = S (size_ts (t_ch t)).
Proof. destruct t; reflexivity. Qed.

(* every node of every nesting level is listed, and nothing else: the list is as long as the graph has nodes *)
Lemma flatten_length t : forall pre, length (flatten pre t) = size_t t.
Proof.
  induction t as [nm g i o im om e ch es IH] using tnode_ind2; intro pre.
  rewrite flatten_unfold, size_unfold. simpl. f_equal. unfold size_ts.
  induction ch as [|c ch IHch]; simpl; [reflexivity|].
  inversion IH; subst. rewrite app_length. rewrite H1. rewrite IHch; auto.
Qed.

Lemma flatten_all_length ts : length (flatten_all ts) = size_ts ts.
Proof.
  unfold flatten_all, size_ts. induction ts as [|t ts IH]; simpl; [reflexivity|].
  rewrite app_length, flatten_length, IH. reflexivity.
Qed.

(* ids listed under a node extend the node's own id *)
Lemma flatten_ids_extend t : forall pre f, In f (flatten pre t) -> exists r, f_id f = pre ++ t_name t :: r.
Proof.
  induction t as [nm g i o im om e ch es IH] using tnode_ind2; intros pre f Hin.
  rewrite flatten_unfold in Hin. simpl in Hin. destruct Hin as [<-|Hin].
  - exists []. reflexivity.
  - apply in_flat_map in Hin as [c [Hc Hin]].
    rewrite Forall_forall in IH. destruct (IH c Hc _ _ Hin) as [r Hr].
    exists (t_name c :: r). rewrite Hr. rewrite <- app_assoc. reflexivity.
Qed.

Lemma app_cons_inj {A} (pre : list A) x y r1 r2 : pre ++ x :: r1 = pre ++ y :: r2 -> x = y.
Proof. intro H. apply app_inv_head in H. congruence. Qed.

Lemma NoDup_app_disj {A} (a b : list A) :
  NoDup a -> NoDup b -> (forall x, In x a -> ~ In x b) -> NoDup (a ++ b).
Proof.
  induction a as [|x a IH]; simpl; intros Ha Hb Hd; [exact Hb|].
  inversion Ha; subst. constructor.
  - rewrite in_app_iff. intros [Hx|Hx]; [contradiction | apply (Hd x); [left; reflexivity | assumption]].
  - apply IH; auto.
Qed.

Lemma NoDup_flat_map_disjoint {A B} (f : A -> list B) (l : list A) :
  (forall a, In a l -> NoDup (f a)) ->
  NoDup l ->
  (forall a b x, In a l -> In b l -> In x (f a) -> In x (f b) -> a = b) ->
  NoDup (flat_map f l).
Proof.
  induction l as [|a l IH]; intros Hnd Hl Hdis; simpl; [constructor|].
  inversion Hl; subst.
  apply NoDup_app_disj.
  - apply Hnd. left. reflexivity.
  - apply IH; auto.
    + intros; apply Hnd; right; assumption.
    + intros b c x Hb Hc; apply Hdis; right; assumption.
  - intros x Hx Hin. apply in_flat_map in Hin as [b [Hb Hxb]].
    assert (a = b) by (apply (Hdis a b x); [left; reflexivity | right; assumption | assumption | assumption]).
    subst. contradiction.
Qed.

Lemma NoDup_map_inv_in {A B} (f : A -> B) (l : list A) a b :
  NoDup (map f l) -> In a l -> In b l -> f a = f b -> a = b.
Proof.
  induction l as [|x l IH]; simpl; intros Hnd Ha Hb Hf; [contradiction|].
  inversion Hnd; subst.
  destruct Ha as [->|Ha], Hb as [->|Hb]; auto.
  - exfalso. apply H1. rewrite Hf. apply in_map; assumption.
  - exfalso. apply H1. rewrite <- Hf. apply in_map; assumption.
Qed.

(* hierarchical ids are unique: no node is listed twice *)
Lemma flatten_nodup t : wf_t t -> forall pre, NoDup (map f_id (flatten pre t)).
Proof.
  induction t as [nm g i o im om e ch es IH] using tnode_ind2; intros Hwf pre.
  apply wf_t_unfold in Hwf. simpl in Hwf. destruct Hwf as [Hnames Hch].
  rewrite flatten_unfold. simpl. constructor.
  - intro Hin. apply in_map_iff in Hin as [f [Hf Hin]].
    apply in_flat_map in Hin as [c [Hc Hin]].
    apply flatten_ids_extend in Hin as [r Hr]. rewrite Hr in Hf.
    assert (Hlen : length ((pre ++ [nm]) ++ t_name c :: r) = length (pre ++ [nm])) by (rewrite Hf; reflexivity).
    rewrite app_length in Hlen. simpl in Hlen. lia.
  - rewrite Forall_forall in IH, Hch.
    assert (Hmap : map f_id (flat_map (flatten (pre ++ [nm])) ch) = flat_map (fun c => map f_id (flatten (pre ++ [nm]) c)) ch).
    { clear. induction ch as [|c ch IHc]; simpl; [reflexivity|]. rewrite map_app, IHc. reflexivity. }
    rewrite Hmap. apply NoDup_flat_map_disjoint.
    + intros c Hc. apply IH; auto.
    + apply NoDup_map_inv with (f := t_name). exact Hnames.
    + intros a b x Ha Hb Hxa Hxb.
      apply in_map_iff in Hxa as [fa [Hfa Hina]]. apply in_map_iff in Hxb as [fb [Hfb Hinb]].
      apply flatten_ids_extend in Hina as [ra Hra]. apply flatten_ids_extend in Hinb as [rb Hrb].
      assert (Hn : t_name a = t_name b).
      { apply (app_cons_inj (pre ++ [nm]) _ _ ra rb). congruence. }
      apply (NoDup_map_inv_in t_name ch); assumption.
Qed.

Theorem flatten_all_nodup ts : wf_ts ts -> NoDup (map f_id (flatten_all ts)).
Proof.
  intros [Hnames Hch]. unfold flatten_all.
  assert (Hmap : map f_id (flat_map (flatten []) ts) = flat_map (fun c => map f_id (flatten [] c)) ts).
  { clear. induction ts as [|c ts IHc]; simpl; [reflexivity|]. rewrite map_app, IHc. reflexivity. }
  rewrite Hmap. rewrite Forall_forall in Hch. apply NoDup_flat_map_disjoint.
  - intros c Hc. apply flatten_nodup. apply Hch; assumption.
  - apply NoDup_map_inv with (f := t_name). exact Hnames.
  - intros a b x Ha Hb Hxa Hxb.
    apply in_map_iff in Hxa as [fa [Hfa Hina]]. apply in_map_iff in Hxb as [fb [Hfb Hinb]].
    apply flatten_ids_extend in Hina as [ra Hra]. apply flatten_ids_extend in Hinb as [rb Hrb].
    assert (Hn : t_name a = t_name b) by (simpl in Hra, Hrb; congruence).
    apply (NoDup_map_inv_in t_name ts); assumption.
Qed.

(* the record listed for the node reached by a path *)
Definition entry_at (p : nid) (t : tnode) : fnode := mk_fnode (removelast p) t.

Lemma find_t_in n ts t : find_t n ts = Some t -> In t ts /\ t_name t = n.
Proof.
  induction ts as [|c ts IH]; simpl; [discriminate|].
  destruct (Pos.eqb n (t_name c)) eqn:E.
  - intro H. injection H as <-. apply Pos.eqb_eq in E. auto.
  - intro H. destruct (IH H). auto.
Qed.

Lemma find_t_complete ts t : NoDup (map t_name ts) -> In t ts -> find_t (t_name t) ts = Some t.
Proof.
  induction ts as [|c ts IH]; simpl; intros Hnd Hin; [contradiction|].
  inversion Hnd; subst. destruct Hin as [->|Hin].
  - rewrite Pos.eqb_refl. reflexivity.
  - destruct (Pos.eqb (t_name t) (t_name c)) eqn:E.
    + apply Pos.eqb_eq in E. exfalso. apply H1. rewrite <- E. apply in_map. assumption.
    + apply IH; assumption.
Qed.

Lemma lookup_cons ts n p : lookup ts (n :: p) =
  match find_t n ts with None => None | Some t => match p with [] => Some t | _ => lookup (t_ch t) p end end.
Proof. reflexivity. Qed.

(* every listed record is the record of the node its id leads to *)
Lemma flatten_lookup_sound t : wf_t t -> forall pre f, In f (flatten pre t) ->
  exists r t', f_id f = pre ++ t_name t :: r /\ f = mk_fnode (removelast (f_id f)) t' /\
               match r with [] => t' = t | _ => lookup (t_ch t) r = Some t' end.
Proof.
  induction t as [nm g i o im om e ch es IH] using tnode_ind2; intros Hwf pre f Hin.
  apply wf_t_unfold in Hwf. simpl in Hwf. destruct Hwf as [Hnames Hch].
  rewrite flatten_unfold in Hin. simpl in Hin. destruct Hin as [<-|Hin].
  - exists [], (TN nm g i o im om e ch es). simpl. rewrite removelast_last. auto.
  - apply in_flat_map in Hin as [c [Hc Hin]].
    rewrite Forall_forall in IH, Hch.
    destruct (IH c Hc (Hch c Hc) _ _ Hin) as [r [t' [Hid [Hf Hr]]]].
    exists (t_name c :: r), t'. simpl t_name. split; [rewrite Hid, <- app_assoc; reflexivity|]. split; [exact Hf|].
    simpl t_ch. rewrite lookup_cons. rewrite (find_t_complete ch c Hnames Hc).
    destruct r; [congruence | exact Hr].
Qed.

Lemma lookup_last ts p t : lookup ts p = Some t -> last p xH = t_name t.
Proof.
  revert ts; induction p as [|n p IH]; intros ts; [discriminate|].
  rewrite lookup_cons. destruct (find_t n ts) as [c|] eqn:E; [|discriminate].
  destruct p as [|m p'].
  - intro H. injection H as <-. apply find_t_in in E as [_ E]. simpl. congruence.
  - intro H. apply IH in H. exact H.
Qed.

Definition lookup_ok (p : nid) (t : tnode) : Prop := p <> [] /\ last p xH = t_name t.

Lemma removelast_app_last (p : nid) : p <> [] -> removelast p ++ [last p xH] = p.
Proof. intro H. symmetry. apply app_removelast_last. exact H. Qed.

(* ... and, conversely, the node at every path is listed *)
Lemma flatten_lookup_complete t : forall pre r t', r <> [] -> lookup (t_ch t) r = Some t' ->
  In (mk_fnode (removelast (pre ++ t_name t :: r)) t') (flatten pre t).
Proof.
  induction t as [nm g i o im om e ch es IH] using tnode_ind2; intros pre r t' Hr Hl.
  rewrite flatten_unfold. right. simpl t_ch in *. simpl t_name.
  destruct r as [|n r]; [congruence|].
  rewrite lookup_cons in Hl. destruct (find_t n ch) as [c|] eqn:E; [|discriminate].
  apply find_t_in in E as [Hc Hn]. apply in_flat_map. exists c. split; [exact Hc|].
  rewrite Forall_forall in IH.
  destruct r as [|m r'].
  - injection Hl as <-. rewrite flatten_unfold. left.
    replace (pre ++ nm :: [n]) with ((pre ++ [nm]) ++ [n]) by (rewrite <- app_assoc; reflexivity).
    rewrite removelast_last. reflexivity.
  - specialize (IH c Hc (pre ++ [nm]) (m :: r') t').
    replace (pre ++ nm :: n :: m :: r') with ((pre ++ [nm]) ++ t_name c :: m :: r') by (rewrite <- app_assoc, Hn; reflexivity).
    apply IH; [discriminate | exact Hl].
Qed.

(* C20_flatten, membership: under unique sibling names the flat list is exactly
   { record of the node at p | p a path of the nested graph } *)
Theorem flatten_all_spec ts : wf_ts ts -> forall f,
  In f (flatten_all ts) <-> exists t, lookup ts (f_id f) = Some t /\ f = entry_at (f_id f) t.
Proof.
  intros [Hnames Hch] f. unfold flatten_all, entry_at. rewrite Forall_forall in Hch. split.
  - intro Hin. apply in_flat_map in Hin as [c [Hc Hin]].
    destruct (flatten_lookup_sound c (Hch c Hc) [] f Hin) as [r [t' [Hid [Hf Hr]]]].
    exists t'. split; [|exact Hf]. simpl in Hid. rewrite Hid. rewrite lookup_cons.
    rewrite (find_t_complete ts c Hnames Hc). destruct r; [congruence | exact Hr].
  - intros [t [Hl Hf]]. destruct (f_id f) as [|n p] eqn:Eid; [discriminate|].
    rewrite lookup_cons in Hl. destruct (find_t n ts) as [c|] eqn:E; [|discriminate].
    apply find_t_in in E as [Hc Hn]. apply in_flat_map. exists c. split; [exact Hc|].
    destruct p as [|m p'].
    + injection Hl as <-. rewrite flatten_unfold. left. rewrite Hf. reflexivity.
    + rewrite Hf. rewrite <- Hn. apply (flatten_lookup_complete c [] (m :: p') t); [discriminate | exact Hl].
Qed.

(* the parent attribute is the enclosing container: the id without its last component *)
Lemma flatten_parent t : forall pre f, In f (flatten pre t) ->
  f_parent f = match removelast (f_id f) with [] => None | q => Some q end.
Proof.
  induction t as [nm g i o im om e ch es IH] using tnode_ind2; intros pre f Hin.
  rewrite flatten_unfold in Hin. simpl in Hin. destruct Hin as [<-|Hin].
  - simpl. rewrite removelast_last. destruct pre; reflexivity.
  - apply in_flat_map in Hin as [c [Hc Hin]]. rewrite Forall_forall in IH. apply (IH c Hc _ _ Hin).
Qed.

Theorem flatten_all_parent ts f : In f (flatten_all ts) ->
  f_parent f = match removelast (f_id f) with [] => None | q => Some q end.
Proof.
  unfold flatten_all. intro Hin. apply in_flat_map in Hin as [c [_ Hin]]. apply (flatten_parent c [] f Hin).
Qed.

(* ... and that container is itself listed *)
Lemma lookup_prefix ts p n t : lookup ts (p ++ [n]) = Some t -> p <> [] -> exists t', lookup ts p = Some t'.
Proof.
  revert ts; induction p as [|m p IH]; intros ts Hl Hp; [congruence|].
  simpl app in Hl. rewrite lookup_cons in *. destruct (find_t m ts) as [c|]; [|discriminate].
  destruct p as [|m' p'].
  - exists c. reflexivity.
  - simpl app in Hl. apply IH in Hl; [|discriminate]. exact Hl.
Qed.

Lemma entry_at_id p t : lookup_ok p t -> f_id (entry_at p t) = p.
Proof.
  intros [Hne Hl]. unfold entry_at, mk_fnode. cbn [f_id]. rewrite <- Hl. apply removelast_app_last. exact Hne.
Qed.

Theorem flatten_all_parent_listed ts : wf_ts ts -> forall f q,
  In f (flatten_all ts) -> f_parent f = Some q -> exists g, In g (flatten_all ts) /\ f_id g = q.
Proof.
  intros Hwf f q Hin Hq.
  rewrite (flatten_all_parent ts f Hin) in Hq.
  destruct (removelast (f_id f)) as [|a q'] eqn:Er; [discriminate|]. injection Hq as <-.
  apply (flatten_all_spec ts Hwf) in Hin as [t [Hl _]].
  assert (Hne : f_id f <> []) by (intro E; rewrite E in Hl; discriminate).
  rewrite (app_removelast_last xH Hne) in Hl. rewrite Er in Hl.
  apply lookup_prefix in Hl as [t' Ht']; [|discriminate].
  assert (Hok : lookup_ok (a :: q') t') by (split; [discriminate | apply (lookup_last _ _ _ Ht')]).
  exists (entry_at (a :: q') t'). split.
  - apply (flatten_all_spec ts Hwf). rewrite (entry_at_id _ _ Hok). exists t'. split; [exact Ht' | reflexivity].
  - apply entry_at_id. exact Hok.
Qed.

(* ------------------------------------------------------------------ string ids are injective *)

(* "a/b/c": components joined by a separator that occurs in no component ('/' is rejected in node and graph names) *)
Section Join.
  Context {A : Type}.
  Variable sep : A.

  Fixpoint join (l : list (list A)) : list A :=
    match l with
    | [] => []
    | [x] => x
    | x :: l' => x ++ sep :: join l'
    end.

  Lemma split_at_sep (x y r1 r2 : list A) :
    ~ In sep x -> ~ In sep y -> x ++ sep :: r1 = y ++ sep :: r2 -> x = y /\ r1 = r2.
  Proof.
    revert y; induction x as [|a x IH]; intros [|b y] Hx Hy H; simpl in *.
    - injection H as ->. auto.
    - injection H as <- _. exfalso. apply Hy. left. reflexivity.
    - injection H as -> _. exfalso. apply Hx. left. reflexivity.
    - injection H as -> H. destruct (IH y) as [-> ->]; auto.
  Qed.

  Lemma no_sep_neq (x y r : list A) : ~ In sep x -> x = y ++ sep :: r -> False.
  Proof. intros Hx ->. apply Hx. apply in_or_app. right. left. reflexivity. Qed.

  Theorem join_inj (l1 l2 : list (list A)) :
    l1 <> [] -> l2 <> [] -> Forall (fun x => ~ In sep x) l1 -> Forall (fun x => ~ In sep x) l2 ->
    join l1 = join l2 -> l1 = l2.
  Proof.
    revert l2; induction l1 as [|x l1 IH]; intros l2 H1 H2 F1 F2 Hj; [congruence|].
    destruct l2 as [|y l2]; [congruence|].
    inversion F1; subst. inversion F2; subst.
    destruct l1 as [|x' l1], l2 as [|y' l2]; simpl in Hj.
    - congruence.
    - exfalso. eapply (no_sep_neq x y); eauto.
    - exfalso. eapply (no_sep_neq y x); eauto.
    - change (x ++ sep :: join (x' :: l1) = y ++ sep :: join (y' :: l2)) in Hj.
      apply split_at_sep in Hj as [-> Hj]; auto.
      f_equal. apply IH; auto; discriminate.
  Qed.
End Join.

(* ------------------------------------------------------------------ ancestors, visibility *)

Lemma ancestors_from_cons pre x y rest :
  ancestors_from pre (x :: y :: rest) = (pre ++ [x]) :: ancestors_from (pre ++ [x]) (y :: rest).
Proof. reflexivity. Qed.

Lemma ancestors_from_spec rest : forall pre a,
  In a (ancestors_from pre rest) <-> exists r1 r2, r1 <> [] /\ r2 <> [] /\ rest = r1 ++ r2 /\ a = pre ++ r1.
Proof.
  induction rest as [|x rest IH]; intros pre a.
  - simpl. split; [contradiction|]. intros [r1 [r2 [H1 [_ [H _]]]]]. destruct r1; [congruence | discriminate].
  - destruct rest as [|y rest'].
    + simpl. split; [contradiction|]. intros [r1 [r2 [H1 [H2 [H _]]]]].
      destruct r1 as [|b r1]; [congruence|]. destruct r1; simpl in H; [|destruct r1; discriminate].
      injection H as _ H. congruence.
    + rewrite ancestors_from_cons. cbn [In]. rewrite IH. split.
      * intros [<-|[r1 [r2 [H1 [H2 [H ->]]]]]].
        -- exists [x], (y :: rest'). repeat split; discriminate || reflexivity.
        -- exists (x :: r1), r2. repeat split; try discriminate; auto.
           ++ simpl. rewrite H. reflexivity.
           ++ rewrite <- app_assoc. reflexivity.
      * intros [r1 [r2 [H1 [H2 [H ->]]]]]. destruct r1 as [|b r1]; [congruence|].
        simpl in H. injection H as <- H. destruct r1 as [|c r1].
        -- left. reflexivity.
        -- right. exists (c :: r1), r2. repeat split; try discriminate; auto.
           rewrite <- app_assoc. reflexivity.
Qed.

(* the enclosing containers of n are exactly its non-empty proper prefixes *)
Lemma ancestors_spec n a : In a (ancestors n) <-> a <> [] /\ exists r, r <> [] /\ n = a ++ r.
Proof.
  unfold ancestors. rewrite ancestors_from_spec. simpl. split.
  - intros [r1 [r2 [H1 [H2 [H ->]]]]]. split; [exact H1 | exists r2; auto].
  - intros [Ha [r [Hr H]]]. exists a, r. auto.
Qed.

Lemma vis_spec st n : vis st n = true <-> forall a, In a (ancestors n) -> st_get st a = true.
Proof. unfold vis. apply forallb_forall. Qed.

Lemma ancestors_trans a b n : In a (ancestors b) -> In b (ancestors n) -> In a (ancestors n).
Proof.
  rewrite !ancestors_spec. intros [Ha [r1 [H1 ->]]] [_ [r2 [H2 ->]]].
  split; [exact Ha|]. exists (r1 ++ r2). split; [destruct r1; [congruence | discriminate] | rewrite app_assoc; reflexivity].
Qed.

(* visibility is inherited downwards: a node whose container is hidden is hidden *)
Lemma vis_ancestor st a n : In a (ancestors n) -> vis st n = true -> vis st a = true.
Proof.
  intros Ha Hn. rewrite vis_spec in *. intros b Hb. apply Hn. eapply ancestors_trans; eauto.
Qed.

Lemma ancestors_level a n : In a (ancestors n) -> level a < level n.
Proof.
  rewrite ancestors_spec. intros [Ha [r [Hr ->]]]. unfold level. rewrite app_length.
  destruct a; [congruence|]. destruct r; [congruence|]. simpl. lia.
Qed.

(* ------------------------------------------------------------------ expansion states *)

Lemma all_states_spec l st : In st (all_states l) <-> map fst st = l.
Proof.
  revert st; induction l as [|n l IH]; intros st; simpl.
  - split; [intros [<-|[]]; reflexivity | intro H; destruct st; [left; reflexivity | discriminate]].
  - rewrite in_app_iff, !in_map_iff. split.
    + intros [[s [<- Hs]]|[s [<- Hs]]]; simpl; f_equal; apply IH; exact Hs.
    + intro H. destruct st as [|[m b] st]; [discriminate|]. simpl in H. injection H as -> H.
      apply IH in H. destruct b; [right | left]; exists st; auto.
Qed.

Lemma NoDup_map_cons_inj {A B} (x : B) (l : list (list (A * B))) (n : A) :
  NoDup l -> NoDup (map (cons (n, x)) l).
Proof.
  induction l as [|s l IH]; simpl; intro H; [constructor|].
  inversion H; subst. constructor; [|apply IH; assumption].
  intro Hin. apply in_map_iff in Hin as [s' [E Hs']]. injection E as ->. contradiction.
Qed.

Lemma all_states_nodup l : NoDup (all_states l).
Proof.
  induction l as [|n l IH]; simpl; [constructor; [intros []|constructor]|].
  apply NoDup_app_disj.
  - apply NoDup_map_cons_inj. exact IH.
  - apply NoDup_map_cons_inj. exact IH.
  - intros st H1 H2. apply in_map_iff in H1 as [s1 [<- _]]. apply in_map_iff in H2 as [s2 [E _]]. discriminate.
Qed.

Theorem enum_states_spec l st : In st (enum_states l) <-> map fst st = l /\ valid_state st = true.
Proof. unfold enum_states. rewrite filter_In, all_states_spec. tauto. Qed.

Theorem enum_states_nodup l : NoDup (enum_states l).
Proof. unfold enum_states. apply NoDup_filter. apply all_states_nodup. Qed.

Lemma st_get_true_in st n : st_get st n = true -> In (n, true) st.
Proof.
  induction st as [|[m b] st IH]; simpl; [discriminate|].
  destruct (nid_eqb m n) eqn:E.
  - intros ->. apply nid_eqb_eq in E. subst. left. reflexivity.
  - intro H. right. apply IH. exact H.
Qed.

Lemma st_get_in st n b : NoDup (map fst st) -> In (n, b) st -> st_get st n = b.
Proof.
  induction st as [|[m c] st IH]; simpl; intros Hnd Hin; [contradiction|].
  inversion Hnd; subst. destruct Hin as [E|Hin].
  - injection E as -> ->. rewrite nid_eqb_refl. reflexivity.
  - destruct (nid_eqb m n) eqn:E.
    + apply nid_eqb_eq in E. subst. exfalso. apply H1. apply (in_map fst) in Hin. exact Hin.
    + apply IH; assumption.
Qed.

(* the validity test of enumerate_valid_expansion_states says what it should:
   every expanded container has all its enclosing containers expanded *)
Theorem valid_state_spec st : NoDup (map fst st) ->
  (valid_state st = true <->
   forall n, st_get st n = true -> forall a, In a (ancestors n) -> st_get st a = true).
Proof.
  intro Hnd. unfold valid_state. rewrite forallb_forall. split.
  - intros H n Hn a Ha. apply st_get_true_in in Hn. specialize (H _ Hn). simpl in H.
    rewrite forallb_forall in H. apply H. exact Ha.
  - intros H [n b] Hin. simpl. destruct b; simpl; [|reflexivity].
    apply forallb_forall. intros a Ha. apply (H n); [apply st_get_in; assumption | exact Ha].
Qed.

Lemma st_get_state_of_depth d l n :
  st_get (state_of_depth d l) n = if memn n l then Nat.ltb (level n) d else false.
Proof.
  unfold state_of_depth. induction l as [|m l IH]; simpl; [reflexivity|].
  destruct (nid_eqb m n) eqn:E.
  - apply nid_eqb_eq in E. subst. rewrite nid_eqb_refl. reflexivity.
  - assert (E' : nid_eqb n m = false).
    { apply nid_eqb_neq. apply nid_eqb_neq in E. congruence. }
    rewrite E'. simpl. exact IH.
Qed.

(* build_expansion_state(depth) is one of the valid states, for every depth *)
Theorem state_of_depth_valid d l :
  (forall n a, In n l -> In a (ancestors n) -> In a l) -> valid_state (state_of_depth d l) = true.
Proof.
  intro Hcl. unfold valid_state. apply forallb_forall. intros [n b] Hin. simpl.
  unfold state_of_depth in Hin. apply in_map_iff in Hin as [n' [E Hn']]. injection E as -> <-.
  destruct (Nat.ltb (level n) d) eqn:El; simpl; [|reflexivity].
  apply forallb_forall. intros a Ha. rewrite st_get_state_of_depth.
  assert (Hal : In a l) by (eapply Hcl; eauto).
  apply memn_in in Hal. rewrite Hal. apply Nat.ltb_lt. apply Nat.ltb_lt in El.
  apply ancestors_level in Ha. lia.
Qed.

Theorem state_of_depth_enumerated d l :
  (forall n a, In n l -> In a (ancestors n) -> In a l) -> In (state_of_depth d l) (enum_states l).
Proof.
  intro Hcl. apply enum_states_spec. split; [|apply state_of_depth_valid; exact Hcl].
  unfold state_of_depth. rewrite map_map. simpl. apply map_id.
Qed.

(* at depth d exactly the nodes of nesting level <= d are visible *)
Theorem vis_state_of_depth d l n :
  (forall a, In a (ancestors n) -> In a l) ->
  (vis (state_of_depth d l) n = true <-> level n <= d).
Proof.
  intro Hal. rewrite vis_spec. split.
  - intro H. destruct n as [|x [|y n'']]; [unfold level; simpl; lia | unfold level; simpl; lia|].
    remember (x :: y :: n'') as n eqn:En.
    assert (Hx : n <> []) by (subst; discriminate).
    assert (Hlen : length n = S (S (length n''))) by (subst; reflexivity).
    assert (Hlast : In (removelast n) (ancestors n)).
    { apply ancestors_spec. split.
      - subst. simpl. discriminate.
      - exists [last n xH]. split; [discriminate|]. apply app_removelast_last. exact Hx. }
    specialize (H _ Hlast). rewrite st_get_state_of_depth in H.
    specialize (Hal _ Hlast). apply memn_in in Hal. rewrite Hal in H. apply Nat.ltb_lt in H.
    pose proof (app_removelast_last xH Hx) as E.
    apply (f_equal (@length _)) in E. rewrite app_length in E. cbn [length] in E.
    unfold level in *. lia.
  - intros Hle a Ha. rewrite st_get_state_of_depth. specialize (Hal _ Ha). apply memn_in in Hal. rewrite Hal.
    apply Nat.ltb_lt. apply ancestors_level in Ha. lia.
Qed.

(* ------------------------------------------------------------------ the checker means Faithful *)

Lemma memc_in x c : memc x c = true <-> In x c.
Proof.
  induction c as [|y c IH]; simpl; [split; [discriminate | tauto]|].
  rewrite orb_true_iff, IH, andb_true_iff, nid_eqb_eq, Pos.eqb_eq.
  destruct x as [a b], y as [a' b']; simpl. split.
  - intros [[-> ->]|H]; auto.
  - intros [E|H]; [injection E as -> ->; auto | auto].
Qed.

Lemma ekind_eqb_eq a b : ekind_eqb a b = true <-> a = b.
Proof. destruct a, b; simpl; split; congruence. Qed.

Lemma guard_nil b p : guard b p = [] <-> b = true.
Proof. destruct b; simpl; split; congruence. Qed.

Lemma flat_map_nil {A B} (f : A -> list B) l : flat_map f l = [] <-> forall x, In x l -> f x = [].
Proof.
  induction l as [|a l IH]; simpl; [split; [contradiction | reflexivity]|].
  split.
  - intro H. apply app_eq_nil in H as [Ha Hl]. intros x [<-|Hx]; [exact Ha | apply IH; assumption].
  - intro H. rewrite (H a (or_introl eq_refl)). simpl. apply IH. intros x Hx. apply H. right. exact Hx.
Qed.

Lemma app_nil_iff {A} (a b : list A) : a ++ b = [] <-> a = [] /\ b = [].
Proof. split; [apply app_eq_nil | intros [-> ->]; reflexivity]. Qed.

Lemma nodup_keys_spec l : nodup_keys l = true <-> NoDup l.
Proof.
  induction l as [|k l IH]; simpl; [split; [constructor | reflexivity]|].
  rewrite andb_true_iff, negb_true_iff, IH. split.
  - intros [Hk Hl]. constructor; [|exact Hl]. intro Hin. apply memp_in in Hin. congruence.
  - intro H. inversion H; subst. split; [|assumption].
    destruct (memp k l) eqn:E; [apply memp_in in E; contradiction | reflexivity].
Qed.

Section Faithful.
  Variables (m : vmode) (ts : list tnode) (es : list tedge) (ext : list name) (st : xstate) (D : drawing).
  Let fl := flatten_all ts.
  Let deps := all_deps ts es.
  Let dn := dnodes D.

  (* what a key of the drawing shows *)
  Definition Shows (k : positive) (n : nid) : Prop := shown_real dn k = Some n.
  Definition ShowsData (k : positive) (s : nid) (o : name) : Prop := shown_data dn k = Some (s, o).
  Definition IsInput (k : positive) (ps : list name) : Prop := is_input dn k = Some ps.

  (* --- a dependency is drawn between visible representatives of producer and consumer *)
  Definition DrawnMerged (ps cs : chain) : Prop :=
    exists e s t, In e (dedges D) /\ ty_data (e_ty e) = true /\
                  Shows (e_src e) s /\ Shows (e_tgt e) t /\ In s (ids ps) /\ In t (ids cs).

  Definition DrawnSeparate (ps cs : chain) : Prop :=
    exists e e' s o t, In e (dedges D) /\ In e' (dedges D) /\
                       ty_data (e_ty e) = true /\ ty_output (e_ty e') = true /\ e_tgt e' = e_src e /\
                       ShowsData (e_src e) s o /\ Shows (e_tgt e) t /\ Shows (e_src e') s /\
                       In (s, o) ps /\ In t (ids cs).

  Definition DrawnDirect (k : ekind) (s0 t0 : nid) : Prop :=
    exists e t r, In e (dedges D) /\ ty_of k (e_ty e) = true /\
                  Shows (e_src e) s0 /\ Shows (e_tgt e) t /\ t = t0 ++ r.

  Definition DepDrawn (d : dep) : Prop :=
    match dp_kind d with
    | KData => if separate m then DrawnSeparate (vis_chain st (dp_pc d)) (vis_chain st (dp_cc d))
               else DrawnMerged (vis_chain st (dp_pc d)) (vis_chain st (dp_cc d))
    | k => DrawnDirect k (last_id (dp_pc d)) (last_id (dp_cc d))
    end.

  (* --- an edge corresponds to a dependency *)
  Definition JustData (e : dedge) : Prop :=
    if separate m then
      exists s o t d, ShowsData (e_src e) s o /\ Shows (e_tgt e) t /\ In d deps /\ dp_kind d = KData /\
                      In (s, o) (dp_pc d) /\ In t (ids (dp_cc d))
    else
      exists s t d, Shows (e_src e) s /\ Shows (e_tgt e) t /\ In d deps /\ dp_kind d = KData /\
                    In s (ids (dp_pc d)) /\ In t (ids (dp_cc d)).

  Definition JustDirect (k : ekind) (e : dedge) : Prop :=
    exists s t d r, Shows (e_src e) s /\ Shows (e_tgt e) t /\ In d deps /\ dp_kind d = k /\
                    s = last_id (dp_pc d) /\ t = last_id (dp_cc d) ++ r.

  Definition JustOutput (e : dedge) : Prop :=
    exists s o f, Shows (e_src e) s /\ ShowsData (e_tgt e) s o /\ find_f s fl = Some f /\ In o (f_outs f).

  Definition JustInput (e : dedge) : Prop :=
    exists ps t p c, IsInput (e_src e) ps /\ Shows (e_tgt e) t /\ In p ps /\ In p ext /\
                     In c (input_chains ts p) /\ In t (ids c).

  Definition JustEnd (e : dedge) : Prop :=
    is_end dn (e_tgt e) = true /\ exists g f, Shows (e_src e) g /\ find_f g fl = Some f /\ f_end f = true.

  Definition Justified (e : dedge) : Prop :=
    match e_ty e with
    | TInput => JustInput e
    | TData => JustData e
    | TControl => JustDirect KControl e
    | TOrdering => JustDirect KOrdering e
    | TEnd => JustEnd e
    | TOutput => JustOutput e
    | TSolid => JustData e \/ JustDirect KControl e \/ JustOutput e
    end.

  Definition EndDrawn (g : nid) : Prop :=
    exists e, In e (dedges D) /\ e_ty e = TEnd /\ is_end dn (e_tgt e) = true /\ Shows (e_src e) g.

  Definition InputDrawn (p : name) (c : chain) : Prop :=
    exists e ps t, In e (dedges D) /\ e_ty e = TInput /\ IsInput (e_src e) ps /\ Shows (e_tgt e) t /\
                   In p ps /\ In t (ids (vis_chain st c)).

  (* The drawing of one expansion state is self-consistent and faithful. *)
  Record Faithful : Prop := {
    (* every declared id is declared once *)
    F_keys : NoDup (map d_key dn);
    (* every node of every nesting level is declared at most once and is shown iff it is visible in this state *)
    F_nodes : forall f, In f fl ->
        count_real dn (f_id f) <= 1 /\ shown_count dn (f_id f) = (if vis st (f_id f) then 1 else 0);
    (* both ends of every edge are declared nodes of this state *)
    F_ends : forall e, In e (dedges D) ->
        (exists d, find_key (e_src e) dn = Some d) /\ (exists d, find_key (e_tgt e) dn = Some d);
    (* every dependency whose two ends are shown apart is drawn between visible representatives *)
    F_complete : forall d, In d deps -> dep_shown st d = true -> DepDrawn d;
    (* every edge corresponds to a dependency, a graph input, an END target or an output *)
    F_sound : forall e, In e (dedges D) -> Justified e;
    (* every visible gate that may route to END has its END edge *)
    F_end : forall f, In f fl -> f_end f = true -> vis st (f_id f) = true -> EndDrawn (f_id f);
    (* (interactive view) every consumer of a graph input gets an edge from that input's node *)
    F_inputs : inputs_complete m = true ->
        forall p c, In p ext -> In c (input_chains ts p) -> InputDrawn p c
  }.

  (* reflection of the pieces *)

  Ltac split_bool H :=
    repeat match type of H with
           | _ && _ = true => let H1 := fresh H in apply andb_true_iff in H as [H H1]; try split_bool H1
           end.

  Lemma drawn_merged_spec ps cs : drawn_merged D ps cs = true <-> DrawnMerged ps cs.
  Proof.
    unfold drawn_merged, DrawnMerged, Shows. fold dn. rewrite existsb_exists. split.
    - intros [e [He H]]. apply andb_true_iff in H as [Hty H].
      destruct (shown_real dn (e_src e)) as [s|] eqn:Es; [|discriminate].
      destruct (shown_real dn (e_tgt e)) as [t|] eqn:Et; [|discriminate].
      apply andb_true_iff in H as [Hs Ht]. apply memn_in in Hs. apply memn_in in Ht.
      exists e, s, t. auto 10.
    - intros [e [s [t [He [Hty [Es [Et [Hs Ht]]]]]]]]. exists e. split; [exact He|].
      rewrite Hty, Es, Et. simpl. apply andb_true_iff. split; apply memn_in; assumption.
  Qed.

  Lemma drawn_separate_spec ps cs : drawn_separate D ps cs = true <-> DrawnSeparate ps cs.
  Proof.
    unfold drawn_separate, DrawnSeparate, Shows, ShowsData. fold dn. rewrite existsb_exists. split.
    - intros [e [He H]]. apply andb_true_iff in H as [Hty H].
      destruct (shown_data dn (e_src e)) as [[s o]|] eqn:Es; [|discriminate].
      destruct (shown_real dn (e_tgt e)) as [t|] eqn:Et; [|discriminate].
      apply andb_true_iff in H as [H Hex]. apply andb_true_iff in H as [Hso Ht].
      apply memc_in in Hso. apply memn_in in Ht.
      apply existsb_exists in Hex as [e' [He' H']].
      apply andb_true_iff in H' as [H' Hs']. apply andb_true_iff in H' as [Hty' Htg].
      apply Pos.eqb_eq in Htg.
      destruct (shown_real dn (e_src e')) as [s'|] eqn:Es'; [|discriminate].
      apply nid_eqb_eq in Hs'. simpl in Hs'. subst s'.
      exists e, e', s, o, t. auto 12.
    - intros [e [e' [s [o [t [He [He' [Hty [Hty' [Htg [Es [Et [Es' [Hso Ht]]]]]]]]]]]]]].
      exists e. split; [exact He|]. rewrite Hty, Es, Et. simpl.
      apply andb_true_iff. split; [apply andb_true_iff; split; [apply memc_in | apply memn_in]; assumption|].
      apply existsb_exists. exists e'. split; [exact He'|].
      rewrite Hty', Es'. simpl. rewrite nid_eqb_refl, andb_true_r. apply Pos.eqb_eq. exact Htg.
  Qed.

  Lemma drawn_direct_spec k s0 t0 : drawn_direct D k s0 t0 = true <-> DrawnDirect k s0 t0.
  Proof.
    unfold drawn_direct, DrawnDirect, Shows, at_or_inside. fold dn. rewrite existsb_exists. split.
    - intros [e [He H]]. apply andb_true_iff in H as [Hty H].
      destruct (shown_real dn (e_src e)) as [s|] eqn:Es; [|discriminate].
      destruct (shown_real dn (e_tgt e)) as [t|] eqn:Et; [|discriminate].
      apply andb_true_iff in H as [Hs Ht]. apply nid_eqb_eq in Hs. subst s.
      apply is_prefix_spec in Ht as [r Hr]. exists e, t, r. auto 10.
    - intros [e [t [r [He [Hty [Es [Et Hr]]]]]]]. exists e. split; [exact He|].
      rewrite Hty, Es, Et. simpl. rewrite nid_eqb_refl. simpl. apply is_prefix_spec. exists r. exact Hr.
  Qed.

  Lemma dep_drawn_spec d : dep_drawn m st D d = true <-> DepDrawn d.
  Proof.
    unfold dep_drawn, DepDrawn. destruct (dp_kind d).
    - destruct (separate m); [apply drawn_separate_spec | apply drawn_merged_spec].
    - apply drawn_direct_spec.
    - apply drawn_direct_spec.
  Qed.

  Lemma just_data_spec e : just_data m deps D e = true <-> JustData e.
  Proof.
    unfold just_data, JustData, Shows, ShowsData. fold dn. destruct (separate m).
    - destruct (shown_data dn (e_src e)) as [[s o]|] eqn:Es.
      + destruct (shown_real dn (e_tgt e)) as [t|] eqn:Et.
        * rewrite existsb_exists. split.
          -- intros [d [Hd H]]. apply andb_true_iff in H as [H Ht]. apply andb_true_iff in H as [Hk Hso].
             apply ekind_eqb_eq in Hk. apply memc_in in Hso. apply memn_in in Ht. exists s, o, t, d. auto 10.
          -- intros [s' [o' [t' [d [E1 [E2 [Hd [Hk [Hso Ht]]]]]]]]]. injection E1 as <- <-. injection E2 as <-.
             exists d. split; [exact Hd|]. rewrite Hk. simpl.
             apply andb_true_iff; split; [apply memc_in | apply memn_in]; assumption.
        * split; [discriminate | intros [s' [o' [t' [d [_ [E2 _]]]]]]; discriminate].
      + split; [discriminate | intros [s' [o' [t' [d [E1 _]]]]]; discriminate].
    - destruct (shown_real dn (e_src e)) as [s|] eqn:Es.
      + destruct (shown_real dn (e_tgt e)) as [t|] eqn:Et.
        * rewrite existsb_exists. split.
          -- intros [d [Hd H]]. apply andb_true_iff in H as [H Ht]. apply andb_true_iff in H as [Hk Hs].
             apply ekind_eqb_eq in Hk. apply memn_in in Hs. apply memn_in in Ht. exists s, t, d. auto 10.
          -- intros [s' [t' [d [E1 [E2 [Hd [Hk [Hs Ht]]]]]]]]. injection E1 as <-. injection E2 as <-.
             exists d. split; [exact Hd|]. rewrite Hk. simpl.
             apply andb_true_iff; split; apply memn_in; assumption.
        * split; [discriminate | intros [s' [t' [d [_ [E2 _]]]]]; discriminate].
      + split; [discriminate | intros [s' [t' [d [E1 _]]]]; discriminate].
  Qed.

  Lemma just_direct_spec k e : just_direct k deps D e = true <-> JustDirect k e.
  Proof.
    unfold just_direct, JustDirect, Shows, at_or_inside. fold dn.
    destruct (shown_real dn (e_src e)) as [s|] eqn:Es.
    - destruct (shown_real dn (e_tgt e)) as [t|] eqn:Et.
      + rewrite existsb_exists. split.
        * intros [d [Hd H]]. apply andb_true_iff in H as [H Ht]. apply andb_true_iff in H as [Hk Hs].
          apply ekind_eqb_eq in Hk. apply nid_eqb_eq in Hs. apply is_prefix_spec in Ht as [r Hr].
          exists s, t, d, r. auto 10.
        * intros [s' [t' [d [r [E1 [E2 [Hd [Hk [Hs Ht]]]]]]]]]. injection E1 as <-. injection E2 as <-.
          exists d. split; [exact Hd|]. rewrite Hk. subst s.
          assert (Hkk : ekind_eqb k k = true) by (apply ekind_eqb_eq; reflexivity).
          rewrite Hkk, nid_eqb_refl. simpl. apply is_prefix_spec. exists r. exact Ht.
      + split; [discriminate | intros [s' [t' [d [r [_ [E2 _]]]]]]; discriminate].
    - split; [discriminate | intros [s' [t' [d [r [E1 _]]]]]; discriminate].
  Qed.

  Lemma just_output_spec e : just_output fl D e = true <-> JustOutput e.
  Proof.
    unfold just_output, JustOutput, Shows, ShowsData. fold dn.
    destruct (shown_real dn (e_src e)) as [s|] eqn:Es.
    - destruct (shown_data dn (e_tgt e)) as [[s' o]|] eqn:Et.
      + split.
        * intro H. apply andb_true_iff in H as [Hs H]. apply nid_eqb_eq in Hs. subst s'.
          destruct (find_f s fl) as [f|] eqn:Ef; [|discriminate]. apply memp_in in H.
          exists s, o, f. auto.
        * intros [s0 [o0 [f [E1 [E2 [Ef Ho]]]]]]. injection E1 as <-. injection E2 as <- <-.
          rewrite nid_eqb_refl, Ef. simpl. apply memp_in. exact Ho.
      + split; [discriminate | intros [s0 [o0 [f [_ [E2 _]]]]]; discriminate].
    - split; [discriminate | intros [s0 [o0 [f [E1 _]]]]; discriminate].
  Qed.

  Lemma just_input_spec e : just_input ts ext D e = true <-> JustInput e.
  Proof.
    unfold just_input, JustInput, Shows, IsInput. fold dn.
    destruct (is_input dn (e_src e)) as [ps|] eqn:Es.
    - destruct (shown_real dn (e_tgt e)) as [t|] eqn:Et.
      + rewrite existsb_exists. split.
        * intros [p [Hp H]]. apply andb_true_iff in H as [Hext H]. apply memp_in in Hext.
          apply existsb_exists in H as [c [Hc Ht]]. apply memn_in in Ht. exists ps, t, p, c. auto 10.
        * intros [ps' [t' [p [c [E1 [E2 [Hp [Hext [Hc Ht]]]]]]]]]. injection E1 as <-. injection E2 as <-.
          exists p. split; [exact Hp|]. apply andb_true_iff. split; [apply memp_in; exact Hext|].
          apply existsb_exists. exists c. split; [exact Hc | apply memn_in; exact Ht].
      + split; [discriminate | intros [ps' [t' [p [c [_ [E2 _]]]]]]; discriminate].
    - split; [discriminate | intros [ps' [t' [p [c [E1 _]]]]]; discriminate].
  Qed.

  Lemma just_end_spec e : just_end fl D e = true <-> JustEnd e.
  Proof.
    unfold just_end, JustEnd, Shows. fold dn. rewrite andb_true_iff.
    destruct (shown_real dn (e_src e)) as [g|] eqn:Es.
    - destruct (find_f g fl) as [f|] eqn:Ef.
      + split.
        * intros [H1 H2]. split; [exact H1|]. exists g, f. auto.
        * intros [H1 [g' [f' [E1 [E2 H3]]]]]. injection E1 as <-. rewrite Ef in E2. injection E2 as <-. auto.
      + split; [intros [_ H]; discriminate | intros [_ [g' [f' [E1 [E2 _]]]]]; injection E1 as <-; congruence].
    - split; [intros [_ H]; discriminate | intros [_ [g' [f' [E1 _]]]]; discriminate].
  Qed.

  Lemma justified_spec e : justified m ts fl deps ext D e = true <-> Justified e.
  Proof.
    unfold justified, Justified. destruct (e_ty e).
    - apply just_input_spec.
    - apply just_data_spec.
    - apply just_direct_spec.
    - apply just_direct_spec.
    - apply just_end_spec.
    - apply just_output_spec.
    - rewrite !orb_true_iff, just_data_spec, just_direct_spec, just_output_spec. tauto.
  Qed.

  Lemma end_drawn_spec g : end_drawn D g = true <-> EndDrawn g.
  Proof.
    unfold end_drawn, EndDrawn, Shows. fold dn. rewrite existsb_exists. split.
    - intros [e [He H]]. apply andb_true_iff in H as [H Hs]. apply andb_true_iff in H as [Hty Hend].
      destruct (e_ty e) eqn:Ety; try discriminate.
      destruct (shown_real dn (e_src e)) as [s|] eqn:Es; [|discriminate].
      apply nid_eqb_eq in Hs. subst s. exists e. auto.
    - intros [e [He [Hty [Hend Es]]]]. exists e. split; [exact He|].
      rewrite Hty, Hend, Es. simpl. apply nid_eqb_refl.
  Qed.

  Lemma input_drawn_spec p c : input_drawn st D p c = true <-> InputDrawn p c.
  Proof.
    unfold input_drawn, InputDrawn, Shows, IsInput. fold dn. rewrite existsb_exists. split.
    - intros [e [He H]]. apply andb_true_iff in H as [Hty H].
      destruct (e_ty e) eqn:Ety; try discriminate.
      destruct (is_input dn (e_src e)) as [ps|] eqn:Es; [|discriminate].
      destruct (shown_real dn (e_tgt e)) as [t|] eqn:Et; [|discriminate].
      apply andb_true_iff in H as [Hp Ht]. apply memp_in in Hp. apply memn_in in Ht.
      exists e, ps, t. auto 10.
    - intros [e [ps [t [He [Hty [Es [Et [Hp Ht]]]]]]]]. exists e. split; [exact He|].
      rewrite Hty, Es, Et. simpl. apply andb_true_iff. split; [apply memp_in | apply memn_in]; assumption.
  Qed.

  (* C20_checker: the checker reports no problem exactly for the faithful drawings *)
  Theorem viz_problems_spec : viz_problems m ts es ext st D = [] <-> Faithful.
  Proof.
    unfold viz_problems. fold fl deps dn.
    rewrite !app_nil_iff.
    rewrite guard_nil, nodup_keys_spec.
    rewrite !flat_map_nil.
    split.
    - intros [H1 [H2 [H3 [H4 [H5 [H6 H7]]]]]]. constructor.
      + exact H1.
      + intros f Hf. specialize (H2 f Hf). apply guard_nil in H2. apply andb_true_iff in H2 as [Ha Hb].
        apply Nat.leb_le in Ha. apply Nat.eqb_eq in Hb. auto.
      + intros e He. specialize (H3 e He). apply guard_nil in H3.
        destruct (find_key (e_src e) dn) as [d1|]; [|discriminate].
        destruct (find_key (e_tgt e) dn) as [d2|]; [|discriminate].
        split; eexists; reflexivity.
      + intros d Hd Hs. specialize (H4 d Hd). apply guard_nil in H4. rewrite Hs in H4. simpl in H4.
        apply dep_drawn_spec. exact H4.
      + intros e He. specialize (H5 e He). apply guard_nil in H5. apply justified_spec. exact H5.
      + intros f Hf He Hv. specialize (H6 f Hf). apply guard_nil in H6. rewrite He, Hv in H6. simpl in H6.
        apply end_drawn_spec. exact H6.
      + intros Hm p c Hp Hc. rewrite Hm in H7. rewrite flat_map_nil in H7. specialize (H7 p Hp).
        rewrite flat_map_nil in H7. specialize (H7 c Hc). apply guard_nil in H7. apply input_drawn_spec. exact H7.
    - intros [H1 H2 H3 H4 H5 H6 H7]. repeat split.
      + exact H1.
      + intros f Hf. apply guard_nil. destruct (H2 f Hf) as [Ha Hb].
        apply andb_true_iff. split; [apply Nat.leb_le; exact Ha | apply Nat.eqb_eq; exact Hb].
      + intros e He. apply guard_nil. destruct (H3 e He) as [[d1 E1] [d2 E2]]. fold dn. rewrite E1, E2. reflexivity.
      + intros d Hd. apply guard_nil. destruct (dep_shown st d) eqn:Es; [|reflexivity].
        simpl. apply dep_drawn_spec. apply H4; assumption.
      + intros e He. apply guard_nil. apply justified_spec. apply H5. exact He.
      + intros f Hf. apply guard_nil. destruct (f_end f) eqn:Ee; [|reflexivity].
        destruct (vis st (f_id f)) eqn:Ev; [|reflexivity]. simpl. apply end_drawn_spec. apply H6; assumption.
      + destruct (inputs_complete m) eqn:Em; [|reflexivity].
        apply flat_map_nil. intros p Hp. apply flat_map_nil. intros c Hc. apply guard_nil.
        apply input_drawn_spec. apply H7; auto.
  Qed.

  Corollary faithful_b_spec : faithful_b m ts es ext st D = true <-> Faithful.
  Proof.
    unfold faithful_b. rewrite <- viz_problems_spec. destruct (viz_problems m ts es ext st D); split; congruence.
  Qed.
End Faithful.
