(* C20 — the visualisation shows exactly the graph's structure in every expansion state.

   What is proved here (models: coq/theories/Viz.v):
     * to_flat_graph (Viz.flatten_all) lists every node of every nesting level exactly once, under its
       parent, with unique hierarchical ids whose string form "a/b/c" is injective;
     * enumerate_valid_expansion_states (Viz.enum_states) returns, without repetition, exactly the states
       in which every expanded container has all enclosing containers expanded; build_expansion_state(depth)
       is one of them and shows exactly the nodes of nesting level <= depth;
     * the checker Viz.viz_problems, applied by the harness to EVERY drawing the renderer produces, reports no
       problem exactly for the drawings that satisfy the declarative predicate Faithful (VizProofs.v).
   The renderer itself is validated per output (translation validation), not modelled. *)
From HG Require Import Base Viz VizProofs VizMaps.

(* ---------------------------------------------------------------- flattening *)

Theorem C20_flatten_once : forall ts, wf_ts ts -> NoDup (map f_id (flatten_all ts)).
Proof. exact flatten_all_nodup. Qed.
Print Assumptions C20_flatten_once.

Theorem C20_flatten_exact : forall ts, wf_ts ts -> forall f,
  In f (flatten_all ts) <-> exists t, lookup ts (f_id f) = Some t /\ f = entry_at (f_id f) t.
Proof. exact flatten_all_spec. Qed.
Print Assumptions C20_flatten_exact.

Theorem C20_flatten_count : forall ts, length (flatten_all ts) = size_ts ts.
Proof. exact flatten_all_length. Qed.
Print Assumptions C20_flatten_count.

Theorem C20_flatten_parent : forall ts f, In f (flatten_all ts) ->
  f_parent f = match removelast (f_id f) with [] => None | q => Some q end.
Proof. exact flatten_all_parent. Qed.
Print Assumptions C20_flatten_parent.

Theorem C20_flatten_parent_listed : forall ts, wf_ts ts -> forall f q,
  In f (flatten_all ts) -> f_parent f = Some q -> exists g, In g (flatten_all ts) /\ f_id g = q.
Proof. exact flatten_all_parent_listed. Qed.
Print Assumptions C20_flatten_parent_listed.

Theorem C20_ids_injective : forall (A : Type) (sep : A) (l1 l2 : list (list A)),
  l1 <> [] -> l2 <> [] -> Forall (fun x => ~ In sep x) l1 -> Forall (fun x => ~ In sep x) l2 ->
  join sep l1 = join sep l2 -> l1 = l2.
Proof. exact @join_inj. Qed.
Print Assumptions C20_ids_injective.

(* ---------------------------------------------------------------- expansion states *)

Theorem C20_states : forall l st, In st (enum_states l) <-> map fst st = l /\ valid_state st = true.
Proof. exact enum_states_spec. Qed.
Print Assumptions C20_states.

Theorem C20_states_no_repetition : forall l, NoDup (enum_states l).
Proof. exact enum_states_nodup. Qed.
Print Assumptions C20_states_no_repetition.

Theorem C20_valid_means : forall st, NoDup (map fst st) ->
  (valid_state st = true <->
   forall n, st_get st n = true -> forall a, In a (ancestors n) -> st_get st a = true).
Proof. exact valid_state_spec. Qed.
Print Assumptions C20_valid_means.

Theorem C20_ancestors : forall n a, In a (ancestors n) <-> a <> [] /\ exists r, r <> [] /\ n = a ++ r.
Proof. exact ancestors_spec. Qed.
Print Assumptions C20_ancestors.

Theorem C20_depth_state : forall d l,
  (forall n a, In n l -> In a (ancestors n) -> In a l) -> In (state_of_depth d l) (enum_states l).
Proof. exact state_of_depth_enumerated. Qed.
Print Assumptions C20_depth_state.

Theorem C20_depth_visible : forall d l n, (forall a, In a (ancestors n) -> In a l) ->
  (vis (state_of_depth d l) n = true <-> level n <= d).
Proof. exact vis_state_of_depth. Qed.
Print Assumptions C20_depth_visible.

(* ---------------------------------------------------------------- producer / consumer maps by visibility *)

(* build_param_to_consumer_map: every listed consumer takes the parameter and is visible (unless the deepest map is asked for) *)
Theorem C20_consumers_sound : forall fl st deepest p c,
  In c (consumers fl st deepest p) ->
  exists f, In f fl /\ f_id f = c /\ In p (f_ins f) /\ (deepest = true \/ vis st c = true).
Proof. exact consumers_sound. Qed.
Print Assumptions C20_consumers_sound.

(* no listed consumer encloses another listed one: a container is dropped in favour of the consumers inside it ... *)
Theorem C20_consumers_deepest : forall fl st deepest p c d,
  In c (consumers fl st deepest p) -> In d (consumers fl st deepest p) -> is_desc d c = false.
Proof. exact consumers_deepest. Qed.
Print Assumptions C20_consumers_deepest.

(* ... and nothing else is dropped *)
Theorem C20_consumers_complete : forall fl st deepest p c,
  In c (raw_consumers fl st deepest p) ->
  (forall d, In d (raw_consumers fl st deepest p) -> d <> c -> is_desc d c = false) ->
  In c (consumers fl st deepest p).
Proof. exact consumers_complete. Qed.
Print Assumptions C20_consumers_complete.

(* build_output_to_producer_map: a (visible) producer of the name of maximal nesting depth, none if there is none *)
Theorem C20_producer : forall st deepest o fl,
  match producer fl st deepest o with
  | None => forall f, In f fl -> In o (f_outs f) -> deepest = false /\ vis st (f_id f) = false
  | Some n =>
      (exists f, In f fl /\ f_id f = n /\ In o (f_outs f) /\ (deepest = true \/ vis st n = true)) /\
      (forall f, In f fl -> In o (f_outs f) -> (deepest = true \/ vis st (f_id f) = true) -> level (f_id f) <= level n)
  end.
Proof. exact producer_spec. Qed.
Print Assumptions C20_producer.

(* ---------------------------------------------------------------- the checker *)

Theorem C20_checker : forall m ts es ext st D,
  viz_problems m ts es ext st D = [] <-> Faithful m ts es ext st D.
Proof. exact viz_problems_spec. Qed.
Print Assumptions C20_checker.

(* ---------------------------------------------------------------- non-vacuity *)

(* Graph([mk(x)->a, Graph([c1(a,k)->b, c2(a,b)->c], name='inner').as_node(), use(c,x)->d]) *)
Definition ex_ts : list tnode :=
  [ TN 1 false [10] [11] [] [] false [] [];
    TN 2 true [11; 12] [13; 14] [] [] false
       [ TN 3 false [11; 12] [13] [] [] false [] [];
         TN 4 false [11; 13] [14] [] [] false [] [] ]
       [ (3, 4, KData, [13]) ];
    TN 5 false [14; 10] [15] [] [] false [] [] ]%positive.
Definition ex_es : list tedge := [ (1, 2, KData, [11]); (2, 5, KData, [14]) ]%positive.
Definition ex_ext : list name := [10; 12]%positive.
Definition ex_st : xstate := [ ([2%positive], true) ].

Definition ex_nodes : list dnode :=
  [ {| d_key := 1; d_kind := DReal [1]; d_hidden := false |};
    {| d_key := 2; d_kind := DReal [2]; d_hidden := false |};
    {| d_key := 3; d_kind := DReal [2; 3]; d_hidden := false |};
    {| d_key := 4; d_kind := DReal [2; 4]; d_hidden := false |};
    {| d_key := 5; d_kind := DReal [5]; d_hidden := false |};
    {| d_key := 6; d_kind := DInput [10]; d_hidden := false |};
    {| d_key := 7; d_kind := DInput [12]; d_hidden := false |} ]%positive.
Definition E s t ty := {| e_src := s; e_tgt := t; e_ty := ty |}.
Definition ex_edges_good : list dedge :=
  [ E 6 1 TInput; E 6 5 TInput; E 7 3 TInput; E 1 3 TData; E 1 4 TData; E 3 4 TData; E 4 5 TData ]%positive.
(* the drawing produced before repository fix 4590cc9: the value entering the container reaches c1 only *)
Definition ex_edges_legacy : list dedge :=
  [ E 6 1 TInput; E 6 5 TInput; E 7 3 TInput; E 1 3 TData; E 3 4 TData; E 4 5 TData ]%positive.
Definition ex_mode := {| separate := false; inputs_complete := true |}.

Example C20_wf_example : wf_ts ex_ts.
Proof.
  split.
  - simpl. repeat constructor; simpl; intuition discriminate.
  - repeat constructor; simpl; intuition (try discriminate); repeat constructor; simpl; intuition discriminate.
Qed.

Example C20_faithful_example :
  Faithful ex_mode ex_ts ex_es ex_ext ex_st {| dnodes := ex_nodes; dedges := ex_edges_good |}.
Proof. apply viz_problems_spec. vm_compute. reflexivity. Qed.

(* the checker is not vacuous: the pre-fix drawing of the same state is rejected, for the dependency mk -> inner/c2 *)
Example C20_F8_detected :
  viz_problems ex_mode ex_ts ex_es ex_ext ex_st {| dnodes := ex_nodes; dedges := ex_edges_legacy |}
  = [ (4%nat, [1], [2; 4], 11, 1) ]%positive.
Proof. vm_compute. reflexivity. Qed.

Example C20_states_example :
  enum_states [ [2]; [2; 6] ]%positive =
  [ [ ([2], false); ([2; 6], false) ]; [ ([2], true); ([2; 6], false) ]; [ ([2], true); ([2; 6], true) ] ]%positive.
Proof. vm_compute. reflexivity. Qed.

(* ---- shared output names: the flattened graph carries a data edge from EVERY producer (graph/core.py
        _edges_from_every_producer, model VizProducers.complete_level / complete_forest) ---- *)
From HG Require Import VizProducers.

(* once the first producer's edge is there (Graph.nx_graph draws that one), every producer of every consumed name has an edge to
   the consumer *)
Theorem C20_every_producer_has_an_edge ts es c p s :
  In c ts -> In p (t_ins c) -> In s (producers_of ts p) ->
  (forall s0 rest, producers_of ts p = s0 :: rest -> has_pair es s0 (t_name c) = true) ->
  has_pair (complete_level ts es) s (t_name c) = true.
Proof. exact (complete_every_producer ts es c p s). Qed.
Print Assumptions C20_every_producer_has_an_edge.

(* and nothing else is added: a new pair is a producer / consumer name match of that level *)
Theorem C20_only_matches_added ts es a b :
  has_pair (complete_level ts es) a b = true ->
  has_pair es a b = true \/ exists t p, In t ts /\ t_name t = b /\ In p (t_ins t) /\ In a (producers_of ts p).
Proof. exact (complete_only_matches ts es a b). Qed.
Print Assumptions C20_only_matches_added.

(* the completion leaves the nested structure alone and is applied at every level *)
Theorem C20_completion_every_level t :
  t_name (complete_tree t) = t_name t /\ t_ins (complete_tree t) = t_ins t /\ t_outs (complete_tree t) = t_outs t /\
  t_ch (complete_tree t) = complete_forest (t_ch t) /\ t_es (complete_tree t) = complete_level (t_ch t) (t_es t).
Proof.
  exact (conj (complete_tree_name t) (conj (complete_tree_ins t) (conj (complete_tree_outs t) (conj (complete_tree_ch t) (complete_tree_es t))))).
Qed.
Print Assumptions C20_completion_every_level.

(* gate -> pa | pb, both producing w, use(w): nx_graph has pa -> use only; the completed level has pb -> use as well *)
Example C20_shared_producer_example :
  let ts := [ TN 1 false [10] [] [] [] false [] []; TN 2 false [10] [11] [] [] false [] [];
              TN 3 false [10] [11] [] [] false [] []; TN 4 false [11] [12] [] [] false [] [] ]%positive in
  let es := [ (1, 2, KControl, []); (1, 3, KControl, []); (2, 4, KData, [11]) ]%positive in
  has_pair es 3 4 = false /\ complete_level ts es = (es ++ [ (3, 4, KData, [11]) ])%positive.
Proof. vm_compute. split; reflexivity. Qed.
