(* C20 — visualisation shows exactly the graph's structure in every expansion state. *)
From HG Require Import Base Viz VizProofs.

Theorem C20_placeholder : forall a b, nid_eqb a b = true <-> a = b.
Proof. exact nid_eqb_eq. Qed.
Print Assumptions C20_placeholder.
