(* C15 — max_concurrency bounds all node executions globally and never deadlocks. *)
From HG Require Import Base Sema SemaProofs.

(* with k permits: at no reachable configuration of ANY job tree (supersteps, nested graphs, unbounded and
   bounded maps, to any depth), under ANY schedule, are more than k node bodies executing *)
Theorem C15_bound : forall j k t f n,
  steps (start j, k) (t, f) n -> running t + f = k /\ running t <= k.
Proof. exact bound_reachable. Qed.
Print Assumptions C15_bound.

(* no deadlock: for k >= 1 every reachable unfinished configuration has an enabled transition *)
Theorem C15_progress : forall j k t f n,
  wfj j = true -> 1 <= k -> steps (start j, k) (t, f) n -> finalb t = false ->
  exists t' f', step (t, f) (t', f').
Proof. exact no_deadlock_reachable. Qed.
Print Assumptions C15_progress.

(* no starvation / livelock: every schedule is finite, at most mu(start j) transitions (no fairness assumed) *)
Theorem C15_terminates : forall a b n, steps a b n -> n + mu (fst b) <= mu (fst a).
Proof. exact schedules_bounded. Qed.
Print Assumptions C15_terminates.

(* the discipline is what the proof uses: a leaf waiting for a permit while NOBODY runs and no permit is
   free — the situation a container holding the permit creates — is stuck *)
Theorem C15_negative : ~ exists c, step (TLeaf Wait, 0) c.
Proof. intros [c H]. inversion H. Qed.
Print Assumptions C15_negative.

(* Non-vacuity: a run of two supersteps whose first step holds a nested run and a bounded map *)
Example C15_nonvacuous :
  let j := JSteps [[JLeaf; JSteps [[JLeaf; JLeaf]]; JPool 2 [JLeaf; JLeaf; JLeaf]]; [JLeaf]] in
  wfj j = true /\ finalb (start j) = false /\ mu (start j) <= mu_j j /\
  exists c, step (start j, 1) c.
Proof.
  split; [reflexivity|]. split; [reflexivity|]. split; [vm_compute; lia|].
  eexists. simpl. apply (s_steps_in [] (TLeaf Wait) _ _ (TLeaf Run) 1 0). apply s_acquire.
Qed.

(* a leaf that starts without taking a permit (the interrupt handlers before fix 303f9ce) breaks the bound: two sibling
   handlers are open at once under k = 1 *)
From HG Require Import SemaFree.
Theorem C15_unlimited_leaf_refuted :
  exists t f, stepsf (start (JPar [JLeaf; JLeaf]), 1) (t, f) /\ running t = 2 /\ 1 < running t.
Proof. exact unlimited_leaves_break_the_bound. Qed.
Print Assumptions C15_unlimited_leaf_refuted.
