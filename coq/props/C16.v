(* C16 — entry points limit what runs; results hold only requested outputs. *)
From HG Require Import Base Engine Exec EngineProofs GraphDef Samples ScopeProofs.
From stdpp Require Import gmap.

(* With entry points configured only active nodes (entry nodes and their descendants) are
   ever scheduled, in every state of the run. *)
Theorem C16_active : forall g st n a,
  g_active g = Some a -> In n (ready_list g st) -> In (n_name n) a.
Proof. exact ready_active. Qed.
Print Assumptions C16_active.

(* ... so, over a WHOLE run: every node call of every run - either runner, any executor, any budget, however the run ends
   (completed, failed, paused, out of budget) - is a call of a node of the active set.  Nothing outside the scope ever runs. *)
Theorem C16_run_scope : forall exec r fuel g pv a, g_active g = Some a ->
  forall cs c, In cs (snd (execute exec r fuel g pv)) -> In c cs -> In (fst c) a.
Proof. exact execute_only_active. Qed.
Print Assumptions C16_run_scope.

(* select="**": a returned key is a declared output of some node, holds the state's value,
   and is never an ordering sentinel. *)
Theorem C16_keys_all : forall g st k v,
  In (k, v) (filter_outputs g st None) ->
  (exists n, In n (g_nodes g) /\ In k (n_outputs n)) /\ vals st !! k = Some v /\ v <> VSentinel.
Proof.
  intros g st k v H. apply collect_all_spec in H as (H1 & H2 & H3).
  split; [apply graph_outputs_declared; exact H1 | split; assumption].
Qed.
Print Assumptions C16_keys_all.

(* explicit selection: only selected names, never sentinels *)
Theorem C16_keys_selected : forall st names k v,
  In (k, v) (fst (collect_selected st names)) ->
  In k names /\ vals st !! k = Some v /\ v <> VSentinel.
Proof. exact collect_selected_spec. Qed.
Print Assumptions C16_keys_selected.

(* on_missing: a selected name is reported missing iff it is not in the state at all ... *)
Theorem C16_missing_names : forall st names k,
  In k (snd (collect_selected st names)) <-> In k names /\ vals st !! k = None.
Proof. exact collect_selected_missing. Qed.
Print Assumptions C16_missing_names.

(* ... and the policy decides: nothing missing or 'ignore' -> the values, quietly; 'warn' -> the values plus a warning naming
   exactly the missing names; 'error' -> an error naming them, and no values. *)
Theorem C16_on_missing : forall pol st names,
  let missing := snd (collect_selected st names) in
  let values := dupdate [] (fst (collect_selected st names)) in
  match select_outputs pol st names with
  | SelOk v => v = values /\ (missing = [] \/ pol = MIgnore)
  | SelWarn v m => v = values /\ m = missing /\ missing <> [] /\ pol = MWarn
  | SelError m => m = missing /\ missing <> [] /\ pol = MError
  end.
Proof. exact select_outputs_spec. Qed.
Print Assumptions C16_on_missing.

Example C16_nonvacuous :
  let r := run_basic loop_ft loop_gt Sync 20 loop [(1%positive, VInt 0)] None in
  res_values r = [(1%positive, VInt 3)]     (* the emitted signal 20 is not returned *).
Proof. vm_compute. reflexivity. Qed.
