(* C17 — ordering signals: a waiter runs after, and once per, each production. *)
From HG Require Import Base Engine Exec EngineProofs Provenance Samples LoopCount.
From stdpp Require Import gmap.

(* safety *)
Theorem C17_after : forall g st W s,
  In W (ready_list g st) -> In s (n_wait W) -> vals (ready_state g st) !! s <> None.
Proof. exact waiter_after. Qed.
Print Assumptions C17_after.

(* ... and, in every state a run reaches (any graph: gates, cycles; either runner), that value was WRITTEN BY A PRODUCER THAT
   HAS COMPLETED an execution (unless the caller injected the signal name): every present value was provided or is an
   output of an executed node - the provenance invariant of Provenance.v. *)
Theorem C17_after_producer : forall exec g pv,
  (forall n s ins outs dec, exec n s ins = OOk outs dec -> forall k, In k (dkeys outs) -> In k (n_outputs n)) ->
  forall r k st W s,
  steps exec r g pv k (init_state pv) st ->
  In W (ready_list g st) -> In s (n_wait W) -> dmem pv s = false ->
  exists P, In P (g_nodes g) /\ In s (n_outputs P) /\ execs (ready_state g st) !! n_name P <> None.
Proof. exact waiter_after_producer. Qed.
Print Assumptions C17_after_producer.

Theorem C17_not_same_step : forall g st W P s,
  In W (ready_list g st) -> In P (ready_list g st) -> In s (n_wait W) ->
  n_name P <> n_name W -> ~ In s (n_outputs P).
Proof. exact waiter_not_with_producer. Qed.
Print Assumptions C17_not_same_step.

Theorem C17_once : forall g st W s r,
  In W (ready_list g st) -> In s (n_wait W) ->
  execs (ready_state g st) !! n_name W = Some r ->
  default 0 (dget (r_wait r) s) < ver (ready_state g st) s.
Proof. exact waiter_once. Qed.
Print Assumptions C17_once.

(* liveness: every emission advances the signal's version ... *)
Theorem C17_fresh : forall outs st s,
  In (s, VSentinel) outs -> ver st s < ver (apply_outputs st outs) s.
Proof. exact emit_bumps. Qed.
Print Assumptions C17_fresh.

(* ... and the ready list is complete: a node meeting every readiness condition that is
   neither held back by a ready gate nor deferred behind a co-ready producer IS started. *)
Theorem C17_runs_again : forall g st n,
  In n (g_nodes g) -> is_active g n = true -> node_ready g (ready_state g st) n = true ->
  let r0 := List.filter (fun m => is_active g m && node_ready g (ready_state g st) m) (g_nodes g) in
  let r1 := List.filter (fun m => negb (is_blocked r0 m)) r0 in
  is_blocked r0 n = false -> deferred r1 n = false -> In n (ready_list g st).
Proof. exact ready_complete. Qed.
Print Assumptions C17_runs_again.

(* ONCE PER PRODUCTION, over a whole run.  In the loop whose gate waits on the end-of-iteration signal `done` emitted by the body
   (Samples.loop), for every body function f and predicate P: the waiting gate runs exactly as often as the signal is produced -
   n productions by n body runs, n gate runs - and the loop keeps iterating until the gate says END (this is C04_loop_exact read
   for the waiter: cnt 13 = cnt 10). *)
Theorem C17_waiter_once_per_production : forall (P : Z -> bool) (f : Z -> Z) (exec : node -> state -> dict val -> outcome) (r : runner) (x0 : Z) (n fuel : nat),
  (forall st x, exec body_node st [(1%positive, VInt x)] = OOk [(1%positive, VInt (f x)); (20%positive, VSentinel)] None) ->
  (forall st x, exec loop_gate st [(1%positive, VInt x)] = OOk [] (Some (Some (if P x then DOne 10 else DEnd)))) ->
  (1 <= n)%nat ->
  (forall j, (1 <= j < n)%nat -> P (Nat.iter j f x0) = true) ->
  P (Nat.iter n f x0) = false ->
  (forall j, (j < n)%nat -> Nat.iter (S j) f x0 <> Nat.iter j f x0) ->
  (2 * n <= fuel)%nat ->
  exists st log,
    execute exec r fuel loop [(1%positive, VInt x0)] = (RDone st, log) /\
    cnt 13 log = cnt 10 log /\ cnt 10 log = n.
Proof.
  intros P f exec r x0 n fuel Hb Hg Hn Hc He Hch Hf.
  destruct (loop_runs_exactly P f exec r x0 n fuel Hb Hg Hn Hc He Hch Hf) as (st & log & Hrun & _ & H10 & H13).
  exists st, log. split; [exact Hrun|]. split; congruence.
Qed.
Print Assumptions C17_waiter_once_per_production.

(* end-to-end: the loop whose gate waits on the end-of-iteration signal keeps iterating *)
Example C17_loop_keeps_iterating :
  let r := run_basic loop_ft loop_gt Sync 20 loop [(1%positive, VInt 0)] None in
  res_status r = 0 /\ res_values r = [(1%positive, VInt 3)].
Proof. vm_compute. split; reflexivity. Qed.
