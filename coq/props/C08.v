(* C08 — the reported input spec is exact; violations fail before execution. *)
From HG Require Import Base Engine GraphDef InputSpec InputSpecProofs EngineProofs Samples.
From stdpp Require Import gmap.

(* required, optional and entry-point parameters are pairwise disjoint (every graph, binding,
   entry-point and selection configuration) *)
Theorem C08_disjoint : forall wd nodes bound nested eps sel p,
  let s := input_spec_w wd nodes bound nested eps sel in
  (In p (is_required s) -> ~ In p (is_optional s)) /\
  (In p (is_required s) \/ In p (is_optional s) -> ~ In p (flat_map snd (is_entry s))).
Proof. intros. split; [apply required_not_optional | apply free_not_entry]. Qed.
Print Assumptions C08_disjoint.

(* a required name has no value of its own: not bound, and no consumer offers a default *)
Theorem C08_required_exact : forall wd nodes bound nested eps sel p,
  let s := input_spec_w wd nodes bound nested eps sel in
  In p (is_required s) ->
  dmem bound p = false /\
  forall n, In n (act_nodes nodes (active_scope wd nodes eps sel)) -> In p (n_inputs n) -> ~ In p (n_hasdef n).
Proof. intros. split; [eapply required_not_bound; eauto | eapply required_no_default; eauto]. Qed.
Print Assumptions C08_required_exact.

(* omitting a required input is never accepted; validation is a pure function evaluated before
   the run loop (Engine.execute) is entered, so nothing has been called or emitted *)
Theorem C08_necessary : forall wd nodes bound nested eps sel pv r,
  let s := input_spec_w wd nodes bound nested eps sel in
  In r (is_required s) -> ~ In r (dkeys (is_bound s) ++ dkeys pv) ->
  validate_w wd nodes bound nested eps sel pv <> VOk.
Proof. intros. eapply missing_required_rejected; eauto. Qed.
Print Assumptions C08_necessary.

(* supplying every required name, with every cycle seeded through exactly one of its listed
   entry points, is accepted: nothing else is needed *)
Theorem C08_sufficient_accept : forall wd nodes bound nested eps sel pv,
  let s := input_spec_w wd nodes bound nested eps sel in
  (forall grp, In grp (scc_groups nodes (is_entry s)) ->
      check_group (is_entry s) grp (dkeys (is_bound s) ++ dkeys pv) = VOk) ->
  (forall r, In r (is_required s) -> In r (dkeys (is_bound s) ++ dkeys pv)) ->
  validate_w wd nodes bound nested eps sel pv = VOk.
Proof. intros. eapply complete_inputs_accepted; eauto. Qed.
Print Assumptions C08_sufficient_accept.

Theorem C08_bind : forall wd nodes bound nested eps sel p v,
  ~ In p (is_required (input_spec_w wd nodes (dset bound p v) nested eps sel)).
Proof. exact bind_removes_required. Qed.
Print Assumptions C08_bind.

Theorem C08_unbind : forall (d : dict val) k v, ~ In k (dkeys d) -> dremove (dset d k v) k = d.
Proof. exact (@unbind_restores val). Qed.
Print Assumptions C08_unbind.

(* whatever passes validation, a node the scheduler starts can always collect its inputs *)
Theorem C08_ready_resolvable : forall g st pv n,
  (forall p, In p (n_hasdef n) -> dmem (n_defval n) p = true) ->
  In n (ready_list g st) ->
  exists ins, collect_inputs g (ready_state g st) pv n (n_inputs n) = Some ins.
Proof. exact ready_resolvable. Qed.
Print Assumptions C08_ready_resolvable.

(* Non-vacuity: the diamond DAG requires exactly x; the loop lists body as its entry point *)
Example C08_nonvacuous :
  is_required (input_spec dag_nodes [] [] None None) = [1%positive] /\
  validate dag_nodes [] [] None None [(1%positive, VInt 0)] = VOk /\
  validate dag_nodes [] [] None None [] = VMissing /\
  is_entry (input_spec [body_node; loop_gate] [] [] None None) = [(10%positive, [1%positive])].
Proof. vm_compute. repeat split; reflexivity. Qed.

(* ---- the per-target model of the selection scope (what check 101 accepts) contains the two extremes the theorems above are about ---- *)
From HG Require Import InputSpecScope.
Theorem C08_scope_choice_lower_extreme : forall nodes bound nb eps sel,
  input_spec_s [] nodes bound nb eps sel = input_spec_w false nodes bound nb eps sel.
Proof. exact spec_none_is_lower_extreme. Qed.
Print Assumptions C08_scope_choice_lower_extreme.

Theorem C08_scope_choice_upper_extreme : forall Ts nodes bound nb eps sel,
  (forall n t, In n nodes -> is_gate n = true -> In t (gate_targets n) -> pos_in t Ts = true) ->
  input_spec_s Ts nodes bound nb eps sel = input_spec_w true nodes bound nb eps sel.
Proof. exact spec_all_is_upper_extreme. Qed.
Print Assumptions C08_scope_choice_upper_extreme.
