(* C03 — a gated node runs only while a controlling gate selects it. *)
From HG Require Import Base Engine Exec EngineProofs GateProofs Samples GateRun.
From stdpp Require Import gmap.

(* Every node the scheduler starts that has controlling gates is named by the standing
   decision of one of them, or is let through by a default-open gate that has not executed
   in this run.  Holds in every state of every graph (cycles, several gates per target). *)
Theorem C03_activation : forall g st n,
  In n (ready_list g st) -> controlled_by g (n_name n) <> [] ->
  exists G, In G (controlled_by g (n_name n)) /\
    let st' := ready_state g st in
    ((exists d, decs st' !! G = Some d /\ activated_by d (n_name n) = true) \/
     (decs st' !! G = None /\ execs st' !! G = None /\
      exists gn, find_node g G = Some gn /\ gate_default_open gn = true)).
Proof. exact ready_activation. Qed.
Print Assumptions C03_activation.

(* When a gate and its targets become runnable together, the gate decides first. *)
Theorem C03_gate_first : forall g st G T,
  In G (ready_list g st) -> is_gate G = true -> In (n_name T) (gate_targets G) ->
  n_name T <> n_name G -> ~ In T (ready_list g st).
Proof. exact gate_first. Qed.
Print Assumptions C03_gate_first.

(* A standing (non-END) decision was computed from the gate's current inputs: a decision
   whose gate must re-run is cleared before it can activate anything. *)
Theorem C03_fresh_decision : forall g st G d gn,
  decs (ready_state g st) !! G = Some d -> d <> DEnd ->
  In gn (g_nodes g) -> is_gate gn = true -> n_name gn = G ->
  needs_execution g (ready_state g st) gn = false.
Proof. exact ready_decision_fresh. Qed.
Print Assumptions C03_fresh_decision.

(* END is terminal: while it stands the gate activates nothing. *)
Theorem C03_END_terminal : forall g st G,
  decs st !! G = Some DEnd ->
  decs (ready_state g st) !! G = Some DEnd /\ forall t, gate_opens g (ready_state g st) G t = false.
Proof. exact end_is_terminal. Qed.
Print Assumptions C03_END_terminal.

(* A decision activates exactly the node(s) it names. *)
Theorem C03_decision_names : forall d t,
  activated_by d t = true ->
  match d with DEnd => False | DOne x => x = t | DMany xs => In t xs end.
Proof.
  intros [|x|xs] t H; simpl in *; [discriminate | apply Pos.eqb_eq; exact H | apply pos_in_In; exact H].
Qed.
Print Assumptions C03_decision_names.

(* Run level: a node whose only controlling gate is CLOSED BY DEFAULT is never scheduled before that gate has completed an
   execution - in every state a run reaches, any graph, either runner (a standing decision always belongs to a gate with an
   execution record: invariant DecExec). *)
Theorem C03_closed_gate_first : forall exec g pv r k st t G gn,
  steps exec r g pv k (init_state pv) st ->
  In t (ready_list g st) ->
  controlled_by g (n_name t) = [G] ->
  find_node g G = Some gn -> gate_default_open gn = false ->
  execs (ready_state g st) !! G <> None.
Proof. exact closed_gate_runs_first. Qed.
Print Assumptions C03_closed_gate_first.

(* WHOLE RUNS.  The routed fan  gate(c) -> B | C | END ; B(x) -> b ; C(x) -> c2  (Samples.gated, gate closed by default) with
   ARBITRARY branch functions and ANY routing function choosing one target or END, under either runner and any budget of at
   least 2 supersteps (1 for END): the run completes; the gate runs once and FIRST; exactly the selected branch runs, once;
   the other branch never runs and its output is absent; with END neither runs. *)
Theorem C03_run_routes : forall (fB fC : Z -> val) (D : Z -> decision) (exec : node -> state -> dict val -> outcome),
  (forall st c, exec gate_node st [(2%positive, VInt c)] = OOk [] (Some (Some (D c)))) ->
  (forall st x, exec (fnode 11 [1%positive] [32%positive] 2) st [(1%positive, VInt x)] = OOk [(32%positive, fB x)] None) ->
  (forall st x, exec (fnode 12 [1%positive] [33%positive] 3) st [(1%positive, VInt x)] = OOk [(33%positive, fC x)] None) ->
  forall (r : runner) (x c : Z) (fuel : nat),
  match D c with
  | DEnd =>
      exists s, execute exec r (S fuel) gated (pv0 x c) = (RDone s, [[(13%positive, [(2%positive, VInt c)])]]) /\
                vals s !! 32%positive = None /\ vals s !! 33%positive = None
  | DOne t =>
      if Pos.eqb t 11 then
        exists s, execute exec r (S (S fuel)) gated (pv0 x c) =
                    (RDone s, [[(13%positive, [(2%positive, VInt c)])]; [(11%positive, [(1%positive, VInt x)])]]) /\
                  vals s !! 32%positive = Some (fB x) /\ vals s !! 33%positive = None
      else if Pos.eqb t 12 then
        exists s, execute exec r (S (S fuel)) gated (pv0 x c) =
                    (RDone s, [[(13%positive, [(2%positive, VInt c)])]; [(12%positive, [(1%positive, VInt x)])]]) /\
                  vals s !! 33%positive = Some (fC x) /\ vals s !! 32%positive = None
      else True
  | DMany _ => True
  end.
Proof. exact gated_run_routes. Qed.
Print Assumptions C03_run_routes.

(* ... instantiated with the executor and tables of the correspondence harness (route table 0 -> B, 1 -> C, otherwise END) *)
Theorem C03_model_routes : forall (r : runner) (x c : Z) (fuel : nat),
  match gated_decision c with
  | DEnd =>
      exists s, execute (exec_basic gated_ft gated_gt) r (S fuel) gated (pv0 x c) = (RDone s, [[(13%positive, [(2%positive, VInt c)])]]) /\
                vals s !! 32%positive = None /\ vals s !! 33%positive = None
  | DOne t =>
      if Pos.eqb t 11 then
        exists s, execute (exec_basic gated_ft gated_gt) r (S (S fuel)) gated (pv0 x c) =
                    (RDone s, [[(13%positive, [(2%positive, VInt c)])]; [(11%positive, [(1%positive, VInt x)])]]) /\
                  vals s !! 32%positive = Some (VTup [VStr 11; VInt x]) /\ vals s !! 33%positive = None
      else if Pos.eqb t 12 then
        exists s, execute (exec_basic gated_ft gated_gt) r (S (S fuel)) gated (pv0 x c) =
                    (RDone s, [[(13%positive, [(2%positive, VInt c)])]; [(12%positive, [(1%positive, VInt x)])]]) /\
                  vals s !! 33%positive = Some (VTup [VStr 12; VInt x]) /\ vals s !! 32%positive = None
      else True
  | DMany _ => True
  end.
Proof. exact gated_model_routes. Qed.
Print Assumptions C03_model_routes.

(* Non-vacuity: closed-by-default gate; before it decides nothing starts, afterwards exactly
   the chosen branch is ready. *)
Example C03_nonvacuous :
  let exec := exec_basic gated_ft gated_gt in
  let s0 := init_state [(1%positive, VInt 4); (2%positive, VInt 1)] in
  map n_name (ready_list gated s0) = [13%positive] /\
  match superstep exec Sync gated (ready_state gated s0) [] (ready_list gated s0) with
  | (SOk s1, _) => map n_name (ready_list gated s1) = [12%positive] /\ controlled_by gated 12 <> []
  | _ => False
  end.
Proof. vm_compute. split; [reflexivity|]. split; [reflexivity | discriminate]. Qed.
