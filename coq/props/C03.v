(* C03 — a gated node runs only while a controlling gate selects it. *)
From HG Require Import Base Engine Exec EngineProofs GateProofs Samples.
From stdpp Require Import gmap.

(* Every node the scheduler starts that has controlling gates is named by the standing
   decision of one of them, or is let through by a default-open gate that has not executed
   in this run.  Holds in every state of every graph (cycles, several gates per target). *)
Theorem C03_activation : forall g st n,
  In n (ready_list g st) -> controlled_by g (n_name n) <> [] ->
  exists G, In G (controlled_by g (n_name n)) /\
    let st' := ready_state g st in
    ((exists d, decs st' !! G = Some d /\ activated_by d (n_name n) = true) \/
     (decs st' !! G = None /\ execs st' !! G = None /\
      exists gn, find_node g G = Some gn /\ gate_default_open gn = true)).
Proof. exact ready_activation. Qed.
Print Assumptions C03_activation.

(* When a gate and its targets become runnable together, the gate decides first. *)
Theorem C03_gate_first : forall g st G T,
  In G (ready_list g st) -> is_gate G = true -> In (n_name T) (gate_targets G) ->
  n_name T <> n_name G -> ~ In T (ready_list g st).
Proof. exact gate_first. Qed.
Print Assumptions C03_gate_first.

(* A standing (non-END) decision was computed from the gate's current inputs: a decision
   whose gate must re-run is cleared before it can activate anything. *)
Theorem C03_fresh_decision : forall g st G d gn,
  decs (ready_state g st) !! G = Some d -> d <> DEnd ->
  In gn (g_nodes g) -> is_gate gn = true -> n_name gn = G ->
  needs_execution g (ready_state g st) gn = false.
Proof. exact ready_decision_fresh. Qed.
Print Assumptions C03_fresh_decision.

(* END is terminal: while it stands the gate activates nothing. *)
Theorem C03_END_terminal : forall g st G,
  decs st !! G = Some DEnd ->
  decs (ready_state g st) !! G = Some DEnd /\ forall t, gate_opens g (ready_state g st) G t = false.
Proof. exact end_is_terminal. Qed.
Print Assumptions C03_END_terminal.

(* A decision activates exactly the node(s) it names. *)
Theorem C03_decision_names : forall d t,
  activated_by d t = true ->
  match d with DEnd => False | DOne x => x = t | DMany xs => In t xs end.
Proof.
  intros [|x|xs] t H; simpl in *; [discriminate | apply Pos.eqb_eq; exact H | apply pos_in_In; exact H].
Qed.
Print Assumptions C03_decision_names.

(* Run level: a node whose only controlling gate is CLOSED BY DEFAULT is never scheduled before that gate has completed an
   execution - in every state a run reaches, any graph, either runner (a standing decision always belongs to a gate with an
   execution record: invariant DecExec). *)
Theorem C03_closed_gate_first : forall exec g pv r k st t G gn,
  steps exec r g pv k (init_state pv) st ->
  In t (ready_list g st) ->
  controlled_by g (n_name t) = [G] ->
  find_node g G = Some gn -> gate_default_open gn = false ->
  execs (ready_state g st) !! G <> None.
Proof. exact closed_gate_runs_first. Qed.
Print Assumptions C03_closed_gate_first.

(* Non-vacuity: closed-by-default gate; before it decides nothing starts, afterwards exactly
   the chosen branch is ready. *)
Example C03_nonvacuous :
  let exec := exec_basic gated_ft gated_gt in
  let s0 := init_state [(1%positive, VInt 4); (2%positive, VInt 1)] in
  map n_name (ready_list gated s0) = [13%positive] /\
  match superstep exec Sync gated (ready_state gated s0) [] (ready_list gated s0) with
  | (SOk s1, _) => map n_name (ready_list gated s1) = [12%positive] /\ controlled_by gated 12 <> []
  | _ => False
  end.
Proof. vm_compute. split; [reflexivity|]. split; [reflexivity | discriminate]. Qed.
