(* C11 — errors surface unwrapped; partial results are exactly the completed work. *)
From HG Require Import Base Rename Engine Exec EngineProofs Nested NestedProofs Provenance Samples.
From stdpp Require Import gmap.

(* the error a failing superstep reports is the very error raised by a ready node's executor: the
   first failing node in ready order, all nodes listed before it having succeeded *)
Theorem C11_identity_step : forall exec r g snap pv rd e p calls,
  List.filter is_interrupt rd = [] ->
  superstep exec r g snap pv rd = (SErr e p, calls) ->
  exists pre n post, rd = pre ++ n :: post /\ snd (run_one exec g snap pv n) = ORaise e /\
    Forall (step_ok exec g snap pv) pre.
Proof. exact superstep_error_origin. Qed.
Print Assumptions C11_identity_step.

(* a run's FAILED outcome carries either the error of a failing superstep, unchanged, or
   InfiniteLoopError; nothing wraps it on the way out of the loop *)
Theorem C11_identity_run : forall exec r fuel g pv st log e p,
  fst (run_loop exec r fuel g pv st log) = RFailed e p ->
  (exists k sk calls, k < fuel /\ steps exec r g pv k st sk /\ ready_list g sk <> [] /\
     superstep exec r g (ready_state g sk) pv (ready_list g sk) = (SErr e p, calls)) \/
  (e = EInfiniteLoop /\ exists sk, steps exec r g pv fuel st sk /\ ready_list g sk <> [] /\ p = ready_state g sk).
Proof.
  intros exec r fuel g pv st log e p H.
  pose proof (run_loop_spec exec r fuel g pv st log) as Hs. rewrite H in Hs. exact Hs.
Qed.
Print Assumptions C11_identity_run.

(* through nesting: a failure of the inner run surfaces from the wrapper as the same error *)
Theorem C11_identity_nested : forall d r ft gt subs n st ins ig isel ieps ift igt isubs hin hout cur_out e p,
  n_kind n = KGraph ->
  dget subs (n_name n) = Some (NSub (NG ig isel ieps ift igt isubs) hin hout cur_out None) ->
  fst (execute (exec_ng d r ift igt isubs) r default_max_iterations ig (map_inputs_to_params hin ins)) = RFailed e p ->
  exec_ng (S d) r ft gt subs n st ins = ORaise e.
Proof.
  intros d r ft gt subs n st ins ig isel ieps ift igt isubs hin hout cur_out e p Hk Hs Hf.
  rewrite (exec_ng_graph d r ft gt subs n st ins ig isel ieps ift igt isubs hin hout cur_out Hk Hs), Hf. reflexivity.
Qed.
Print Assumptions C11_identity_nested.

(* the partial state of a failing synchronous step: exactly the nodes listed before the failing one
   have been applied (the asynchronous step applies every successful sibling: superstep_async) *)
Theorem C11_partial_sync : forall exec g snap pv rd acc log e p calls,
  superstep_sync exec g snap pv rd acc log = (SErr e p, calls) ->
  exists pre n post, rd = pre ++ n :: post /\ Forall (step_ok exec g snap pv) pre /\
    ((exists ins, run_one exec g snap pv n = (Some ins, ORaise e) /\
       p = fold_left (apply_success exec g snap pv) pre (write_decisions exec g snap pv pre acc)) \/
     (run_one exec g snap pv n = (None, ORaise EKeyError) /\ e = EKeyError /\ p = snap)).
Proof. exact superstep_sync_partial. Qed.
Print Assumptions C11_partial_sync.

(* values computed in earlier steps are never lost *)
Theorem C11_keeps_earlier : forall exec r g snap pv rd e p calls x v,
  dom_inv snap -> superstep exec r g snap pv rd = (SErr e p, calls) ->
  vals snap !! x = Some v -> vals p !! x <> None.
Proof. exact partial_keeps_earlier. Qed.
Print Assumptions C11_keeps_earlier.

(* "only values of nodes that completed": every value of the state a FAILED step leaves behind was provided by the caller
   or written by a node that has completed an execution (any graph, either runner) ... *)
Theorem C11_partial_provenance : forall exec g pv,
  (forall n s ins outs dec, exec n s ins = OOk outs dec -> forall k, In k (dkeys outs) -> In k (n_outputs n)) ->
  forall r snap rd e p calls,
  (forall n, In n rd -> In n (g_nodes g)) -> Prov g pv snap ->
  superstep exec r g snap pv rd = (SErr e p, calls) -> Prov g pv p.
Proof. exact failed_state_prov. Qed.
Print Assumptions C11_partial_provenance.

(* ... hence no output whose producers have never completed - the failing node's own outputs on its first execution, and
   whatever can only be computed through them - appears in the FAILED result *)
Theorem C11_no_unfinished_output : forall exec g pv,
  (forall n s ins outs dec, exec n s ins = OOk outs dec -> forall k, In k (dkeys outs) -> In k (n_outputs n)) ->
  forall r snap rd e p calls x,
  (forall n, In n rd -> In n (g_nodes g)) -> Prov g pv snap ->
  superstep exec r g snap pv rd = (SErr e p, calls) ->
  dmem pv x = false ->
  (forall m, In m (g_nodes g) -> In x (n_outputs m) -> execs snap !! n_name m = None /\
      forall m', In m' rd -> n_name m' = n_name m -> ~ step_ok exec g snap pv m') ->
  vals p !! x = None.
Proof. exact failed_no_output_of_unfinished. Qed.
Print Assumptions C11_no_unfinished_output.

Example C11_nonvacuous :
  let ft := [(1, FSym 10); (2, FRaise 77); (3, FSym 12); (4, FSym 14)]%positive in
  let r := run_basic ft [] Sync 10 dag [(1%positive, VInt 5)] None in
  res_status r = 1 /\ res_err r = Some 77%positive /\
  dget (res_values r) 31 <> None /\ dget (res_values r) 32 = None /\ dget (res_values r) 34 = None.
Proof. vm_compute. repeat split; congruence. Qed.
