(* C18 — run isolation: no state leaks between runs; caller-owned objects untouched.
   Statements only; proofs in theories/IsolationProofs.v.  A schedule is ANY interleaving of node calls of any number
   of runs (same or different graphs, same or different runners) over one heap. *)
From HG Require Import Base Isolation IsolationProofs.

(* (A) an object that no run holds a reference to — every signature-default object in particular, since only copies of it
       are ever handed out — has the same contents after any schedule *)
Theorem C18_unreferenced_objects_untouched : forall sched h rs h' rs' tr,
  exec_sched h rs sched = (h', rs', tr) ->
  length h <= length h' /\
  (forall l, In l (all_refs rs') -> In l (all_refs rs)) /\
  forall l, l < length h -> ~ In l (all_refs rs) -> cell_of h' l = cell_of h l.
Proof. exact untouched_unless_referenced. Qed.

(* (B) edge, provided and bound values reach the body as the very same value / object (never copied); a default object is
       never handed out itself: the body gets an object allocated for this call *)
Theorem C18_received_identity : forall h r n h' r' c p k v,
  exec_call h r n = (h', r', c) -> In (p, (k, v)) (c_received c) ->
  match k with
  | KDefault => match v with MRef l => length h <= l | MInt _ => source n r p = (k, v) end
  | _ => source n r p = (k, v)
  end.
Proof. exact received_identity. Qed.

(* (C) the caller's input mapping and the graph's bindings are never written *)
Theorem C18_caller_mappings_never_written : forall sched h rs h' rs' tr,
  exec_sched h rs sched = (h', rs', tr) ->
  map r_provided rs' = map r_provided rs /\ map r_bound rs' = map r_bound rs.
Proof. exact caller_mappings_never_written. Qed.

(* (S) when every mutated parameter was resolved from a signature default: no pre-existing object is modified, and every
       body sees on entry exactly the INITIAL contents of what its parameters denote (pristine defaults included) — whatever
       the other runs, earlier or concurrent, did *)
Theorem C18_isolated_when_only_defaults_are_mutated : forall sched h0 s rs h' rs' tr,
  wf_all h0 rs sched ->
  (forall l, l < length h0 -> cell_of (h0 ++ s) l = cell_of h0 l) ->
  exec_sched (h0 ++ s) rs sched = (h', rs', tr) ->
  (forall st, In st tr -> mut_defaults_only (s_node st) (s_before st)) ->
  (forall l, l < length h0 -> cell_of h' l = cell_of h0 l) /\
  (forall st, In st tr ->
     c_before (s_call st) = map (fun p => deref h0 (snd (source (s_node st) (s_before st) p))) (m_inputs (s_node st))).
Proof. exact isolated_when_only_defaults_are_mutated. Qed.

Print Assumptions C18_unreferenced_objects_untouched.
Print Assumptions C18_received_identity.
Print Assumptions C18_caller_mappings_never_written.
Print Assumptions C18_isolated_when_only_defaults_are_mutated.

(* non-vacuity: two runs of one node whose body appends to its default list; both see the pristine default *)
Example C18_example :
  let n := mk_mnode 1%positive [10; 11]%positive [(11%positive, MRef 0)] [11%positive] 7%Z 12%positive in
  let r := mk_mrun [(10%positive, MInt 3)] [(10%positive, MInt 3)] [] in
  let '(h', rs', tr) := exec_sched [[1; 2]%Z] [r; r] [(0, n); (1, n); (0, n)]%nat in
  map (fun st => c_before (s_call st)) tr = [[[3]; [1; 2]]; [[3]; [1; 2]]; [[3]; [1; 2]]]%Z /\
  map (fun st => c_out (s_call st)) tr = [20; 20; 20]%Z /\ cell_of h' 0 = [1; 2]%Z.
Proof. vm_compute. repeat split. Qed.
