(* C07 — derivation operations never change the object they are called on, nor any other existing object.
   Statements only; proofs in theories/DeriveProofs.v. *)
From HG Require Import Base Rename Derive DeriveProofs.

(* one operation: every graph and node object that existed before shows the same view afterwards
   (bindings, selection, entry points, what `inputs` is computed from / cached as; name, inputs, outputs, rename
   history, defaults as computed or cached, wrapped graph, map_over), and the heap invariants are kept *)
Theorem C07_operation_preserves_all_views : forall h o h' r, Wf h -> Coh h -> step h o = Some (h', r) -> stable h h'.
Proof. exact step_stable. Qed.

(* any history of operations (including ones that raise), applied after any other history *)
Theorem C07_views_never_change : forall ops1 ops2,
  let h1 := run_ops empty_heap ops1 in
  let h2 := run_ops h1 ops2 in
  (forall l, l < length (h_graphs h1) -> view_graph h2 l = view_graph h1 l) /\
  (forall l, l < length (h_nodes h1) -> view_node h2 l = view_node h1 l).
Proof. exact views_never_change. Qed.

(* a derivation returns a new object *)
Theorem C07_result_is_new : forall h o h' l, is_touch o = false -> is_noop_add o = false -> step h o = Some (h', Some l) ->
  if returns_graph o then length (h_graphs h) <= l /\ l < length (h_graphs h')
  else length (h_nodes h) <= l /\ l < length (h_nodes h').
Proof. exact result_is_new. Qed.

(* siblings: two objects derived from a common ancestor; whatever is later done to one (or to anything else) leaves the
   other's view as it was when it was created *)
Corollary C07_siblings_independent : forall ops o1 o2 later h1 r1 h2 r2,
  let h0 := run_ops empty_heap ops in
  step h0 o1 = Some (h1, r1) -> step h1 o2 = Some (h2, r2) ->
  (forall l, l < length (h_graphs h1) -> view_graph (run_ops h2 later) l = view_graph h1 l) /\
  (forall l, l < length (h_nodes h1) -> view_node (run_ops h2 later) l = view_node h1 l).
Proof.
  intros ops o1 o2 later h1 r1 h2 r2 h0 S1 S2.
  pose proof (run_ops_stable ops empty_heap Wf_empty Coh_empty) as A0.
  pose proof (step_stable _ _ _ _ (st_wf _ _ A0) (st_coh _ _ A0) S1) as A1.
  pose proof (step_stable _ _ _ _ (st_wf _ _ A1) (st_coh _ _ A1) S2) as A2.
  pose proof (run_ops_stable later h2 (st_wf _ _ A2) (st_coh _ _ A2)) as A3.
  pose proof (stable_trans _ _ _ A2 A3) as A. split; [apply (st_graphs _ _ A)|apply (st_nodes _ _ A)].
Qed.

Print Assumptions C07_operation_preserves_all_views.
Print Assumptions C07_views_never_change.
Print Assumptions C07_result_is_new.
Print Assumptions C07_siblings_independent.

(* non-vacuity: a concrete history creates objects, renames with a swap, binds, touches caches; the first graph still
   shows an empty binding at the end *)
Example C07_example :
  let ops := [ONode 1 [10; 11] [12] [(10, VInt 5)]; OGraph [0%nat]; OTouchG 0%nat; OBind 0%nat [(11, VInt 3)]; OTouchN 0%nat;
              OWithInputs 0%nat [(10, 11); (11, 10)]; OBind 1%nat [(10, VInt 9)]; OSelect 0%nat [12]; OAddNodes 2%nat [1%nat]]%positive in
  let h := run_ops empty_heap ops in
  option_map gv_bound (view_graph h 0) = Some [] /\ length (h_graphs h) = 5 /\ length (h_nodes h) = 2 /\
  option_map nv_inputs (view_node h 1) = Some [11; 10]%positive.
Proof. vm_compute. repeat split. Qed.
