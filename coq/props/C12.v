(* C12 — events of every terminated run form a complete, well-nested span tree.
   Translation validation: every event stream the implementation produces for a generated execution is run
   through the checker wf_b of Events.v; the theorems below say what acceptance means. *)
From HG Require Import Base Engine Exec Events EventsProofs EventsModel Nested EventsTree EventsTreeProofs EventsSched EventsSchedProofs EventsTreeSched.

(* every span is opened at most once and closed exactly as often as it is opened: every NodeStart
   has exactly one NodeEnd/NodeError, every RunStart exactly one RunEnd *)
Theorem C12_balanced : forall evs st,
  crun cinit evs = Some st -> c_open st = [] ->
  NoDup (opened evs) /\ NoDup (closed evs) /\ (forall s, In s (opened evs) <-> In s (closed evs)).
Proof. exact accepted_spans_balanced. Qed.
Print Assumptions C12_balanced.

(* at every point of the stream: nothing is closed before it is opened, and the parent of every open
   span is still open — children are closed before their parents, nested runs sit inside the node that
   launched them *)
Theorem C12_nesting : forall pre post st,
  crun cinit (pre ++ post) = Some st ->
  exists mid, crun cinit pre = Some mid /\
    incl (closed pre) (opened pre) /\
    forall o p, In o (c_open mid) -> o_parent o = Some p -> In p (open_ids mid).
Proof. exact accepted_prefix_nesting. Qed.
Print Assumptions C12_nesting.

(* one RunStart first, one RunEnd last, of the same root span, with the status the caller observes *)
Theorem C12_root : forall failed evs,
  wf_b failed evs = true ->
  exists e0 rest st, evs = e0 :: rest /\ e_kind e0 = KRunStart /\ e_parent e0 = None /\
    crun cinit evs = Some st /\ c_open st = [] /\
    e_kind (last evs e0) = KRunEnd failed /\ e_span (last evs e0) = e_span e0.
Proof. exact wf_b_root. Qed.
Print Assumptions C12_root.

(* the checker's local rules (read off cstep): a NodeStart's parent is an open run span; a nested RunStart's
   parent is an open span; CacheHit sits inside the open node span it names; RouteDecision inside an open
   node span of that name under the run it names *)
Theorem C12_node_under_run : forall st e st',
  e_kind e = KNodeStart -> cstep st e = Some st' ->
  exists p o, e_parent e = Some p /\ find_open st p = Some o /\ o_run o = true.
Proof.
  intros st e st' Hk H. unfold cstep in H. rewrite Hk in H.
  destruct (nat_in (e_span e) (c_seen st)); [discriminate|].
  destruct (e_parent e) as [p|]; [|discriminate]. destruct (find_open st p) as [o|] eqn:E; [|discriminate].
  destruct (o_run o) eqn:Er; [|discriminate]. eauto.
Qed.
Print Assumptions C12_node_under_run.

(* C12_model: what the synchronous runner emits for a flat graph - RunStart; per executed node NodeStart, [RouteDecision],
   NodeEnd or NodeError; RunEnd with the caller's status (EventsModel.run_events, compared event by event with the
   implementation's stream by the harness) - is a well-formed span tree, for EVERY sequence of node executions. *)
Theorem C12_model : forall xs failed, wf_b failed (run_events xs failed) = true.
Proof. exact run_events_wf. Qed.
Print Assumptions C12_model.

(* ... in particular the stream derived from a run of the ENGINE MODEL (its per-superstep call log, status and error) -
   which the harness compares event by event with the implementation's stream for synchronous runs of flat graphs *)
Theorem C12_model_run : forall g res, wf_b (Nat.eqb (res_status res) 1) (events_of_result g res) = true.
Proof. exact events_of_result_wf. Qed.
Print Assumptions C12_model_run.

Example C12_nonvacuous :
  let ev k s p (n : nat) := mk_event k s p (Pos.of_nat n) in
  wf_b false [ev KRunStart 0 None 1; ev KNodeStart 1 (Some 0) 5; ev KRunStart 2 (Some 1) 1; ev KNodeStart 3 (Some 2) 6;
              ev KNodeEnd 3 (Some 2) 6; ev (KRunEnd false) 2 (Some 1) 1; ev KNodeEnd 1 (Some 0) 5;
              ev (KRunEnd false) 0 None 1] = true /\
  (* a node span left open, and a child outliving its parent, are both rejected *)
  wf_b false [ev KRunStart 0 None 1; ev KNodeStart 1 (Some 0) 5; ev (KRunEnd false) 0 None 1] = false /\
  wf_b false [ev KRunStart 0 None 1; ev KNodeStart 1 (Some 0) 5; ev KRunStart 2 (Some 1) 1; ev KNodeEnd 1 (Some 0) 5;
              ev (KRunEnd false) 2 (Some 1) 1; ev (KRunEnd false) 0 None 1] = false.
Proof. vm_compute. repeat split; reflexivity. Qed.

(* NESTED, MAPPED AND FAILING RUNS, TO ANY DEPTH.  A span tree (EventsTree.stree): a run span holds superstep groups of node
   spans (a map run: one run span per item); a node span holds its RouteDecision and the run span(s) a GraphNode launches.
   lin_root t is the stream a synchronous runner emits for t (depth first, ids in order of first use).  For EVERY well-shaped
   tree it is accepted by the checker, with the root run's status ... *)
Theorem C12_model_nested : forall failed is_map kids,
  forallb (shape_ok true) kids = true ->
  wf_b failed (lin_root (ST (LRun failed is_map) kids)) = true.
Proof. exact lin_root_wf. Qed.
Print Assumptions C12_model_nested.

(* ... every subtree leaves the checker's open spans as it found them (so subtrees compose, in any context) ... *)
Theorem C12_subtree_frame : forall t under_run id q st,
  shape_ok under_run t = true -> Fresh id st -> Ctx under_run q st -> q < id ->
  exists st', crun st (lin id (Some q) t) = Some st' /\ c_open st' = c_open st /\ Fresh (id + size t) st'.
Proof. exact tree_accepted. Qed.
Print Assumptions C12_subtree_frame.

(* ... and the tree of EVERY run of the nested engine model (tree_ng: one node span per call of every superstep, NodeError for
   the calls that raise, inner runs / map runs under GraphNode spans; any graph, inputs, budget, depth, runner) is well shaped:
   its stream is accepted.  The harness compares tree_ng with the implementation: event by event for synchronous runs
   (lin_root), as trees up to the order within a superstep for asynchronous ones (sim). *)
Theorem C12_model_tree_shape : forall d r fuel ng pv u, shape_ok u (tree_ng d r fuel ng pv) = true.
Proof. exact tree_ng_shape. Qed.
Print Assumptions C12_model_tree_shape.

Theorem C12_model_top_map : forall d r fuel ng pv over mode cont t,
  tree_map_top d r fuel ng pv over mode cont = Some t -> wf_b (run_failed t) (lin_root t) = true.
Proof. exact tree_map_top_wf. Qed.
Print Assumptions C12_model_top_map.

Theorem C12_model_nested_run : forall d r fuel ng pv,
  wf_b (run_failed (tree_ng d r fuel ng pv)) (lin_root (tree_ng d r fuel ng pv)) = true.
Proof. exact tree_ng_wf. Qed.
Print Assumptions C12_model_nested_run.

(* EVERY SCHEDULE.  The spans of a run as a table (id, parent, run or node span, depth).  A concurrent runner may at any moment
   start a span whose parent is running (the root run first), end a running span all of whose children are done, emit the
   RouteDecision of a running gate under its running run or a CacheHit of a running node - in any order across spans (no
   superstep barrier assumed: the actual runners' schedules are among these).  The event sequence of every complete execution
   (schedule) of every well-formed table is accepted by the checker, with the root run's status. *)
Theorem C12_any_schedule : forall tbl root, wf_tbl tbl root ->
  forall evs, schedule tbl evs -> wf_b (root_failed root) evs = true.
Proof. exact sched_accepted. Qed.
Print Assumptions C12_any_schedule.

(* non-vacuity: an interleaved schedule (three sibling spans open at once, a nested failed run inside a GraphNode's span,
   a RouteDecision arriving while other spans are open) of a concrete well-formed table *)
Example C12_any_schedule_nonvacuous : wf_tbl ex_tbl ex_r0 /\ schedule ex_tbl ex_evs /\ wf_b false ex_evs = true.
Proof. exact (conj ex_tbl_wf (conj ex_schedule ex_schedule_accepted)). Qed.

(* ... in particular of the spans of EVERY run of the nested engine model (run_table: the span table of tree_ng, ids as in
   the synchronous stream): whatever order an asynchronous runner starts and ends them in, the stream is a well-formed span tree *)
Theorem C12_model_table_wf : forall failed is_map kids, forallb (shape_ok true) kids = true ->
  wf_tbl (run_table (ST (LRun failed is_map) kids)) (run_root (ST (LRun failed is_map) kids)).
Proof. exact run_table_wf. Qed.
Print Assumptions C12_model_table_wf.

Theorem C12_model_any_schedule : forall d r fuel ng pv evs,
  schedule (run_table (tree_ng d r fuel ng pv)) evs ->
  wf_b (run_failed (tree_ng d r fuel ng pv)) evs = true.
Proof. exact model_any_schedule. Qed.
Print Assumptions C12_model_any_schedule.
