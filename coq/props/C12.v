(* C12 — events of every terminated run form a complete, well-nested span tree.
   Translation validation: every event stream the implementation produces for a generated execution is run
   through the checker wf_b of Events.v; the theorems below say what acceptance means. *)
From HG Require Import Base Engine Exec Events EventsProofs EventsModel.

(* every span is opened at most once and closed exactly as often as it is opened: every NodeStart
   has exactly one NodeEnd/NodeError, every RunStart exactly one RunEnd *)
Theorem C12_balanced : forall evs st,
  crun cinit evs = Some st -> c_open st = [] ->
  NoDup (opened evs) /\ NoDup (closed evs) /\ (forall s, In s (opened evs) <-> In s (closed evs)).
Proof. exact accepted_spans_balanced. Qed.
Print Assumptions C12_balanced.

(* at every point of the stream: nothing is closed before it is opened, and the parent of every open
   span is still open — children are closed before their parents, nested runs sit inside the node that
   launched them *)
Theorem C12_nesting : forall pre post st,
  crun cinit (pre ++ post) = Some st ->
  exists mid, crun cinit pre = Some mid /\
    incl (closed pre) (opened pre) /\
    forall o p, In o (c_open mid) -> o_parent o = Some p -> In p (open_ids mid).
Proof. exact accepted_prefix_nesting. Qed.
Print Assumptions C12_nesting.

(* one RunStart first, one RunEnd last, of the same root span, with the status the caller observes *)
Theorem C12_root : forall failed evs,
  wf_b failed evs = true ->
  exists e0 rest st, evs = e0 :: rest /\ e_kind e0 = KRunStart /\ e_parent e0 = None /\
    crun cinit evs = Some st /\ c_open st = [] /\
    e_kind (last evs e0) = KRunEnd failed /\ e_span (last evs e0) = e_span e0.
Proof. exact wf_b_root. Qed.
Print Assumptions C12_root.

(* the checker's local rules (read off cstep): a NodeStart's parent is an open run span; a nested RunStart's
   parent is an open span; CacheHit sits inside the open node span it names; RouteDecision inside an open
   node span of that name under the run it names *)
Theorem C12_node_under_run : forall st e st',
  e_kind e = KNodeStart -> cstep st e = Some st' ->
  exists p o, e_parent e = Some p /\ find_open st p = Some o /\ o_run o = true.
Proof.
  intros st e st' Hk H. unfold cstep in H. rewrite Hk in H.
  destruct (nat_in (e_span e) (c_seen st)); [discriminate|].
  destruct (e_parent e) as [p|]; [|discriminate]. destruct (find_open st p) as [o|] eqn:E; [|discriminate].
  destruct (o_run o) eqn:Er; [|discriminate]. eauto.
Qed.
Print Assumptions C12_node_under_run.

(* C12_model: what the synchronous runner emits for a flat graph - RunStart; per executed node NodeStart, [RouteDecision],
   NodeEnd or NodeError; RunEnd with the caller's status (EventsModel.run_events, compared event by event with the
   implementation's stream by the harness) - is a well-formed span tree, for EVERY sequence of node executions. *)
Theorem C12_model : forall xs failed, wf_b failed (run_events xs failed) = true.
Proof. exact run_events_wf. Qed.
Print Assumptions C12_model.

(* ... in particular the stream derived from a run of the ENGINE MODEL (its per-superstep call log, status and error) -
   which the harness compares event by event with the implementation's stream for synchronous runs of flat graphs *)
Theorem C12_model_run : forall g res, wf_b (Nat.eqb (res_status res) 1) (events_of_result g res) = true.
Proof. exact events_of_result_wf. Qed.
Print Assumptions C12_model_run.

Example C12_nonvacuous :
  let ev k s p (n : nat) := mk_event k s p (Pos.of_nat n) in
  wf_b false [ev KRunStart 0 None 1; ev KNodeStart 1 (Some 0) 5; ev KRunStart 2 (Some 1) 1; ev KNodeStart 3 (Some 2) 6;
              ev KNodeEnd 3 (Some 2) 6; ev (KRunEnd false) 2 (Some 1) 1; ev KNodeEnd 1 (Some 0) 5;
              ev (KRunEnd false) 0 None 1] = true /\
  (* a node span left open, and a child outliving its parent, are both rejected *)
  wf_b false [ev KRunStart 0 None 1; ev KNodeStart 1 (Some 0) 5; ev (KRunEnd false) 0 None 1] = false /\
  wf_b false [ev KRunStart 0 None 1; ev KNodeStart 1 (Some 0) 5; ev KRunStart 2 (Some 1) 1; ev KNodeEnd 1 (Some 0) 5;
              ev (KRunEnd false) 2 (Some 1) 1; ev (KRunEnd false) 0 None 1] = false.
Proof. vm_compute. repeat split; reflexivity. Qed.
