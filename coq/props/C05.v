(* C05 — a nested graph behaves like its nodes inlined. *)
From HG Require Import Base Rename RenameProofs Engine Exec Nested NestedProofs Samples.
From stdpp Require Import gmap.

(* What running a nested graph as a node is (every depth, both runners): inputs translated to the
   inner names, the inner graph run on them, exposed outputs translated back (the wrapper's
   ordering-only outputs re-emitted as sentinels: with_signals); errors surface unchanged; a pause
   carries the path through the wrapper. *)
Theorem C05_nested_run : forall d r ft gt subs n st ins ig isel ieps ift igt isubs hin hout cur_out,
  n_kind n = KGraph ->
  dget subs (n_name n) = Some (NSub (NG ig isel ieps ift igt isubs) hin hout cur_out None) ->
  exec_ng (S d) r ft gt subs n st ins =
  match fst (execute (exec_ng d r ift igt isubs) r default_max_iterations ig (map_inputs_to_params hin ins)) with
  | RDone s => OOk (with_signals (emit_only d (NG ig isel ieps ift igt isubs)) hout cur_out
                                  (gn_map_outputs hout cur_out (filter_outputs ig s isel))) None
  | RFailed e _ => ORaise e
  | RPaused p _ => OPause (mk_pause (n_name n :: p_node p) (p_out p) (p_value p))
  end.
Proof. exact exec_ng_graph. Qed.
Print Assumptions C05_nested_run.

(* without emit-only names inside, that is exactly the translated inner outputs *)
Theorem C05_no_signals : forall hout cur_out outs, with_signals [] hout cur_out outs = outs.
Proof. exact with_signals_none. Qed.
Print Assumptions C05_no_signals.

(* A nested graph receives exactly the values addressed to its inputs ... *)
Theorem C05_boundary_inputs : forall orig hin cur (vs : list val),
  List.NoDup orig -> history_keys_ok hin -> run_history orig hin = Some cur -> length vs = length cur ->
  map_inputs_to_params hin (combine cur vs) = combine orig vs.
Proof. exact boundary_inputs. Qed.
Print Assumptions C05_boundary_inputs.

(* ... and exposes exactly its (selected) outputs under their current names. *)
Theorem C05_boundary_outputs : forall orig hout cur (values : dict val),
  List.NoDup orig -> history_keys_ok hout -> run_history orig hout = Some cur ->
  gn_map_outputs hout cur values = dupdate [] (map (fun kv => (sigma orig cur (fst kv), snd kv)) values).
Proof. exact boundary_outputs. Qed.
Print Assumptions C05_boundary_outputs.

(* A nested graph is a function of its inputs: the engine theorems (fix-point C01, schedules C02,
   gates C03, ...) therefore hold for graphs containing nested graphs at any depth. *)
Theorem C05_wrapper_is_function : forall d r ft gt subs n s1 s2 ins,
  n_kind n = KGraph -> exec_ng d r ft gt subs n s1 ins = exec_ng d r ft gt subs n s2 ins.
Proof. exact exec_ng_state_independent. Qed.
Print Assumptions C05_wrapper_is_function.

Theorem C05_leaves_unchanged : forall d r ft gt subs n st ins,
  n_kind n = KFunc -> exec_ng d r ft gt subs n st ins = exec_basic ft gt n st ins.
Proof. exact exec_ng_leaf. Qed.
Print Assumptions C05_leaves_unchanged.

(* Non-vacuity / inlining on a concrete program: the diamond DAG with {B, C} wrapped into a nested
   graph (wrapper input renamed) returns the values of the flat graph. *)
Definition inner_bc : ngraph :=
  mk_ng [fnode 11 [31] [32] 2; fnode 12 [31] [33] 3]%positive [] None None
        [(2, FSym 11); (3, FSym 12)]%positive [] [].
Definition outer_nested : ngraph :=
  let hin := [[(31, 41)]]%positive in
  mk_ng [fnode 14 [32; 33] [34] 4; graphnode_of 20 inner_bc hin [];
         mk_node 10 [1] [41] 1%nat [] [] [] KFunc 1]%positive [] None None
        [(1, FSym 10); (4, FSym 14)]%positive [] [mk_sub 20%positive inner_bc hin [] None].

Example C05_nonvacuous :
  let flat := run_basic dag_ft [] Sync 10 dag [(1%positive, VInt 5)] None in
  let nested := run_ng 3 Sync 10 outer_nested [(1%positive, VInt 5)] None in
  res_status nested = 0 /\
  dget (res_values nested) 34 = dget (res_values flat) 34 /\
  dget (res_values nested) 32 = dget (res_values flat) 32 /\
  dget (res_values nested) 33 = dget (res_values flat) 33.
Proof. vm_compute. repeat split; reflexivity. Qed.
