(* C05 — a nested graph behaves like its nodes inlined. *)
From HG Require Import Base Rename RenameProofs Engine Exec EngineProofs C01Proofs Nested NestedProofs Inline InlineRuns InlineExample Samples.
From stdpp Require Import gmap.

(* What running a nested graph as a node is (every depth, both runners): inputs translated to the
   inner names, the inner graph run on them, exposed outputs translated back (the wrapper's
   ordering-only outputs re-emitted as sentinels: with_signals); errors surface unchanged; a pause
   carries the path through the wrapper. *)
Theorem C05_nested_run : forall d r ft gt subs n st ins ig isel ieps ift igt isubs hin hout cur_out,
  n_kind n = KGraph ->
  dget subs (n_name n) = Some (NSub (NG ig isel ieps ift igt isubs) hin hout cur_out None) ->
  exec_ng (S d) r ft gt subs n st ins =
  match fst (execute (exec_ng d r ift igt isubs) r default_max_iterations ig (map_inputs_to_params hin ins)) with
  | RDone s => OOk (with_signals (emit_only d (NG ig isel ieps ift igt isubs)) hout cur_out
                                  (gn_map_outputs hout cur_out (filter_outputs ig s isel))) None
  | RFailed e _ => ORaise e
  | RPaused p _ => OPause (mk_pause (n_name n :: p_node p) (p_out p) (p_value p))
  end.
Proof. exact exec_ng_graph. Qed.
Print Assumptions C05_nested_run.

(* without emit-only names inside, that is exactly the translated inner outputs *)
Theorem C05_no_signals : forall hout cur_out outs, with_signals [] hout cur_out outs = outs.
Proof. exact with_signals_none. Qed.
Print Assumptions C05_no_signals.

(* A nested graph receives exactly the values addressed to its inputs ... *)
Theorem C05_boundary_inputs : forall orig hin cur (vs : list val),
  List.NoDup orig -> history_keys_ok hin -> run_history orig hin = Some cur -> length vs = length cur ->
  map_inputs_to_params hin (combine cur vs) = combine orig vs.
Proof. exact boundary_inputs. Qed.
Print Assumptions C05_boundary_inputs.

(* ... and exposes exactly its (selected) outputs under their current names. *)
Theorem C05_boundary_outputs : forall orig hout cur (values : dict val),
  List.NoDup orig -> history_keys_ok hout -> run_history orig hout = Some cur ->
  gn_map_outputs hout cur values = dupdate [] (map (fun kv => (sigma orig cur (fst kv), snd kv)) values).
Proof. exact boundary_outputs. Qed.
Print Assumptions C05_boundary_outputs.

(* A nested graph is a function of its inputs: the engine theorems (fix-point C01, schedules C02,
   gates C03, ...) therefore hold for graphs containing nested graphs at any depth. *)
Theorem C05_wrapper_is_function : forall d r ft gt subs n s1 s2 ins,
  n_kind n = KGraph -> exec_ng d r ft gt subs n s1 ins = exec_ng d r ft gt subs n s2 ins.
Proof. exact exec_ng_state_independent. Qed.
Print Assumptions C05_wrapper_is_function.

Theorem C05_leaves_unchanged : forall d r ft gt subs n st ins,
  n_kind n = KFunc -> exec_ng d r ft gt subs n st ins = exec_basic ft gt n st ins.
Proof. exact exec_ng_leaf. Qed.
Print Assumptions C05_leaves_unchanged.

(* INLINING, on the dataflow equations (C01's Sol).  `go` contains a wrapper node w whose function is "the solution of the
   inner system gi"; gf is go with w replaced by the nodes of gi, each node keeping its own function (exec_f).  Whenever the
   wrapper's inputs are present, every solution of the nested system is a solution of the flat system ... *)
Theorem C05_inlining_equations : forall (exec_i exec_o : node -> state -> dict val -> outcome) (gi go : graph) (w : node) (pv : dict val),
  In w (g_nodes go) -> List.NoDup (map n_name (g_nodes go)) ->
  (forall n, In n (g_nodes go) -> inner gi n = false) ->
  (forall o, In o (n_outputs w) <-> In o (inner_outputs gi)) ->
  (forall n p, In n (g_nodes gi) -> In p (n_inputs n) -> In p (inner_outputs gi) \/ In p (n_inputs w)) ->
  (forall ins outs, map fst ins = n_inputs w -> exec_o w empty_state ins = OOk outs None ->
     exists Vi, Sol exec_i gi ins Vi /\ Reads w Vi outs) ->
  forall V, Sol exec_o go pv V -> (forall p, In p (n_inputs w) -> exists v, V !! p = Some v) ->
  Sol (exec_f exec_i exec_o gi) (gf gi go w) pv V.
Proof. exact inline_nested_to_flat. Qed.
Print Assumptions C05_inlining_equations.

(* ... and conversely (inner graph acyclic, inner functions returning their declared outputs) ... *)
Theorem C05_inlining_converse : forall (exec_i exec_o : node -> state -> dict val -> outcome) (gi go : graph) (w : node) (pv : dict val),
  In w (g_nodes go) -> List.NoDup (map n_name (g_nodes go)) ->
  (forall n, In n (g_nodes go) -> inner gi n = false) ->
  (forall o, In o (n_outputs w) <-> In o (inner_outputs gi)) ->
  (forall n p, In n (g_nodes gi) -> In p (n_inputs n) -> In p (inner_outputs gi) \/ In p (n_inputs w)) ->
  (forall ins Vi, Sol exec_i gi ins Vi -> (forall o, In o (n_outputs w) -> exists v, Vi !! o = Some v) ->
     exec_o w empty_state ins = OOk (reads_of w Vi) None) ->
  (exists rank : name -> nat, forall n m p, In n (g_nodes gi) -> In m (g_nodes gi) -> In p (n_inputs n) -> In p (n_outputs m) ->
     rank (n_name m) < rank (n_name n)) ->
  (forall n s ins outs dec, In n (g_nodes gi) -> map fst ins = n_inputs n -> exec_i n s ins = OOk outs dec ->
     map fst outs = n_outputs n) ->
  forall V, Sol (exec_f exec_i exec_o gi) (gf gi go w) pv V -> (forall p, In p (n_inputs w) -> exists v, V !! p = Some v) ->
  Sol exec_o go pv V.
Proof. exact inline_flat_to_nested. Qed.
Print Assumptions C05_inlining_converse.

(* ... so, the flat system having exactly one solution (C01_unique), the nested values ARE the flat values. *)
Theorem C05_inlining_values : forall (exec_i exec_o : node -> state -> dict val -> outcome) (gi go : graph) (w : node) (pv : dict val),
  In w (g_nodes go) -> List.NoDup (map n_name (g_nodes go)) ->
  (forall n, In n (g_nodes go) -> inner gi n = false) ->
  (forall o, In o (n_outputs w) <-> In o (inner_outputs gi)) ->
  (forall n p, In n (g_nodes gi) -> In p (n_inputs n) -> In p (inner_outputs gi) \/ In p (n_inputs w)) ->
  forall Vn Vf, WF (exec_f exec_i exec_o gi) (gf gi go w) pv ->
  (forall ins outs, map fst ins = n_inputs w -> exec_o w empty_state ins = OOk outs None ->
     exists Vi, Sol exec_i gi ins Vi /\ Reads w Vi outs) ->
  Sol exec_o go pv Vn -> (forall p, In p (n_inputs w) -> exists v, Vn !! p = Some v) ->
  Sol (exec_f exec_i exec_o gi) (gf gi go w) pv Vf -> Vn = Vf.
Proof. exact nested_equals_flat. Qed.
Print Assumptions C05_inlining_values.

(* INLINING, on runs of the engine model.  The wrapper is the GraphNode executor of Nested.v (exec_ng) around an acyclic
   gate-free inner graph, without renames (their effect at the boundary: C05_boundary_inputs / _outputs), not mapped, exposing
   every inner output.  A COMPLETED nested run and a COMPLETED run of the flat graph - either runner for each of the outer,
   the inner and the flat run, any budgets, any node orders - return the same values. *)
Theorem C05_inlining_runs : forall d r ft gt subs gi ieps ift igt isubs w,
  n_kind w = KGraph ->
  dget subs (n_name w) = Some (NSub (inner_ng gi ieps ift igt isubs) [] [] (n_outputs w) None) ->
  emit_only d (inner_ng gi ieps ift igt isubs) = [] ->
  (forall o, In o (n_outputs w) <-> In o (all_outputs gi)) ->
  (forall n p, In n (g_nodes gi) -> In p (n_inputs n) -> In p (all_outputs gi) \/ In p (n_inputs w)) ->
  List.NoDup (n_inputs w) ->
  (forall ins, map fst ins = n_inputs w -> WF (exec_i d r ift igt isubs) gi ins) ->
  (forall n s ins outs dec o, In n (g_nodes gi) -> exec_i d r ift igt isubs n s ins = OOk outs dec -> ~ In (o, VSentinel) outs) ->
  forall go pv, In w (g_nodes go) -> (forall n, In n (g_nodes go) -> inner gi n = false) ->
  forall r1 r2 f1 f2 sn sf l1 l2,
  WF (exec_o d r ft gt subs) go pv ->
  WF (flat_exec d r ft gt subs gi ift igt isubs) (flat_graph gi w go) pv ->
  List.NoDup (dkeys pv) ->
  execute (exec_o d r ft gt subs) r1 f1 go pv = (RDone sn, l1) ->
  execute (flat_exec d r ft gt subs gi ift igt isubs) r2 f2 (flat_graph gi w go) pv = (RDone sf, l2) ->
  (forall p, In p (n_inputs w) -> exists v, vals sn !! p = Some v) ->
  vals sn = vals sf.
Proof. exact inline_runs. Qed.
Print Assumptions C05_inlining_runs.

(* the flat graph's leaves are executed with the function tables of the graphs they came from *)
Theorem C05_flat_leaves : forall d r ft gt subs gi ift igt isubs n st ins, n_kind n = KFunc ->
  flat_exec d r ft gt subs gi ift igt isubs n st ins =
  if inner gi n then exec_basic ift igt n st ins else exec_basic ft gt n st ins.
Proof. exact flat_exec_leaf. Qed.
Print Assumptions C05_flat_leaves.

(* Non-vacuity of C05_inlining_runs: every hypothesis holds of the diamond DAG A -> {B, C} -> D with {B, C} wrapped
   (InlineExample.v), so there the theorem reads: *)
Theorem C05_inlining_example : forall r1 r2 f1 f2 sn sf l1 l2,
  execute ex_exec_o r1 f1 ex_go ex_pv = (RDone sn, l1) ->
  execute ex_flat_exec r2 f2 ex_flat ex_pv = (RDone sf, l2) ->
  vals sn = vals sf.
Proof. exact ex_inline_runs. Qed.
Print Assumptions C05_inlining_example.

Example C05_inlining_example_completes :
  (exists sn l, execute ex_exec_o Sync 10 ex_go ex_pv = (RDone sn, l)) /\
  (exists sn l, execute ex_exec_o Async 10 ex_go ex_pv = (RDone sn, l)) /\
  (exists sf l, execute ex_flat_exec Sync 10 ex_flat ex_pv = (RDone sf, l)) /\
  (exists sf l, execute ex_flat_exec Async 10 ex_flat ex_pv = (RDone sf, l)).
Proof. exact ex_runs_complete. Qed.

(* Non-vacuity / inlining on a concrete program: the diamond DAG with {B, C} wrapped into a nested
   graph (wrapper input renamed) returns the values of the flat graph. *)
Definition inner_bc : ngraph :=
  mk_ng [fnode 11 [31] [32] 2; fnode 12 [31] [33] 3]%positive [] None None
        [(2, FSym 11); (3, FSym 12)]%positive [] [].
Definition outer_nested : ngraph :=
  let hin := [[(31, 41)]]%positive in
  mk_ng [fnode 14 [32; 33] [34] 4; graphnode_of 20 inner_bc hin [];
         mk_node 10 [1] [41] 1%nat [] [] [] KFunc 1]%positive [] None None
        [(1, FSym 10); (4, FSym 14)]%positive [] [mk_sub 20%positive inner_bc hin [] None].

Example C05_nonvacuous :
  let flat := run_basic dag_ft [] Sync 10 dag [(1%positive, VInt 5)] None in
  let nested := run_ng 3 Sync 10 outer_nested [(1%positive, VInt 5)] None in
  res_status nested = 0 /\
  dget (res_values nested) 34 = dget (res_values flat) 34 /\
  dget (res_values nested) 32 = dget (res_values flat) 32 /\
  dget (res_values nested) 33 = dget (res_values flat) 33.
Proof. vm_compute. repeat split; reflexivity. Qed.
