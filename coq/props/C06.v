(* C06 — renames are transparent.  Only theorem statements, each closed by an
   already-proved lemma, with Print Assumptions beneath. *)
From HG Require Import Base Rename RenameProofs.

(* Every accepted history (any sequence of batches, each a dict old->new applied
   simultaneously; swaps, chains through temporaries and re-used names included)
   leaves the reverse map sending each current name to the ORIGINAL parameter at
   the same position, and the forward map sending each original to its current
   name. *)
Theorem C06_maps : forall orig h cur,
  NoDup orig -> history_keys_ok h -> run_history orig h = Some cur ->
  length cur = length orig /\ NoDup cur /\
  map (rget (reverse_map h)) cur = orig /\
  map (rget (forward_map h)) orig = cur.
Proof. exact history_maps_correct. Qed.
Print Assumptions C06_maps.

Theorem C06_reverse : forall orig h cur c,
  NoDup orig -> history_keys_ok h -> run_history orig h = Some cur ->
  In c cur -> rget (reverse_map h) c = sigma_inv orig cur c.
Proof. exact reverse_pointwise. Qed.
Print Assumptions C06_reverse.

Theorem C06_forward : forall orig h cur o,
  NoDup orig -> history_keys_ok h -> run_history orig h = Some cur ->
  In o orig -> rget (forward_map h) o = sigma orig cur o.
Proof. exact forward_pointwise. Qed.
Print Assumptions C06_forward.

Theorem C06_inverse : forall orig cur,
  NoDup orig -> NoDup cur -> length cur = length orig ->
  (forall o, In o orig -> sigma_inv orig cur (sigma orig cur o) = o) /\
  (forall c, In c cur -> sigma orig cur (sigma_inv orig cur c) = c).
Proof. exact sigma_inverse. Qed.
Print Assumptions C06_inverse.

(* The wrapped function (FunctionNode, gates, interrupts) and the inner graph of
   a GraphNode receive every value under the ORIGINAL parameter it was addressed
   to by its current external name. *)
Theorem C06_call : forall (V : Type) orig h cur (vs : list V),
  NoDup orig -> history_keys_ok h -> run_history orig h = Some cur ->
  length vs = length cur ->
  map_inputs_to_params h (combine cur vs) = combine orig vs.
Proof. exact @call_receives_originals. Qed.
Print Assumptions C06_call.

Theorem C06_defaults_follow : forall (V : Type) orig h cur (sd : dict V),
  NoDup orig -> history_keys_ok h -> run_history orig h = Some cur ->
  (forall k, In k (dkeys sd) -> In k orig) ->
  defaults_current h sd = dupdate [] (map (fun kv => (sigma orig cur (fst kv), snd kv)) sd).
Proof. exact @defaults_follow. Qed.
Print Assumptions C06_defaults_follow.

(* GraphNode: default/bound/type lookup, map_over/clone translation, outputs. *)
Theorem C06_graphnode_resolve : forall orig h cur c,
  NoDup orig -> history_keys_ok h -> run_history orig h = Some cur ->
  In c cur -> gn_resolve_original h c = sigma_inv orig cur c.
Proof. exact gn_resolve_correct. Qed.
Print Assumptions C06_graphnode_resolve.

Theorem C06_graphnode_map_params : forall orig h cur ps,
  NoDup orig -> history_keys_ok h -> run_history orig h = Some cur ->
  incl ps cur -> gn_original_params h ps = map (sigma_inv orig cur) ps.
Proof. exact gn_original_params_correct. Qed.
Print Assumptions C06_graphnode_map_params.

Theorem C06_graphnode_outputs : forall (V : Type) orig h cur (outs : dict V),
  NoDup orig -> history_keys_ok h -> run_history orig h = Some cur ->
  gn_map_outputs h cur outs
  = dupdate [] (map (fun kv => (sigma orig cur (fst kv), snd kv)) outs).
Proof. exact @gn_map_outputs_correct. Qed.
Print Assumptions C06_graphnode_outputs.

Theorem C06_map_over_follows : forall orig h cur ps,
  NoDup orig -> run_history orig h = Some cur ->
  incl ps orig -> follow_history ps h = map (sigma orig cur) ps.
Proof. exact follow_history_correct. Qed.
Print Assumptions C06_map_over_follows.

(* Non-vacuity: a history with a swap, a chain through a temporary and a re-used
   earlier name is accepted, so the hypotheses are satisfiable. *)
Example C06_nonvacuous :
  let orig := [1; 2; 3]%positive in
  let h := [[(1, 2); (2, 1)]; [(3, 9)]; [(9, 3); (1, 7)]; [(7, 1); (2, 8)]]%positive in
  NoDup orig /\ history_keys_ok h /\ run_history orig h = Some [8; 1; 3]%positive.
Proof.
  split; [repeat constructor; simpl; intuition congruence|]. split; [|reflexivity].
  repeat constructor; simpl; intuition congruence.
Qed.

(* ------------------------------------------------------------------ *)
From HG Require Import Engine Exec EngineProofs C01Proofs Alpha AlphaExample Samples.
From stdpp Require Import gmap.

(* WHOLE GRAPHS.  Renaming the value names of a graph consistently through an injective map sigma (every producer's output,
   every consumer's input, wait_for, defaults, bindings, run-time inputs: what with_inputs / with_outputs on every node
   concerned amounts to), with executors that differ only by the names of their argument and result dictionaries (which is what
   C06_call / C06_defaults_follow establish for the wrapped callables): the solutions of the dataflow equations of the renamed
   graph are the renamed solutions ... *)
Theorem C06_alpha_equations : forall (sigma : name -> name), Inj (=) (=) sigma ->
  forall g pv V exec exec',
  (forall n s ins, In n (g_nodes g) -> exec' (rename_node sigma n) s (rename_dict sigma ins) = rename_out sigma (exec n s ins)) ->
  Sol exec g pv V -> Sol exec' (rename_graph sigma g) (rename_dict sigma pv) (kmap sigma V).
Proof. intros sigma Hinj g pv V exec exec' H. exact (sol_rename sigma g pv V exec exec' H). Qed.
Print Assumptions C06_alpha_equations.

(* ... hence a completed run of the renamed graph returns the values of the original run under the new names (either runner,
   any budget, any node order): nothing that is computed changes. *)
Theorem C06_alpha_runs : forall (sigma : name -> name), Inj (=) (=) sigma ->
  forall g pv exec exec',
  (forall n s ins, In n (g_nodes g) -> exec' (rename_node sigma n) s (rename_dict sigma ins) = rename_out sigma (exec n s ins)) ->
  WF exec g pv -> WF exec' (rename_graph sigma g) (rename_dict sigma pv) ->
  List.NoDup (dkeys pv) -> List.NoDup (dkeys (rename_dict sigma pv)) ->
  forall r1 r2 f1 f2 s s' l l',
  execute exec r1 f1 g pv = (RDone s, l) ->
  execute exec' r2 f2 (rename_graph sigma g) (rename_dict sigma pv) = (RDone s', l') ->
  vals s' = kmap sigma (vals s).
Proof. intros sigma Hinj. exact (@alpha_runs sigma Hinj). Qed.
Print Assumptions C06_alpha_runs.

(* non-vacuity: every hypothesis holds of the diamond DAG with all value names shifted by one (AlphaExample.v) *)
Theorem C06_alpha_example : forall r1 r2 f1 f2 s s' l l',
  execute (exec_basic dag_ft []) r1 f1 dag ex_pv0 = (RDone s, l) ->
  execute ex_exec' r2 f2 ex_dag' ex_pv' = (RDone s', l') ->
  vals s' = kmap Pos.succ (vals s).
Proof. exact ex_alpha_runs. Qed.
Print Assumptions C06_alpha_example.

