(* C13 — observers cannot alter execution. *)
From HG Require Import Base Dispatch.

(* non-strict emit (the mode of every runner) hands the event to every processor, in order, and never lets
   an exception out, whichever processors fail on it *)
Theorem C13_emit : forall ps sts k, length sts = length ps ->
  emit false ps sts k = (map (deliver k) sts, false).
Proof. exact emit_nonstrict. Qed.
Print Assumptions C13_emit.

Theorem C13_shutdown : forall ps sts, length sts = length ps ->
  shutdown false ps sts = (map shut sts, false).
Proof. exact shutdown_nonstrict. Qed.
Print Assumptions C13_shutdown.

(* for any set of processors failing anywhere (on any events, at shutdown, or always): the runner sees no
   exception from the dispatcher, and every processor — healthy or not — receives the complete stream once,
   in order, and exactly one shutdown *)
Theorem C13_complete_stream : forall ps ks,
  let sts0 := map (fun _ => mk_pstate [] 0) ps in
  let r1 := emit_all false ps sts0 ks in
  let r2 := shutdown false ps (fst r1) in
  snd r1 = false /\ snd r2 = false /\ fst r2 = map (fun _ => mk_pstate ks 1) ps.
Proof. exact dispatcher_isolates. Qed.
Print Assumptions C13_complete_stream.

(* contrast: in strict mode a failing processor does break the stream (so the theorem above is not vacuous) *)
Example C13_strict_breaks :
  emit true [mk_proc (fun _ => true) false; mk_proc (fun _ => false) false] [mk_pstate [] 0; mk_pstate [] 0] 7
  = ([mk_pstate [7] 0; mk_pstate [] 0], true).
Proof. reflexivity. Qed.

(* ---- processors that do not raise but consume what an event carries (fix f0e90c6: a RouteDecisionEvent holds its own copy of
        a multi-target decision) ---- *)
From HG Require Import DispatchPayload.

Theorem C13_payload_copy_protects : forall h d acts l,
  l < length h -> pcell (emit_decision true h d acts) l = pcell h l.
Proof. exact copy_protects_everything. Qed.
Print Assumptions C13_payload_copy_protects.

(* handing processors the scheduler's own list is refuted: one consuming processor empties the decision *)
Theorem C13_payload_alias_refuted :
  pcell (emit_decision false [[11; 12]%positive] 0 [PKeep; PClear]) 0 = [] /\
  pcell (emit_decision true [[11; 12]%positive] 0 [PKeep; PClear]) 0 = [11; 12]%positive.
Proof. exact aliased_decision_refuted. Qed.
Print Assumptions C13_payload_alias_refuted.
