(* C19 — structural mistakes are rejected at graph construction, wherever they occur; the type judgement follows
   the documented rules.  Statements only; proofs live in theories/ValidateProofs.v, Reach.v, TypingProofs.v. *)
From HG Require Import Base Typing TypingProofs Reach Validate ValidateProofs.

Section C19.
  Variable ident_ok gname_ok : name -> bool.      (* str.isidentifier / keyword.iskeyword; '.' '/' in a graph name *)
  Variable end_name : name.                       (* "END" *)
  Variable sub : positive -> positive -> bool.    (* issubclass on the classes / generic origins in play *)
  Variable any_id : positive.
  Notation valid := (valid ident_ok gname_ok end_name sub any_id).
  Notation valid_tree := (valid_tree ident_ok gname_ok end_name sub any_id).
  Notation compat := (compat sub any_id).

  (* The constructor accepts a graph iff it is well formed; WF is the record of ValidateProofs.v: unique node names,
     explicit edges naming real nodes and values, every two producers of one name exclusive (Mutex) or ordered (a path
     in the inductive closure rt), legal names, consistent defaults, gate targets, waits, strict types. *)
  Theorem C19_valid_iff_wellformed : forall g, targets_distinct g ->
    (valid g = true <-> WF ident_ok gname_ok end_name sub any_id g).
  Proof. exact (valid_spec ident_ok gname_ok end_name sub any_id). Qed.

  (* what "ordered" means is decided exactly: the procedure used for has_path / descendants computes rt *)
  Theorem C19_paths_decided : forall es U k a b, within es U -> In a U -> length U <= k ->
    (reachb es k a b = true <-> rt es a b).
  Proof. exact reachb_spec. Qed.

  (* position independence: one flaw at ANY node / edge / producer is enough *)
  Theorem C19_unknown_gate_target : forall g n t, targets_distinct g ->
    In n (vg_nodes g) -> is_gate n = true -> In t (v_targets n) -> ~ In t (names (vg_nodes g)) -> valid g = false.
  Proof. exact (reject_unknown_gate_target ident_ok gname_ok end_name sub any_id). Qed.

  Theorem C19_unordered_producers : forall g o a b, targets_distinct g ->
    In a (producers (vg_nodes g) o) -> In b (producers (vg_nodes g) o) -> a <> b ->
    ~ Mutex (vg_nodes g) (g_pairs (vg_nodes g) (vg_edges g)) a b -> ~ Ordered (vg_nodes g) (vg_edges g) o a b ->
    valid g = false.
  Proof. exact (reject_unordered_producers ident_ok gname_ok end_name sub any_id). Qed.

  Theorem C19_duplicate_node_name : forall g, targets_distinct g -> ~ NoDup (names (vg_nodes g)) -> valid g = false.
  Proof. exact (reject_duplicate_node_name ident_ok gname_ok end_name sub any_id). Qed.

  Theorem C19_illegal_node_name : forall g n, targets_distinct g -> In n (vg_nodes g) ->
    (v_name n = end_name \/ (is_graphnode n = false /\ ident_ok (v_name n) = false)) -> valid g = false.
  Proof. exact (reject_illegal_node_name ident_ok gname_ok end_name sub any_id). Qed.

  Theorem C19_illegal_output_name : forall g n o, targets_distinct g ->
    In n (vg_nodes g) -> In o (v_outputs n) -> ident_ok o = false -> valid g = false.
  Proof. exact (reject_illegal_output_name ident_ok gname_ok end_name sub any_id). Qed.

  Theorem C19_illegal_graph_name : forall g x, targets_distinct g -> vg_name g = Some x -> gname_ok x = false -> valid g = false.
  Proof. exact (reject_illegal_graph_name ident_ok gname_ok end_name sub any_id). Qed.

  Theorem C19_inconsistent_defaults : forall g p n1 n2, targets_distinct g ->
    In n1 (vg_nodes g) -> In n2 (vg_nodes g) -> In p (v_inputs n1) -> In p (v_inputs n2) ->
    dget (v_defaults n1) p <> dget (v_defaults n2) p -> valid g = false.
  Proof. exact (reject_inconsistent_defaults ident_ok gname_ok end_name sub any_id). Qed.

  Theorem C19_wait_for_unknown : forall g n w, targets_distinct g ->
    In n (vg_nodes g) -> In w (v_wait n) -> (forall m, In m (vg_nodes g) -> ~ In w (v_outputs m)) -> valid g = false.
  Proof. exact (reject_wait_for_unknown ident_ok gname_ok end_name sub any_id). Qed.

  (* three more flaws (round 7): a nested-graph node renamed to '' / 'a.b' / 'a/b', one node listing an output name twice,
     a wait on a name that only the waiter itself produces *)
  Theorem C19_illegal_graphnode_name : forall g n, targets_distinct g ->
    In n (vg_nodes g) -> is_graphnode n = true -> gname_ok (v_name n) = false -> valid g = false.
  Proof. exact (reject_illegal_graphnode_name ident_ok gname_ok end_name sub any_id). Qed.

  Theorem C19_repeated_output_in_node : forall g n, targets_distinct g ->
    In n (vg_nodes g) -> ~ NoDup (v_outputs n) -> valid g = false.
  Proof. exact (reject_repeated_output_in_node ident_ok gname_ok end_name sub any_id). Qed.

  Theorem C19_wait_for_own_output : forall g n w, targets_distinct g ->
    In n (vg_nodes g) -> In w (v_wait n) ->
    (forall m, In m (vg_nodes g) -> In w (v_outputs m) -> v_name m = v_name n) -> valid g = false.
  Proof. exact (reject_wait_for_own_output ident_ok gname_ok end_name sub any_id). Qed.

  Theorem C19_bad_explicit_edge : forall g l s d vals, targets_distinct g ->
    vg_edges g = Some l -> In (ESpec s d vals) l ->
    (~ In s (names (vg_nodes g)) \/ ~ In d (names (vg_nodes g)) \/
     exists vs v, vals = Some vs /\ In v vs /\ (~ In v (outs_of (vg_nodes g) s) \/ ~ In v (ins_of (vg_nodes g) d))) ->
    valid g = false.
  Proof. exact (reject_bad_explicit_edge ident_ok gname_ok end_name sub any_id). Qed.

  (* strict mode: EVERY producer of a consumed name must be annotated and compatible, not only the first *)
  Theorem C19_type_flaw : forall g n p s, targets_distinct g -> vg_strict g = true -> vg_edges g = None ->
    In n (vg_nodes g) -> In p (v_inputs n) -> In s (producers (vg_nodes g) p) ->
    ~ TypeOK sub any_id (vg_nodes g) s (v_name n) p -> valid g = false.
  Proof. exact (reject_type_flaw ident_ok gname_ok end_name sub any_id). Qed.

  Theorem C19_type_flaw_explicit : forall g l e v s, targets_distinct g -> vg_strict g = true -> vg_edges g = Some l ->
    In e l -> In v (espec_values (vg_nodes g) e) -> In s (producers (vg_nodes g) v) ->
    ~ TypeOK sub any_id (vg_nodes g) s (edge_dst e) v -> valid g = false.
  Proof. exact (reject_type_flaw_explicit ident_ok gname_ok end_name sub any_id). Qed.

  (* nesting: a GraphNode wraps a constructed graph, so a flaw at any depth stops the outermost constructor *)
  Theorem C19_flaw_inside_nested : forall t g, In g (tree_graphs t) -> valid g = false -> valid_tree t = false.
  Proof. exact (reject_anywhere_in_tree ident_ok gname_ok end_name sub any_id). Qed.

  (* ---- the type judgement: a fixed point of the documented rule table, for expressions of any depth ---- *)
  Theorem C19_compat_rules : forall i r, compat i r = compat_step sub any_id compat i r.
  Proof. exact (compat_unfold sub any_id). Qed.

  Theorem C19_compat_identity : forall t, compat t t = true.
  Proof. exact (compat_refl sub any_id). Qed.

  Theorem C19_compat_any : forall i, compat i TAny = true.
  Proof. exact (compat_any_required sub any_id). Qed.

  Theorem C19_compat_union_incoming : forall xs r, plain r = true -> compat (TUnion xs) r = forallb (fun x => compat x r) xs.
  Proof. exact (compat_union_incoming sub any_id). Qed.

  Theorem C19_compat_union_required : forall i ys, plain i = true -> compat i (TUnion ys) = existsb (compat i) ys.
  Proof. exact (compat_union_required sub any_id). Qed.

  Theorem C19_compat_union_both : forall xs ys,
    compat (TUnion xs) (TUnion ys) = ty_eqb (TUnion xs) (TUnion ys) || forallb (fun x => existsb (compat x) ys) xs.
  Proof. exact (compat_union_both sub any_id). Qed.

  Theorem C19_compat_generic : forall ci ai cr ar,
    compat (TCls ci ai) (TCls cr ar) =
    ty_eqb (TCls ci ai) (TCls cr ar) ||
    (sub ci cr && (is_nil ai || is_nil ar ||
                   (Nat.eqb (length ai) (length ar) && forallb (fun p => compat (fst p) (snd p)) (combine ai ar)))).
  Proof. exact (compat_generic sub any_id). Qed.

  Theorem C19_compat_subclass : forall ci cr, compat (TCls ci []) (TCls cr []) = Pos.eqb ci cr || sub ci cr.
  Proof. exact (compat_classes sub any_id). Qed.

  Theorem C19_compat_annotated : forall t m r, plain r = true -> compat (TAnnot t m) r = compat t r.
  Proof. exact (compat_annotated_incoming sub any_id). Qed.

  Theorem C19_compat_typevar : forall i v cs b, plain i = true ->
    compat i (TVar v cs b) =
    match cs, b with
    | [], None => true
    | _, _ => (negb (is_nil cs) && existsb (compat i) cs) || match b with Some t => compat i t | None => false end
    end.
  Proof. exact (compat_typevar_required sub any_id). Qed.
End C19.

Print Assumptions C19_valid_iff_wellformed.
Print Assumptions C19_paths_decided.
Print Assumptions C19_unknown_gate_target.
Print Assumptions C19_unordered_producers.
Print Assumptions C19_duplicate_node_name.
Print Assumptions C19_illegal_node_name.
Print Assumptions C19_illegal_output_name.
Print Assumptions C19_illegal_graph_name.
Print Assumptions C19_inconsistent_defaults.
Print Assumptions C19_wait_for_unknown.
Print Assumptions C19_illegal_graphnode_name.
Print Assumptions C19_repeated_output_in_node.
Print Assumptions C19_wait_for_own_output.
Print Assumptions C19_bad_explicit_edge.
Print Assumptions C19_type_flaw.
Print Assumptions C19_type_flaw_explicit.
Print Assumptions C19_flaw_inside_nested.
Print Assumptions C19_compat_rules.
Print Assumptions C19_compat_identity.
Print Assumptions C19_compat_any.
Print Assumptions C19_compat_union_incoming.
Print Assumptions C19_compat_union_required.
Print Assumptions C19_compat_union_both.
Print Assumptions C19_compat_generic.
Print Assumptions C19_compat_subclass.
Print Assumptions C19_compat_annotated.
Print Assumptions C19_compat_typevar.

(* ---- non-vacuity: a graph with two exclusive producers of one name is well formed; the same graph with an unknown
        third target is rejected; before the fix that graph escaped the configuration error altogether ---- *)
Definition ex_ok (x : name) : bool := true.
Definition ex_sub (a b : positive) : bool := Pos.eqb a b.
Definition ex_int : ty := TCls 1 [].
Definition ex_nodes (tg : list name) : list vnode :=
  [ mk_vnode 1 VKFunc [10] [11] [] [] [] false [(10, [Some ex_int])] [(11, [Some ex_int])];
    mk_vnode 2 (VKRoute false) [11] [] [] tg [] false [(11, [Some ex_int])] [];
    mk_vnode 3 VKFunc [11] [12] [] [] [] false [(11, [Some ex_int])] [(12, [Some ex_int])];
    mk_vnode 4 VKFunc [11] [12] [] [] [] false [(11, [Some ex_int])] [(12, [Some ex_int])];
    mk_vnode 5 VKFunc [12] [13] [] [] [] false [(12, [Some ex_int])] [(13, [Some ex_int])] ]%positive.
Definition ex_graph (tg : list name) : vgraph := mk_vgraph (ex_nodes tg) None None true.

Example C19_example_wellformed : WF ex_ok ex_ok 99%positive ex_sub 50%positive (ex_graph [3; 4]%positive).
Proof.
  apply valid_spec; [|vm_compute; reflexivity].
  intros n Hn. simpl in Hn. repeat (destruct Hn as [<-|Hn]; [simpl; repeat constructor; simpl; intuition congruence|]). destruct Hn.
Qed.

Example C19_example_flaw_rejected : valid ex_ok ex_ok 99%positive ex_sub 50%positive (ex_graph [3; 4; 77]%positive) = false.
Proof. vm_compute. reflexivity. Qed.

Example C19_legacy_unknown_target_refuted :
  legacy_construct ex_ok ex_ok 99%positive ex_sub 50%positive (ex_graph [3; 4; 77]%positive) = RawError.
Proof. vm_compute. reflexivity. Qed.

(* ---- strict_types on an edge that crosses nested-graph boundaries (nodes/graph_node.py get_input_types /
        get_output_types, graph/validation.py _validate_edge_types) ---- *)
From HG Require Import BoundaryTypes BoundaryTypesProofs BoundaryTypesExample.
From Coq Require Import Permutation.

(* the edge check passes iff EVERY offered (producer type, consumer type) pair is annotated and compatible *)
Theorem C19_boundary_every_pair list_id sub any_id src dst v :
  edge_ok list_id sub any_id src dst v = true <->
  forall a b, In a (out_types list_id src v) -> In b (in_types list_id dst v) ->
              exists x y, a = Some x /\ b = Some y /\ compat sub any_id x y = true.
Proof. exact (edge_ok_spec list_id sub any_id src dst v). Qed.
Print Assumptions C19_boundary_every_pair.

(* a nested graph offers one type per inner LEAF consumer (producer) of the value, to any depth, wrapped in list[] once
   per mapping level: no inner node is skipped *)
Theorem C19_boundary_all_consumers list_id t p :
  wf_in t p -> in_types list_id t p = map (unwrapped list_id) (leaf_consumers t p).
Proof. exact (in_types_leaves list_id t p). Qed.
Print Assumptions C19_boundary_all_consumers.

Theorem C19_boundary_all_producers list_id t o :
  wf_out t o -> out_types list_id t o = map (unwrapped_out list_id) (leaf_producers t o).
Proof. exact (out_types_leaves list_id t o). Qed.
Print Assumptions C19_boundary_all_producers.

Theorem C19_boundary_leaf_pairs list_id sub any_id src dst v :
  wf_out src v -> wf_in dst v ->
  (edge_ok list_id sub any_id src dst v = true <->
   forall e f, In e (leaf_producers src v) -> In f (leaf_consumers dst v) ->
               exists x y, unwrapped_out list_id e = Some x /\ unwrapped list_id f = Some y /\ compat sub any_id x y = true).
Proof. exact (edge_ok_leaves list_id sub any_id src dst v). Qed.
Print Assumptions C19_boundary_leaf_pairs.

(* the verdict does not depend on the order in which the inner nodes are listed *)
Theorem C19_boundary_consumer_order list_id sub any_id src nm ins outs ch ch' iren oren mo v :
  Permutation ch ch' ->
  edge_ok list_id sub any_id src (TGraph nm ins outs ch iren oren mo) v =
  edge_ok list_id sub any_id src (TGraph nm ins outs ch' iren oren mo) v.
Proof. exact (edge_ok_perm_consumer list_id sub any_id src nm ins outs ch ch' iren oren mo v). Qed.
Print Assumptions C19_boundary_consumer_order.

Theorem C19_boundary_producer_order list_id sub any_id dst nm ins outs ch ch' iren oren mo v :
  Permutation ch ch' ->
  edge_ok list_id sub any_id (TGraph nm ins outs ch iren oren mo) dst v =
  edge_ok list_id sub any_id (TGraph nm ins outs ch' iren oren mo) dst v.
Proof. exact (edge_ok_perm_producer list_id sub any_id dst nm ins outs ch ch' iren oren mo v). Qed.
Print Assumptions C19_boundary_producer_order.

Theorem C19_boundary_example :
  edge_ok c_list sub0 c_any prod (inner [cons_int; cons_str]) 20%positive = false /\
  edge_ok c_list sub0 c_any prod (inner [cons_str; cons_int]) 20%positive = false.
Proof. exact both_orders_rejected. Qed.
Print Assumptions C19_boundary_example.
